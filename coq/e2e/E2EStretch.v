(* Proofs for the stretch theorems of E2E.v:
     - the pipeline after ANY history of stripe / stripe_into / configure / configure_wrap calls
       on one reused buffer (C04's history theorem), with the scanner's hits tied to the full
       binary32 score vector of C01 (C01History.C01_history_scan);
     - scanning the reverse complement (C10). *)
From Coq Require Import List Arith Bool Lia ZArith.
From Coq.Strings Require Import Byte.
From LMBase Require Import Res ListX IEEE.
From LMStripe Require StripeModel StripeSpec NetModel StripeAvx2 C04.
From LMScore Require ScoreModel ScoreProofs StripeBridge C01 C01History.
From LMPwm Require GenComplement PwmModel PwmProofs C10.
From LMScan Require Import ScanModel ScanConcrete ConcreteProofs.
From LMScan Require DiscBridge.
From LME2E Require Import E2EBridgeStripe E2EBridgeScore E2EPipeline E2EProofs.
Import ListNotations.

Module PM := LMPwm.PwmModel.
Module GC := LMPwm.GenComplement.

(* ---------- on a buffer: scan + max, as e2e_scan_buffer / e2e_max_buffer ---------- *)

Section Buffer.
  Variables (K C : nat) (pssm : list (list F32.t)) (sq : list nat) (st : SM.sseq).
  Hypothesis HS : SS.Striped K C sq st.
  Hypothesis Hwrap : length pssm - 1 <= SM.swrap st.
  Hypothesis HK : 2 <= K.
  Hypothesis HC : 1 <= C.
  Hypothesis HM : 1 <= length pssm.
  Hypothesis Hrows : Forall (fun row : list F32.t => length row = K) pssm.
  Hypothesis Hsym : Forall (fun x => x < K) sq.
  Hypothesis Hfin : LMScan.DiscBridge.finite_nonwild K pssm.
  Hypothesis Hmain : c08_main_clause K pssm.

  Lemma scan_buffer_spec (am : arm) (thr : F32.t) (B : nat) : 1 <= B ->
    exists H,
      e2e_scan_buffer K C pssm st am thr B = Ok H /\
      (forall i x, In (i, x) H <->
         i + length pssm <= length sq /\
         F32.ge (SCO.score_def F32.add F32.zero (K - 1) pssm sq i) thr = true /\
         x = SCO.score_def F32.add F32.zero (K - 1) pssm sq i) /\
      NoDup (map fst H).
  Proof.
    intros HB.
    destruct (buffer_scan K C pssm sq st HS Hwrap HK HC HM Hrows Hsym Hfin Hmain am thr B HB)
      as (v & H & Hv & Hc & Hin & Hnd).
    exists H. split; [|split; [exact Hin|exact Hnd]].
    unfold e2e_scan_buffer. rewrite Hv. exact Hc.
  Qed.

  Lemma max_buffer_spec (am : arm) (thr : F32.t) (B : nat) : 1 <= B ->
    exists r,
      e2e_max_buffer K C pssm st am thr B = Ok r /\
      (r = None <-> forall i, i + length pssm <= length sq ->
                      F32.ge (SCO.score_def F32.add F32.zero (K - 1) pssm sq i) thr = false) /\
      (forall q x, r = Some (q, x) ->
         q + length pssm <= length sq /\
         x = SCO.score_def F32.add F32.zero (K - 1) pssm sq q /\
         F32.ge x thr = true /\
         (forall i, i + length pssm <= length sq ->
                    F32.is_nan (SCO.score_def F32.add F32.zero (K - 1) pssm sq i) = false ->
                    F32.ge x (SCO.score_def F32.add F32.zero (K - 1) pssm sq i) = true)).
  Proof.
    intros HB.
    destruct (buffer_take_max K C pssm sq st HS Hwrap HK HC HM Hrows Hsym Hfin Hmain am thr B 0 HB)
      as (v & Y & r & Hv & Ht & Hr).
    destruct (take_max_zero v am thr B Y r Ht) as (HY & Hmx). subst Y.
    exists r. split.
    { unfold e2e_max_buffer. rewrite Hv. exact Hmx. }
    destruct r as [[q x]|].
    - destruct Hr as ((A1 & A2 & _) & Hx & A3 & _). split.
      + split; [discriminate|]. intros Hn. rewrite (Hn q A1) in A2. discriminate.
      + intros q' x' E. inversion E; subst q' x'. split; [exact A1|]. split; [exact Hx|].
        split; [rewrite Hx; exact A2|]. intros i Hi Hnan. apply A3; auto.
    - split.
      + split; [|reflexivity]. intros _ i Hi.
        destruct (F32.ge (SCO.score_def F32.add F32.zero (K - 1) pssm sq i) thr) eqn:Eg; auto.
        destruct (Hr i Hi Eg).
      + intros q x E. discriminate.
  Qed.
End Buffer.

(* ---------- after any history ---------- *)

Lemma history_scan (K C : nat) (ops : list SA.op) (n : nat) (pssm : list (list F32.t))
      (am : arm) (thr : F32.t) (B : nat) :
  let pre := firstn n ops in
  let sq := SA.last_seq [] pre in
  2 <= K -> 1 <= C -> forallb (SA.op_typed C) ops = true ->
  Forall (fun x => x < K) sq ->
  1 <= length pssm -> length pssm - 1 <= SA.wrap_after 0 pre ->
  Forall (fun row : list F32.t => length row = K) pssm ->
  LMScan.DiscBridge.finite_nonwild K pssm -> c08_main_clause K pssm -> 1 <= B ->
  exists st H r,
    SA.run K C SM.s_default pre = Ok st /\
    e2e_scan_history K C pre pssm am thr B = Ok H /\
    (forall i x, In (i, x) H <->
       i + length pssm <= length sq /\
       F32.ge (SCO.score_def F32.add F32.zero (K - 1) pssm sq i) thr = true /\
       x = SCO.score_def F32.add F32.zero (K - 1) pssm sq i) /\
    NoDup (map fst H) /\
    (* the hits are the entries >= thr of the full binary32 score vector (C01, generic pipeline
       on the same buffer) *)
    rbind (SCO.generic_score F32.add F32.zero C pssm (LMScore.StripeBridge.of_stripe st)) (SCO.sc_unstripe C) =
      Ok (map (SCO.score_def F32.add F32.zero (K - 1) pssm sq) (seq 0 (length sq + 1 - length pssm))) /\
    (* and max() on that buffer *)
    e2e_max_history K C pre pssm am thr B = Ok r /\
    (r = None <-> forall i, i + length pssm <= length sq ->
                    F32.ge (SCO.score_def F32.add F32.zero (K - 1) pssm sq i) thr = false) /\
    (forall q x, r = Some (q, x) ->
       q + length pssm <= length sq /\
       x = SCO.score_def F32.add F32.zero (K - 1) pssm sq q /\
       F32.ge x thr = true /\
       (forall i, i + length pssm <= length sq ->
                  F32.is_nan (SCO.score_def F32.add F32.zero (K - 1) pssm sq i) = false ->
                  F32.ge x (SCO.score_def F32.add F32.zero (K - 1) pssm sq i) = true)).
Proof.
  intros pre sq HK HC Ht Hsym HM Hw Hrows Hfin Hmain HB.
  destruct (LMStripe.C04.C04_history_from_default K C ops n HC Ht) as (st & Hrun & HS & Hsw).
  fold pre in Hrun, HS, Hsw. fold sq in HS.
  assert (Hwrap : length pssm - 1 <= SM.swrap st) by (rewrite Hsw; exact Hw).
  destruct (scan_buffer_spec K C pssm sq st HS Hwrap HK HC HM Hrows Hsym Hfin Hmain am thr B HB)
    as (H & Hs & Hin & Hnd).
  destruct (max_buffer_spec K C pssm sq st HS Hwrap HK HC HM Hrows Hsym Hfin Hmain am thr B HB)
    as (r & Hmx & Hnone & Hsome).
  exists st, H, r. split; [exact Hrun|]. split.
  { unfold e2e_scan_history. rewrite Hrun. exact Hs. }
  split; [exact Hin|]. split; [exact Hnd|]. split.
  { apply (LMScore.C01.C01_score_unstripe F32.t F32.add F32.zero C K pssm sq (LMScore.StripeBridge.of_stripe st));
      auto; try lia.
    apply LMScore.StripeBridge.striped_bridge. exact HS. }
  split.
  { unfold e2e_max_history. rewrite Hrun. exact Hmx. }
  split; [exact Hnone|exact Hsome].
Qed.

(* ---------- from symbols (no encoder) ---------- *)

Lemma syms_to_hits (K C : nat) (be : SA.backend) (old : SM.sseq) (sq : list nat)
      (pssm : list (list F32.t)) (am : arm) (thr : F32.t) (B : nat) :
  2 <= K -> 1 <= C -> SA.backend_typed C be = true -> SS.wf_matrix C (SM.mat old) ->
  Forall (fun x => x < K) sq ->
  1 <= length pssm -> Forall (fun row : list F32.t => length row = K) pssm ->
  LMScan.DiscBridge.finite_nonwild K pssm -> c08_main_clause K pssm -> 1 <= B ->
  exists H,
    e2e_scan_syms K C be old sq pssm am thr B = Ok H /\
    (forall i x, In (i, x) H <->
       i + length pssm <= length sq /\
       F32.ge (SCO.score_def F32.add F32.zero (K - 1) pssm sq i) thr = true /\
       x = SCO.score_def F32.add F32.zero (K - 1) pssm sq i) /\
    NoDup (map fst H).
Proof.
  intros HK HC Hb Hwf Hsym HM Hrows Hfin Hmain HB.
  unfold e2e_scan_syms.
  rewrite (LMStripe.C04.C04_stripe_backend_independent K C be sq old HC Hb Hwf).
  destruct (LMStripe.C04.C04_stripe_generic_spec K C sq old HC Hwf) as (st0 & E0 & HS0 & Hw0).
  rewrite E0. cbn [rbind].
  destruct (LMStripe.C04.C04_configure_spec K C sq st0 (length pssm) HC HS0) as (st & E & HS & Hw).
  rewrite E. cbn [rbind].
  apply (scan_buffer_spec K C pssm sq st HS); auto.
  rewrite Hw, Hw0. destruct (Nat.eqb_spec (length pssm) 0); lia.
Qed.

(* ---------- reverse complement ---------- *)

(* pwm's window terms are C01's score terms (windows inside the sequence) *)
Lemma window_terms_score_terms (N : nat) (s : list nat) (i : nat) :
  forall (m : list (list F32.t)) (j : nat),
    i + j + length m <= length s ->
    SCO.terms_from F32.zero j m (fun j => nth (i + j) s N) =
    PM.map2 (fun row x => nth x row F32.zero) m (skipn (i + j) s).
Proof.
  induction m as [|row rest IH]; intros j Hb; simpl; [reflexivity|].
  simpl in Hb.
  assert (E : skipn (i + j) s = nth (i + j) s N :: skipn (S (i + j)) s).
  { clear IH. revert s Hb. generalize (i + j) as k. induction k as [|k IHk]; intros s Hb.
    - destruct s; simpl in *; [lia|reflexivity].
    - destruct s; simpl in *; [lia|]. apply IHk. lia. }
  rewrite E. cbn [PM.map2]. f_equal.
  replace (S (i + j)) with (i + S j) by lia. apply IH. lia.
Qed.

Lemma score_terms_window (N : nat) (m : list (list F32.t)) (s : list nat) (i : nat) :
  i + length m <= length s ->
  SCO.score_terms F32.zero N m s i = PM.window_terms PM.F32ops m s i.
Proof.
  intros Hb. unfold SCO.score_terms, PM.window_terms. cbn [PM.F32ops PM.n_zero].
  rewrite (window_terms_score_terms N s i m 0) by lia. now rewrite Nat.add_0_r.
Qed.

(* the cells summed by the reverse-complemented matrix at a position of the reverse-
   complemented sequence are those of the mirrored position, in the opposite order (C10) *)
Lemma rc_score_def (m : list (list F32.t)) (s : list nat) (i : nat) :
  Forall (fun x => x < GC.dna_K) s -> i + length m <= length s ->
  SCO.score_def F32.add F32.zero (GC.dna_K - 1) (LMPwm.C10.dna_rc F32.zero m)
                (PM.rc_seq GC.dna_comp s) (length s - length m - i)
  = fold_left F32.add (rev (SCO.score_terms F32.zero (GC.dna_K - 1) m s i)) F32.zero.
Proof.
  intros Hs Hi. unfold SCO.score_def.
  destruct (LMPwm.C10.C10_revcomp_is_reversal_and_complement F32.t F32.zero m) as (_ & Hlen & _).
  assert (Hl : length (PM.rc_seq GC.dna_comp s) = length s)
    by (unfold PM.rc_seq; now rewrite map_length, rev_length).
  rewrite score_terms_window by (rewrite Hlen, Hl; lia).
  rewrite score_terms_window by exact Hi.
  f_equal. exact (LMPwm.C10.C10_revcomp_mirror_terms F32.t PM.F32ops m s i Hs Hi).
Qed.

Lemma dna_comp_lt4 k : k < 4 -> GC.dna_comp k < 4.
Proof. intros H. do 4 (destruct k as [|k]; [cbn; lia|]). lia. Qed.

Lemma rc_seq_syms (s : list nat) :
  Forall (fun x => x < GC.dna_K) s -> Forall (fun x => x < GC.dna_K) (PM.rc_seq GC.dna_comp s).
Proof.
  intros H. unfold PM.rc_seq. apply Forall_map. apply Forall_rev.
  eapply Forall_impl; [|exact H]. intros k Hk.
  exact (proj2 (LMPwm.C10.C10_complement_involutive k Hk)).
Qed.

Lemma rc_rows (m : list (list F32.t)) :
  Forall (fun row : list F32.t => length row = GC.dna_K) (LMPwm.C10.dna_rc F32.zero m).
Proof.
  destruct (LMPwm.C10.C10_revcomp_is_reversal_and_complement F32.t F32.zero m) as (E & _).
  rewrite E. unfold LMPwm.C10.dna_rc_spec, PM.rc_spec. apply Forall_map. apply Forall_forall.
  intros row _. unfold PM.rc_row_spec. now rewrite map_length, seq_length.
Qed.

Lemma rc_finite (m : list (list F32.t)) :
  Forall (fun row : list F32.t => length row = GC.dna_K) m ->
  LMScan.DiscBridge.finite_nonwild GC.dna_K m ->
  LMScan.DiscBridge.finite_nonwild GC.dna_K (LMPwm.C10.dna_rc F32.zero m).
Proof.
  intros Hrows Hfin.
  destruct (LMPwm.C10.C10_revcomp_is_reversal_and_complement F32.t F32.zero m) as (E & _).
  rewrite E. unfold LMScan.DiscBridge.finite_nonwild, LMPwm.C10.dna_rc_spec, PM.rc_spec in *.
  apply Forall_map. apply Forall_rev.
  rewrite Forall_forall in Hrows, Hfin. apply Forall_forall. intros row Hin.
  specialize (Hrows row Hin). specialize (Hfin row Hin).
  destruct row as [|a [|b [|c [|d [|e [|f rest]]]]]]; cbn in Hrows; try discriminate.
  unfold LMDisc.DiscModel.nonwild in *. cbn in Hfin |- *.
  inversion Hfin as [|? ? Ha H1]; subst. inversion H1 as [|? ? Hb H2]; subst.
  inversion H2 as [|? ? Hc H3]; subst. inversion H3 as [|? ? Hd H4]; subst.
  repeat constructor; assumption.
Qed.

(* scanning the reverse-complemented matrix over the reverse-complemented sequence: the hit at
   position i' carries the cells of the mirrored window L-M-i' of the original pair, added in
   the opposite order *)
Lemma revcomp_scan (C : nat) (be : SA.backend) (old : SM.sseq) (sq : list nat)
      (pssm : list (list F32.t)) (am : arm) (thr : F32.t) (B : nat) :
  1 <= C -> SA.backend_typed C be = true -> SS.wf_matrix C (SM.mat old) ->
  Forall (fun x => x < GC.dna_K) sq ->
  1 <= length pssm -> Forall (fun row : list F32.t => length row = GC.dna_K) pssm ->
  LMScan.DiscBridge.finite_nonwild GC.dna_K pssm ->
  c08_main_clause GC.dna_K (LMPwm.C10.dna_rc F32.zero pssm) -> 1 <= B ->
  exists H',
    e2e_scan_syms GC.dna_K C be old (PM.rc_seq GC.dna_comp sq) (LMPwm.C10.dna_rc F32.zero pssm) am thr B = Ok H' /\
    (forall i' x, In (i', x) H' <->
       i' + length pssm <= length sq /\
       F32.ge (fold_left F32.add (rev (SCO.score_terms F32.zero (GC.dna_K - 1) pssm sq
                                         (length sq - length pssm - i'))) F32.zero) thr = true /\
       x = fold_left F32.add (rev (SCO.score_terms F32.zero (GC.dna_K - 1) pssm sq
                                     (length sq - length pssm - i'))) F32.zero) /\
    NoDup (map fst H').
Proof.
  intros HC Hb Hwf Hsym HM Hrows Hfin Hmain HB.
  destruct (LMPwm.C10.C10_revcomp_is_reversal_and_complement F32.t F32.zero pssm) as (_ & Hlen & _).
  assert (Hl : length (PM.rc_seq GC.dna_comp sq) = length sq)
    by (unfold PM.rc_seq; now rewrite map_length, rev_length).
  assert (HK2 : 2 <= GC.dna_K) by (unfold GC.dna_K; lia).
  assert (HMrc : 1 <= length (LMPwm.C10.dna_rc F32.zero pssm)) by (rewrite Hlen; exact HM).
  destruct (syms_to_hits GC.dna_K C be old (PM.rc_seq GC.dna_comp sq) (LMPwm.C10.dna_rc F32.zero pssm) am thr B
              HK2 HC Hb Hwf (rc_seq_syms sq Hsym) HMrc (rc_rows pssm) (rc_finite pssm Hrows Hfin) Hmain HB)
    as (H' & Hs & Hin & Hnd).
  exists H'. split; [exact Hs|]. split; [|exact Hnd].
  intros i' x. rewrite Hin, Hlen, Hl. split.
  - intros (Hi & Hg & Hx).
    assert (Hi2 : (length sq - length pssm - i') + length pssm <= length sq) by lia.
    pose proof (rc_score_def pssm sq (length sq - length pssm - i') Hsym Hi2) as E.
    replace (length sq - length pssm - (length sq - length pssm - i')) with i' in E by lia.
    rewrite E in Hg, Hx. auto.
  - intros (Hi & Hg & Hx).
    assert (Hi2 : (length sq - length pssm - i') + length pssm <= length sq) by lia.
    pose proof (rc_score_def pssm sq (length sq - length pssm - i') Hsym Hi2) as E.
    replace (length sq - length pssm - (length sq - length pssm - i')) with i' in E by lia.
    rewrite E. auto.
Qed.

(* mirrored hits, when the binary32 window sums do not depend on the order of addition *)
Lemma revcomp_mirror (C : nat) (be : SA.backend) (old : SM.sseq) (sq : list nat)
      (pssm : list (list F32.t)) (am : arm) (thr : F32.t) (B : nat) :
  1 <= C -> SA.backend_typed C be = true -> SS.wf_matrix C (SM.mat old) ->
  Forall (fun x => x < GC.dna_K) sq ->
  1 <= length pssm -> Forall (fun row : list F32.t => length row = GC.dna_K) pssm ->
  LMScan.DiscBridge.finite_nonwild GC.dna_K pssm ->
  c08_main_clause GC.dna_K pssm ->
  c08_main_clause GC.dna_K (LMPwm.C10.dna_rc F32.zero pssm) -> 1 <= B ->
  (forall i, i + length pssm <= length sq ->
     fold_left F32.add (rev (SCO.score_terms F32.zero (GC.dna_K - 1) pssm sq i)) F32.zero =
     SCO.score_def F32.add F32.zero (GC.dna_K - 1) pssm sq i) ->
  exists H H',
    e2e_scan_syms GC.dna_K C be old sq pssm am thr B = Ok H /\
    e2e_scan_syms GC.dna_K C be old (PM.rc_seq GC.dna_comp sq) (LMPwm.C10.dna_rc F32.zero pssm) am thr B = Ok H' /\
    forall i x, i + length pssm <= length sq ->
      (In (i, x) H <-> In (length sq - length pssm - i, x) H').
Proof.
  intros HC Hb Hwf Hsym HM Hrows Hfin Hmain Hmain' HB Hord.
  assert (HK2 : 2 <= GC.dna_K) by (unfold GC.dna_K; lia).
  destruct (syms_to_hits GC.dna_K C be old sq pssm am thr B HK2 HC Hb Hwf Hsym HM Hrows Hfin Hmain HB)
    as (H & Hs & Hin & _).
  destruct (revcomp_scan C be old sq pssm am thr B HC Hb Hwf Hsym HM Hrows Hfin Hmain' HB)
    as (H' & Hs' & Hin' & _).
  exists H, H'. split; [exact Hs|]. split; [exact Hs'|].
  intros i x Hi. rewrite Hin, Hin'.
  replace (length sq - length pssm - (length sq - length pssm - i)) with i by lia.
  rewrite (Hord i Hi). split.
  - intros (_ & Hg & Hx). split; [lia|auto].
  - intros (_ & Hg & Hx). auto.
Qed.

(* ---------- reverse complement of a TEXT ---------- *)

From LMEncode Require EncodeModel GenAbc EncodeInst EncodeProofs C05.
From LME2E Require Import E2EBridgeEncode.

(* A<->T, C<->G on the upper-case letters, everything else unchanged *)
Definition comp_byte (b : byte) : byte :=
  match b with
  | x41 => x54 | x54 => x41 | x43 => x47 | x47 => x43
  | b' => b'
  end.

Definition text_rc (t : list byte) : list byte := map comp_byte (rev t).

Lemma dna_str_bytes : EM.a_str GA.dna = [x41; x43; x54; x47; x4e].
Proof. reflexivity. Qed.

Lemma comp_byte_in_abc (b : byte) :
  LMEncode.EncodeProofs.in_abc GA.dna b -> LMEncode.EncodeProofs.in_abc GA.dna (comp_byte b).
Proof.
  unfold LMEncode.EncodeProofs.in_abc. rewrite dna_str_bytes. simpl.
  intros [<-|[<-|[<-|[<-|[<-|[]]]]]]; simpl; tauto.
Qed.

(* the complement table of coq/pwm (GenComplement, from abc.rs) is the byte complement read
   through the alphabet string of coq/encode (GenAbc, from abc.rs) *)
Lemma comp_table_consistent (x x' : nat) (b : byte) :
  nth_error (EM.a_str GA.dna) x = Some b -> nth_error (EM.a_str GA.dna) x' = Some (comp_byte b) ->
  x' = GC.dna_comp x.
Proof.
  rewrite dna_str_bytes. intros H H'.
  do 5 (destruct x as [|x]; [inversion H; subst b; simpl in H';
          do 5 (destruct x' as [|x']; [first [reflexivity|discriminate H']|]); destruct x'; discriminate H'|]).
  destruct x; discriminate H.
Qed.

(* encoding the reverse-complemented text gives the reverse complement of the symbols *)
Lemma encode_text_rc (p p' : EI.pipeline) (junk junk' : nat -> EM.sym) (t : list byte) (sq : list nat) :
  encode_nat p GA.dna junk t = Ok sq ->
  encode_nat p' GA.dna junk' (text_rc t) = Ok (PM.rc_seq GC.dna_comp sq).
Proof.
  intros Henc.
  assert (HA : GA.dna = GA.dna \/ GA.dna = GA.protein) by now left.
  destruct (encode_nat_ok GA.dna p junk t sq HA Henc) as (Hlen & Hsym & Hnth & _).
  assert (Hacc : Forall (LMEncode.EncodeProofs.in_abc GA.dna) t).
  { apply (encode_nat_accepts GA.dna p junk t (abc_ok_of GA.dna HA)). eauto. }
  assert (Hacc' : Forall (LMEncode.EncodeProofs.in_abc GA.dna) (text_rc t)).
  { unfold text_rc. apply Forall_map. apply Forall_rev. eapply Forall_impl; [|exact Hacc].
    intros b. apply comp_byte_in_abc. }
  destruct (proj2 (encode_nat_accepts GA.dna p' junk' (text_rc t) (abc_ok_of GA.dna HA)) Hacc') as (sq' & Henc').
  rewrite Henc'. f_equal.
  destruct (encode_nat_ok GA.dna p' junk' (text_rc t) sq' HA Henc') as (Hlen' & _ & Hnth' & _).
  assert (Hl : length (text_rc t) = length t) by (unfold text_rc; now rewrite map_length, rev_length).
  apply (nth_ext sq' (PM.rc_seq GC.dna_comp sq) 0 0).
  - unfold PM.rc_seq. rewrite map_length, rev_length. lia.
  - intros i Hi. rewrite Hlen', Hl in Hi.
    assert (Hb : nth_error (text_rc t) i = Some (comp_byte (nth (length t - S i) t x00))).
    { unfold text_rc. rewrite nth_error_map.
      rewrite (nth_error_nth' (rev t) x00) by (rewrite rev_length; exact Hi).
      rewrite rev_nth by exact Hi. reflexivity. }
    destruct (Hnth' i _ Hb) as (x' & Hx' & Hs').
    assert (Hb0 : nth_error t (length t - S i) = Some (nth (length t - S i) t x00))
      by (apply nth_error_nth'; lia).
    destruct (Hnth (length t - S i) _ Hb0) as (x & Hx & Hs).
    rewrite (nth_error_nth sq' i 0 Hx').
    unfold PM.rc_seq.
    rewrite (nth_indep _ 0 (GC.dna_comp 0)) by (rewrite map_length, rev_length; lia).
    rewrite map_nth, rev_nth by lia. rewrite Hlen.
    rewrite (nth_error_nth sq (length t - S i) 0 Hx).
    exact (comp_table_consistent x x' _ Hs Hs').
Qed.

(* the text pipeline on the reverse-complemented text and matrix *)
Lemma revcomp_scan_text (C : nat) (p p' : EI.pipeline) (junk junk' : nat -> EM.sym) (text : list byte)
      (be : SA.backend) (old : SM.sseq) (pssm : list (list F32.t)) (am : arm) (thr : F32.t) (B : nat) :
  1 <= C -> SA.backend_typed C be = true -> SS.wf_matrix C (SM.mat old) ->
  Forall (LMEncode.EncodeProofs.in_abc GA.dna) text ->
  1 <= length pssm -> Forall (fun row : list F32.t => length row = GC.dna_K) pssm ->
  LMScan.DiscBridge.finite_nonwild GC.dna_K pssm ->
  c08_main_clause GC.dna_K (LMPwm.C10.dna_rc F32.zero pssm) -> 1 <= B ->
  exists sq H',
    encode_nat p GA.dna junk text = Ok sq /\ length sq = length text /\
    encode_nat p' GA.dna junk' (text_rc text) = Ok (PM.rc_seq GC.dna_comp sq) /\
    e2e_scan GA.dna C p' junk' (text_rc text) be old (LMPwm.C10.dna_rc F32.zero pssm) am thr B = Ok H' /\
    (forall i' x, In (i', x) H' <->
       i' + length pssm <= length sq /\
       F32.ge (fold_left F32.add (rev (SCO.score_terms F32.zero (GC.dna_K - 1) pssm sq
                                         (length sq - length pssm - i'))) F32.zero) thr = true /\
       x = fold_left F32.add (rev (SCO.score_terms F32.zero (GC.dna_K - 1) pssm sq
                                     (length sq - length pssm - i'))) F32.zero) /\
    NoDup (map fst H').
Proof.
  intros HC Hb Hwf Htext HM Hrows Hfin Hmain HB.
  assert (HA : GA.dna = GA.dna \/ GA.dna = GA.protein) by now left.
  destruct (proj2 (encode_nat_accepts GA.dna p junk text (abc_ok_of GA.dna HA)) Htext) as (sq & Henc).
  destruct (encode_nat_ok GA.dna p junk text sq HA Henc) as (Hlen & Hsym & _ & _).
  pose proof (encode_text_rc p p' junk junk' text sq Henc) as Henc'.
  destruct (LMPwm.C10.C10_revcomp_is_reversal_and_complement F32.t F32.zero pssm) as (_ & Hlenm & _).
  assert (Hl : length (PM.rc_seq GC.dna_comp sq) = length sq)
    by (unfold PM.rc_seq; now rewrite map_length, rev_length).
  assert (Hacc' : Forall (LMEncode.EncodeProofs.in_abc GA.dna) (text_rc text)).
  { apply (encode_nat_accepts GA.dna p' junk' (text_rc text) (abc_ok_of GA.dna HA)). eauto. }
  assert (HMrc : 1 <= length (LMPwm.C10.dna_rc F32.zero pssm)) by (rewrite Hlenm; exact HM).
  destruct (text_to_hits GA.dna C p' junk' (text_rc text) be old (LMPwm.C10.dna_rc F32.zero pssm)
              HA HC Hb Hwf Hacc' HMrc (rc_rows pssm) (rc_finite pssm Hrows Hfin) Hmain am thr B HB)
    as (sq' & H' & He' & _ & _ & Hs & Hin & Hnd).
  rewrite Henc' in He'. inversion He'; subst sq'.
  exists sq, H'. split; [exact Henc|]. split; [exact Hlen|]. split; [exact Henc'|]. split; [exact Hs|].
  split; [|exact Hnd].
  change (EM.a_K GA.dna) with GC.dna_K in Hin, Hsym.
  intros i' x. rewrite Hin, Hlenm, Hl. split.
  - intros (Hi & Hg & Hx).
    assert (Hi2 : (length sq - length pssm - i') + length pssm <= length sq) by lia.
    pose proof (rc_score_def pssm sq (length sq - length pssm - i') Hsym Hi2) as E.
    replace (length sq - length pssm - (length sq - length pssm - i')) with i' in E by lia.
    rewrite E in Hg, Hx. auto.
  - intros (Hi & Hg & Hx).
    assert (Hi2 : (length sq - length pssm - i') + length pssm <= length sq) by lia.
    pose proof (rc_score_def pssm sq (length sq - length pssm - i') Hsym Hi2) as E.
    replace (length sq - length pssm - (length sq - length pssm - i')) with i' in E by lia.
    rewrite E. auto.
Qed.

Lemma revcomp_mirror_text (C : nat) (p p' : EI.pipeline) (junk junk' : nat -> EM.sym) (text : list byte)
      (be : SA.backend) (old : SM.sseq) (pssm : list (list F32.t)) (am : arm) (thr : F32.t) (B : nat) :
  1 <= C -> SA.backend_typed C be = true -> SS.wf_matrix C (SM.mat old) ->
  Forall (LMEncode.EncodeProofs.in_abc GA.dna) text ->
  1 <= length pssm -> Forall (fun row : list F32.t => length row = GC.dna_K) pssm ->
  LMScan.DiscBridge.finite_nonwild GC.dna_K pssm ->
  c08_main_clause GC.dna_K pssm ->
  c08_main_clause GC.dna_K (LMPwm.C10.dna_rc F32.zero pssm) -> 1 <= B ->
  exists sq H H',
    encode_nat p GA.dna junk text = Ok sq /\
    e2e_scan GA.dna C p junk text be old pssm am thr B = Ok H /\
    e2e_scan GA.dna C p' junk' (text_rc text) be old (LMPwm.C10.dna_rc F32.zero pssm) am thr B = Ok H' /\
    ((forall i, i + length pssm <= length sq ->
        fold_left F32.add (rev (SCO.score_terms F32.zero (GC.dna_K - 1) pssm sq i)) F32.zero =
        SCO.score_def F32.add F32.zero (GC.dna_K - 1) pssm sq i) ->
     forall i x, i + length pssm <= length sq ->
       (In (i, x) H <-> In (length sq - length pssm - i, x) H')).
Proof.
  intros HC Hb Hwf Htext HM Hrows Hfin Hmain Hmain' HB.
  assert (HA : GA.dna = GA.dna \/ GA.dna = GA.protein) by now left.
  destruct (revcomp_scan_text C p p' junk junk' text be old pssm am thr B HC Hb Hwf Htext HM Hrows Hfin Hmain' HB)
    as (sq & H' & Henc & _ & _ & Hs' & Hin' & _).
  destruct (text_to_hits GA.dna C p junk text be old pssm HA HC Hb Hwf Htext HM Hrows Hfin Hmain am thr B HB)
    as (sq0 & H & He0 & _ & _ & Hs & Hin & _).
  rewrite Henc in He0. inversion He0; subst sq0.
  exists sq, H, H'. split; [exact Henc|]. split; [exact Hs|]. split; [exact Hs'|].
  intros Hord i x Hi. change (EM.a_K GA.dna) with GC.dna_K in Hin. rewrite Hin, Hin'.
  replace (length sq - length pssm - (length sq - length pssm - i)) with i by lia.
  rewrite (Hord i Hi). split.
  - intros (_ & Hg & Hx). split; [lia|auto].
  - intros (_ & Hg & Hx). auto.
Qed.

(* ---------- Scanner = full binary32 scoring (any SIMD backend) + threshold ---------- *)

From LMScore Require SimdModel GenAvx2 GenLane4.

Lemma nth_error_map_seq {X} (f : nat -> X) (n i : nat) (x : X) :
  nth_error (map f (seq 0 n)) i = Some x <-> i < n /\ x = f i.
Proof.
  rewrite nth_error_map. split.
  - intros H. destruct (nth_error (seq 0 n) i) as [k|] eqn:E; [|discriminate].
    assert (Hi : i < n). { rewrite <- (seq_length n 0). apply nth_error_Some. congruence. }
    rewrite (nth_error_nth' (seq 0 n) 0) in E by (now rewrite seq_length).
    rewrite seq_nth in E by exact Hi. inversion E; subst k. simpl in H. inversion H. auto.
  - intros (Hi & ->). rewrite (nth_error_nth' (seq 0 n) 0) by (now rewrite seq_length).
    rewrite seq_nth by exact Hi. reflexivity.
Qed.

Lemma scanner_equals_scoring (K : nat) (ops : list SA.op) (pssm : list (list F32.t))
      (pads : nat -> list F32.t) (ar : LMScore.SimdModel.arm) (am : arm) (thr : F32.t) (B : nat) :
  let sq := SA.last_seq [] ops in
  2 <= K -> forallb (SA.op_typed 32) ops = true ->
  Forall (fun x => x < K) sq ->
  1 <= length pssm -> length pssm - 1 <= SA.wrap_after 0 ops -> length pssm <= length sq ->
  Forall (fun row : list F32.t => length row = K) pssm ->
  LMScan.DiscBridge.finite_nonwild K pssm -> c08_main_clause K pssm -> 1 <= B ->
  exists st sc scores H,
    SA.run K 32 SM.s_default ops = Ok st /\
    SCO.score_with
      (LMScore.SimdModel.dispatch_rows_into F32.add F32.zero LMScore.GenAvx2.dispatch_score_f32
         LMScore.GenAvx2.avx2_permute_consts LMScore.GenAvx2.avx2_gather_consts LMScore.GenLane4.sse2_consts
         K pssm pads ar) (LMScore.StripeBridge.of_stripe st) = Ok sc /\
    SCO.generic_score F32.add F32.zero 32 pssm (LMScore.StripeBridge.of_stripe st) = Ok sc /\
    SCO.sc_unstripe 32 sc = Ok scores /\
    e2e_scan_history K 32 ops pssm am thr B = Ok H /\
    (forall i x, In (i, x) H <-> nth_error scores i = Some x /\ F32.ge x thr = true) /\
    NoDup (map fst H).
Proof.
  intros sq HK Ht Hsym HM Hw HL Hrows Hfin Hmain HB.
  destruct (LMScore.C01History.C01_history_backends K ops pssm pads ar ltac:(lia) Ht Hsym Hrows HM Hw HL)
    as (st & sc & Hrun & Hgen & _ & _ & Hdisp & Hun).
  cbn [rbind] in Hun.
  pose proof (history_scan K 32 ops (length ops) pssm am thr B) as Hh. cbv zeta in Hh.
  rewrite firstn_all in Hh.
  destruct (Hh HK ltac:(lia) Ht Hsym HM Hw Hrows Hfin Hmain HB)
    as (st' & H & r & Hrun' & Hs & Hin & Hnd & _).
  exists st, sc, (map (SCO.score_def F32.add F32.zero (K - 1) pssm sq) (seq 0 (length sq + 1 - length pssm))), H.
  split; [exact Hrun|]. split; [exact Hdisp|]. split; [exact Hgen|]. split; [exact Hun|].
  split; [exact Hs|]. split; [|exact Hnd].
  intros i x. rewrite Hin, nth_error_map_seq. fold sq. split.
  - intros (Hi & Hg & Hx). subst x. split; [split; [lia|reflexivity]|exact Hg].
  - intros ((Hi & Hx) & Hg). subst x. split; [lia|]. split; [exact Hg|reflexivity].
Qed.
