(* Proofs for the stretch theorems of E2E.v:
     - the pipeline after ANY history of stripe / stripe_into / configure / configure_wrap calls
       on one reused buffer (C04's history theorem), with the scanner's hits tied to the full
       binary32 score vector of C01 (C01History.C01_history_scan);
     - scanning the reverse complement (C10). *)
From Coq Require Import List Arith Bool Lia ZArith.
From Coq.Strings Require Import Byte.
From LMBase Require Import Res ListX IEEE.
From LMStripe Require StripeModel StripeSpec NetModel StripeAvx2 C04.
From LMScore Require ScoreModel ScoreProofs StripeBridge C01 C01History.
From LMPwm Require GenComplement PwmModel PwmProofs C10.
From LMScan Require Import ScanModel ScanConcrete ConcreteProofs.
From LMScan Require DiscBridge.
From LME2E Require Import E2EBridgeStripe E2EBridgeScore E2EPipeline E2EProofs.
Import ListNotations.

Module PM := LMPwm.PwmModel.
Module GC := LMPwm.GenComplement.

(* ---------- on a buffer: scan + max, as e2e_scan_buffer / e2e_max_buffer ---------- *)

Section Buffer.
  Variables (K C : nat) (pssm : list (list F32.t)) (sq : list nat) (st : SM.sseq).
  Hypothesis HS : SS.Striped K C sq st.
  Hypothesis Hwrap : length pssm - 1 <= SM.swrap st.
  Hypothesis HK : 2 <= K.
  Hypothesis HC : 1 <= C.
  Hypothesis HM : 1 <= length pssm.
  Hypothesis Hrows : Forall (fun row : list F32.t => length row = K) pssm.
  Hypothesis Hsym : Forall (fun x => x < K) sq.
  Hypothesis Hfin : LMScan.DiscBridge.finite_nonwild K pssm.
  Hypothesis Hmain : c08_main_clause K pssm.

  Lemma scan_buffer_spec (am : arm) (thr : F32.t) (B : nat) : 1 <= B ->
    exists H,
      e2e_scan_buffer K C pssm st am thr B = Ok H /\
      (forall i x, In (i, x) H <->
         i + length pssm <= length sq /\
         F32.ge (SCO.score_def F32.add F32.zero (K - 1) pssm sq i) thr = true /\
         x = SCO.score_def F32.add F32.zero (K - 1) pssm sq i) /\
      NoDup (map fst H).
  Proof.
    intros HB.
    destruct (buffer_scan K C pssm sq st HS Hwrap HK HC HM Hrows Hsym Hfin Hmain am thr B HB)
      as (v & H & Hv & Hc & Hin & Hnd).
    exists H. split; [|split; [exact Hin|exact Hnd]].
    unfold e2e_scan_buffer. rewrite Hv. exact Hc.
  Qed.

  Lemma max_buffer_spec (am : arm) (thr : F32.t) (B : nat) : 1 <= B ->
    exists r,
      e2e_max_buffer K C pssm st am thr B = Ok r /\
      (r = None <-> forall i, i + length pssm <= length sq ->
                      F32.ge (SCO.score_def F32.add F32.zero (K - 1) pssm sq i) thr = false) /\
      (forall q x, r = Some (q, x) ->
         q + length pssm <= length sq /\
         x = SCO.score_def F32.add F32.zero (K - 1) pssm sq q /\
         F32.ge x thr = true /\
         (forall i, i + length pssm <= length sq ->
                    F32.is_nan (SCO.score_def F32.add F32.zero (K - 1) pssm sq i) = false ->
                    F32.ge x (SCO.score_def F32.add F32.zero (K - 1) pssm sq i) = true)).
  Proof.
    intros HB.
    destruct (buffer_take_max K C pssm sq st HS Hwrap HK HC HM Hrows Hsym Hfin Hmain am thr B 0 HB)
      as (v & Y & r & Hv & Ht & Hr).
    destruct (take_max_zero v am thr B Y r Ht) as (HY & Hmx). subst Y.
    exists r. split.
    { unfold e2e_max_buffer. rewrite Hv. exact Hmx. }
    destruct r as [[q x]|].
    - destruct Hr as ((A1 & A2 & _) & Hx & A3 & _). split.
      + split; [discriminate|]. intros Hn. rewrite (Hn q A1) in A2. discriminate.
      + intros q' x' E. inversion E; subst q' x'. split; [exact A1|]. split; [exact Hx|].
        split; [rewrite Hx; exact A2|]. intros i Hi Hnan. apply A3; auto.
    - split.
      + split; [|reflexivity]. intros _ i Hi.
        destruct (F32.ge (SCO.score_def F32.add F32.zero (K - 1) pssm sq i) thr) eqn:Eg; auto.
        destruct (Hr i Hi Eg).
      + intros q x E. discriminate.
  Qed.
End Buffer.

(* ---------- after any history ---------- *)

Lemma history_scan (K C : nat) (ops : list SA.op) (n : nat) (pssm : list (list F32.t))
      (am : arm) (thr : F32.t) (B : nat) :
  let pre := firstn n ops in
  let sq := SA.last_seq [] pre in
  2 <= K -> 1 <= C -> forallb (SA.op_typed C) ops = true ->
  Forall (fun x => x < K) sq ->
  1 <= length pssm -> length pssm - 1 <= SA.wrap_after 0 pre ->
  Forall (fun row : list F32.t => length row = K) pssm ->
  LMScan.DiscBridge.finite_nonwild K pssm -> c08_main_clause K pssm -> 1 <= B ->
  exists st H r,
    SA.run K C SM.s_default pre = Ok st /\
    e2e_scan_history K C pre pssm am thr B = Ok H /\
    (forall i x, In (i, x) H <->
       i + length pssm <= length sq /\
       F32.ge (SCO.score_def F32.add F32.zero (K - 1) pssm sq i) thr = true /\
       x = SCO.score_def F32.add F32.zero (K - 1) pssm sq i) /\
    NoDup (map fst H) /\
    (* the hits are the entries >= thr of the full binary32 score vector (C01, generic pipeline
       on the same buffer) *)
    rbind (SCO.generic_score F32.add F32.zero C pssm (LMScore.StripeBridge.of_stripe st)) (SCO.sc_unstripe C) =
      Ok (map (SCO.score_def F32.add F32.zero (K - 1) pssm sq) (seq 0 (length sq + 1 - length pssm))) /\
    (* and max() on that buffer *)
    e2e_max_history K C pre pssm am thr B = Ok r /\
    (r = None <-> forall i, i + length pssm <= length sq ->
                    F32.ge (SCO.score_def F32.add F32.zero (K - 1) pssm sq i) thr = false) /\
    (forall q x, r = Some (q, x) ->
       q + length pssm <= length sq /\
       x = SCO.score_def F32.add F32.zero (K - 1) pssm sq q /\
       F32.ge x thr = true /\
       (forall i, i + length pssm <= length sq ->
                  F32.is_nan (SCO.score_def F32.add F32.zero (K - 1) pssm sq i) = false ->
                  F32.ge x (SCO.score_def F32.add F32.zero (K - 1) pssm sq i) = true)).
Proof.
  intros pre sq HK HC Ht Hsym HM Hw Hrows Hfin Hmain HB.
  destruct (LMStripe.C04.C04_history_from_default K C ops n HC Ht) as (st & Hrun & HS & Hsw).
  fold pre in Hrun, HS, Hsw. fold sq in HS.
  assert (Hwrap : length pssm - 1 <= SM.swrap st) by (rewrite Hsw; exact Hw).
  destruct (scan_buffer_spec K C pssm sq st HS Hwrap HK HC HM Hrows Hsym Hfin Hmain am thr B HB)
    as (H & Hs & Hin & Hnd).
  destruct (max_buffer_spec K C pssm sq st HS Hwrap HK HC HM Hrows Hsym Hfin Hmain am thr B HB)
    as (r & Hmx & Hnone & Hsome).
  exists st, H, r. split; [exact Hrun|]. split.
  { unfold e2e_scan_history. rewrite Hrun. exact Hs. }
  split; [exact Hin|]. split; [exact Hnd|]. split.
  { apply (LMScore.C01.C01_score_unstripe F32.t F32.add F32.zero C K pssm sq (LMScore.StripeBridge.of_stripe st));
      auto; try lia.
    apply LMScore.StripeBridge.striped_bridge. exact HS. }
  split.
  { unfold e2e_max_history. rewrite Hrun. exact Hmx. }
  split; [exact Hnone|exact Hsome].
Qed.

(* ---------- from symbols (no encoder) ---------- *)

Lemma syms_to_hits (K C : nat) (be : SA.backend) (old : SM.sseq) (sq : list nat)
      (pssm : list (list F32.t)) (am : arm) (thr : F32.t) (B : nat) :
  2 <= K -> 1 <= C -> SA.backend_typed C be = true -> SS.wf_matrix C (SM.mat old) ->
  Forall (fun x => x < K) sq ->
  1 <= length pssm -> Forall (fun row : list F32.t => length row = K) pssm ->
  LMScan.DiscBridge.finite_nonwild K pssm -> c08_main_clause K pssm -> 1 <= B ->
  exists H,
    e2e_scan_syms K C be old sq pssm am thr B = Ok H /\
    (forall i x, In (i, x) H <->
       i + length pssm <= length sq /\
       F32.ge (SCO.score_def F32.add F32.zero (K - 1) pssm sq i) thr = true /\
       x = SCO.score_def F32.add F32.zero (K - 1) pssm sq i) /\
    NoDup (map fst H).
Proof.
  intros HK HC Hb Hwf Hsym HM Hrows Hfin Hmain HB.
  unfold e2e_scan_syms.
  rewrite (LMStripe.C04.C04_stripe_backend_independent K C be sq old HC Hb Hwf).
  destruct (LMStripe.C04.C04_stripe_generic_spec K C sq old HC Hwf) as (st0 & E0 & HS0 & Hw0).
  rewrite E0. cbn [rbind].
  destruct (LMStripe.C04.C04_configure_spec K C sq st0 (length pssm) HC HS0) as (st & E & HS & Hw).
  rewrite E. cbn [rbind].
  apply (scan_buffer_spec K C pssm sq st HS); auto.
  rewrite Hw, Hw0. destruct (Nat.eqb_spec (length pssm) 0); lia.
Qed.

(* ---------- reverse complement ---------- *)

(* pwm's window terms are C01's score terms (windows inside the sequence) *)
Lemma window_terms_score_terms (N : nat) (s : list nat) (i : nat) :
  forall (m : list (list F32.t)) (j : nat),
    i + j + length m <= length s ->
    SCO.terms_from F32.zero j m (fun j => nth (i + j) s N) =
    PM.map2 (fun row x => nth x row F32.zero) m (skipn (i + j) s).
Proof.
  induction m as [|row rest IH]; intros j Hb; simpl; [reflexivity|].
  simpl in Hb.
  assert (E : skipn (i + j) s = nth (i + j) s N :: skipn (S (i + j)) s).
  { clear IH. revert s Hb. generalize (i + j) as k. induction k as [|k IHk]; intros s Hb.
    - destruct s; simpl in *; [lia|reflexivity].
    - destruct s; simpl in *; [lia|]. apply IHk. lia. }
  rewrite E. cbn [PM.map2]. f_equal.
  replace (S (i + j)) with (i + S j) by lia. apply IH. lia.
Qed.

Lemma score_terms_window (N : nat) (m : list (list F32.t)) (s : list nat) (i : nat) :
  i + length m <= length s ->
  SCO.score_terms F32.zero N m s i = PM.window_terms PM.F32ops m s i.
Proof.
  intros Hb. unfold SCO.score_terms, PM.window_terms. cbn [PM.F32ops PM.n_zero].
  rewrite (window_terms_score_terms N s i m 0) by lia. now rewrite Nat.add_0_r.
Qed.

(* the cells summed by the reverse-complemented matrix at a position of the reverse-
   complemented sequence are those of the mirrored position, in the opposite order (C10) *)
Lemma rc_score_def (m : list (list F32.t)) (s : list nat) (i : nat) :
  Forall (fun x => x < GC.dna_K) s -> i + length m <= length s ->
  SCO.score_def F32.add F32.zero (GC.dna_K - 1) (LMPwm.C10.dna_rc F32.zero m)
                (PM.rc_seq GC.dna_comp s) (length s - length m - i)
  = fold_left F32.add (rev (SCO.score_terms F32.zero (GC.dna_K - 1) m s i)) F32.zero.
Proof.
  intros Hs Hi. unfold SCO.score_def.
  destruct (LMPwm.C10.C10_revcomp_is_reversal_and_complement F32.t F32.zero m) as (_ & Hlen & _).
  assert (Hl : length (PM.rc_seq GC.dna_comp s) = length s)
    by (unfold PM.rc_seq; now rewrite map_length, rev_length).
  rewrite score_terms_window by (rewrite Hlen, Hl; lia).
  rewrite score_terms_window by exact Hi.
  f_equal. exact (LMPwm.C10.C10_revcomp_mirror_terms F32.t PM.F32ops m s i Hs Hi).
Qed.
