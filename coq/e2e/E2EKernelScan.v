(* The scanner with the KERNEL models plugged in (E2EPipeline.kcollect / k_collect: Maximum<u8>
   and Threshold<u8> of coq/maxi, u8 block scores of coq/disc, score_position of coq/score)
   computes exactly what the scan model computes with its specification functions
   (ScanModel.collect with dmax / dthreshold, ScanConcrete.c_score_rows / c_score_position):
   same hits in the same order.  This discharges, by proof, the trusted-base item of coq/scan
   "the AVX2 u8 kernel, Maximum<u8>::max and Threshold<u8>::threshold are modelled by their
   specification". *)
From Coq Require Import List Arith Bool Lia ZArith.
From LMBase Require Import Res ListX IEEE.
From LMScore Require ScoreModel.
From LMDisc Require DiscModel DiscKernels.
From LMMaxi Require MaxiModel.
From LMScan Require Import ScanModel ScanLemmas ScanProofs ScanConcrete ConcreteProofs.
From LME2E Require Import E2EBridgeStripe E2EBridgeScore E2EBridgeMaxi E2EBridgeDisc E2EPipeline.
Import ListNotations.

(* ---------- abstract: kcollect = collect ---------- *)

Section KEq.
  Context {T : Type}.
  Variable geb : T -> T -> bool.
  Variable is_nan : T -> bool.
  Variable scale : T -> nat.
  Variables sp sp' : nat -> res T.
  Variables sr sr' : nat -> nat -> res dmatrix.
  Variable kmax : dmatrix -> res (option nat).
  Variable kthr : dmatrix -> nat -> list (nat * nat).
  Variable R Lm B : nat.
  Variable thr : T.

  Hypothesis Hsp : forall i, i < Lm -> sp' i = sp i.
  Hypothesis Hsr : forall a e, a <= e -> e <= R -> sr' a e = sr a e.
  Hypothesis Hmax : forall a e d, a <= e -> e <= R -> sr a e = Ok d -> kmax d = Ok (dmax d).
  Hypothesis Hthr : forall d t, kthr d t = dthreshold d t.

  Lemma next_cands_ext rw cands : forall hs,
    next_cands geb is_nan sp' R Lm thr rw cands hs = next_cands geb is_nan sp R Lm thr rw cands hs.
  Proof.
    induction cands as [|[r c] rest IH]; intros hs; simpl; [reflexivity|].
    destruct (Nat.leb_spec Lm (c * R + rw + r)) as [Hge|Hlt]; [apply IH|].
    rewrite (Hsp _ Hlt). destruct (sp (c * R + rw + r)) as [s| | |]; simpl; auto.
    destruct (geb s thr); [|apply IH].
    destruct (hit_new is_nan (c * R + rw + r) s); simpl; auto.
  Qed.

  Lemma knext_block_eq (s : st (T := T)) : row s < R ->
    knext_block geb is_nan scale sp' sr' kmax kthr R Lm B thr s =
    next_block geb is_nan scale sp sr R Lm B thr s.
  Proof.
    intros Hr. unfold knext_block, next_block. cbv zeta.
    assert (H1 : row s <= Nat.min (row s + B) R) by lia.
    assert (H2 : Nat.min (row s + B) R <= R) by lia.
    rewrite (Hsr _ _ H1 H2).
    destruct (sr (row s) (Nat.min (row s + B) R)) as [d| | |] eqn:Ed; simpl; auto.
    rewrite (Hmax _ _ d H1 H2 Ed). cbn [rbind].
    rewrite Hthr, next_cands_ext. reflexivity.
  Qed.

  Lemma knext_loop_eq fuel : forall s : st (T := T),
    knext_loop geb is_nan scale sp' sr' kmax kthr R Lm B thr fuel s =
    next_loop geb is_nan scale sp sr R Lm B thr fuel s.
  Proof.
    induction fuel as [|f IH]; intros s; simpl; [reflexivity|].
    destruct (hits s); [|reflexivity].
    destruct (Nat.ltb_spec (row s) R) as [Hlt|Hge]; [|reflexivity].
    rewrite (knext_block_eq s Hlt).
    destruct (next_block geb is_nan scale sp sr R Lm B thr s); simpl; auto.
  Qed.

  Lemma knext_eq (s : st (T := T)) :
    knext geb is_nan scale sp' sr' kmax kthr R Lm B thr s = next geb is_nan scale sp sr R Lm B thr s.
  Proof. unfold knext, next. now rewrite knext_loop_eq. Qed.

  Lemma kcollect_eq fuel : forall s : st (T := T),
    kcollect geb is_nan scale sp' sr' kmax kthr R Lm B thr fuel s =
    collect geb is_nan scale sp sr R Lm B thr fuel s.
  Proof.
    induction fuel as [|f IH]; intros s; simpl; [reflexivity|].
    rewrite knext_eq. destruct (next geb is_nan scale sp sr R Lm B thr s) as [[o s']| | |]; simpl; auto.
    destruct o; [|reflexivity]. now rewrite IH.
  Qed.
End KEq.

(* ---------- concrete: the environment Scanner::new builds, 32 columns, K <= 16 ---------- *)

Lemma to_discrete_rows_len (K : nat) (pssm : list (list F32.t)) (dm : dmt) :
  to_discrete K pssm = Ok dm ->
  Forall (fun row : list F32.t => length row = K) pssm ->
  Forall (fun d : list nat => length d = K) (d_data dm).
Proof.
  unfold to_discrete. intros H Hp.
  destruct (rmapM (row_max K) pssm) as [maxs| | |]; simpl in H; try discriminate.
  destruct (rmapM (row_min K) pssm) as [offs| | |]; simpl in H; try discriminate.
  inversion H; subst; simpl. apply Forall_map. apply Forall_forall. intros [prow off] Hin.
  apply in_combine_l in Hin. rewrite Forall_forall in Hp. simpl. rewrite map_length. auto.
Qed.

Lemma sat_add_le x y : sat_add x y <= 255.
Proof. unfold sat_add. lia. Qed.

Lemma dcell_from_le sm c : forall drows r acc x,
  acc <= 255 -> dcell_from sm drows r c acc = Ok x -> x <= 255.
Proof.
  induction drows as [|d rest IH]; intros r acc x Ha H; simpl in H; [inversion H; subst; exact Ha|].
  destruct (nth_error sm r); [|discriminate]. destruct (nth_error l c); [|discriminate].
  destruct (nth_error d n); [|discriminate]. eapply IH; [|exact H]. apply sat_add_le.
Qed.

Lemma cdscore_le v i : cdscore v i <= 255.
Proof.
  unfold cdscore. destruct (dcell_from _ _ _ _ _) as [x| | |] eqn:E; simpl; try lia.
  eapply dcell_from_le; [|exact E]. lia.
Qed.

Lemma block_spec_shape R Lm C (f : nat -> nat) a e :
  (forall i, f i <= 255) ->
  Forall (fun row => length row = C) (block_spec R Lm C f a e) /\
  Forall (Forall (fun x => x <= 255)) (block_spec R Lm C f a e).
Proof.
  intros Hf. unfold block_spec. destruct (Lm =? 0); [split; constructor|].
  unfold mk_block. split; apply Forall_forall; intros row Hin; apply in_map_iff in Hin;
    destruct Hin as (r & <- & _).
  - now rewrite map_length, seq_length.
  - apply Forall_forall. intros x Hx. apply in_map_iff in Hx. destruct Hx as (c & <- & _). apply Hf.
Qed.

Lemma k_max_dmax (am : arm) (d : dmatrix) :
  Forall (fun row => length row = 32) d -> Forall (Forall (fun x => x <= 255)) d ->
  k_max am d = Ok (dmax d).
Proof.
  intros Hw Hu. unfold k_max. rewrite (dmax_bridge (arm_maxi am) d Hw Hu). cbn [rbind].
  f_equal. destruct (dmax d) as [m|]; cbn; [|reflexivity]. now rewrite Nat2Z.id.
Qed.

Lemma zmat_back (m : dmatrix) : map (map Z.to_nat) (zmat m) = m.
Proof.
  unfold zmat. rewrite map_map. rewrite <- (map_id m) at 2. apply map_ext. intros row.
  rewrite map_map. rewrite <- (map_id row) at 2. apply map_ext. intros x. apply Nat2Z.id.
Qed.

Section KEnv.
  Variables (K : nat) (pssm : list (list F32.t)) (sq : list nat) (wrap : nat) (v : cenv).
  Hypothesis Hwf : wf_input K 32 pssm sq wrap.
  Hypothesis Henv : c_env K 32 pssm sq wrap = Ok v.
  Hypothesis HK16 : K <= 16.
  Hypothesis Hrows : Forall (fun row : list F32.t => length row = K) pssm.
  Variable pads : nat -> list Z.
  Hypothesis Hpads : forall i, 16 <= K + length (pads i).

  (* ScoringMatrix::score_position of coq/score = the scan model's, on the valid positions *)
  Lemma k_score_position_eq i : i < ce_Lm v ->
    k_score_position (ce_L v) (ce_wrap v) (ce_sm v) (ce_pssm v) i = ce_score_position v i.
  Proof.
    intros Hi. rewrite (env_score_position K 32 pssm sq wrap v Hwf Henv i Hi).
    pose proof (env_score_position K 32 pssm sq wrap v Hwf Henv i Hi) as E.
    destruct (env_fields K 32 pssm sq wrap v Henv) as (_ & Hps & _ & Hwr & Hsm & _ & Hpt & _).
    unfold ce_score_position in E. rewrite Hpt, <- Hsm, <- Hwr, <- Hps in E.
    rewrite Hsm, Hwr, Hps, tab_get_map, <- Hsm, <- Hwr, <- Hps in E.
    unfold k_score_position.
    exact (rsim_ok_l _ _ _ (score_position_bridge (ce_sm v) (ce_L v) (ce_wrap v) (ce_pssm v) i) E).
  Qed.

  (* Score<u8>::score_rows_into of coq/disc (every dispatcher arm, AVX2 = the PSHUFB kernel)
     = the scan model's, on every row range the scanner can ask for *)
  Lemma k_score_rows_eq am a e : a <= e -> e <= ce_R v ->
    k_score_rows am pads (ce_L v) (ce_wrap v) (ce_sm v) (d_data (ce_dm v)) a e = ce_score_rows v am a e.
  Proof.
    intros Ha He.
    pose proof (env_score_rows K 32 pssm sq wrap v Hwf Henv am a e Ha He) as E. rewrite E.
    destruct (env_fields K 32 pssm sq wrap v Henv) as (Hc & _ & _ & _ & Hsm & Hd & _ & Hdt).
    assert (Hsmok : Forall (fun x => length x = 32 /\ Forall (fun s => s < K) x) (ce_sm v)).
    { apply Forall_forall. intros row Hin. apply In_nth_error in Hin. destruct Hin as (r & Hr).
      assert (Hlt : r < length (ce_sm v)) by (apply nth_error_Some; rewrite Hr; discriminate).
      destruct (env_sm_rows K 32 pssm sq wrap v Hwf Henv r Hlt) as (row' & Er & Hl & Hf).
      rewrite Hr in Er. inversion Er; subst. auto. }
    assert (Hdt_ok : dtab_ok 32 (ce_sm v) (d_data (ce_dm v)) (ce_dtab v)).
    { rewrite Hdt, <- Hsm. apply dtab_ok_map. }
    pose proof (u8_rows_dispatch_bridge am K (ce_sm v) (ce_wrap v) (ce_L v) (d_data (ce_dm v)) (ce_dtab v)
                  pads a e HK16 (to_discrete_rows_len K pssm (ce_dm v) Hd Hrows) Hpads Hsmok Hdt_ok) as Hb.
    unfold ce_score_rows in E. rewrite Hc in E. rewrite E in Hb.
    unfold k_score_rows.
    destruct (DM.score_rows_dispatch _ _ _ _ _ _) as [sc| | |]; simpl in Hb; try contradiction.
    cbn [rbind]. unfold rows_rel in Hb. rewrite <- Hb, zmat_back, Hc. reflexivity.
  Qed.

  Lemma k_max_eq am a e d : a <= e -> e <= ce_R v -> ce_score_rows v am a e = Ok d -> k_max am d = Ok (dmax d).
  Proof.
    intros Ha He E. rewrite (env_score_rows K 32 pssm sq wrap v Hwf Henv am a e Ha He) in E.
    inversion E; subst d.
    destruct (env_fields K 32 pssm sq wrap v Henv) as (Hc & _).
    destruct (block_spec_shape (ce_R v) (ce_Lm v) (ce_C v) (cdscore v) a e (cdscore_le v)) as (H1 & H2).
    apply k_max_dmax; [|exact H2]. eapply Forall_impl; [|exact H1]. intros row Hr. now rewrite <- Hc.
  Qed.

  (* the scanner on the kernels yields the same hit list, in the same order *)
  Theorem k_collect_eq am thr B : k_collect v am pads thr B = ce_collect v am thr B.
  Proof.
    unfold k_collect, ce_collect.
    apply kcollect_eq.
    - intros i Hi. now apply k_score_position_eq.
    - intros a e Ha He. now apply k_score_rows_eq.
    - intros a e d Ha He E. exact (k_max_eq am a e d Ha He E).
    - intros d t. apply dthreshold_bridge.
  Qed.
End KEnv.

(* ---------- Scanner::max on the kernels ---------- *)

Section KMaxEq.
  Context {T : Type}.
  Variable geb gtb eqb : T -> T -> bool.
  Variable is_nan : T -> bool.
  Variable scale : T -> nat.
  Variables sp sp' : nat -> res T.
  Variables sr sr' : nat -> nat -> res dmatrix.
  Variable kmax : dmatrix -> res (option nat).
  Variable kthr : dmatrix -> nat -> list (nat * nat).
  Variable R Lm B : nat.
  Variable thr : T.

  Hypothesis Hsp : forall i, i < Lm -> sp' i = sp i.
  Hypothesis Hsr : forall a e, a <= e -> e <= R -> sr' a e = sr a e.
  Hypothesis Hmax : forall a e d, a <= e -> e <= R -> sr a e = Ok d -> kmax d = Ok (dmax d).
  Hypothesis Hthr : forall d t, kthr d t = dthreshold d t.

  Lemma max_cands_ext rw d cands : forall best bd,
    max_cands geb gtb eqb is_nan scale sp' R Lm thr rw d cands best bd =
    max_cands geb gtb eqb is_nan scale sp R Lm thr rw d cands best bd.
  Proof.
    induction cands as [|[r c] rest IH]; intros best bd; simpl; [reflexivity|].
    destruct (dget_res d r c) as [ds| | |]; simpl; auto.
    destruct (bd <=? ds); simpl; [|apply IH].
    destruct (Nat.ltb_spec (c * R + rw + r) Lm) as [Hlt|Hge]; simpl; [|apply IH].
    rewrite (Hsp _ Hlt). destruct (sp (c * R + rw + r)) as [s| | |]; simpl; auto.
    destruct best as [[bp bs]|].
    - destruct (gtb s bs || eqb s bs && (bp <? c * R + rw + r)); [|apply IH].
      destruct (hit_new is_nan (c * R + rw + r) s); simpl; auto.
    - destruct (geb s thr); [|apply IH].
      destruct (hit_new is_nan (c * R + rw + r) s); simpl; auto.
  Qed.

  Lemma ktake_k_eq k : forall s : st (T := T),
    ktake_k geb is_nan scale sp' sr' kmax kthr R Lm B thr k s =
    take_k geb is_nan scale sp sr R Lm B thr k s.
  Proof.
    induction k as [|k IH]; intros s; simpl; [reflexivity|].
    rewrite (knext_eq geb is_nan scale sp sp' sr sr' kmax kthr R Lm B thr Hsp Hsr Hmax Hthr s).
    destruct (next geb is_nan scale sp sr R Lm B thr s) as [[o s']| | |]; simpl; auto.
    destruct o; [|reflexivity]. now rewrite IH.
  Qed.

  Lemma kmax_loop_eq fuel : forall rw best bd,
    kmax_loop geb gtb eqb is_nan scale sp' sr' kmax kthr R Lm B thr fuel rw best bd =
    max_loop geb gtb eqb is_nan scale sp sr R Lm B thr fuel rw best bd.
  Proof.
    induction fuel as [|f IH]; intros rw best bd; simpl; [reflexivity|].
    destruct (Nat.ltb_spec rw R) as [Hlt|Hge]; [|reflexivity].
    assert (H1 : rw <= Nat.min (rw + B) R) by lia.
    assert (H2 : Nat.min (rw + B) R <= R) by lia.
    rewrite (Hsr _ _ H1 H2).
    destruct (sr rw (Nat.min (rw + B) R)) as [d| | |] eqn:Ed; simpl; auto.
    rewrite (Hmax _ _ d H1 H2 Ed). cbn [rbind]. rewrite Hthr, max_cands_ext.
    destruct (match dmax d with
              | Some m => if bd <=? m then max_cands geb gtb eqb is_nan scale sp R Lm thr rw d (dthreshold d bd) best bd
                          else Ok (best, bd)
              | None => Ok (best, bd)
              end) as [r| | |]; simpl; auto.
  Qed.

  Lemma kmax_after_eq k :
    kmax_after geb gtb eqb is_nan scale sp' sr' kmax kthr R Lm B thr k =
    max_after geb gtb eqb is_nan scale sp sr R Lm B thr k.
  Proof.
    unfold kmax_after, max_after. rewrite ktake_k_eq.
    destruct (take_k geb is_nan scale sp sr R Lm B thr k init) as [[Y s]| | |]; cbn [rbind snd]; auto.
    unfold ksmax, smax. destruct (max_by_score gtb eqb _) as [b0| | |]; cbn [rbind]; auto.
    apply kmax_loop_eq.
  Qed.
End KMaxEq.

Theorem k_max_after_eq (K : nat) (pssm : list (list F32.t)) (sq : list nat) (wrap : nat) (v : cenv)
        (pads : nat -> list Z) am thr B k :
  wf_input K 32 pssm sq wrap -> c_env K 32 pssm sq wrap = Ok v -> K <= 16 ->
  Forall (fun row : list F32.t => length row = K) pssm -> (forall i, 16 <= K + length (pads i)) ->
  k_max_after v am pads thr B k = ce_max_after v am thr B k.
Proof.
  intros Hwf Henv HK Hrows Hpads. unfold k_max_after, ce_max_after.
  apply kmax_after_eq.
  - intros i Hi. now apply (k_score_position_eq K pssm sq wrap v).
  - intros a e Ha He. now apply (k_score_rows_eq K pssm sq wrap v).
  - intros a e d Ha He E. exact (k_max_eq K pssm sq wrap v Hwf Henv am a e d Ha He E).
  - intros d t. apply dthreshold_bridge.
Qed.
