(* Transport between the binary32 side (the scanner: E2E.e2e_text_to_hits, C01's score_def over
   F32.add) and the exact side (the statistics: tail_c01 over option Q), i.e. the two hypotheses
   L1 / L2 that E2EStatScan.v takes about an abstract value map [val]:

     valQ x                 the rational value of a finite binary32 number (pwm's f32_to_Q; 0 otherwise)
     qmat pssm              the binary32 scoring matrix read as a matrix over option Q (-inf, +inf, NaN -> None)
     ge_valQ        (L1)    x >= t in binary32  <->  valQ t <= valQ x             (x, t finite)
     fscore_error   (L2)    | valQ (binary32 score of a wildcard-free window) - exact score | <= eps_f32 K pssm
                            eps_f32 = M * 2^-23 * sum over rows of max |symbol cell|, from C01_fsum_error_bound
                            (no intermediate overflow: M <= 2^23 and that sum <= 2^126) *)
From Coq Require Import List Arith Bool Lia ZArith QArith Qabs Qminmax Lqa Reals Qreals Lra.
From Flocq Require Import Core BinarySingleNaN.
From LMBase Require Import Res ListX IEEE.
From LMScore Require ScoreModel ScoreProofs F32Proofs.
From LMPwm Require PwmCheck PwmF32Rescale PwmF32Mirror.
From LME2E Require Import E2EStatBridge.
Import ListNotations.
Local Open Scope nat_scope.

Module FP := LMScore.F32Proofs.
Module PC := LMPwm.PwmCheck.
Module PR := LMPwm.PwmF32Rescale.

Notation fin32 := (@BinarySingleNaN.is_finite 24 128).

(* ---------- the rational value of a binary32 number ---------- *)

Definition valQ (x : F32.t) : Q := match PC.f32_to_Q x with Some q => q | None => 0%Q end.

Definition qmat (pssm : list (list F32.t)) : list (list (option Q)) := map (map PC.f32_to_Q) pssm.

Lemma f32_to_Q_valQ (x : F32.t) : fin32 x = true -> PC.f32_to_Q x = Some (valQ x).
Proof. intros H. unfold valQ. destruct (PR.f32_to_Q_total x H) as (q & E). now rewrite E. Qed.

Lemma f32_to_Q_none (x : F32.t) : fin32 x = false -> PC.f32_to_Q x = None.
Proof. destruct x; try discriminate; reflexivity. Qed.

Lemma valQ_B2R (x : F32.t) : fin32 x = true -> Q2R (valQ x) = B2R x.
Proof. intros H. exact (proj1 (PR.f32_to_Q_B2R x _ (f32_to_Q_valQ x H))). Qed.

(* L1: the binary32 comparison of finite numbers is the order of their rational values *)
Lemma ge_valQ (x t : F32.t) : fin32 x = true -> fin32 t = true ->
  (F32.ge x t = true <-> (valQ t <= valQ x)%Q).
Proof.
  intros Hx Ht. unfold F32.ge, fge, fle, fcmp.
  rewrite (Bcompare_correct 24 128 t x Ht Hx).
  pose proof (valQ_B2R x Hx) as Ex. pose proof (valQ_B2R t Ht) as Et.
  destruct (Rcompare_spec (B2R t) (B2R x)) as [Hc|Hc|Hc].
  - split; [intros _|reflexivity]. apply Rle_Qle. rewrite Ex, Et. lra.
  - split; [intros _|reflexivity]. apply Rle_Qle. rewrite Ex, Et. lra.
  - split; [discriminate|]. intros Hq. apply Qle_Rle in Hq. rewrite Ex, Et in Hq. lra.
Qed.

(* ---------- the terms of a window: binary32 list vs option-Q list ---------- *)

Lemma terms_from_qmat (f : nat -> nat) : forall (pr : list (list F32.t)) (j : nat),
  SCO.terms_from (Some 0%Q) j (qmat pr) f = map PC.f32_to_Q (SCO.terms_from F32.zero j pr f).
Proof.
  induction pr as [|row rest IH]; intros j; [reflexivity|].
  cbn [qmat map SCO.terms_from]. fold (qmat rest). rewrite IH. f_equal.
  change (Some 0%Q) with (PC.f32_to_Q F32.zero). apply map_nth.
Qed.

Lemma score_terms_qmat (N : nat) (pssm : list (list F32.t)) (s : list nat) (i : nat) :
  SCO.score_terms (Some 0%Q) N (qmat pssm) s i = map PC.f32_to_Q (SCO.score_terms F32.zero N pssm s i).
Proof. unfold SCO.score_terms. apply terms_from_qmat. Qed.

Definition qsum (l : list F32.t) : Q := fold_right (fun x a => (valQ x + a)%Q) 0%Q l.

Lemma fold_oadd_fin : forall (l : list F32.t) (acc : Q),
  Forall (fun x => fin32 x = true) l ->
  exists q, fold_left oadd (map PC.f32_to_Q l) (Some acc) = Some q /\ (q == acc + qsum l)%Q.
Proof.
  induction l as [|x r IH]; intros acc Hl.
  - exists acc. split; [reflexivity|]. cbn [qsum fold_right]. ring.
  - inversion Hl as [|? ? Hx Hr]; subst.
    cbn [map fold_left]. rewrite (f32_to_Q_valQ x Hx). cbn [oadd].
    destruct (IH (acc + valQ x)%Q Hr) as (q & E & Hq). exists q. split; [exact E|].
    rewrite Hq. cbn [qsum fold_right]. fold (qsum r). ring.
Qed.

Lemma qsum_rsum (l : list F32.t) : Forall (fun x => fin32 x = true) l -> Q2R (qsum l) = FP.rsum l.
Proof.
  induction l as [|x r IH]; intros Hl; cbn [qsum FP.rsum fold_right].
  - unfold Q2R. cbn. lra.
  - inversion Hl as [|? ? Hx Hr]; subst. fold (qsum r). fold (FP.rsum r).
    rewrite Q2R_plus, (valQ_B2R x Hx), (IH Hr). reflexivity.
Qed.

(* ---------- a rational bound on the sum of the absolute values of a window's terms ---------- *)

(* max |cell| over the K-1 symbol cells of a row *)
Definition row_amax (K : nat) (row : list F32.t) : Q :=
  fold_right (fun c a => Qmax (Qabs (valQ c)) a) 0%Q (firstn (K - 1) row).

Definition mat_asum (K : nat) (pssm : list (list F32.t)) : Q :=
  fold_right (fun row a => (row_amax K row + a)%Q) 0%Q pssm.

(* the bound on | binary32 score - exact score | of every wildcard-free window *)
Definition eps_f32 (K : nat) (pssm : list (list F32.t)) : Q :=
  ((Z.of_nat (length pssm) # 8388608) * mat_asum K pssm)%Q.

(* "no intermediate overflow" for every wildcard-free window, executable *)
Definition no_overflow (K : nat) (pssm : list (list F32.t)) : bool :=
  (Z.of_nat (length pssm) <=? 2 ^ 23)%Z && Qle_bool (mat_asum K pssm) (inject_Z (2 ^ 126)).

Lemma amax_ge : forall (l : list F32.t) (c : F32.t), In c l ->
  (Qabs (valQ c) <= fold_right (fun c a => Qmax (Qabs (valQ c)) a) 0 l)%Q.
Proof.
  induction l as [|x r IH]; intros c Hc; [contradiction|]. cbn [fold_right].
  destruct Hc as [->|Hc].
  - apply Q.le_max_l.
  - eapply Qle_trans; [apply (IH c Hc)|apply Q.le_max_r].
Qed.

Lemma row_amax_nonneg K row : (0 <= row_amax K row)%Q.
Proof.
  unfold row_amax. destruct (firstn (K - 1) row) as [|x r]; cbn [fold_right]; [apply Qle_refl|].
  eapply Qle_trans; [apply Qabs_nonneg|apply Q.le_max_l].
Qed.

Lemma mat_asum_nonneg K pssm : (0 <= mat_asum K pssm)%Q.
Proof.
  induction pssm as [|row rest IH]; cbn [mat_asum fold_right]; [apply Qle_refl|].
  fold (mat_asum K rest). pose proof (row_amax_nonneg K row). Lqa.lra.
Qed.

Lemma Q2R_abs' (q : Q) : Q2R (Qabs q) = Rabs (Q2R q).
Proof. exact (PR.Q2R_abs q). Qed.

(* the terms of a window whose symbols are all below K-1, over rows of K cells with finite symbol cells *)
Lemma terms_bound (K : nat) (f : nat -> nat) : forall (pr : list (list F32.t)) (j : nat),
  Forall (fun row => length row = K /\ Forall (fun x => fin32 x = true) (firstn (K - 1) row)) pr ->
  (forall j', j <= j' < j + length pr -> f j' < K - 1) ->
  Forall (fun x => fin32 x = true) (SCO.terms_from F32.zero j pr f) /\
  (FP.rabs_sum (SCO.terms_from F32.zero j pr f) <= Q2R (mat_asum K pr))%R.
Proof.
  induction pr as [|row rest IH]; intros j Hp Hf.
  - split; [constructor|]. cbn. unfold Q2R. cbn. lra.
  - inversion Hp as [|? ? (Hl & Hfin) Hrest]; subst.
    destruct (IH (S j) Hrest ltac:(intros j' Hj; apply Hf; cbn [length]; lia)) as (I1 & I2).
    assert (Hk : f j < length row - 1) by (apply Hf; cbn [length]; lia).
    assert (Hin : In (nth (f j) row F32.zero) (firstn (length row - 1) row)).
    { rewrite <- (firstn_skipn (length row - 1) row) at 1.
      rewrite app_nth1 by (rewrite firstn_length; lia). apply nth_In. rewrite firstn_length. lia. }
    cbn [SCO.terms_from]. split.
    + constructor; [|exact I1]. rewrite Forall_forall in Hfin. now apply Hfin.
    + cbn [FP.rabs_sum mat_asum fold_right]. fold (FP.rabs_sum (SCO.terms_from F32.zero (S j) rest f)).
      fold (mat_asum (length row) rest). rewrite Q2R_plus.
      apply Rplus_le_compat; [|exact I2].
      rewrite Forall_forall in Hfin. rewrite <- (valQ_B2R _ (Hfin _ Hin)), <- Q2R_abs'.
      apply Qle_Rle. unfold row_amax. now apply amax_ge.
Qed.

(* ---------- L2 ---------- *)

Definition sym_fin32 (K : nat) (pssm : list (list F32.t)) : Prop :=
  Forall (fun row => length row = K /\ Forall (fun x => fin32 x = true) (firstn (K - 1) row)) pssm.

Lemma qmat_sym_finite (K : nat) (pssm : list (list F32.t)) : (1 <= K)%nat -> sym_fin32 K pssm -> sym_finite K (qmat pssm).
Proof.
  intros HK H. unfold sym_finite, qmat. apply Forall_map. eapply Forall_impl; [|exact H].
  intros row (Hl & Hf). split; [now rewrite map_length|].
  assert (E : removelast (map PC.f32_to_Q row) = map PC.f32_to_Q (firstn (K - 1) row)).
  { destruct (@exists_last _ row) as (l & w & ->); [intros ->; cbn in Hl; lia|].
    rewrite app_length in Hl. cbn [length] in Hl.
    rewrite map_app. cbn [map]. rewrite removelast_app1.
    replace (K - 1) with (length l) by lia. now rewrite firstn_app_exact. }
  rewrite E. apply Forall_map. eapply Forall_impl; [|exact Hf].
  intros x Hx. cbv beta in Hx. rewrite (f32_to_Q_valQ x Hx). discriminate.
Qed.

(* the binary32 score of position i and the exact score of the same terms *)
Theorem fscore_error (K : nat) (pssm : list (list F32.t)) (s : list nat) (i : nat) :
  sym_fin32 K pssm -> no_overflow K pssm = true ->
  (forall j, j < length pssm -> nth (i + j) s (K - 1) < K - 1) ->
  let x := SCO.score_def F32.add F32.zero (K - 1) pssm s i in
  fin32 x = true /\
  exists q, SCO.score_def oadd (Some 0%Q) (K - 1) (qmat pssm) s i = Some q /\
            (Qabs (valQ x - q) <= eps_f32 K pssm)%Q.
Proof.
  intros Hp Hno Hs x.
  apply andb_true_iff in Hno. destruct Hno as (HM & HA).
  apply Z.leb_le in HM. apply Qle_bool_iff in HA.
  set (l := SCO.score_terms F32.zero (K - 1) pssm s i).
  destruct (terms_bound K (fun j => nth (i + j) s (K - 1)) pssm 0 Hp
              ltac:(intros j' Hj; apply Hs; lia)) as (Hfin & Hab).
  fold (SCO.score_terms F32.zero (K - 1) pssm s i) in Hfin, Hab. fold l in Hfin, Hab.
  assert (Hlen : length pssm = length l)
    by (unfold l, SCO.score_terms; symmetry; apply LMScore.ScoreProofs.terms_from_length).
  assert (HM' : (Z.of_nat (length l) <= 2 ^ 23)%Z) by (rewrite <- Hlen; exact HM).
  assert (H126 : Q2R (inject_Z (2 ^ 126)) = bpow radix2 126).
  { unfold Q2R, inject_Z. cbn [Qnum Qden]. rewrite Rinv_1, Rmult_1_r.
    change (bpow radix2 126) with (IZR (Z.pow_pos 2 126)). f_equal. }
  assert (Hsf : FP.sums_finite F32.zero l = true).
  { apply FP.sums_finite_bound; [exact HM'|exact Hfin|].
    eapply Rle_trans; [exact Hab|]. rewrite <- H126. now apply Qle_Rle. }
  assert (Hx : fin32 x = true) by (apply (FP.sums_finite_final l F32.zero Hsf)).
  split; [exact Hx|].
  destruct (fold_oadd_fin l 0%Q Hfin) as (q & Eq & Hq).
  exists q. split.
  { unfold SCO.score_def. rewrite score_terms_qmat. exact Eq. }
  apply Rle_Qle. rewrite Q2R_abs', Q2R_minus, (valQ_B2R x Hx).
  assert (Eqr : Q2R q = FP.rsum l).
  { rewrite (Qeq_eqR _ _ Hq), Q2R_plus, (qsum_rsum l Hfin). unfold Q2R at 1. cbn. lra. }
  rewrite Eqr.
  pose proof (FP.fsum_error_tol l HM' Hsf) as He.
  eapply Rle_trans; [exact He|]. unfold eps_f32. rewrite Q2R_mult, LMPwm.PwmF32Mirror.Q2R_tolc, Hlen.
  apply Rmult_le_compat_l; [|exact Hab].
  apply Rmult_le_pos; [apply pos_INR|apply bpow_ge_0].
Qed.
