(* Definitions and lemmas for E2EPyCore.v.
   C17 (review round 3, finding 2): the abstract record [core] of the PyO3 glue model (coq/pyglue),
   instantiated with the MODELS of the groups that own the core operations, and the hypotheses of
   C17's history theorems discharged from those groups' theorems.

     c_stripe      symbol = index in Alphabet::as_str (the specification C05 proves of every encoder),
                   then coq/stripe's stripe_fresh / stripe_into into 32 columns
     c_configure   coq/stripe's StripedSequence::configure on the buffer state
     c_score       coq/score's generic scoring pipeline (binary32) on that same buffer state
                   (StripeBridge.of_stripe); all dispatcher arms equal it where they are defined (C01)
     c_scan        coq/scan's concrete Scanner (ScanConcrete, through E2EPipeline.e_env: built FROM THE
                   STRIPE MODEL'S BUFFER), AVX2 arm, iterated to exhaustion, hits in iteration order
     everything else (counts, weights, log-odds, distributions, readers, the three observers of
     StripedScores) is taken from an arbitrary core K0 / section variables: NOT instantiated here.

   A sequence value carries, as ghost data, the symbol sequence it stripes and the proof that its
   buffer is the striped form of it (the invariant every StripedSequence of the library satisfies:
   C04).  Outside the domain on which the groups' theorems speak the instance is PESSIMISTIC, not
   silent: a matrix whose rows do not have K cells (an ill-typed call, impossible in Rust), an empty
   matrix, fewer look-ahead rows than M - 1, block size 0 give CPanic.

   Proved here, for ALL matrices, sequences, thresholds and block sizes (no numeric hypothesis):
     pycore_conf_total / _conf_text / _conf_ok / _score_text / _scan_text   the five hypotheses of
                         C17.py_history_depends_on_text_only
     pycore_scan_stable  the hypothesis of C17.py_scanner_lazy_eq_eager
   hence the two C17 theorems for this core without any hypothesis left about configure / score /
   scan (pycore_history_depends_on_text_only, pycore_scanner_lazy_eq_eager); and the guarded totality
   fields of PyGlueProofs.core_guarded that these models give (pycore_guarded_fields_partial). *)
From Coq Require Import List Arith Bool Lia ZArith.
From LMBase Require Import Res ListX IEEE.
From LMStripe Require StripeModel StripeSpec StripeAvx2 C04.
From LMScore Require ScoreModel ScoreProofs StripeBridge C01.
From LMScan Require Import ScanModel ScanLemmas ScanProofs ScanConcrete ConcreteProofs.
From LMScan Require DiscBridge.
From LME2E Require Import E2EBridgeStripe E2EBridgeScore E2EPipeline E2EKernelScan E2EProofs E2EStretch.
From LMPyGlue Require PyGlueModel PyGlueProofs PyGlueHistory PyGlueLazy PyGlueLazyProofs.
Import ListNotations.

Module PG := LMPyGlue.PyGlueModel.
Module SS := LMStripe.StripeSpec.
Module SB := LMScore.StripeBridge.
Module SP := LMScore.ScoreProofs.

Definition Ccols : nat := 32.
Definition fresh_backend : SA.backend := SA.BGeneric.

(* ---------------------------------------------------------------- the sequence values *)

Record sq := mkSq {
  q_K : nat;                      (* alphabet size (5 / 21), the wildcard is q_K - 1 *)
  q_st : SM.sseq;                 (* the buffer: matrix, length, look-ahead rows *)
  q_text : list nat;              (* ghost: the symbols it holds *)
  q_ok : 2 <= q_K /\ SS.Striped q_K Ccols q_text q_st /\ Forall (fun x => x < q_K) q_text
}.

Definition sq_text (q : sq) : nat * list nat := (q_K q, q_text q).

(* ---------------------------------------------------------------- encode + stripe *)

Definition kof (a : PG.abc) : nat := PG.ksize a.

Lemma kof_ge2 a : 2 <= kof a.
Proof. destruct a; cbv; lia. Qed.

Fixpoint encode (a : PG.abc) (text : list Z) : option (list nat) :=
  match text with
  | [] => Some []
  | c :: r =>
      match PG.sym_index a c, encode a r with
      | Some i, Some l => Some (i :: l)
      | _, _ => None
      end
  end.

Lemma index_of_lt c l : forall i, PG.index_of c l = Some i -> i < length l.
Proof.
  induction l as [|x r IH]; intros i H; simpl in H; [discriminate|].
  destruct (x =? c)%Z; [inversion H; simpl; lia|].
  destruct (PG.index_of c r) as [j|]; simpl in H; inversion H; subst. specialize (IH j eq_refl). simpl. lia.
Qed.

Lemma encode_lt a text : forall s, encode a text = Some s -> Forall (fun x => x < kof a) s.
Proof.
  induction text as [|c r IH]; intros s H; simpl in H.
  - inversion H. constructor.
  - destruct (PG.sym_index a c) as [i|] eqn:Ei; [|discriminate].
    destruct (encode a r) as [l|]; [|discriminate]. inversion H; subst. constructor; [|apply IH; reflexivity].
    apply index_of_lt in Ei. exact Ei.
Qed.

Lemma stripe_pf K s st (HK : 2 <= K) (Hs : Forall (fun x => x < K) s) :
  SM.stripe_fresh K Ccols (SA.stripe_into K Ccols fresh_backend) s = Ok st ->
  2 <= K /\ SS.Striped K Ccols s st /\ Forall (fun x => x < K) s.
Proof.
  intros E.
  destruct (LMStripe.C04.C04_stripe_fresh_spec K Ccols fresh_backend s ltac:(unfold Ccols; lia) eq_refl) as [st' [E' [H _]]].
  rewrite E in E'. inversion E'; subst. auto.
Qed.

Definition stripe_of (K : nat) (HK : 2 <= K) (s : list nat) (Hs : Forall (fun x => x < K) s) (r : res SM.sseq) :
  SM.stripe_fresh K Ccols (SA.stripe_into K Ccols fresh_backend) s = r -> PG.cres sq :=
  match r as r0 return (SM.stripe_fresh K Ccols (SA.stripe_into K Ccols fresh_backend) s = r0 -> PG.cres sq) with
  | Ok st => fun E => PG.COk (mkSq K st s (stripe_pf K s st HK Hs E))
  | _ => fun _ => PG.CPanic
  end.

Definition stripe_opt (a : PG.abc) (text : list Z) (o : option (list nat)) : encode a text = o -> PG.cres sq :=
  match o as o0 return (encode a text = o0 -> PG.cres sq) with
  | Some s => fun E => stripe_of (kof a) (kof_ge2 a) s (encode_lt a text s E) _ eq_refl
  | None => fun _ => PG.CErr
  end.

Definition stripe_sq (a : PG.abc) (text : list Z) : PG.cres sq := stripe_opt a text _ eq_refl.

Lemma stripe_of_ok K HK s Hs : forall r E, exists q, stripe_of K HK s Hs r E = PG.COk q /\ q_K q = K /\ q_text q = s.
Proof.
  intros r E.
  destruct (LMStripe.C04.C04_stripe_fresh_spec K Ccols fresh_backend s ltac:(unfold Ccols; lia) eq_refl) as [st' [E' _]].
  assert (Hr : r = Ok st') by congruence. clear E'. revert E. rewrite Hr. intros E. eexists. split; [reflexivity|]. split; reflexivity.
Qed.

Lemma stripe_opt_spec a text : forall o E,
  match o with
  | Some s => exists q, stripe_opt a text o E = PG.COk q /\ q_K q = kof a /\ q_text q = s
  | None => stripe_opt a text o E = PG.CErr
  end.
Proof. intros o. destruct o as [s|]; intros E; cbn [stripe_opt]; [apply stripe_of_ok | reflexivity]. Qed.

Lemma stripe_sq_spec a text :
  match encode a text with
  | Some s => exists q, stripe_sq a text = PG.COk q /\ q_K q = kof a /\ q_text q = s
  | None => stripe_sq a text = PG.CErr
  end.
Proof. unfold stripe_sq. exact (stripe_opt_spec a text (encode a text) eq_refl). Qed.

(* ---------------------------------------------------------------- configure *)

Lemma conf_pf (q : sq) (M : nat) st' :
  SM.configure (q_K q) Ccols M (q_st q) = Ok st' ->
  2 <= q_K q /\ SS.Striped (q_K q) Ccols (q_text q) st' /\ Forall (fun x => x < q_K q) (q_text q).
Proof.
  destruct (q_ok q) as [HK [HS Hs]]. intros E.
  destruct (LMStripe.C04.C04_configure_spec (q_K q) Ccols (q_text q) (q_st q) M ltac:(unfold Ccols; lia) HS) as [st'' [E' [HS' _]]].
  rewrite E in E'. inversion E'; subst. auto.
Qed.

Definition configure_of (q : sq) (M : nat) (r : res SM.sseq) :
  SM.configure (q_K q) Ccols M (q_st q) = r -> PG.cres sq :=
  match r as r0 return (SM.configure (q_K q) Ccols M (q_st q) = r0 -> PG.cres sq) with
  | Ok st' => fun E => PG.COk (mkSq (q_K q) st' (q_text q) (conf_pf q M st' E))
  | _ => fun _ => PG.CPanic
  end.

Definition configure_sq (q : sq) (M : nat) : PG.cres sq := configure_of q M _ eq_refl.

Lemma configure_of_inv q M : forall r E q',
  configure_of q M r E = PG.COk q' -> r = Ok (q_st q') /\ q_K q' = q_K q /\ q_text q' = q_text q.
Proof. intros r. destruct r; intros E q' H; simpl in H; inversion H; subst; simpl; auto. Qed.

Lemma configure_of_total q M : forall r E st', r = Ok st' -> exists q', configure_of q M r E = PG.COk q'.
Proof. intros r E st' H. revert E. rewrite H. intros E. eexists. reflexivity. Qed.

Lemma configure_sq_spec q M :
  exists q', configure_sq q M = PG.COk q' /\ q_K q' = q_K q /\ q_text q' = q_text q /\
             SM.swrap (q_st q') = if M =? 0 then SM.swrap (q_st q) else Nat.max (SM.swrap (q_st q)) (M - 1).
Proof.
  destruct (q_ok q) as [HK [HS Hs]].
  destruct (LMStripe.C04.C04_configure_spec (q_K q) Ccols (q_text q) (q_st q) M ltac:(unfold Ccols; lia) HS) as [st' [E [_ Hw]]].
  assert (Hex : exists q', configure_sq q M = PG.COk q').
  { unfold configure_sq. exact (configure_of_total q M _ eq_refl st' E). }
  destruct Hex as [q' Hq]. exists q'. split; [exact Hq|].
  unfold configure_sq in Hq. apply configure_of_inv in Hq. destruct Hq as [Hr [H1 H2]].
  rewrite E in Hr. inversion Hr as [Hst]. split; [exact H1|]. split; [exact H2|]. rewrite <- Hst. exact Hw.
Qed.

Lemma configure_sq_inv q M q' :
  configure_sq q M = PG.COk q' ->
  q_K q' = q_K q /\ q_text q' = q_text q /\
  SM.swrap (q_st q') = if M =? 0 then SM.swrap (q_st q) else Nat.max (SM.swrap (q_st q)) (M - 1).
Proof.
  intros H. destruct (configure_sq_spec q M) as [q'' [H' R]]. rewrite H in H'. inversion H'; subst. exact R.
Qed.

(* ---------------------------------------------------------------- the scanner does not see extra look-ahead rows *)

(* Scanner::new + exhaustive iteration on two buffers that hold the same sequence and both carry the
   look-ahead rows the motif needs: the same result - hits IN THE SAME ORDER, or the same failure.
   No numeric hypothesis: both environments present the same position scores, the same byte blocks,
   the same row / position counts to ScanModel.collect (the env_ lemmas of ConcreteProofs), and collect is
   extensional in them (E2EKernelScan.kcollect_eq). *)
Lemma scan_buffer_wrap_indep (K C : nat) (pssm : list (list F32.t)) (sq : list nat) (st1 st2 : SM.sseq)
      (am : arm) (thr : F32.t) (B : nat) :
  SS.Striped K C sq st1 -> SS.Striped K C sq st2 ->
  length pssm - 1 <= SM.swrap st1 -> length pssm - 1 <= SM.swrap st2 ->
  2 <= K -> 1 <= C -> 1 <= length pssm ->
  Forall (fun row : list F32.t => length row = K) pssm -> Forall (fun x => x < K) sq ->
  e2e_scan_buffer K C pssm st1 am thr B = e2e_scan_buffer K C pssm st2 am thr B.
Proof.
  intros HS1 HS2 Hw1 Hw2 HK HC HM Hrows Hsym.
  unfold e2e_scan_buffer. rewrite (e_env_c_env K C pssm sq st1 HS1), (e_env_c_env K C pssm sq st2 HS2).
  destruct (to_discrete K pssm) as [dm| e| p|] eqn:Ed;
    try (unfold c_env; rewrite Ed; reflexivity).
  destruct (c_env_ok K C pssm sq (SM.swrap st1) dm Ed) as [v1 [E1 D1]].
  destruct (c_env_ok K C pssm sq (SM.swrap st2) dm Ed) as [v2 [E2 D2]].
  rewrite E1, E2. cbn [rbind].
  pose proof (buffer_wf_input K C pssm sq st1 Hw1 HK HC HM Hrows Hsym) as W1.
  pose proof (buffer_wf_input K C pssm sq st2 Hw2 HK HC HM Hrows Hsym) as W2.
  unfold ce_collect, ce_fuel, ce_scale.
  rewrite (env_R _ _ _ _ _ _ E1), (env_R _ _ _ _ _ _ E2).
  pose proof (env_Lm _ _ _ _ _ _ E1) as L1. pose proof (env_Lm _ _ _ _ _ _ E2) as L2.
  rewrite L1, L2.
  destruct (env_fields _ _ _ _ _ _ E1) as [C1 _]. destruct (env_fields _ _ _ _ _ _ E2) as [C2 _].
  rewrite C1, C2, D1, D2.
  set (R := seq_rows C (length sq)). set (Lm := length sq + 1 - length pssm).
  rewrite <- (kcollect_eq F32.ge F32.is_nan (c_scale dm) (ce_score_position v1) (ce_score_position v2)
                (ce_score_rows v1 am) (ce_score_rows v2 am) (fun d => Ok (dmax d)) dthreshold R Lm B thr).
  - apply kcollect_eq; auto.
  - intros i Hi.
    rewrite (env_score_position _ _ _ _ _ _ W1 E1 i) by (rewrite L1; exact Hi).
    rewrite (env_score_position _ _ _ _ _ _ W2 E2 i) by (rewrite L2; exact Hi).
    rewrite (env_cscore_spec _ _ _ _ _ _ W1 E1 i) by (rewrite L1; exact Hi).
    rewrite (env_cscore_spec _ _ _ _ _ _ W2 E2 i) by (rewrite L2; exact Hi).
    reflexivity.
  - intros a e Ha He.
    rewrite (env_score_rows _ _ _ _ _ _ W1 E1 am a e Ha) by (rewrite (env_R _ _ _ _ _ _ E1); exact He).
    rewrite (env_score_rows _ _ _ _ _ _ W2 E2 am a e Ha) by (rewrite (env_R _ _ _ _ _ _ E2); exact He).
    rewrite (env_R _ _ _ _ _ _ E1), (env_R _ _ _ _ _ _ E2), L1, L2, C1, C2. fold R Lm.
    f_equal. unfold block_spec. destruct (Lm =? 0); [reflexivity|].
    unfold mk_block. apply map_ext_in. intros r Hr. apply in_seq in Hr.
    apply map_ext_in. intros c Hc. apply in_seq in Hc.
    assert (Hr' : r < R) by lia. assert (Hc' : c < C) by lia.
    unfold R in *.
    rewrite (env_cdscore_spec _ _ _ _ _ _ W2 E2 r c Hr' Hc'), (env_cdscore_spec _ _ _ _ _ _ W1 E1 r c Hr' Hc').
    rewrite D1, D2. reflexivity.
  - intros a e d _ _ _. reflexivity.
  - intros d t. reflexivity.
Qed.

(* ---------------------------------------------------------------- the instance *)

Section Core.
  Variables CM FM WM SM0 SQ0 SC0 : Type.
  (* the operations NOT instantiated here: count / frequency / weight matrices, log-odds, reverse complement,
     max_score, score distributions, TFM-PVALUE, the readers - any core; its scoring matrices are used
     through the cells it exposes (c_sm_cells) *)
  Variable K0 : PG.core CM FM WM SM0 SQ0 SC0.
  (* StripedScores::{threshold, max, argmax} (C07): not instantiated either *)
  Variable thr_f : SCO.sscores F32.t -> Z -> PG.cres (list Z).
  Variable max_f : SCO.sscores F32.t -> PG.cres (option Z).
  Variable argmax_f : SCO.sscores F32.t -> PG.cres (option Z).

  Definition pssm_of (s : SM0) : list (list F32.t) := map (map F32.of_bits) (PG.c_sm_cells K0 s).
  Definition rows_of (s : SM0) : nat := length (PG.c_sm_cells K0 s).
  (* ScoringMatrix<A> and StripedSequence<A> of the same alphabet A: rows of K cells *)
  Definition typed (s : SM0) (q : sq) : bool := forallb (fun row : list Z => length row =? q_K q) (PG.c_sm_cells K0 s).

  Definition m_configure (q : sq) (s : SM0) : PG.cres sq := configure_sq q (rows_of s).

  (* Pipeline::score: the generic pipeline of coq/score on the buffer; the guards are those of the SIMD
     arms (C01_simd_guard_unconfigured: Panic when fewer than M - 1 look-ahead rows; the AVX2 kernel
     computes M - 1 on an empty matrix) *)
  Definition m_score (s : SM0) (q : sq) : PG.cres (SCO.sscores F32.t) :=
    if negb (typed s q) then PG.CPanic else
    if rows_of s =? 0 then PG.CPanic else
    if SM.swrap (q_st q) <? rows_of s - 1 then PG.CPanic else
    match SCO.generic_score F32.add F32.zero Ccols (pssm_of s) (SB.of_stripe (q_st q)) with
    | Ok sc => PG.COk sc
    | _ => PG.CPanic
    end.

  Definition hit_out (h : fhit) : Z * Z := (Z.of_nat (fst h), F32.to_bits (snd h)).

  (* Scanner::new(&pssm, &seq).threshold(t).block_size(b), iterated to exhaustion *)
  Definition m_scan (s : SM0) (q : sq) (t b : Z) : PG.cres (list (Z * Z)) :=
    if negb (typed s q) then PG.CPanic else
    if rows_of s =? 0 then PG.CPanic else
    if SM.swrap (q_st q) <? rows_of s - 1 then PG.CPanic else
    if (b <=? 0)%Z then PG.CPanic else
    match e2e_scan_buffer (q_K q) Ccols (pssm_of s) (q_st q) Avx2 (F32.of_bits t) (Z.to_nat b) with
    | Ok H => PG.COk (map hit_out H)
    | _ => PG.CPanic
    end.

  Definition core_of_models : PG.core CM FM WM SM0 sq (SCO.sscores F32.t) := {|
    PG.c_count_new := PG.c_count_new K0; PG.c_encode_ok := PG.c_encode_ok K0; PG.c_from_seqs := PG.c_from_seqs K0;
    PG.c_to_freq := PG.c_to_freq K0; PG.c_to_weight := PG.c_to_weight K0; PG.c_bg_uniform := PG.c_bg_uniform K0;
    PG.c_bg_new := PG.c_bg_new K0; PG.c_w_bg := PG.c_w_bg K0; PG.c_rescale := PG.c_rescale K0;
    PG.c_to_scoring_base := PG.c_to_scoring_base K0; PG.c_scoring_new := PG.c_scoring_new K0;
    PG.c_revcomp := PG.c_revcomp K0; PG.c_max_score := PG.c_max_score K0; PG.c_sm_cells := PG.c_sm_cells K0;
    PG.c_cm_eq := PG.c_cm_eq K0; PG.c_wm_eq := PG.c_wm_eq K0; PG.c_sm_eq := PG.c_sm_eq K0;
    PG.c_dist_sf := PG.c_dist_sf K0;
    PG.c_stripe := stripe_sq;
    PG.c_configure := m_configure;
    PG.c_score := m_score;
    PG.c_threshold := thr_f; PG.c_max := max_f; PG.c_argmax := argmax_f;
    PG.c_dist_pvalue := PG.c_dist_pvalue K0; PG.c_dist_score := PG.c_dist_score K0;
    PG.c_tfm_pvalue := PG.c_tfm_pvalue K0; PG.c_tfm_score := PG.c_tfm_score K0;
    PG.c_scan := m_scan;
    PG.c_read := PG.c_read K0; PG.c_read_faulty := PG.c_read_faulty K0; PG.c_lazy_next := PG.c_lazy_next K0
  |}.

  (* the sequence carries the look-ahead rows the matrix needs *)
  Definition wrap_ok (s : SM0) (q : sq) : Prop := rows_of s - 1 <= SM.swrap (q_st q).

  (* ---------------------------------------------------------------- the five history hypotheses *)

  Lemma pycore_conf_total_l : forall q s, exists q', PG.c_configure core_of_models q s = PG.COk q'.
  Proof. intros q s. destruct (configure_sq_spec q (rows_of s)) as [q' [H _]]. exists q'. exact H. Qed.

  Lemma pycore_conf_text_l : forall q s q', PG.c_configure core_of_models q s = PG.COk q' -> sq_text q' = sq_text q.
  Proof.
    intros q s q' H. apply configure_sq_inv in H. destruct H as [H1 [H2 _]]. unfold sq_text. rewrite H1, H2. reflexivity.
  Qed.

  Lemma pycore_conf_ok_l : forall q s q', PG.c_configure core_of_models q s = PG.COk q' -> wrap_ok s q'.
  Proof.
    intros q s q' H. apply configure_sq_inv in H. destruct H as [_ [_ H]]. unfold wrap_ok. rewrite H.
    destruct (rows_of s =? 0) eqn:E; [apply Nat.eqb_eq in E; lia | lia].
  Qed.

  Lemma typed_text s q1 q2 : sq_text q1 = sq_text q2 -> typed s q1 = typed s q2.
  Proof. unfold sq_text, typed. intros H. inversion H as [[HK Ht]]. rewrite HK. reflexivity. Qed.

  Lemma typed_wf s q : typed s q = true -> Forall (fun row : list F32.t => length row = q_K q) (pssm_of s).
  Proof.
    unfold typed, pssm_of. intros H. rewrite forallb_forall in H. apply Forall_forall. intros row Hin.
    apply in_map_iff in Hin. destruct Hin as [r [<- Hr]]. rewrite map_length. apply Nat.eqb_eq. apply H. exact Hr.
  Qed.

  Lemma pssm_of_length s : length (pssm_of s) = rows_of s.
  Proof. unfold pssm_of, rows_of. apply map_length. Qed.

  (* Pipeline::score on a configured sequence is a function of the symbols only: the whole StripedScores
     value, not just the scores read back from it *)
  Lemma pycore_score_text_l : forall s q1 q2,
    wrap_ok s q1 -> wrap_ok s q2 -> sq_text q1 = sq_text q2 ->
    PG.c_score core_of_models s q1 = PG.c_score core_of_models s q2.
  Proof.
    intros s q1 q2 W1 W2 Ht. cbn [PG.c_score core_of_models]. unfold m_score.
    rewrite (typed_text s q1 q2 Ht). destruct (typed s q2) eqn:Ety; cbn [negb]; [|reflexivity].
    destruct (rows_of s =? 0) eqn:EM; [reflexivity|]. apply Nat.eqb_neq in EM.
    unfold wrap_ok in W1, W2.
    replace (SM.swrap (q_st q1) <? rows_of s - 1) with false by (symmetry; apply Nat.ltb_ge; exact W1).
    replace (SM.swrap (q_st q2) <? rows_of s - 1) with false by (symmetry; apply Nat.ltb_ge; exact W2).
    destruct (q_ok q1) as [HK1 [HS1 Hs1]]. destruct (q_ok q2) as [HK2 [HS2 Hs2]].
    unfold sq_text in Ht. inversion Ht as [[HK Htx]].
    apply SB.striped_bridge in HS1. apply SB.striped_bridge in HS2.
    rewrite HK, Htx in HS1. rewrite HK, Htx in Hs1.
    pose proof (typed_wf s q2 Ety) as Hwf.
    destruct (Nat.lt_ge_cases (length (q_text q2)) (length (pssm_of s))) as [Hshort|Hlong].
    - rewrite (SP.generic_score_short F32.add F32.zero Ccols (q_K q2) (pssm_of s) (q_text q2) _ HS1 Hshort).
      rewrite (SP.generic_score_short F32.add F32.zero Ccols (q_K q2) (pssm_of s) (q_text q2) _ HS2 Hshort).
      reflexivity.
    - rewrite (SP.generic_score_striped F32.add F32.zero Ccols (q_K q2) (pssm_of s) (q_text q2) (SB.of_stripe (q_st q1)));
        try assumption; try (unfold Ccols; lia); try (rewrite pssm_of_length; cbn; lia).
      rewrite (SP.generic_score_striped F32.add F32.zero Ccols (q_K q2) (pssm_of s) (q_text q2) (SB.of_stripe (q_st q2)));
        try assumption; try (unfold Ccols; lia); try (rewrite pssm_of_length; cbn; lia).
      reflexivity.
  Qed.

  (* the scanner's hits, in iteration order, are a function of the symbols only *)
  Lemma pycore_scan_text_l : forall s q1 q2 t b,
    wrap_ok s q1 -> wrap_ok s q2 -> sq_text q1 = sq_text q2 ->
    PG.c_scan core_of_models s q1 t b = PG.c_scan core_of_models s q2 t b.
  Proof.
    intros s q1 q2 t b W1 W2 Ht. cbn [PG.c_scan core_of_models]. unfold m_scan.
    rewrite (typed_text s q1 q2 Ht). destruct (typed s q2) eqn:Ety; cbn [negb]; [|reflexivity].
    destruct (rows_of s =? 0) eqn:EM; [reflexivity|]. apply Nat.eqb_neq in EM.
    unfold wrap_ok in W1, W2.
    replace (SM.swrap (q_st q1) <? rows_of s - 1) with false by (symmetry; apply Nat.ltb_ge; exact W1).
    replace (SM.swrap (q_st q2) <? rows_of s - 1) with false by (symmetry; apply Nat.ltb_ge; exact W2).
    destruct (b <=? 0)%Z; [reflexivity|].
    destruct (q_ok q1) as [HK1 [HS1 Hs1]]. destruct (q_ok q2) as [HK2 [HS2 Hs2]].
    unfold sq_text in Ht. inversion Ht as [[HK Htx]].
    rewrite HK, Htx in HS1.
    rewrite HK.
    rewrite (scan_buffer_wrap_indep (q_K q2) Ccols (pssm_of s) (q_text q2) (q_st q1) (q_st q2) Avx2 (F32.of_bits t) (Z.to_nat b));
      try assumption; try (unfold Ccols; lia); try (rewrite pssm_of_length; lia).
    - reflexivity.
    - apply typed_wf. exact Ety.
  Qed.

  (* ---------------------------------------------------------------- scan_stable *)

  Lemma pycore_scan_stable_l : PyGlueLazyProofs.scan_stable CM FM WM SM0 sq (SCO.sscores F32.t) core_of_models.
  Proof.
    intros s q t b h s' q' Hscan Hconf.
    pose proof (pycore_conf_text_l q s' q' Hconf) as Ht.
    cbn [PG.c_configure core_of_models] in Hconf. unfold m_configure in Hconf.
    apply configure_sq_inv in Hconf. destruct Hconf as [_ [_ Hw]].
    (* a successful scan means the sequence was configured for s; the new state has at least as many rows *)
    assert (W : wrap_ok s q).
    { cbn [PG.c_scan core_of_models] in Hscan. unfold m_scan in Hscan.
      destruct (negb (typed s q)); [discriminate|]. destruct (rows_of s =? 0); [discriminate|].
      destruct (SM.swrap (q_st q) <? rows_of s - 1) eqn:E; [discriminate|]. apply Nat.ltb_ge in E. exact E. }
    assert (W' : wrap_ok s q').
    { unfold wrap_ok in *. rewrite Hw. destruct (rows_of s' =? 0); lia. }
    rewrite <- Hscan. symmetry. apply pycore_scan_text_l; auto.
  Qed.

  (* ---------------------------------------------------------------- typing and the named rest *)

  Definition scan_numeric (s : SM0) (a : PG.abc) : Prop :=
    PG.ordered_ok false (PG.c_sm_cells K0 s) = true -> PG.sm_empty (PG.c_sm_cells K0 s) = false ->
    LMScan.DiscBridge.finite_nonwild (kof a) (pssm_of s) /\ c08_main_clause (kof a) (pssm_of s).
  Definition sm_ty (s : SM0) (a : PG.abc) : Prop :=
    forallb (fun row : list Z => length row =? kof a) (PG.c_sm_cells K0 s) = true /\ scan_numeric s a.
  Definition sq_ty (q : sq) (a : PG.abc) : Prop := q_K q = kof a.

  Record rest_total : Prop := {
    rt_count_new : forall a m, PG.c_count_new K0 a m <> PG.CPanic;
    rt_encode_ok : forall a s, PG.c_encode_ok K0 a s <> PG.CPanic;
    rt_from_seqs : forall a l, PG.c_from_seqs K0 a l <> PG.CPanic;
    rt_bg_new : forall a p, PG.c_bg_new K0 a p <> PG.CPanic;
    rt_to_freq : forall c p, exists v, PG.c_to_freq K0 c p = PG.COk v;
    rt_to_weight : forall f, exists v, PG.c_to_weight K0 f = PG.COk v;
    rt_rescale : forall w g, exists v, PG.c_rescale K0 w g = PG.COk v;
    rt_to_scoring_base : forall w b, PG.base_invalid b = false -> exists v, PG.c_to_scoring_base K0 w b = PG.COk v;
    rt_scoring_new : forall a g m, exists v, PG.c_scoring_new K0 a g m = PG.COk v;
    rt_revcomp : forall s, exists v, PG.c_revcomp K0 s = PG.COk v;
    rt_max_score : forall s, PG.ordered_ok false (PG.c_sm_cells K0 s) = true -> exists v, PG.c_max_score K0 s = PG.COk v;
    rt_threshold : forall sc t, exists v, thr_f sc t = PG.COk v;
    rt_max : forall sc, exists v, max_f sc = PG.COk v;
    rt_argmax : forall sc, exists v, argmax_f sc = PG.COk v;
    rt_dist_pvalue : forall s x, PG.ordered_ok true (PG.c_sm_cells K0 s) = true -> PG.f32_is_nan x = false ->
                     exists v, PG.c_dist_pvalue K0 s x = PG.COk v;
    rt_dist_score : forall s p, PG.ordered_ok true (PG.c_sm_cells K0 s) = true -> PG.pvalue_in_range p = true ->
                    exists v, PG.c_dist_score K0 s p = PG.COk v;
    rt_tfm_pvalue : forall s x, PG.finite_ok (PG.c_sm_cells K0 s) = true -> PG.f64_is_nan x = false -> PG.f64_is_inf x = false ->
                    exists v, PG.c_tfm_pvalue K0 s x = PG.COk v;
    rt_tfm_score : forall s p, PG.finite_ok (PG.c_sm_cells K0 s) = true -> PG.pvalue_in_range p = true ->
                   exists v, PG.c_tfm_score K0 s p = PG.COk v;
    rt_dist_sf : forall s, PG.ordered_ok true (PG.c_sm_cells K0 s) = true -> exists v, PG.c_dist_sf K0 s = PG.COk v;
    rt_read : forall f a bs, ~ In (PG.RPanic CM FM) (PG.c_read K0 f a bs)
  }.

  Lemma typed_of_ty s q a : sm_ty s a -> sq_ty q a -> typed s q = true.
  Proof. unfold sm_ty, sq_ty, typed. intros [H _] ->. exact H. Qed.

End Core.

