(* Bridges between the groups' models of the EXACT TAIL P(S >= t) of the score of a random
   background-distributed word (exact rational arithmetic):

     coq/dist  DistInst.tail_exact m bg t    recursion over the rows of a matrix of [cell Q]
               (= DistInst.tail_words, the literal sum over all K^M words: C11_tail_is_word_sum)
     coq/tfm   TfmLink.Ptail rows bg t       = TfmSpec.tailS over the K-1 symbol cells, [wsum]
     C01       tail_c01: the word sum with the score of a word computed by C01's score_def
               (coq/score ScoreModel.score_def on the word itself, position 0)

   All three are the same number when the background has no wildcard mass (the setting of
   C12 / C13; C11 allows wildcard mass and -inf cells, which tfm's matrices cannot hold). *)
From Coq Require Import List Arith Bool Lia ZArith QArith Lqa.
From LMBase Require Import Res ListX.
From LMScore Require ScoreModel.
From LMDist Require DistModel DistInst DistConv DistDyadic DistWords.
From LMTfm Require TfmSpec TfmProofs TfmLink.
Import ListNotations.
Local Open Scope Q_scope.

Module DMo := LMDist.DistModel.
Module DI := LMDist.DistInst.
Module DW := LMDist.DistWords.
Module TS := LMTfm.TfmSpec.
Module TP := LMTfm.TfmProofs.
Module TL := LMTfm.TfmLink.
Module SCO := LMScore.ScoreModel.

(* the two groups' list sums are the same function *)
Lemma Qsum_same (l : list Q) : DI.Qsum l = TS.Qsum l.
Proof. induction l as [|x l IH]; simpl; [reflexivity|]. now rewrite IH. Qed.

(* ---------- list helpers ---------- *)

Lemma combine_app_eq {A B} (a1 a2 : list A) (b1 b2 : list B) :
  length a1 = length b1 -> combine (a1 ++ a2) (b1 ++ b2) = combine a1 b1 ++ combine a2 b2.
Proof.
  revert b1. induction a1 as [|x a1 IH]; intros [|y b1] H; simpl in *; try discriminate; [reflexivity|].
  f_equal. apply IH. lia.
Qed.

Lemma combine_trunc {A B} (a : list A) (b1 b2 : list B) :
  length a = length b1 -> combine a (b1 ++ b2) = combine a b1.
Proof.
  revert b1. induction a as [|x a IH]; intros [|y b1] H; simpl in *; try discriminate; [reflexivity|].
  f_equal. apply IH. lia.
Qed.

Lemma combine_map_l' {A B C} (f : A -> C) (l : list A) (l' : list B) :
  combine (map f l) l' = map (fun ab => (f (fst ab), snd ab)) (combine l l').
Proof. revert l'; induction l as [|a r IH]; intros [|b r']; simpl; auto. now rewrite IH. Qed.

Lemma removelast_app1 {A} (l : list A) (x : A) : removelast (l ++ [x]) = l.
Proof. rewrite removelast_app by discriminate. simpl. apply app_nil_r. Qed.

(* ---------- dist's recursion = tfm's weighted sum ---------- *)

(* rows given as (symbol cells, wildcard cell); background = bg0 ++ [bl], bl the wildcard weight *)
Lemma tail_bridge_rows (bg0 : list Q) (bl : Q) :
  bl == 0 ->
  forall (rows : list (list Q * DMo.cell Q)) (t : Q),
    Forall (fun r => length (fst r) = length bg0) rows ->
    DI.tail_exact (map (fun r => map DMo.CFin (fst r) ++ [snd r]) rows) (bg0 ++ [bl]) t ==
    TS.tailS (map fst rows) (bg0 ++ [bl]) t.
Proof.
  intros Hbl. induction rows as [|[c w] rows IH]; intros t Hlen.
  - unfold DI.tail_exact, TS.tailS, TS.srows. cbn. unfold DI.base_tail, TS.ind.
    destruct (Qle_bool t 0); reflexivity.
  - inversion Hlen as [|? ? Hc Hrest]; subst. cbn [fst snd] in Hc.
    cbn [map fst snd]. rewrite DW.tail_exact_cons, DW.tail_step_unfold.
    rewrite (combine_app_eq (map DMo.CFin c) [w] bg0 [bl]) by (now rewrite map_length).
    rewrite map_app, LMDist.DistConv.Qsum_app. cbn [combine map DI.Qsum].
    assert (Ew : DW.step_term (DI.tail_exact (map (fun r => map DMo.CFin (fst r) ++ [snd r]) rows) (bg0 ++ [bl])) t (w, bl) == 0).
    { unfold DW.step_term. cbn [fst snd]. destruct w as [x|]; [|reflexivity].
      etransitivity; [apply Qmult_comp; [exact Hbl|reflexivity]|ring]. }
    rewrite Ew.
    unfold TS.tailS, TS.srows. cbn [map TS.wsum].
    rewrite (combine_trunc c bg0 [bl] Hc).
    rewrite combine_map_l', map_map, Qsum_same.
    assert (E : TS.Qsum (map (fun x : Q * Q =>
                   DW.step_term (DI.tail_exact (map (fun r => map DMo.CFin (fst r) ++ [snd r]) rows) (bg0 ++ [bl]))
                     t (DMo.CFin (fst x), snd x)) (combine c bg0)) ==
                TS.Qsum (map (fun ab : Q * Q =>
                   snd ab * TS.wsum (map (fun r : list Q => combine r (bg0 ++ [bl])) (map fst rows))
                              (fun l : list Q => TS.ind (Qle_bool t (TS.Qsum (fst ab :: l))))) (combine c bg0))).
    { apply TP.Qsum_eq_map. intros [x b] _. unfold DW.step_term. cbn [fst snd].
      rewrite (IH (t - x) Hrest). unfold TS.tailS, TS.srows.
      apply Qmult_comp; [reflexivity|]. apply TP.wsum_ext_in. intros l _.
      cbn [TS.Qsum]. now rewrite DW.Qle_bool_shift. }
    rewrite E. ring.
Qed.

(* ---------- matrices with optional (-inf) cells, as the conversion chain produces them ---------- *)

(* a scoring matrix over Q with -inf = None; the two groups' views of it *)
Definition ocellD (c : option Q) : DMo.cell Q := match c with Some q => DMo.CFin q | None => DMo.CNInf end.
Definition ocellT (c : option Q) : Q := match c with Some q => q | None => 0 end.
Definition dmat (sm : list (list (option Q))) : list (list (DMo.cell Q)) := map (map ocellD) sm.
Definition trows (sm : list (list (option Q))) : list (list Q) := map (map ocellT) sm.

(* rows of K cells whose K-1 symbol cells are finite (the wildcard cell is free) *)
Definition sym_finite (K : nat) (sm : list (list (option Q))) : Prop :=
  Forall (fun row => length row = K /\ Forall (fun c => c <> None) (removelast row)) sm.

Lemma row_split (K : nat) (row : list (option Q)) :
  (1 <= K)%nat -> length row = K -> Forall (fun c => c <> None) (removelast row) ->
  exists (cs : list Q) (w : option Q), row = map Some cs ++ [w] /\ length cs = (K - 1)%nat.
Proof.
  intros HK Hl Hf.
  destruct (@exists_last _ row) as (l & w & E); [intros E; rewrite E in Hl; simpl in Hl; lia|].
  subst row. rewrite removelast_app1 in Hf. rewrite app_length in Hl. simpl in Hl.
  exists (map ocellT l), w. split; [|rewrite map_length; lia].
  f_equal. rewrite map_map. rewrite <- (map_id l) at 1. apply map_ext_in. intros c Hc.
  rewrite Forall_forall in Hf. specialize (Hf c Hc). destruct c; [reflexivity|congruence].
Qed.

(* THE BRIDGE: dist's exact tail of the matrix = tfm's exact tail of the same matrix *)
Theorem tail_dist_tfm (K : nat) (sm : list (list (option Q))) (bg : list Q) (t : Q) :
  (1 <= K)%nat -> sym_finite K sm -> length bg = K -> last bg 0 == 0 ->
  DI.tail_exact (dmat sm) bg t == TL.Ptail (trows sm) bg t.
Proof.
  intros HK Hsm Hbg Hlast.
  destruct (@exists_last _ bg) as (bg0 & bl & Ebg); [intros E; rewrite E in Hbg; simpl in Hbg; lia|].
  subst bg. rewrite last_last in Hlast. rewrite app_length in Hbg. simpl in Hbg.
  assert (Hrows : exists rows : list (list Q * DMo.cell Q),
            dmat sm = map (fun r => map DMo.CFin (fst r) ++ [snd r]) rows /\
            TL.sym_cells (trows sm) = map fst rows /\
            Forall (fun r => length (fst r) = length bg0) rows).
  { unfold sym_finite in Hsm. induction sm as [|row sm IH].
    - exists []. repeat split; constructor.
    - inversion Hsm as [|? ? (Hl & Hf) Hrest]; subst.
      destruct (IH Hrest) as (rows & E1 & E2 & E3).
      destruct (row_split _ row HK Hl Hf) as (cs & w & Er & Hcs).
      exists ((cs, ocellD w) :: rows). split; [|split].
      + cbn [dmat map fst snd]. fold (dmat sm). rewrite E1. f_equal.
        rewrite Er, map_app, map_map. reflexivity.
      + unfold TL.sym_cells, trows in *. cbn [map fst]. rewrite E2. f_equal.
        rewrite Er, map_app, map_map. cbn [map]. rewrite removelast_app1.
        rewrite <- (map_id cs) at 2. apply map_ext. reflexivity.
      + constructor; [cbn [fst]; lia|exact E3]. }
  destruct Hrows as (rows & E1 & E2 & E3).
  unfold TL.Ptail. rewrite E1, E2. now apply tail_bridge_rows.
Qed.

(* ---------- the word sum over C01's score_def ---------- *)

(* -inf absorbing addition on option Q *)
Definition oadd (a b : option Q) : option Q :=
  match a, b with Some x, Some y => Some (x + y) | _, _ => None end.

(* the score of a word w (one symbol per matrix row) by C01's definition: the left fold
   ((0 + m[0][w0]) + m[1][w1]) + ... of coq/score's score_def on the word as the sequence, position 0 *)
Definition score_c01 (K : nat) (sm : list (list (option Q))) (w : list nat) : option Q :=
  SCO.score_def oadd (Some 0) (K - 1) sm w 0.

(* P(S >= t) as the literal sum over all K^M words of weight(w) * [score_c01 w >= t] *)
Definition tail_c01 (K : nat) (sm : list (list (option Q))) (bg : list Q) (t : Q) : Q :=
  DI.Qsum (map (fun w => match score_c01 K sm w with
                         | Some s => if Qle_bool t s then DI.word_weight bg w else 0
                         | None => 0
                         end) (DI.all_words K (length sm))).

Lemma fold_oadd_none (l : list (option Q)) : fold_left oadd l None = None.
Proof. induction l as [|c l IH]; simpl; auto. Qed.

Lemma in_all_words (K M : nat) (w : list nat) :
  In w (DI.all_words K M) -> length w = M /\ Forall (fun a => (a < K)%nat) w.
Proof.
  revert w. induction M as [|M IH]; intros w H; simpl in H.
  - destruct H as [<-|[]]. split; [reflexivity|constructor].
  - apply in_flat_map in H. destruct H as (a & Ha & Hw). apply in_seq in Ha.
    apply in_map_iff in Hw. destruct Hw as (w' & <- & Hw'). destruct (IH w' Hw') as (Hl & Hf).
    split; [simpl; lia|constructor; [lia|exact Hf]].
Qed.

(* C01's left fold over the cells a word selects = dist's word score (right-nested sum), -inf alike *)
Lemma word_score_acc (K : nat) : forall (sm : list (list (option Q))) (w pre : list nat) (acc : Q),
  Forall (fun row => length row = K) sm -> length w = length sm -> Forall (fun a => (a < K)%nat) w ->
  match DI.word_S (dmat sm) w with
  | Some s => exists s', fold_left oadd (SCO.terms_from (Some 0) (length pre) sm (fun j => nth j (pre ++ w) (K - 1)%nat))
                                   (Some acc) = Some s' /\ s' == acc + s
  | None => fold_left oadd (SCO.terms_from (Some 0) (length pre) sm (fun j => nth j (pre ++ w) (K - 1)%nat))
                      (Some acc) = None
  end.
Proof.
  induction sm as [|row sm IH]; intros w pre acc Hrows Hlen Hsym.
  - destruct w; [|discriminate]. cbn. exists acc. split; [reflexivity|ring].
  - destruct w as [|a w]; [discriminate|].
    inversion Hrows as [|? ? Hrow Hrest]; subst. inversion Hsym as [|? ? Ha Hsym']; subst.
    cbn [dmat map DI.word_S SCO.terms_from fold_left]. fold (dmat sm).
    rewrite nth_error_map, (nth_error_nth' row (Some 0)) by lia. cbn [option_map].
    rewrite app_nth2 by lia. rewrite Nat.sub_diag. cbn [nth].
    assert (Epre : forall j, nth j (pre ++ a :: w) (length row - 1)%nat = nth j ((pre ++ [a]) ++ w) (length row - 1)%nat)
      by (intros j; now rewrite <- app_assoc).
    assert (Et : SCO.terms_from (Some 0) (S (length pre)) sm (fun j => nth j (pre ++ a :: w) (length row - 1)%nat) =
                 SCO.terms_from (Some 0) (length (pre ++ [a])) sm (fun j => nth j ((pre ++ [a]) ++ w) (length row - 1)%nat)).
    { rewrite app_length. cbn [length]. rewrite Nat.add_1_r.
      generalize (S (length pre)). clear -Epre. induction sm as [|r sm IHs]; intros j; simpl; [reflexivity|].
      rewrite Epre. f_equal. apply IHs. }
    rewrite Et.
    destruct (nth a row (Some 0)) as [x|] eqn:Ec; cbn [ocellD oadd].
    + specialize (IH w (pre ++ [a]) (acc + x) Hrest ltac:(simpl in Hlen; lia) Hsym').
      destruct (DI.word_S (dmat sm) w) as [s|]; cbn [option_map].
      * destruct IH as (s' & E & Hs). exists s'. split; [exact E|]. rewrite Hs. ring.
      * exact IH.
    + apply fold_oadd_none.
Qed.

Lemma word_score_agree (K : nat) (sm : list (list (option Q))) (w : list nat) :
  Forall (fun row => length row = K) sm -> length w = length sm -> Forall (fun a => (a < K)%nat) w ->
  match DI.word_S (dmat sm) w with
  | Some s => exists s', score_c01 K sm w = Some s' /\ s' == s
  | None => score_c01 K sm w = None
  end.
Proof.
  intros Hrows Hlen Hsym. pose proof (word_score_acc K sm w [] 0 Hrows Hlen Hsym) as H.
  unfold score_c01, SCO.score_def, SCO.score_terms. cbn [length app Nat.add] in *.
  destruct (DI.word_S (dmat sm) w) as [s|]; [|exact H].
  destruct H as (s' & E & Hs). exists s'. split; [exact E|]. rewrite Hs. ring.
Qed.

Lemma Qle_bool_eq (t a b : Q) : a == b -> Qle_bool t a = Qle_bool t b.
Proof.
  intros E. destruct (Qle_bool t b) eqn:Eb.
  - apply Qle_bool_iff. apply Qle_bool_iff in Eb. now rewrite E.
  - destruct (Qle_bool t a) eqn:Ea; [|reflexivity]. apply Qle_bool_iff in Ea. rewrite E in Ea.
    apply Qle_bool_iff in Ea. congruence.
Qed.

(* the word sum over C01's score_def is dist's word sum, hence dist's recursive tail *)
Theorem tail_c01_dist (K : nat) (sm : list (list (option Q))) (bg : list Q) (t : Q) :
  Forall (fun row => length row = K) sm -> length bg = K ->
  tail_c01 K sm bg t == DI.tail_exact (dmat sm) bg t.
Proof.
  intros Hrows Hbg.
  rewrite (DW.tail_exact_is_word_sum (dmat sm) bg t).
  - unfold tail_c01, DI.tail_words. rewrite Hbg. unfold dmat at 2. rewrite map_length.
    apply LMDist.DistConv.Qsum_map_ext. intros w Hw. apply in_all_words in Hw. destruct Hw as (Hl & Hf).
    pose proof (word_score_agree K sm w Hrows Hl Hf) as H. unfold DI.word_term.
    destruct (DI.word_S (dmat sm) w) as [s|].
    + destruct H as (s' & -> & Hs). rewrite (Qle_bool_eq t s' s Hs). reflexivity.
    + rewrite H. reflexivity.
  - unfold dmat. apply Forall_map. eapply Forall_impl; [|exact Hrows]. intros row Hr. now rewrite map_length, Hr.
Qed.

(* all three *)
Theorem tails_agree (K : nat) (sm : list (list (option Q))) (bg : list Q) (t : Q) :
  (1 <= K)%nat -> sym_finite K sm -> length bg = K -> last bg 0 == 0 ->
  tail_c01 K sm bg t == DI.tail_exact (dmat sm) bg t /\
  DI.tail_exact (dmat sm) bg t == TL.Ptail (trows sm) bg t.
Proof.
  intros HK Hsm Hbg Hlast. split.
  - apply tail_c01_dist; [|exact Hbg]. eapply Forall_impl; [|exact Hsm]. intros row (H & _). exact H.
  - now apply (tail_dist_tfm K).
Qed.
