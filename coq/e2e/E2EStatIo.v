(* Counts through a file: a count matrix over DNA or protein printed in JASPAR 2016 form (any layout
   the format allows) and read back by the reader model of coq/io (property C14's round trip) is the
   same count matrix, hence gives the same conversion chain and the same statistics.

   The symbol letter of column k is looked up in io's GENERATED from_ascii table of the alphabet
   (GenIoAbc.gen_dna_from_ascii / gen_protein_from_ascii, regenerated from abc.rs on every run): nothing
   about the alphabets is written down here; [letters_ok] (letter k has index k, for all k < K) is
   checked by computation on the generated tables.

   Bridge: io's record matrix (rmatrix : list (list N), row i / column k = count of symbol k at
   motif position i) IS pwm's count matrix type (cmatrix = list (list N)); no conversion.
   Also here: a decimal printer for counts with  dec_value (dec_of n) = n. *)
From Coq Require Import List Arith Bool Lia ZArith NArith.
From LMBase Require Import Res ListX.
From LMIo Require Import IoBase IoNom IoJaspar IoPrint.
From LMIo Require C14io.
Import ListNotations.

(* ---------- decimal printing ---------- *)

Fixpoint digits_fuel (fuel : nat) (n : N) (acc : list N) : list N :=
  match fuel with
  | O => acc
  | S f => let acc' := (48 + n mod 10)%N :: acc in
           if (n / 10 =? 0)%N then acc' else digits_fuel f (n / 10)%N acc'
  end.

(* enough fuel for every u32 (10 digits) *)
Definition dec_of (n : N) : list N := digits_fuel 11 n [].

Definition dstep (acc c : N) : N := (acc * 10 + (c - 48))%N.

Lemma digits_value : forall (fuel : nat) (n : N) (acc : list N),
  (n < 10 ^ N.of_nat fuel)%N ->
  fold_left dstep (digits_fuel fuel n acc) 0%N = fold_left dstep acc n.
Proof.
  induction fuel as [|f IH]; intros n acc Hn.
  - simpl in Hn. assert (n = 0%N) by lia. subst. reflexivity.
  - cbn [digits_fuel]. cbv zeta.
    assert (Hd : (n = 10 * (n / 10) + n mod 10)%N) by (apply N.div_mod; lia).
    assert (Hm : (n mod 10 < 10)%N) by (apply N.mod_upper_bound; lia).
    destruct (N.eqb_spec (n / 10) 0) as [E|E].
    + cbn [fold_left]. unfold dstep at 2. f_equal. lia.
    + rewrite IH.
      * cbn [fold_left]. unfold dstep at 2. f_equal. lia.
      * rewrite Nat2N.inj_succ, N.pow_succ_r' in Hn. apply N.div_lt_upper_bound; lia.
Qed.

Lemma dec_value_dec_of (n : N) : (n <= u32_max)%N -> dec_value (dec_of n) = n.
Proof.
  intros Hn. unfold dec_value, dec_of. change (fun acc c : N => (acc * 10 + (c - 48))%N) with dstep.
  rewrite digits_value; [reflexivity|]. unfold u32_max in Hn. cbn. lia.
Qed.

Lemma digits_shape : forall (fuel : nat) (n : N) (acc : list N),
  forallb is_digit acc = true ->
  forallb is_digit (digits_fuel fuel n acc) = true /\ (fuel <> 0 -> digits_fuel fuel n acc <> []).
Proof.
  induction fuel as [|f IH]; intros n acc Hacc; [split; [exact Hacc|congruence]|].
  cbn [digits_fuel]. cbv zeta.
  assert (Hm : (n mod 10 < 10)%N) by (apply N.mod_upper_bound; lia).
  assert (Hd : forallb is_digit ((48 + n mod 10)%N :: acc) = true).
  { cbn [forallb]. rewrite Hacc, andb_true_r. unfold is_digit, in_range.
    apply andb_true_iff. split; apply N.leb_le; lia. }
  destruct (n / 10 =? 0)%N.
  - split; [exact Hd|discriminate].
  - destruct (IH (n / 10)%N _ Hd) as (H1 & H2). split; [exact H1|]. intros _.
    destruct f; [cbn; discriminate|]. apply H2. discriminate.
Qed.

Lemma wf_count_dec_of (n : N) : (n <= u32_max)%N -> wf_count (dec_of n) = true.
Proof.
  intros Hn. unfold wf_count. rewrite (dec_value_dec_of n Hn).
  destruct (digits_shape 11 n [] eq_refl) as (H1 & H2). fold (dec_of n) in H1, H2.
  rewrite H1. assert (H3 : is_nil (dec_of n) = false) by (destruct (dec_of n); [exfalso; now apply H2|reflexivity]).
  rewrite H3. cbn [negb andb]. now apply N.leb_le.
Qed.

(* ---------- a count matrix as a JASPAR 2016 record, over any alphabet whose letters are known ---------- *)

Require Import LMIo.GenIoAbc.

(* the letter of symbol k according to a from_ascii table (byte, index) *)
Definition byte_of (tbl : list (N * nat)) (k : nat) : N :=
  match find (fun p : N * nat => snd p =? k) tbl with Some p => fst p | None => 0%N end.

Definition letters_of (tbl : list (N * nat)) (K : nat) : list N := map (byte_of tbl) (seq 0 K).

Definition dna_letters : list N := letters_of gen_dna_from_ascii gen_dna_K.
Definition protein_letters : list N := letters_of gen_protein_from_ascii gen_protein_K.

(* letter k of [syms] has index k in the alphabet, for every k < K; K >= 1 *)
Definition letters_ok (A : alphabet) (syms : list N) : bool :=
  (1 <=? aK A) && (length syms =? aK A) &&
  forallb (fun k => match aindex A (nth k syms 0%N) with Some k' => k' =? k | None => false end) (seq 0 (aK A)).

Lemma letters_ok_dna : letters_ok Dna dna_letters = true.
Proof. vm_compute. reflexivity. Qed.
Lemma letters_ok_protein : letters_ok Protein protein_letters = true.
Proof. vm_compute. reflexivity. Qed.

Section Abc.
  Variables (A : alphabet) (syms : list N).
  Hypothesis Hok : letters_ok A syms = true.

  Lemma letters_K : 1 <= aK A /\ length syms = aK A.
  Proof.
    unfold letters_ok in Hok. apply andb_true_iff in Hok. destruct Hok as (H1 & _).
    apply andb_true_iff in H1. destruct H1 as (H1 & H2). apply Nat.leb_le in H1. apply Nat.eqb_eq in H2. auto.
  Qed.

  Lemma letters_index k : k < aK A -> aindex A (nth k syms 0%N) = Some k.
  Proof.
    intros Hk. unfold letters_ok in Hok. apply andb_true_iff in Hok. destruct Hok as (_ & H3).
    rewrite forallb_forall in H3. specialize (H3 k ltac:(apply in_seq; lia)).
    destruct (aindex A (nth k syms 0%N)) as [k'|]; [|discriminate]. apply Nat.eqb_eq in H3. now subst.
  Qed.

  Definition toks_of (counts : list (list N)) (k : nat) : list (list N) := map (fun row => dec_of (nth k row 0%N)) counts.

  Definition cols_of (counts : list (list N)) : list (N * list (list N)) :=
    map (fun k => (nth k syms 0%N, toks_of counts k)) (seq 0 (aK A)).

  Definition src_of (id : list N) (desc : option (list N)) (counts : list (list N)) : src :=
    {| sid := id; sdesc := desc; scols := cols_of counts |}.

  Definition counts_ok (counts : list (list N)) : Prop :=
    1 <= length counts /\ Forall (fun row => length row = aK A /\ Forall (fun c => (c <= u32_max)%N) row) counts.

  Lemma cols_wf (counts : list (list N)) : counts_ok counts ->
    forallb (fun c : N * list (list N) => forallb wf_count (snd c)) (cols_of counts) = true.
  Proof.
    intros (_ & Hrows). unfold cols_of. apply forallb_forall. intros c Hc. apply in_map_iff in Hc.
    destruct Hc as (k & <- & Hk). apply in_seq in Hk. cbn [snd]. apply forallb_forall. intros t Ht.
    apply in_map_iff in Ht. destruct Ht as (row & <- & Hrow). apply wf_count_dec_of.
    rewrite Forall_forall in Hrows. destruct (Hrows row Hrow) as (Hl & Hc).
    rewrite Forall_forall in Hc. apply Hc. apply nth_In. lia.
  Qed.

  (* the line of symbol k among the columns j0, j0+1, .. *)
  Lemma line_of_from (counts : list (list N)) (k : nat) : forall n j0,
    j0 <= k < j0 + n -> j0 + n <= aK A ->
    line_of A k (map (fun k => (nth k syms 0%N, toks_of counts k)) (seq j0 n)) = Some (toks_of counts k).
  Proof.
    induction n as [|n IH]; intros j0 Hk Hn; [lia|].
    cbn [seq map line_of]. rewrite (letters_index j0) by lia.
    destruct (Nat.eqb_spec j0 k) as [->|Hne]; [reflexivity|]. apply IH; lia.
  Qed.

  Lemma line_of_cols (counts : list (list N)) (k : nat) : k < aK A ->
    line_of A k (cols_of counts) = Some (toks_of counts k).
  Proof. intros Hk. unfold cols_of. apply line_of_from; lia. Qed.

  Lemma distinct_from (counts : list (list N)) : forall n j0 seen,
    j0 + n <= aK A -> Forall (fun s => s < j0) seen ->
    distinct_cols A seen (map (fun k => (nth k syms 0%N, toks_of counts k)) (seq j0 n)) = true.
  Proof.
    induction n as [|n IH]; intros j0 seen Hn Hseen; [reflexivity|].
    cbn [seq map distinct_cols]. rewrite (letters_index j0) by lia.
    assert (E : existsb (Nat.eqb j0) seen = false).
    { destruct (existsb (Nat.eqb j0) seen) eqn:E; [|reflexivity]. apply existsb_exists in E.
      destruct E as (x & Hx & Hxe). apply Nat.eqb_eq in Hxe. subst x. rewrite Forall_forall in Hseen.
      specialize (Hseen j0 Hx). lia. }
    rewrite E. cbn [negb andb]. apply IH; [lia|]. constructor; [lia|].
    eapply Forall_impl; [|exact Hseen]. intros s Hs. cbv beta in Hs. lia.
  Qed.

  Lemma cols_shape (counts : list (list N)) :
    is_nil (cols_of counts) = false /\ width (cols_of counts) = length counts /\ same_width (cols_of counts) = true.
  Proof.
    destruct letters_K as (HK & _). unfold cols_of. destruct (aK A) as [|K'] eqn:EK; [lia|].
    cbn [seq map is_nil width same_width snd]. unfold toks_of at 1. rewrite map_length.
    split; [reflexivity|]. split; [reflexivity|].
    cbn [forallb snd]. unfold toks_of at 1 2. rewrite !map_length, Nat.eqb_refl. cbn [andb].
    apply forallb_forall. intros c Hc. apply in_map_iff in Hc. destruct Hc as (k & <- & _). cbn [snd].
    unfold toks_of. rewrite !map_length. apply Nat.eqb_refl.
  Qed.

  Lemma src_wf (y : style) id desc counts :
    wf_style y = true -> wf_id id = true -> wf_desc desc = true -> counts_ok counts ->
    wf_jaspar16 A (y, src_of id desc counts) = true.
  Proof.
    intros Hy Hid Hdesc Hc. unfold wf_jaspar16, src_of. cbn [sid sdesc scols].
    rewrite Hy, Hid, Hdesc, (cols_wf counts Hc). destruct (cols_shape counts) as (H1 & H2 & H3).
    rewrite H1, H2, H3. unfold cols_of. rewrite (distinct_from counts (aK A) 0 []) by (try lia; constructor).
    destruct Hc as (HM & _). cbn [negb andb]. destruct (length counts); [lia|reflexivity].
  Qed.

  (* what the reader must return for it: the counts themselves *)
  Lemma src_matrix id desc counts : counts_ok counts ->
    rmatrix (record_of A 0%N dec_value (src_of id desc counts)) = counts.
  Proof.
    intros (HM & Hrows). unfold record_of, src_of. cbn [rmatrix scols]. unfold matrix_of.
    destruct (cols_shape counts) as (_ & Hw & _). rewrite Hw.
    apply (nth_ext _ _ [] []); [now rewrite map_length, seq_length|].
    intros i Hi. rewrite map_length, seq_length in Hi.
    rewrite (nth_indep _ [] ((fun i => map (fun k => cell_of A 0%N dec_value (cols_of counts) i k) (seq 0 (aK A))) 0))
      by (now rewrite map_length, seq_length).
    rewrite (map_nth (fun i => map (fun k => cell_of A 0%N dec_value (cols_of counts) i k) (seq 0 (aK A)))), seq_nth by exact Hi.
    cbn [Nat.add].
    rewrite Forall_forall in Hrows. destruct (Hrows (nth i counts []) (nth_In _ _ Hi)) as (Hl & Hc).
    apply (nth_ext _ _ 0%N 0%N); [rewrite map_length, seq_length, Hl; reflexivity|].
    intros k Hk. rewrite map_length, seq_length in Hk.
    rewrite (nth_indep _ 0%N ((fun k => cell_of A 0%N dec_value (cols_of counts) i k) 0))
      by (rewrite map_length, seq_length; exact Hk).
    rewrite (map_nth (fun k => cell_of A 0%N dec_value (cols_of counts) i k)), seq_nth by exact Hk. cbn [Nat.add].
    unfold cell_of. rewrite (line_of_cols counts k Hk). unfold toks_of.
    rewrite nth_error_map, (nth_error_nth' counts [] Hi). cbn [option_map].
    apply dec_value_dec_of. rewrite Forall_forall in Hc. apply Hc. apply nth_In. lia.
  Qed.

  (* THE ROUND TRIP: print in JASPAR 2016 form with any admissible layout, any bytes without '>' before,
     any white space after, any chunking of the stream and any buffer capacities: the reader returns one
     record whose matrix is the count matrix, then End *)
  Theorem counts_roundtrip (HA : LMIo.IoMatrixProofs.wf_alphabet A)
          (y : style) id desc counts caps prefix suffix (s : stream) :
    wf_style y = true -> wf_id id = true -> wf_desc desc = true -> counts_ok counts ->
    wf_prefix prefix = true -> wf_suffix suffix = true -> wf_stream s ->
    stream_bytes s = print_file print_jaspar16 prefix [(y, src_of id desc counts)] suffix ->
    exists r, jaspar16_read A caps s = [Ok (Some r); Ok None] /\ rmatrix r = counts /\ rid r = id /\ rdesc r = desc.
  Proof.
    intros Hy Hid Hdesc Hc Hpre Hsuf Hs Hbytes.
    pose proof (LMIo.C14io.reader_roundtrip_jaspar16 A caps prefix [(y, src_of id desc counts)] suffix s
                  HA ltac:(discriminate)) as H.
    cbn [forallb] in H. rewrite (src_wf y id desc counts Hy Hid Hdesc Hc) in H.
    specialize (H eq_refl Hpre Hsuf Hs Hbytes). cbn [map snd app] in H.
    eexists. split; [exact H|]. split; [exact (src_matrix id desc counts Hc)|]. split; reflexivity.
  Qed.
End Abc.

(* counts_ok, executable *)
Definition counts_okb (A : alphabet) (counts : list (list N)) : bool :=
  (1 <=? length counts) && forallb (fun row => (length row =? aK A) && forallb (fun c => (c <=? u32_max)%N) row) counts.

Lemma counts_okb_sound (A : alphabet) (counts : list (list N)) : counts_okb A counts = true -> counts_ok A counts.
Proof.
  unfold counts_okb, counts_ok. intros H. apply andb_true_iff in H. destruct H as (H1 & H2).
  apply Nat.leb_le in H1. split; [exact H1|]. apply Forall_forall. intros row Hrow.
  rewrite forallb_forall in H2. specialize (H2 row Hrow). apply andb_true_iff in H2. destruct H2 as (H2 & H3).
  apply Nat.eqb_eq in H2. split; [exact H2|]. apply Forall_forall. intros c Hc.
  rewrite forallb_forall in H3. apply N.leb_le. now apply H3.
Qed.
