(* Counts through a file: a count matrix printed in JASPAR 2016 form (any layout the format
   allows) and read back by the reader model of coq/io (property C14's round trip) is the same
   count matrix, hence gives the same conversion chain and the same statistics.

   Bridge: io's record matrix (rmatrix : list (list N), row i / column k = count of symbol k at
   motif position i) IS pwm's count matrix type (cmatrix = list (list N)); no conversion.
   Also here: a decimal printer for counts with  dec_value (dec_of n) = n. *)
From Coq Require Import List Arith Bool Lia ZArith NArith.
From LMBase Require Import Res ListX.
From LMIo Require Import IoBase IoNom IoJaspar IoPrint.
From LMIo Require C14io.
Import ListNotations.

(* ---------- decimal printing ---------- *)

Fixpoint digits_fuel (fuel : nat) (n : N) (acc : list N) : list N :=
  match fuel with
  | O => acc
  | S f => let acc' := (48 + n mod 10)%N :: acc in
           if (n / 10 =? 0)%N then acc' else digits_fuel f (n / 10)%N acc'
  end.

(* enough fuel for every u32 (10 digits) *)
Definition dec_of (n : N) : list N := digits_fuel 11 n [].

Definition dstep (acc c : N) : N := (acc * 10 + (c - 48))%N.

Lemma digits_value : forall (fuel : nat) (n : N) (acc : list N),
  (n < 10 ^ N.of_nat fuel)%N ->
  fold_left dstep (digits_fuel fuel n acc) 0%N = fold_left dstep acc n.
Proof.
  induction fuel as [|f IH]; intros n acc Hn.
  - simpl in Hn. assert (n = 0%N) by lia. subst. reflexivity.
  - cbn [digits_fuel]. cbv zeta.
    assert (Hd : (n = 10 * (n / 10) + n mod 10)%N) by (apply N.div_mod; lia).
    assert (Hm : (n mod 10 < 10)%N) by (apply N.mod_upper_bound; lia).
    destruct (N.eqb_spec (n / 10) 0) as [E|E].
    + cbn [fold_left]. unfold dstep at 2. f_equal. lia.
    + rewrite IH.
      * cbn [fold_left]. unfold dstep at 2. f_equal. lia.
      * rewrite Nat2N.inj_succ, N.pow_succ_r' in Hn. apply N.div_lt_upper_bound; lia.
Qed.

Lemma dec_value_dec_of (n : N) : (n <= u32_max)%N -> dec_value (dec_of n) = n.
Proof.
  intros Hn. unfold dec_value, dec_of. change (fun acc c : N => (acc * 10 + (c - 48))%N) with dstep.
  rewrite digits_value; [reflexivity|]. unfold u32_max in Hn. cbn. lia.
Qed.

Lemma digits_shape : forall (fuel : nat) (n : N) (acc : list N),
  forallb is_digit acc = true ->
  forallb is_digit (digits_fuel fuel n acc) = true /\ (fuel <> 0 -> digits_fuel fuel n acc <> []).
Proof.
  induction fuel as [|f IH]; intros n acc Hacc; [split; [exact Hacc|congruence]|].
  cbn [digits_fuel]. cbv zeta.
  assert (Hm : (n mod 10 < 10)%N) by (apply N.mod_upper_bound; lia).
  assert (Hd : forallb is_digit ((48 + n mod 10)%N :: acc) = true).
  { cbn [forallb]. rewrite Hacc, andb_true_r. unfold is_digit, in_range.
    apply andb_true_iff. split; apply N.leb_le; lia. }
  destruct (n / 10 =? 0)%N.
  - split; [exact Hd|discriminate].
  - destruct (IH (n / 10)%N _ Hd) as (H1 & H2). split; [exact H1|]. intros _.
    destruct f; [cbn; discriminate|]. apply H2. discriminate.
Qed.

Lemma wf_count_dec_of (n : N) : (n <= u32_max)%N -> wf_count (dec_of n) = true.
Proof.
  intros Hn. unfold wf_count. rewrite (dec_value_dec_of n Hn).
  destruct (digits_shape 11 n [] eq_refl) as (H1 & H2). fold (dec_of n) in H1, H2.
  rewrite H1. assert (H3 : is_nil (dec_of n) = false) by (destruct (dec_of n); [exfalso; now apply H2|reflexivity]).
  rewrite H3. cbn [negb andb]. now apply N.leb_le.
Qed.

(* ---------- a DNA count matrix as a JASPAR 2016 record ---------- *)

Definition dna_bytes : list N := [65; 67; 84; 71; 78]%N.     (* A C T G N, in symbol-index order *)

Definition cols_of (counts : list (list N)) : list (N * list (list N)) :=
  map (fun k => (nth k dna_bytes 0%N, map (fun row => dec_of (nth k row 0%N)) counts)) (seq 0 5).

Definition src_of (id : list N) (desc : option (list N)) (counts : list (list N)) : src :=
  {| sid := id; sdesc := desc; scols := cols_of counts |}.

Definition counts_ok (counts : list (list N)) : Prop :=
  1 <= length counts /\ Forall (fun row => length row = 5 /\ Forall (fun c => (c <= u32_max)%N) row) counts.

Lemma cols_wf (counts : list (list N)) : counts_ok counts ->
  forallb (fun c : N * list (list N) => forallb wf_count (snd c)) (cols_of counts) = true.
Proof.
  intros (_ & Hrows). unfold cols_of. apply forallb_forall. intros c Hc. apply in_map_iff in Hc.
  destruct Hc as (k & <- & Hk). apply in_seq in Hk. cbn [snd]. apply forallb_forall. intros t Ht.
  apply in_map_iff in Ht. destruct Ht as (row & <- & Hrow). apply wf_count_dec_of.
  rewrite Forall_forall in Hrows. destruct (Hrows row Hrow) as (Hl & Hc).
  rewrite Forall_forall in Hc. apply Hc. apply nth_In. lia.
Qed.

Lemma src_wf (y : style) id desc counts :
  wf_style y = true -> wf_id id = true -> wf_desc desc = true -> counts_ok counts ->
  wf_jaspar16 Dna (y, src_of id desc counts) = true.
Proof.
  intros Hy Hid Hdesc Hok. unfold wf_jaspar16, src_of. cbn [sid sdesc scols].
  rewrite Hy, Hid, Hdesc, (cols_wf counts Hok). destruct Hok as (HM & _).
  unfold cols_of. cbn [seq map nth dna_bytes is_nil negb andb distinct_cols aindex Dna dna_index].
  cbn [same_width forallb snd width]. rewrite !map_length, !Nat.eqb_refl. cbn [andb].
  destruct (length counts); [lia|reflexivity].
Qed.

(* what the reader must return for it: the counts themselves *)
Lemma src_matrix id desc counts : counts_ok counts ->
  rmatrix (record_of Dna 0%N dec_value (src_of id desc counts)) = counts.
Proof.
  intros (HM & Hrows). unfold record_of, src_of. cbn [rmatrix scols]. unfold matrix_of.
  assert (Hw : width (cols_of counts) = length counts) by (unfold cols_of; cbn; now rewrite map_length).
  rewrite Hw. apply (nth_ext _ _ [] []); [now rewrite map_length, seq_length|].
  intros i Hi. rewrite map_length, seq_length in Hi.
  rewrite (nth_indep _ [] ((fun i => map (fun k => cell_of Dna 0%N dec_value (cols_of counts) i k) (seq 0 (aK Dna))) 0))
    by (now rewrite map_length, seq_length).
  rewrite (map_nth (fun i => map (fun k => cell_of Dna 0%N dec_value (cols_of counts) i k) (seq 0 (aK Dna)))), seq_nth by exact Hi.
  cbn [Nat.add].
  rewrite Forall_forall in Hrows. destruct (Hrows (nth i counts []) (nth_In _ _ Hi)) as (Hl & Hc).
  apply (nth_ext _ _ 0%N 0%N); [rewrite map_length, seq_length, Hl; reflexivity|].
  intros k Hk. rewrite map_length, seq_length in Hk. change (k < 5) in Hk.
  rewrite (nth_indep _ 0%N ((fun k => cell_of Dna 0%N dec_value (cols_of counts) i k) 0))
    by (rewrite map_length, seq_length; exact Hk).
  rewrite (map_nth (fun k => cell_of Dna 0%N dec_value (cols_of counts) i k)), seq_nth by exact Hk. cbn [Nat.add].
  unfold cell_of.
  assert (El : line_of Dna k (cols_of counts) = Some (map (fun row => dec_of (nth k row 0%N)) counts)).
  { unfold cols_of. cbn [seq map nth dna_bytes line_of aindex Dna dna_index].
    do 5 (destruct k as [|k]; [reflexivity|]). lia. }
  rewrite El, nth_error_map, (nth_error_nth' counts [] Hi). cbn [option_map].
  apply dec_value_dec_of. rewrite Forall_forall in Hc. apply Hc. apply nth_In. lia.
Qed.

(* THE ROUND TRIP: print in JASPAR 2016 form with any admissible layout, any bytes without '>' before,
   any white space after, any chunking of the stream and any buffer capacities: the reader returns one
   record whose matrix is the count matrix, then End *)
Theorem counts_roundtrip (y : style) id desc counts caps prefix suffix (s : stream) :
  wf_style y = true -> wf_id id = true -> wf_desc desc = true -> counts_ok counts ->
  wf_prefix prefix = true -> wf_suffix suffix = true -> wf_stream s ->
  stream_bytes s = print_file print_jaspar16 prefix [(y, src_of id desc counts)] suffix ->
  exists r, jaspar16_read Dna caps s = [Ok (Some r); Ok None] /\ rmatrix r = counts /\ rid r = id /\ rdesc r = desc.
Proof.
  intros Hy Hid Hdesc Hok Hpre Hsuf Hs Hbytes.
  pose proof (LMIo.C14io.reader_roundtrip_jaspar16 Dna caps prefix [(y, src_of id desc counts)] suffix s
                (proj1 LMIo.C14io.alphabets_wf) ltac:(discriminate)) as H.
  cbn [forallb] in H. rewrite (src_wf y id desc counts Hy Hid Hdesc Hok) in H.
  specialize (H eq_refl Hpre Hsuf Hs Hbytes). cbn [map snd app] in H.
  eexists. split; [exact H|]. split; [exact (src_matrix id desc counts Hok)|]. split; reflexivity.
Qed.
