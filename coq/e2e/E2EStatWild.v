(* Texts WITH the wildcard letter (N / X): a window that contains a wildcard scores -inf in binary32 (the
   wildcard column of the matrix is -inf, as for every matrix built with a background of wildcard
   frequency 0) and is never a hit for a finite threshold; windows without wildcard are judged exactly as
   in E2EStatFloatScan.v. *)
From Coq Require Import List Arith Bool Lia ZArith QArith Qabs Lqa Reals Qreals Lra.
From Flocq Require Import Core BinarySingleNaN.
From LMBase Require Import Res ListX IEEE.
From LMScore Require ScoreModel ScoreProofs F32Proofs.
From LME2E Require Import E2EStatBridge E2EStatScan E2EStatFloat.
Import ListNotations.
Local Open Scope nat_scope.

(* the wildcard cell (index K-1) of every row is -inf *)
Definition wild_ninf (K : nat) (pssm : list (list F32.t)) : Prop :=
  Forall (fun row => nth (K - 1) row F32.zero = F32.ninf) pssm.

(* the window at i has no wildcard *)
Definition clean (K M : nat) (sq : list nat) (i : nat) : bool :=
  forallb (fun j => nth (i + j) sq (K - 1) <? K - 1) (seq 0 M).

Lemma clean_spec K M sq i : clean K M sq i = true <-> forall j, j < M -> nth (i + j) sq (K - 1) < K - 1.
Proof.
  unfold clean. rewrite forallb_forall. split.
  - intros H j Hj. apply Nat.ltb_lt. apply H. apply in_seq. lia.
  - intros H j Hj. apply in_seq in Hj. apply Nat.ltb_lt. apply H. lia.
Qed.

Lemma skipn_cons_nth {T} (l : list T) (d : T) : forall j, j < length l -> skipn j l = nth j l d :: skipn (S j) l.
Proof.
  induction l as [|a l IH]; intros [|j] H; cbn [length] in H; try lia; [reflexivity|].
  cbn [skipn nth]. apply IH. lia.
Qed.

Lemma terms_from_app (f : nat -> nat) : forall (p1 p2 : list (list F32.t)) (j : nat),
  SCO.terms_from F32.zero j (p1 ++ p2) f =
  SCO.terms_from F32.zero j p1 f ++ SCO.terms_from F32.zero (j + length p1) p2 f.
Proof.
  induction p1 as [|r p1 IH]; intros p2 j; cbn [app SCO.terms_from length].
  - now rewrite Nat.add_0_r.
  - rewrite IH. cbn [app]. do 3 f_equal. lia.
Qed.

Lemma mat_asum_app K p1 p2 : (mat_asum K (p1 ++ p2) == mat_asum K p1 + mat_asum K p2)%Q.
Proof.
  induction p1 as [|r p1 IH].
  - change (mat_asum K ([] ++ p2)) with (mat_asum K p2). change (mat_asum K []) with 0%Q. ring.
  - change (mat_asum K ((r :: p1) ++ p2)) with (row_amax K r + mat_asum K (p1 ++ p2))%Q.
    change (mat_asum K (r :: p1)) with (row_amax K r + mat_asum K p1)%Q. rewrite IH. ring.
Qed.

(* every term of a window is finite or -inf when the symbols are < K *)
Lemma terms_no_pinf_nan (K : nat) (f : nat -> nat) : forall (pr : list (list F32.t)) (j : nat),
  sym_fin32 K pr -> wild_ninf K pr -> (forall j', f j' <= K - 1) ->
  Forall FP.no_pinf_nan (SCO.terms_from F32.zero j pr f).
Proof.
  induction pr as [|row rest IH]; intros j Hp Hw Hf; [constructor|].
  destruct (Forall_inv Hp) as (Hl & Hfin). pose proof (Forall_inv_tail Hp) as Hrest.
  pose proof (Forall_inv Hw) as Hwr. pose proof (Forall_inv_tail Hw) as Hwrest. cbv beta in Hwr.
  cbn [SCO.terms_from]. constructor; [|apply IH; auto].
  destruct (Nat.eq_dec (f j) (K - 1)) as [E|E].
  - rewrite E, Hwr. split; discriminate.
  - assert (Hk : f j < K - 1) by (specialize (Hf j); lia).
    assert (Hin : In (nth (f j) row F32.zero) (firstn (K - 1) row)).
    { assert (Hfl : length (firstn (K - 1) row) = K - 1). { apply firstn_length_le. apply (Nat.le_trans _ K); [lia|]. apply Nat.eq_le_incl. symmetry. exact Hl. }
      rewrite <- (firstn_skipn (K - 1) row) at 1.
      rewrite app_nth1 by (rewrite Hfl; exact Hk). apply nth_In. rewrite Hfl. exact Hk. }
    rewrite Forall_forall in Hfin. specialize (Hfin _ Hin).
    destruct (nth (f j) row F32.zero); try discriminate; split; discriminate.
Qed.

(* a window containing a wildcard scores -inf *)
Theorem dirty_window_ninf (K : nat) (pssm : list (list F32.t)) (s : list nat) (i : nat) :
  sym_fin32 K pssm -> wild_ninf K pssm -> no_overflow K pssm = true ->
  Forall (fun a => a < K) s -> 1 <= K ->
  clean K (length pssm) s i = false ->
  SCO.score_def F32.add F32.zero (K - 1) pssm s i = F32.ninf.
Proof.
  intros Hp Hw Hno Hs HK Hd.
  set (f := fun j => nth (i + j) s (K - 1)).
  assert (Hf : forall j, f j <= K - 1).
  { intros j. unfold f. destruct (Nat.lt_ge_cases (i + j) (length s)) as [Hlt|Hge].
    - rewrite Forall_forall in Hs. specialize (Hs _ (nth_In s (K - 1) Hlt)). lia.
    - rewrite nth_overflow by lia. lia. }
  (* the first dirty row *)
  assert (Hex : exists j0, j0 < length pssm /\ f j0 = K - 1 /\ forall j, j < j0 -> f j < K - 1).
  { unfold clean in Hd. fold f in Hd. clear -Hd Hf.
    assert (G : forall n, forallb (fun j => f j <? K - 1) (seq 0 n) = false ->
                exists j0, j0 < n /\ f j0 = K - 1 /\ forall j, j < j0 -> f j < K - 1).
    { induction n as [|n IH]; intros H; [discriminate|].
      rewrite seq_S, forallb_app in H. cbn [forallb Nat.add] in H.
      destruct (forallb (fun j => f j <? K - 1) (seq 0 n)) eqn:E.
      - cbn [andb] in H. rewrite andb_true_r in H. apply Nat.ltb_ge in H. exists n. split; [lia|].
        split; [specialize (Hf n); lia|]. intros j Hj. rewrite forallb_forall in E.
        apply Nat.ltb_lt. apply E. apply in_seq. lia.
      - destruct (IH eq_refl) as (j0 & H1 & H2 & H3). exists j0. split; [lia|auto]. }
    exact (G _ Hd). }
  destruct Hex as (j0 & Hj0 & Hfj0 & Hbefore).
  assert (Esplit0 : pssm = firstn j0 pssm ++ nth j0 pssm [] :: skipn (S j0) pssm).
  { rewrite <- (firstn_skipn j0 pssm) at 1. f_equal. apply skipn_cons_nth. exact Hj0. }
  assert (Hl0 : length (firstn j0 pssm) = j0) by (rewrite firstn_length; lia).
  remember (firstn j0 pssm) as p1 eqn:Ep1. remember (nth j0 pssm []) as row eqn:Erow.
  remember (skipn (S j0) pssm) as p2 eqn:Ep2. clear Ep1 Erow Ep2.
  pose proof Esplit0 as Esplit. pose proof Hl0 as Hl1.
  unfold SCO.score_def, SCO.score_terms. fold f. rewrite Esplit, terms_from_app. cbn [SCO.terms_from].
  rewrite Hl1. cbn [Nat.add]. rewrite Hfj0.
  assert (Hp' : sym_fin32 K (p1 ++ row :: p2)) by (rewrite <- Esplit; exact Hp).
  assert (Hw' : wild_ninf K (p1 ++ row :: p2)) by (rewrite <- Esplit; exact Hw).
  unfold sym_fin32 in Hp'. apply Forall_app in Hp'. destruct Hp' as (Hp1 & Hp2).
  unfold wild_ninf in Hw'. apply Forall_app in Hw'. destruct Hw' as (Hw1 & Hw2).
  pose proof (Forall_inv Hw2) as Hwrow. pose proof (Forall_inv_tail Hw2) as Hw2'. cbv beta in Hwrow.
  pose proof (Forall_inv Hp2) as Hprow. pose proof (Forall_inv_tail Hp2) as Hp2'.
  rewrite Hwrow.
  apply FP.neg_inf_absorbs.
  - (* the clean prefix has a finite sum *)
    destruct (terms_bound K f p1 0 Hp1 ltac:(intros j' Hj'; apply Hbefore; lia)) as (Hfin & Hab).
    apply andb_true_iff in Hno. destruct Hno as (HM & HA). apply Z.leb_le in HM. apply Qle_bool_iff in HA.
    assert (Hlen : length (SCO.terms_from F32.zero 0 p1 f) = j0)
      by (rewrite LMScore.ScoreProofs.terms_from_length; exact Hl1).
    assert (HM' : (Z.of_nat (length (SCO.terms_from F32.zero 0 p1 f)) <= 2 ^ 23)%Z) by (rewrite Hlen; lia).
    assert (Hsf : FP.sums_finite F32.zero (SCO.terms_from F32.zero 0 p1 f) = true).
    { apply FP.sums_finite_bound; [exact HM'|exact Hfin|].
      eapply Rle_trans; [exact Hab|].
      assert (H126 : Q2R (inject_Z (2 ^ 126)) = bpow radix2 126).
      { unfold Q2R, inject_Z. cbn [Qnum Qden]. rewrite Rinv_1, Rmult_1_r.
        change (bpow radix2 126) with (IZR (Z.pow_pos 2 126)). f_equal. }
      rewrite <- H126. apply Qle_Rle. eapply Qle_trans; [|exact HA].
      rewrite Esplit, mat_asum_app. pose proof (mat_asum_nonneg K (row :: p2)). Lqa.lra. }
    pose proof (FP.sums_finite_final _ _ Hsf) as Hfinal.
    destruct (fold_left F32.add (SCO.terms_from F32.zero 0 p1 f) F32.zero); try discriminate; split; discriminate.
  - apply (terms_no_pinf_nan K); auto.
Qed.
