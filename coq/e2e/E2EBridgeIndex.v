(* Bridges between ALL the groups' models of <StripedSequence as Index<usize>>::index and of
   {Scoring,Discrete}Matrix::score_position, and of the closed form of the score:

     Index<usize>     stripe  StripeModel.s_index   (bounds through the type-level column count C)
                      score   ScoreModel.sq_index
                      disc    DiscModel.ss_index
                      scan    ScanConcrete.seq_index (one Nat.divmod call)
     score_position   score   ScoreModel.score_position
                      disc    DiscModel.score_position (generic in the cell type)
                      scan    ScanConcrete.c_score_position
     score_def        score   ScoreModel.score_def        (terms_from)
                      scan    ConcreteProofs.score_def    (window_cells)
                      maxi    MaxiModel.score_def         (enumerate)
                      pwm     PwmModel.window_terms       (map2 over skipn), windows inside the sequence

   All agree: same Ok value or both panic, on every input (stripe's needs rows of C cells,
   which its own well-formedness invariant provides). *)
From Coq Require Import List Arith Bool Lia ZArith.
From LMBase Require Import Res ListX IEEE.
From LMStripe Require StripeModel StripeSpec.
From LMScore Require ScoreModel.
From LMDisc Require DiscModel.
From LMMaxi Require MaxiModel.
From LMPwm Require PwmModel.
From LMScan Require ScanModel ScanConcrete ConcreteProofs.
From LME2E Require Import E2EBridgeStripe E2EBridgeScore E2EBridgeDisc.
Import ListNotations.

Module MMx := LMMaxi.MaxiModel.
Module PMx := LMPwm.PwmModel.

(* ---------- Index<usize> ---------- *)

(* disc = scan, every input *)
Theorem index_disc_scan (sm : list (list nat)) (L wrap idx : nat) :
  rsim (DM.ss_index (dsq L wrap sm) idx) (SC.seq_index sm wrap idx).
Proof.
  unfold DM.ss_index, SC.seq_index, DM.nth_res. cbn [dsq DM.ss_rows DM.ss_wrap].
  destruct (length sm - wrap) as [|y] eqn:E; [exact I|].
  change (S y =? 0) with false. cbv iota zeta.
  change (fst (Nat.divmod idx y 0 y)) with (idx / S y).
  change (y - snd (Nat.divmod idx y 0 y)) with (idx mod S y).
  destruct (nth_error sm (idx mod S y)) as [row|]; [|exact I]. cbn [rbind].
  destruct (nth_error row (idx / S y)); simpl; auto.
Qed.

(* stripe = scan, for a matrix whose rows have C cells (the invariant of the stripe model) *)
Theorem index_stripe_scan (K C : nat) (st : SM.sseq) (idx : nat) :
  SS.wf_matrix C (SM.mat st) ->
  rsim (SM.s_index K C st idx) (SC.seq_index (SM.mat st) (SM.swrap st) idx).
Proof.
  intros Hwf. unfold SM.s_index, SC.seq_index.
  destruct (Nat.ltb_spec (length (SM.mat st)) (SM.swrap st)) as [Hlt|Hge].
  - replace (length (SM.mat st) - SM.swrap st) with 0 by lia. exact I.
  - destruct (length (SM.mat st) - SM.swrap st) as [|y] eqn:E; [exact I|].
    change (S y =? 0) with false. cbv iota zeta.
    change (fst (Nat.divmod idx y 0 y)) with (idx / S y).
    change (y - snd (Nat.divmod idx y 0 y)) with (idx mod S y).
    unfold SM.m_get.
    destruct (Nat.ltb_spec (idx mod S y) (length (SM.mat st))) as [Hr|Hr].
    + rewrite (nth_error_nth' _ [] Hr).
      assert (Hl : length (nth (idx mod S y) (SM.mat st) []) = C).
      { unfold SS.wf_matrix in Hwf. rewrite Forall_forall in Hwf. apply Hwf. now apply nth_In. }
      destruct (Nat.ltb_spec (idx / S y) C) as [Hc|Hc].
      * rewrite (nth_error_nth' _ (SM.wild K)) by lia. reflexivity.
      * replace (nth_error (nth (idx mod S y) (SM.mat st) []) (idx / S y)) with (@None nat)
          by (symmetry; apply nth_error_None; lia). exact I.
    + replace (nth_error (SM.mat st) (idx mod S y)) with (@None (list nat))
        by (symmetry; apply nth_error_None; lia). exact I.
Qed.

(* score = scan is E2EBridgeScore.seq_index_sim *)

(* ---------- score_position ---------- *)

Lemma rsim_trans_ok {A} (x y z : res A) : rsim x y -> rsim y z -> rsim x z.
Proof.
  destruct x, y, z; simpl; intros H1 H2; try contradiction; auto. congruence.
Qed.

Lemma rsim_sym {A} (x y : res A) : rsim x y -> rsim y x.
Proof. destruct x, y; simpl; auto. Qed.

(* disc (binary32 instance of its generic score_position) = scan, every input *)
Lemma score_pos_from_disc_scan (sm : list (list nat)) (L wrap pos : nat) :
  forall (rows : list (list F32.t)) (j : nat) (acc : F32.t),
    rsim (DM.score_pos_from F32.add acc rows (dsq L wrap sm) (j + pos))
         (SC.score_pos_from sm wrap rows pos j acc).
Proof.
  induction rows as [|prow rest IH]; intros j acc; simpl; [reflexivity|].
  pose proof (index_disc_scan sm L wrap (j + pos)) as Hs.
  destruct (DM.ss_index (dsq L wrap sm) (j + pos)) as [sym| | |];
    destruct (SC.seq_index sm wrap (j + pos)) as [sym'| | |];
    simpl in Hs; try contradiction; simpl; auto.
  subst sym'. unfold DM.nth_res. destruct (nth_error prow sym); simpl; auto.
  apply (IH (S j)).
Qed.

Theorem score_position_disc_scan (sm : list (list nat)) (L wrap : nat) (pssm : list (list F32.t)) (pos : nat) :
  rsim (DM.score_position F32.add F32.zero pssm (dsq L wrap sm) pos)
       (SC.c_score_position sm wrap pssm pos).
Proof. unfold DM.score_position, SC.c_score_position. apply (score_pos_from_disc_scan sm L wrap pos pssm 0). Qed.

(* hence disc = score *)
Theorem score_position_disc_score (sm : list (list nat)) (L wrap : nat) (pssm : list (list F32.t)) (pos : nat) :
  rsim (DM.score_position F32.add F32.zero pssm (dsq L wrap sm) pos)
       (SCO.score_position F32.add F32.zero pssm (SCO.mkSeq L wrap sm) pos).
Proof.
  eapply rsim_trans_ok; [apply score_position_disc_scan|apply score_position_bridge].
Qed.

(* ---------- the closed form of the score ---------- *)

(* maxi's score_def (used by its padding theorems) is C01's *)
Theorem score_def_maxi_score {T} (add : T -> T -> T) (zero : T) (K : nat) (pssm : list (list T)) (s : list nat) (i : nat) :
  MMx.score_def add zero (K - 1) zero pssm s i = SCO.score_def add zero (K - 1) pssm s i.
Proof.
  unfold MMx.score_def, MMx.terms, MMx.sym, MMx.enumerate, SCO.score_def, SCO.score_terms.
  now rewrite terms_from_window.
Qed.

(* pwm's window terms (C10) are C01's score terms, for windows inside the sequence *)
Theorem window_terms_pwm_score (N : nat) (m : list (list F32.t)) (s : list nat) (i : nat) :
  i + length m <= length s ->
  PMx.window_terms PMx.F32ops m s i = SCO.score_terms F32.zero N m s i.
Proof.
  intros Hb. unfold SCO.score_terms, PMx.window_terms. cbn [PMx.F32ops PMx.n_zero].
  assert (G : forall (rows : list (list F32.t)) (j : nat), i + j + length rows <= length s ->
            SCO.terms_from F32.zero j rows (fun j => nth (i + j) s N) =
            PMx.map2 (fun row x => nth x row F32.zero) rows (skipn (i + j) s)).
  { induction rows as [|row rest IH]; intros j Hj; simpl; [reflexivity|]. simpl in Hj.
    assert (E : skipn (i + j) s = nth (i + j) s N :: skipn (S (i + j)) s).
    { clear IH Hb. revert s Hj. generalize (i + j) as k. induction k as [|k IHk]; intros s Hj.
      - destruct s; simpl in *; [lia|reflexivity].
      - destruct s; simpl in *; [lia|]. apply IHk; lia. }
    rewrite E. cbn [PMx.map2]. f_equal.
    replace (S (i + j)) with (i + S j) by lia. apply IH. lia. }
  rewrite (G m 0) by lia. now rewrite Nat.add_0_r.
Qed.

(* ---------- pwm's model of score_position (sequence striped by the generic pipeline, no
   look-ahead rows, read through the closed form) = scan's on the closed-form matrix ---------- *)

Lemma striped_at_scan (K C : nat) (s : list nat) (p : nat) :
  1 <= C ->
  rsim (PMx.striped_at K C s p) (SC.seq_index (SC.smatrix K C s 0) 0 p).
Proof.
  intros HC. unfold PMx.striped_at, PMx.wildcard. cbv zeta.
  change ((length s + (C - 1)) / C) with (SC.seq_rows C (length s)).
  set (R := SC.seq_rows C (length s)).
  destruct (Nat.eqb_spec R 0) as [E0|E0].
  - unfold SC.seq_index. rewrite CP.smatrix_length. fold R. rewrite E0. exact I.
  - pose proof (CP.seq_rows_cover C (length s) HC) as Hcov. fold R in Hcov.
    destruct (Nat.ltb_spec p (length s)) as [Hp|Hp].
    + rewrite CP.seq_index_spec by (fold R; lia). reflexivity.
    + destruct (Nat.ltb_spec (p / R) C) as [Hq|Hq].
      * assert (Hlt : p < R * C).
        { pose proof (Nat.div_mod p R E0). pose proof (Nat.mod_upper_bound p R E0). nia. }
        rewrite CP.seq_index_spec by (fold R; exact Hlt).
        rewrite nth_overflow by lia. reflexivity.
      * unfold SC.seq_index. rewrite CP.smatrix_length. fold R. rewrite Nat.add_0_r, Nat.sub_0_r.
        destruct R as [|y] eqn:ER; [congruence|]. cbv zeta.
        change (fst (Nat.divmod p y 0 y)) with (p / S y).
        change (y - snd (Nat.divmod p y 0 y)) with (p mod S y).
        assert (Hm : p mod S y < S y) by (apply Nat.mod_upper_bound; lia).
        destruct (CP.smatrix_cell K C s 0 (p mod S y) 0) as (row & Erow & _); [fold R; rewrite ER; lia|lia|].
        rewrite Erow.
        assert (Hl : length row = C).
        { assert (Hr : p mod S y < SC.seq_rows C (length s) + 0) by (fold R; rewrite ER; lia).
          rewrite <- (nth_error_nth (SC.smatrix K C s 0) (p mod S y) [] Erow).
          rewrite smatrix_closed, closed_matrix_row by exact Hr. now rewrite map_length, seq_length. }
        replace (nth_error row (p / S y)) with (@None nat) by (symmetry; apply nth_error_None; lia).
        exact I.
Qed.

Lemma score_from_scan (K C : nat) (s : list nat) (pos : nat) :
  1 <= K -> 1 <= C -> Forall (fun x => x < K) s ->
  forall (rows : list (list F32.t)) (j : nat) (acc : F32.t),
    Forall (fun row : list F32.t => K <= length row) rows ->
    rsim (PMx.score_from PMx.F32ops K C acc rows s (j + pos))
         (SC.score_pos_from (SC.smatrix K C s 0) 0 rows pos j acc).
Proof.
  intros HK HC Hs. induction rows as [|prow rest IH]; intros j acc Hr; simpl; [reflexivity|].
  inversion Hr as [|? ? Hp Hrest]; subst.
  pose proof (striped_at_scan K C s (j + pos) HC) as Hx.
  destruct (PMx.striped_at K C s (j + pos)) as [x| | |] eqn:Ea;
    destruct (SC.seq_index (SC.smatrix K C s 0) 0 (j + pos)) as [x'| | |] eqn:Eb;
    simpl in Hx; try contradiction; simpl; auto.
  subst x'.
  assert (Hxk : x < K).
  { unfold PMx.striped_at, PMx.wildcard in Ea. cbv zeta in Ea.
    destruct (_ =? 0); [discriminate|].
    destruct (j + pos <? length s).
    - inversion Ea; subst x. apply Forall_nth_default; auto. lia.
    - destruct (_ <? C); [|discriminate]. inversion Ea; subst x. lia. }
  rewrite (nth_error_nth' prow F32.zero) by lia. cbn [PMx.F32ops PMx.n_add PMx.n_zero].
  apply (IH (S j)). exact Hrest.
Qed.

Theorem score_position_pwm_scan (K C : nat) (m : list (list F32.t)) (s : list nat) (pos : nat) :
  1 <= K -> 1 <= C -> Forall (fun x => x < K) s -> Forall (fun row : list F32.t => K <= length row) m ->
  rsim (PMx.score_position PMx.F32ops K C m s pos) (SC.c_score_position (SC.smatrix K C s 0) 0 m pos).
Proof.
  intros HK HC Hs Hm. unfold PMx.score_position, SC.c_score_position.
  exact (score_from_scan K C s pos HK HC Hs m 0 F32.zero Hm).
Qed.
