(* MINIMALITY of the MEME-style threshold (not proved in coq/dist, whose round-trip theorem gives only
   pvalue(score(p)) <= p): the binary search of ScoreDistribution::score(p) returns the table index x
   with sf[x] <= p (dist's bsearch_spec) AND, unless x = 0, p <= sf[x-1].  Hence the score one table
   step below score(p) has p-value >= p, and by C11's brackets the exact tail there (minus the
   discretisation margin dd) is >= p. *)
From Coq Require Import List Arith Bool Lia ZArith QArith Qround Lqa.
From LMBase Require Import Res ListX.
From LMDist Require Import DistModel DistInst DistProofs DistTail DistBuild DistThms DistStretch.
From LMDist Require C11.
Import ListNotations.
Local Open Scope Q_scope.

Section BSearchLow.
  Variables (sf : list Q) (p : Q).
  Hypothesis Hmono : forall i j, (i <= j < length sf)%nat -> nth j sf 0 <= nth i sf 0.

  Definition low_inv (base : nat) : Prop := base = 0%nat \/ p <= nth base sf 0.

  Lemma bs_loop_low : forall fuel base size b,
    low_inv base -> bs_loop QOps sf p fuel base size = Ok b -> low_inv b.
  Proof.
    induction fuel as [|f IH]; intros base size b Hinv H; cbn [bs_loop] in H.
    - destruct (size <=? 1)%nat; [|discriminate]. inversion H; subst. exact Hinv.
    - destruct (size <=? 1)%nat; [inversion H; subst; exact Hinv|].
      destruct (nth_error sf (base + size / 2)) as [x|] eqn:En; [|discriminate].
      assert (Ex : nth (base + size / 2) sf 0 = x) by (apply nth_error_nth; exact En).
      cbn [n_cmp QOps] in H.
      destruct (p ?= x) eqn:Ec; refine (IH _ _ _ _ H).
      + right. rewrite Ex. apply Qeq_alt in Ec. rewrite Ec. apply Qle_refl.
      + right. rewrite Ex. apply Qlt_alt in Ec. apply Qlt_le_weak. exact Ec.
      + exact Hinv.
  Qed.

  Lemma bsearch_low : forall x, bsearch QOps sf p = Ok x ->
    x = 0%nat \/ ((1 <= x)%nat /\ p <= nth (x - 1) sf 0).
  Proof.
    intros x H. unfold bsearch in H. destruct sf as [|y l] eqn:Esf.
    - inversion H; subst. now left.
    - rewrite <- Esf in *. apply rbind_ok in H. destruct H as (b & Hb & H).
      pose proof (bs_loop_low _ _ _ _ (or_introl eq_refl) Hb) as Hlow.
      destruct (nth_error sf b) as [v|] eqn:En; [|discriminate].
      assert (Ev : nth b sf 0 = v) by (apply nth_error_nth; exact En).
      assert (Hlt : (b < length sf)%nat) by (apply nth_error_Some; congruence).
      cbn [n_cmp QOps] in H. destruct (p ?= v) eqn:Ec; inversion H; subst x.
      + apply Qeq_alt in Ec. destruct b as [|b']; [now left|]. right. split; [lia|].
        replace (S b' - 1)%nat with b' by lia.
        eapply Qle_trans; [|apply (Hmono b' (S b')); lia]. rewrite Ev, Ec. apply Qle_refl.
      + apply Qlt_alt in Ec. right. split; [lia|]. replace (S b - 1)%nat with b by lia.
        rewrite Ev. apply Qlt_le_weak. exact Ec.
      + apply Qgt_alt in Ec. destruct Hlow as [->|Hlow]; [now left|]. rewrite Ev in Hlow. lra.
  Qed.
End BSearchLow.

(* score(p) = unscale(x); either x = 0 (the table start: tq = M * offset) or the p-value one table step
   below is >= p *)
Theorem score_minimal_Q : forall m bg d p s,
  bg_nonneg bg -> Qsum bg <= 1 -> build QOps m bg = Ok d ->
  (Z.of_nat (length m) * 1000 < i32_max)%Z ->
  0 < p -> p < 1 ->
  d_score QOps d p = Ok s ->
  s == inject_Z (d_rows d) * d_offset d \/
  exists q, d_pvalue QOps d (s - 1 / d_scale_f d) = Ok q /\ p <= q.
Proof.
  intros m bg d p s Hbg Hm Hb Hlen Hp0 Hp1 Hs.
  destruct (sf_monotone_range_Q m bg d Hbg Hb) as (Hlsf & Hnoninc & Hin01 & Hmin0).
  pose proof (sf_nonempty m bg d Hbg Hb) as Hne.
  pose proof (build_Q_scale_pos m bg d Hb) as Hsc.
  assert (Z.of_nat (length (d_sf d)) = Z.of_nat (length m) * 1000 + 1)%Z as Hlz.
  { rewrite Hlsf. rewrite Nat2Z.inj_add, Nat2Z.inj_mul, cdf_range_Z. reflexivity. }
  unfold d_score in Hs. cbn [n_one n_zero QOps] in Hs.
  assert (ge_n QOps p 1 = false) as Eg.
  { unfold ge_n. cbn [n_cmp QOps]. rewrite (proj1 (Qlt_alt p 1) Hp1). reflexivity. }
  assert (le_n QOps p 0 = false) as El.
  { unfold le_n. cbn [n_cmp QOps]. rewrite (proj1 (Qgt_alt p 0) Hp0). reflexivity. }
  rewrite Eg, El in Hs. apply rbind_ok in Hs. destruct Hs as (x & Hx & Hs).
  assert (forall i j, (i <= j < length (d_sf d))%nat -> nth j (d_sf d) 0 <= nth i (d_sf d) 0) as Hmono.
  { intros i j Hij.
    assert (Forall (in01 QOps Qle) (d_sf d)) as Hf'.
    { eapply Forall_impl; [|exact Hin01]. intros a Ha0. apply in01_Qin01. exact Ha0. }
    exact (noninc_nth QOps Qle (fun a b c => @Qle_trans a b c) (d_sf d) i j 0
             (fun a _ => Qle_refl a) Hnoninc Hf' Hij). }
  destruct (bsearch_spec (d_sf d) p Hmono x Hx) as [Hxl _].
  unfold d_unscale in Hs. inversion Hs; subst s. clear Hs. cbn [n_unscale QOps].
  unfold d_wo. cbn [n_mul n_of_Z QOps].
  assert (~ d_scale_f d == 0) as Hnz by lra.
  destruct (bsearch_low (d_sf d) p Hmono x Hx) as [->|(Hx1 & Hxp)].
  - left. cbn [Z.of_nat]. field. exact Hnz.
  - right. rewrite (d_pvalue_idx QOps) by exact Hne.
    destruct (d_scale QOps d (inject_Z (Z.of_nat x) / d_scale_f d + inject_Z (d_rows d) * d_offset d - 1 / d_scale_f d))
      as [r| | |] eqn:Hr; try discriminate Hr.
    cbn [rbind]. eexists. split; [reflexivity|].
    apply d_scale_Q_value in Hr.
    assert ((inject_Z (Z.of_nat x) / d_scale_f d + inject_Z (d_rows d) * d_offset d - 1 / d_scale_f d
             - inject_Z (d_rows d) * d_offset d) * d_scale_f d
            == inject_Z (Z.of_nat (x - 1))) as Ex.
    { destruct x as [|x']; [lia|]. replace (S x' - 1)%nat with x' by lia.
      rewrite Nat2Z.inj_succ. unfold Z.succ. rewrite inject_Z_plus. change (inject_Z 1) with 1. field. exact Hnz. }
    rewrite (Qround_away_comp _ _ Ex), Qround_away_nat in Hr.
    rewrite clamp_i32_id in Hr by (unfold i32_min, i32_max in *; lia). subst r.
    unfold pv_idx. cbn [n_zero QOps].
    destruct (Z.of_nat (x - 1) <? d_min d)%Z.
    + eapply Qle_trans; [exact Hxp|]. apply Hmono. lia.
    + rewrite as_usize_nonneg by lia.
      destruct (Z.of_nat (length (d_sf d)) <=? Z.of_nat (x - 1))%Z eqn:E2; [apply Z.leb_le in E2; lia|].
      rewrite Nat2Z.id. exact Hxp.
Qed.

(* in terms of the exact tail (C11's brackets at the score one table step below) *)
Theorem score_minimal_tail : forall m bg d offset scale p s,
  bg_nonneg bg -> Qsum bg <= 1 ->
  build QOps m bg = Ok d -> stage_a QOps m = Ok (offset, scale) ->
  (Z.of_nat (length m) * 1000 < i32_max)%Z ->
  0 < p -> p < 1 ->
  d_score QOps d p = Ok s ->
  let dd := (inject_Z (Z.of_nat (length m)) / 2 + 1) / scale in
  s == inject_Z (Z.of_nat (length m)) * offset \/ p <= tail_exact m bg (s - 1 / scale - dd).
Proof.
  intros m bg d offset scale p s Hbg Hm Hb Ha Hlen Hp0 Hp1 Hs dd.
  destruct (build_Q_inv m bg d Hb) as (offset' & scale' & pdf & Ha' & _ & _ & _ & _ & Hscf & Hdoff & Hrows).
  assert (Eos : offset' = offset /\ scale' = scale) by (rewrite Ha in Ha'; inversion Ha'; auto).
  destruct Eos as (-> & ->).
  destruct (score_minimal_Q m bg d p s Hbg Hm Hb Hlen Hp0 Hp1 Hs) as [E|(q & Hq & Hpq)].
  - left. rewrite E, Hrows, Hdoff. reflexivity.
  - right. rewrite Hscf in Hq.
    destruct (pvalue_brackets_exact_Q m bg d offset scale (s - 1 / scale) q Hbg Hm Hb Ha Hlen Hq) as (_ & H2).
    cbv zeta in H2. fold dd in H2. lra.
Qed.
