(* Scanning with a threshold derived from a p-value (item 2 of the statistics composition):
   what the p-value machinery of C11 / C13 guarantees about the positions a scanner accepts and
   rejects, in terms of the exact tail over C01's score_def.

   The scanner works in binary32 (E2E.e2e_text_to_hits), the statistics in exact arithmetic.  The
   link between the two is stated through a value map [val : F32.t -> Q] and two hypotheses
     (L1) order:  score >= thr in binary32  <->  tq <= val score          (tq = the threshold's value)
     (L2) error:  | val (binary32 score of position i) - exact score of position i | <= eps
   (L1 holds for finite floats with val = the exact rational value; L2 is C01_fsum_error_bound
   transported to Q -- both transports are done in E2EStatFloat.v; the theorems of this file keep the link
   abstract, hence the names stat_threshold_scan_*_link in E2EStat.v). *)
From Coq Require Import List Arith Bool Lia ZArith QArith Qabs Lqa Permutation.
From LMBase Require Import Res ListX IEEE.
From LMDist Require DistModel DistInst DistTail DistThms DistStretch DistWords C11.
From LMTfm Require TfmNum TfmModel TfmSpec TfmProofs TfmLink C13.
From LME2E Require Import E2EStatBridge.
Import ListNotations.
Local Open Scope Q_scope.

Module DTl := LMDist.DistTail.
Module TMo := LMTfm.TfmModel.

(* the window of M symbols at position i *)
Definition window (M i : nat) (sq : list nat) : list nat := firstn M (skipn i sq).

(* ---------- monotonicity of the exact tail ---------- *)

Lemma tail_c01_antitone (K : nat) (sm : list (list (option Q))) (bg : list Q) (x y : Q) :
  (1 <= K)%nat -> sym_finite K sm -> length bg = K -> last bg 0 == 0 ->
  (forall b, In b bg -> 0 <= b) -> x <= y ->
  tail_c01 K sm bg y <= tail_c01 K sm bg x.
Proof.
  intros HK Hsm Hbg Hlast Hnn Hxy.
  destruct (tails_agree K sm bg x HK Hsm Hbg Hlast) as (E1 & E2).
  destruct (tails_agree K sm bg y HK Hsm Hbg Hlast) as (E3 & E4).
  rewrite E1, E2, E3, E4. now apply TL.Ptail_antitone.
Qed.

(* ---------- a window without wildcard is an attainable word of tfm's weighted sum ---------- *)

Lemma map_fst_combine_le {A B} (a : list A) (b : list B) : (length a <= length b)%nat -> map fst (combine a b) = a.
Proof.
  revert b. induction a as [|x a IH]; intros [|y b] H; simpl in *; try lia; [reflexivity|reflexivity|].
  f_equal. apply IH. lia.
Qed.

Lemma word_attain (K : nat) : forall (sm : list (list (option Q))) (bg : list Q) (w : list nat),
  (1 <= K)%nat -> sym_finite K sm -> length bg = K ->
  length w = length sm -> Forall (fun a => (a < K - 1)%nat) w ->
  exists l : list Q,
    TS.attain l (TS.srows (TL.sym_cells (trows sm)) bg) /\
    DI.word_S (dmat sm) w = Some (TS.Qsum l).
Proof.
  intros sm bg w HK. revert w. induction sm as [|row sm IH]; intros w Hsm Hbg Hlen Hw.
  - destruct w; [|discriminate]. exists []. split; [constructor|reflexivity].
  - destruct w as [|a w]; [discriminate|].
    inversion Hsm as [|? ? (Hrl & Hrf) Hrest]; subst. inversion Hw as [|? ? Ha Hw']; subst.
    destruct (IH w Hrest eq_refl ltac:(simpl in Hlen; lia) Hw') as (l & Hl & Hs).
    destruct (row_split _ row HK Hrl Hrf) as (cs & wc & Er & Hcs).
    exists (nth a cs 0 :: l). split.
    + unfold TS.attain, TS.srows, TL.sym_cells, trows in *. cbn [map]. constructor; [|exact Hl].
      rewrite Er, map_app, map_map. cbn [map]. rewrite removelast_app1.
      rewrite map_fst_combine_le by (rewrite map_length; lia).
      replace (map (fun x : Q => ocellT (Some x)) cs) with cs by (rewrite <- (map_id cs) at 1; reflexivity).
      apply nth_In. lia.
    + cbn [dmat map DI.word_S]. fold (dmat sm). rewrite nth_error_map.
      rewrite Er. rewrite nth_error_app1 by (rewrite map_length; lia).
      rewrite nth_error_map, (nth_error_nth' cs 0) by lia. cbn [option_map ocellD].
      rewrite Hs. reflexivity.
Qed.

(* the exact score of such a word, by C01's definition, is that sum *)
Lemma word_score_attain (K : nat) (sm : list (list (option Q))) (bg : list Q) (w : list nat) :
  (2 <= K)%nat -> sym_finite K sm -> length bg = K ->
  length w = length sm -> Forall (fun a => (a < K - 1)%nat) w ->
  exists (l : list Q) (s : Q),
    TS.attain l (TS.srows (TL.sym_cells (trows sm)) bg) /\ score_c01 K sm w = Some s /\ s == TS.Qsum l.
Proof.
  intros HK Hsm Hbg Hlen Hw.
  destruct (word_attain K sm bg w ltac:(lia) Hsm Hbg Hlen Hw) as (l & Hl & Hs).
  assert (Hrows : Forall (fun row : list (option Q) => length row = K) sm)
    by (eapply Forall_impl; [|exact Hsm]; intros r (H & _); exact H).
  assert (Hw' : Forall (fun a => (a < K)%nat) w) by (eapply Forall_impl; [|exact Hw]; intros a Ha; cbv beta in Ha; lia).
  pose proof (word_score_agree K sm w Hrows Hlen Hw') as H. rewrite Hs in H.
  destruct H as (s & E & Hq). exists l, s. auto.
Qed.

(* ---------- the statements ---------- *)

Section ThresholdScan.
  Variables (K : nat) (sm : list (list (option Q))) (bg : list Q).
  Hypothesis HK : (2 <= K)%nat.
  Hypothesis Hsm : sym_finite K sm.
  Hypothesis Hbg : length bg = K.
  Hypothesis Hlast : last bg 0 == 0.
  Hypothesis Hnn : forall b, In b bg -> 0 <= b.

  (* the binary32 side: scores of the positions, threshold, hit list (as e2e_text_to_hits describes it) *)
  Variables (sq : list nat) (sd32 : nat -> F32.t) (thr : F32.t) (H : list (nat * F32.t)).
  Let M := length sm.
  Hypothesis Hhits : forall i x, In (i, x) H <->
    (i + M <= length sq)%nat /\ F32.ge (sd32 i) thr = true /\ x = sd32 i.
  Hypothesis Hsyms : Forall (fun a => (a < K - 1)%nat) sq.      (* no wildcard in the text *)

  (* the link binary32 <-> exact *)
  Variables (val : F32.t -> Q) (tq eps : Q).
  Hypothesis L1 : forall i, (i + M <= length sq)%nat -> (F32.ge (sd32 i) thr = true <-> tq <= val (sd32 i)).
  Hypothesis L2 : forall i s, (i + M <= length sq)%nat -> score_c01 K sm (window M i sq) = Some s ->
                              Qabs (val (sd32 i) - s) <= eps.

  Let T := tail_c01 K sm bg.

  Lemma window_ok i : (i + M <= length sq)%nat ->
    length (window M i sq) = length sm /\ Forall (fun a => (a < K - 1)%nat) (window M i sq).
  Proof.
    intros Hi. unfold window. split.
    - rewrite firstn_length, skipn_length. fold M. lia.
    - apply Forall_forall. intros a Ha.
      assert (Ha' : In a (skipn i sq)) by (rewrite <- (firstn_skipn M (skipn i sq)); apply in_or_app; now left).
      assert (In a sq). { rewrite <- (firstn_skipn i sq). apply in_or_app. now right. }
      rewrite Forall_forall in Hsyms. now apply Hsyms.
  Qed.

  Lemma window_score i : (i + M <= length sq)%nat ->
    exists l s, TS.attain l (TS.srows (TL.sym_cells (trows sm)) bg) /\
                score_c01 K sm (window M i sq) = Some s /\ s == TS.Qsum l.
  Proof.
    intros Hi. destruct (window_ok i Hi) as (Hl & Hw). now apply word_score_attain.
  Qed.

  (* accepted positions: a threshold with T(tq + slack) <= p *)
  Lemma hits_tail (p slack : Q) :
    T (tq + slack) <= p ->
    forall i x, In (i, x) H ->
      exists s, score_c01 K sm (window M i sq) = Some s /\ tq - eps <= s /\ T (s + eps + slack) <= p.
  Proof.
    intros Hp i x Hin. apply Hhits in Hin. destruct Hin as (Hi & Hge & _).
    destruct (window_score i Hi) as (l & s & _ & Es & _). exists s. split; [exact Es|].
    pose proof (L2 i s Hi Es) as He. apply Qabs_Qle_condition in He.
    apply (L1 i Hi) in Hge. split; [lra|].
    eapply Qle_trans; [|exact Hp]. unfold T. apply tail_c01_antitone; auto; [lia|lra].
  Qed.

  (* rejected positions *)
  Lemma rejected_below i : (i + M <= length sq)%nat -> (forall x, ~ In (i, x) H) ->
    exists s, score_c01 K sm (window M i sq) = Some s /\ s < tq + eps.
  Proof.
    intros Hi Hnot. destruct (window_score i Hi) as (l & s & _ & Es & _). exists s. split; [exact Es|].
    pose proof (L2 i s Hi Es) as He. apply Qabs_Qle_condition in He.
    destruct (Qlt_le_dec (val (sd32 i)) tq) as [Hlt|Hle]; [lra|].
    exfalso. apply (Hnot (sd32 i)). apply Hhits. split; [exact Hi|]. split; [|reflexivity].
    now apply (L1 i Hi).
  Qed.

  (* TFM-PVALUE threshold: both clauses of C13 *)
  Lemma tfm_threshold_scan (p d : Q) :
    T (tq + d) <= p ->
    (forall l, TS.attain l (TS.srows (TL.sym_cells (trows sm)) bg) -> TS.Qsum l < tq - d -> p <= T (TS.Qsum l - d)) ->
    (forall i x, In (i, x) H ->
       exists s, score_c01 K sm (window M i sq) = Some s /\ tq - eps <= s /\ T (s + eps + d) <= p) /\
    (forall i, (i + M <= length sq)%nat -> (forall x, ~ In (i, x) H) ->
       exists s, score_c01 K sm (window M i sq) = Some s /\ s < tq + eps /\ (s < tq - d -> p <= T (s - d))).
  Proof.
    intros Hc1 Hc2. split; [exact (hits_tail p d Hc1)|].
    intros i Hi Hnot. destruct (rejected_below i Hi Hnot) as (s & Es & Hlt).
    exists s. split; [exact Es|]. split; [exact Hlt|]. intros Hs.
    destruct (window_score i Hi) as (l & s' & Hatt & Es' & Hq). rewrite Es in Es'. inversion Es'; subst s'.
    assert (Hl : TS.Qsum l < tq - d) by (rewrite <- Hq; exact Hs).
    pose proof (Hc2 l Hatt Hl) as Hp.
    eapply Qle_trans; [exact Hp|]. unfold T. apply tail_c01_antitone; auto; [lia|]. rewrite Hq. lra.
  Qed.
End ThresholdScan.

(* ---------- thresholds from the two p-value methods ---------- *)

(* MEME: t = ScoreDistribution::score(p), 0 < p < 1: T(t + dd) <= p  (round trip + brackets of C11) *)
Lemma meme_threshold (K : nat) (sm : list (list (option Q))) (bg : list Q) d offset scale p tq :
  Forall (fun row => length row = K) sm -> length bg = K ->
  DTl.bg_nonneg bg -> DI.Qsum bg <= 1 ->
  DMo.build DI.QOps (dmat sm) bg = Ok d -> DMo.stage_a DI.QOps (dmat sm) = Ok (offset, scale) ->
  (Z.of_nat (length sm) * 1000 < DMo.i32_max)%Z ->
  0 < p -> p < 1 -> DMo.d_score DI.QOps d p = Ok tq ->
  let dd := (inject_Z (Z.of_nat (length sm)) / 2 + 1) / scale in
  tail_c01 K sm bg (tq + dd) <= p.
Proof.
  intros Hrows Hbg Hnn Hle Hd Hs Hlen Hp0 Hp1 Ht dd.
  assert (Hl : length (dmat sm) = length sm) by (unfold dmat; now rewrite map_length).
  destruct (LMDist.C11.C11_methods_total (dmat sm) bg d tq p Hnn Hd) as ((q & Hq) & _).
  pose proof (LMDist.C11.C11_score_pvalue_roundtrip (dmat sm) bg d p tq q Hnn Hle Hd
                ltac:(rewrite Hl; exact Hlen) Hp0 Hp1 Ht Hq) as Hrt.
  pose proof (LMDist.C11.C11_pvalue_brackets_exact (dmat sm) bg d offset scale tq q Hnn Hle Hd Hs
                ltac:(rewrite Hl; exact Hlen) Hq) as Hb.
  cbv zeta in Hb. rewrite Hl in Hb. fold dd in Hb. destruct Hb as (Hb & _).
  rewrite (tail_c01_dist K sm bg (tq + dd) Hrows Hbg). lra.
Qed.

(* TFM-PVALUE: t = the score of an Iteration of approximate_score(p), d = (M+2) * granularity *)
Lemma tfm_threshold (K : nat) (sm : list (list (option Q))) (bg : list Q) perm p steps win it :
  sym_finite K sm -> TP.matrix_ok K (trows sm) bg ->
  (2 <= length sm)%nat -> Permutation perm (seq 0 (length sm)) -> 0 < p -> p <= 1 ->
  TMo.score_window0 LMTfm.TfmNum.NumQ (trows sm) perm = Ok win ->
  In (Ok it) (TMo.sc_run LMTfm.TfmNum.NumQ steps (trows sm) perm bg p (1 # 10) win) ->
  let tq := TMo.io_score it in
  let d := (inject_Z (Z.of_nat (length sm)) + 2) * TMo.io_gran it in
  tail_c01 K sm bg (tq + d) <= p /\
  (forall l, TS.attain l (TS.srows (TL.sym_cells (trows sm)) bg) -> TS.Qsum l < tq - d ->
             p <= tail_c01 K sm bg (TS.Qsum l - d)).
Proof.
  intros Hsm Hok HM Hperm Hp0 Hp1 Hwin Hin tq d.
  assert (Hl : length (trows sm) = length sm) by (unfold trows; now rewrite map_length).
  pose proof (LMTfm.C13.C13_approximate_score_bounds steps (trows sm) perm bg K p win it Hok
                ltac:(rewrite Hl; exact HM) ltac:(rewrite Hl; exact Hperm) Hp0 Hp1 Hwin Hin) as H.
  cbv zeta in H. rewrite Hl in H. fold tq d in H. destruct H as (_ & _ & H3 & H4).
  destruct Hok as (HK & _ & Hbg & _ & _ & Hlast).
  split.
  - destruct (tails_agree K sm bg (tq + d) ltac:(lia) Hsm Hbg Hlast) as (E1 & E2). rewrite E1, E2. exact H3.
  - intros l Hl' Hlt. destruct (tails_agree K sm bg (TS.Qsum l - d) ltac:(lia) Hsm Hbg Hlast) as (E1 & E2).
    rewrite E1, E2. now apply H4.
Qed.
