(* Bridge between the scan model's SPECIFICATION functions for Maximum<u8>::max and
   Threshold<u8>::threshold (ScanModel.dmax, ScanModel.dthreshold on list (list nat)) and
   the KERNEL models of property C07 (coq/maxi: generic scans, the AVX2 max_epu8 kernel,
   the dispatcher table; on list (list Z)).

     dthreshold_bridge   for every arm, every matrix (any shape), every byte threshold:
                         dispatch_threshold Z.leb a (zmat d) t  =  dthreshold d t   (as LISTS:
                         same cells in the same row-major order)
     dmax_bridge         for every arm, every 32-column u8 matrix:
                         dispatch_max_u8 a (zmat d) = Ok (option_map Z.of_nat (dmax d))
     dmax_generic_bridge the same for the generic kernel and any column count >= 1

   so the two functions that ScanModel.next_block / max_loop call "by specification" are
   what the modelled kernels compute. *)
From Coq Require Import List Arith Bool Lia ZArith.
From LMBase Require Import Res ListX.
From LMMaxi Require MaxiModel MaxiProofs MaxiKernels MaxiTop C07.
From LMScan Require ScanModel.
Import ListNotations.

Module MM := LMMaxi.MaxiModel.
Module MP := LMMaxi.MaxiProofs.
Module MK := LMMaxi.MaxiKernels.
Module SCN := LMScan.ScanModel.

(* the byte matrix of the scan model, read as the Z matrix of the maxi model *)
Definition zmat (d : SCN.dmatrix) : list (list Z) := map (map Z.of_nat) d.

Lemma zmat_length d : length (zmat d) = length d.
Proof. apply map_length. Qed.

(* ---------- list helpers ---------- *)

Lemma filter_flat_map {A B} (f : B -> bool) (g : A -> list B) (l : list A) :
  filter f (flat_map g l) = flat_map (fun x => filter f (g x)) l.
Proof. induction l as [|a l IH]; simpl; auto. now rewrite filter_app, IH. Qed.

Lemma flat_map_ext_in {A B} (f g : A -> list B) (l : list A) :
  (forall a, In a l -> f a = g a) -> flat_map f l = flat_map g l.
Proof.
  intros H. rewrite !flat_map_concat_map. f_equal. apply map_ext_in. exact H.
Qed.

Lemma list_max_in (l : list nat) : l <> [] -> In (list_max l) l.
Proof.
  induction l as [|a l IH]; [congruence|]. intros _. simpl.
  destruct l as [|b l'].
  - simpl. left. lia.
  - destruct (Nat.max_spec a (list_max (b :: l'))) as [[_ E]|[_ E]]; rewrite E.
    + right. apply IH. discriminate.
    + now left.
Qed.

Lemma list_max_ge (l : list nat) x : In x l -> x <= list_max l.
Proof.
  induction l as [|a l IH]; simpl; [tauto|]. intros [->|H]; [lia|]. specialize (IH H). lia.
Qed.

(* ---------- Threshold::threshold ---------- *)

Section Thr.
  Variable t : nat.

  Lemma thr_row_filter (i : nat) : forall (row : list nat) (j : nat),
    MM.thr_row Z.leb (Z.of_nat t) i (map Z.of_nat row) j =
    filter (fun rc => t <=? nth (snd rc - j) row 0) (map (fun c => (i, c)) (seq j (length row))).
  Proof.
    induction row as [|x rest IH]; intros j; [reflexivity|].
    cbn [map MM.thr_row length seq filter snd]. rewrite Nat.sub_diag. cbn [nth].
    assert (E : Z.leb (Z.of_nat t) (Z.of_nat x) = (t <=? x)).
    { destruct (Nat.leb_spec t x); [apply Z.leb_le|apply Z.leb_gt]; lia. }
    rewrite E, IH.
    assert (Et : filter (fun rc : nat * nat => t <=? nth (snd rc - S j) rest 0)
                        (map (fun c => (i, c)) (seq (S j) (length rest))) =
                 filter (fun rc : nat * nat => t <=? nth (snd rc - j) (x :: rest) 0)
                        (map (fun c => (i, c)) (seq (S j) (length rest)))).
    { apply filter_ext_in. intros [r c] Hin. apply in_map_iff in Hin.
      destruct Hin as (c' & Heq & Hc). inversion Heq; subst. apply in_seq in Hc. cbn [snd].
      replace (c - j) with (S (c - S j)) by lia. reflexivity. }
    rewrite Et. destruct (t <=? x); reflexivity.
  Qed.

  Lemma thr_rows_flat : forall (rows : list (list nat)) (i : nat),
    MM.thr_rows Z.leb (Z.of_nat t) i (map (map Z.of_nat) rows) =
    flat_map (fun r => filter (fun rc => t <=? nth (snd rc) (nth (r - i) rows []) 0)
                              (map (fun c => (r, c)) (seq 0 (length (nth (r - i) rows [])))))
             (seq i (length rows)).
  Proof.
    induction rows as [|row rest IH]; intros i; [reflexivity|].
    cbn [map MM.thr_rows length seq flat_map]. rewrite Nat.sub_diag. cbn [nth].
    rewrite thr_row_filter, IH. f_equal.
    - apply filter_ext. intros [r c]. cbn [snd]. now rewrite Nat.sub_0_r.
    - apply flat_map_ext_in. intros r Hr. apply in_seq in Hr.
      replace (r - i) with (S (r - S i)) by lia. reflexivity.
  Qed.
End Thr.

(* Threshold<u8>::threshold of every arm (one default implementation, used by all
   backends: dispatch_threshold) returns exactly ScanModel.dthreshold, as a list *)
Theorem dthreshold_bridge (a : MM.arm) (d : SCN.dmatrix) (t : nat) :
  MM.dispatch_threshold Z.leb a (zmat d) (Z.of_nat t) = SCN.dthreshold d t.
Proof.
  unfold MM.dispatch_threshold, MM.threshold_generic, zmat, SCN.dthreshold, SCN.coords.
  rewrite thr_rows_flat, filter_flat_map.
  apply flat_map_ext_in. intros r _. rewrite Nat.sub_0_r.
  apply filter_ext_in. intros [r' c] Hin. apply in_map_iff in Hin.
  destruct Hin as (c' & Heq & _). inversion Heq; subst. reflexivity.
Qed.

(* ---------- Maximum::max ---------- *)

Lemma cells_zmat d : MM.cells (zmat d) = map Z.of_nat (concat d).
Proof. unfold MM.cells, zmat. now rewrite concat_map. Qed.

(* an answer meeting C07's max_spec on a matrix with at least one column is dmax *)
Lemma max_spec_dmax (C : nat) (d : SCN.dmatrix) (o : option Z) :
  0 < C -> MP.wf C (zmat d) -> MP.max_spec Z.leb (zmat d) o -> o = option_map Z.of_nat (SCN.dmax d).
Proof.
  intros HC Hwf Hs. destruct d as [|row rest].
  - destruct o as [v|]; [|reflexivity]. destruct Hs as (Hne & _). now contradiction Hne.
  - destruct o as [v|]; [|discriminate Hs].
    destruct Hs as (_ & Hin & Hall). cbn [SCN.dmax option_map]. f_equal.
    rewrite cells_zmat in Hin, Hall.
    apply in_map_iff in Hin. destruct Hin as (n & <- & Hn).
    assert (Hne : concat (row :: rest) <> []) by (intros E; rewrite E in Hn; exact Hn).
    pose proof (list_max_in _ Hne) as Hm.
    pose proof (list_max_ge _ _ Hn) as Hle.
    specialize (Hall (Z.of_nat (list_max (concat (row :: rest)))) (in_map _ _ _ Hm)).
    apply Z.leb_le in Hall. f_equal. lia.
Qed.

Lemma zmat_wf C d : Forall (fun row => length row = C) d -> MP.wf C (zmat d).
Proof.
  unfold MP.wf, zmat. intros H. apply Forall_forall. intros row Hin.
  apply in_map_iff in Hin. destruct Hin as (r & <- & Hr). rewrite map_length.
  rewrite Forall_forall in H. now apply H.
Qed.

Lemma zmat_u8 d : Forall (Forall (fun x => x <= 255)) d -> MK.u8_matrix (zmat d).
Proof.
  unfold MK.u8_matrix. rewrite cells_zmat. intros H. apply Forall_forall. intros z Hz.
  apply in_map_iff in Hz. destruct Hz as (n & <- & Hn). apply in_concat in Hn.
  destruct Hn as (row & Hrow & Hn). rewrite Forall_forall in H. specialize (H row Hrow).
  rewrite Forall_forall in H. specialize (H n Hn). lia.
Qed.

(* Maximum<u8>::max of every arm of the dispatcher (generic scan = value at the arg-max;
   AVX2 = max_epu8 from zero then the maximum of the 32 lanes) on a 32-column byte matrix *)
Theorem dmax_bridge (a : MM.arm) (d : SCN.dmatrix) :
  Forall (fun row => length row = 32) d -> Forall (Forall (fun x => x <= 255)) d ->
  MM.dispatch_max_u8 a (zmat d) = Ok (option_map Z.of_nat (SCN.dmax d)).
Proof.
  intros Hwf Hu.
  destruct (LMMaxi.MaxiTop.dispatch_max_u8_ok a (zmat d) (zmat_wf 32 d Hwf) (zmat_u8 d Hu)) as (o & E & Hs).
  rewrite E. f_equal. apply (max_spec_dmax 32); auto; [lia|now apply zmat_wf].
Qed.

(* the generic kernel alone, any column count >= 1 *)
Theorem dmax_generic_bridge (C : nat) (d : SCN.dmatrix) :
  0 < C -> Forall (fun row => length row = C) d ->
  MM.max_generic Z.leb (zmat d) = Ok (option_map Z.of_nat (SCN.dmax d)).
Proof.
  intros HC Hwf.
  destruct (LMMaxi.C07.C07_max_spec Z Z.leb MK.zgood MK.zle_preorder C (zmat d) HC
              (zmat_wf C d Hwf) (MK.zall_good (zmat d))) as (o & E & Hs).
  rewrite E. f_equal. apply (max_spec_dmax C); auto. now apply zmat_wf.
Qed.
