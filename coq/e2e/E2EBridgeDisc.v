(* Bridge between the scan model's u8 block scoring (ScanConcrete.c_score_rows: generic body
   for every arm, the AVX2 arm adding the guards of the AVX2 wrapper; byte matrices as
   list (list nat)) and the KERNEL models of property C08 (coq/disc DiscModel:
   score_rows_generic with saturating Accumulate, score_rows_avx2 = the PSHUFB / PADDUSB
   kernel behind its wrapper, score_rows_dispatch; byte matrices as list (list Z)).

     u8_rows_generic_bridge   every input (well formed or not): same rows or both panic
     u8_rows_avx2_bridge      K <= 16 symbols, discrete rows of K cells, any padding bytes,
                              32-column striped matrix of symbols < K: same rows or both panic
     u8_rows_dispatch_bridge  every dispatcher arm

   (the relation is "same Ok rows or both Panic": panic site numbers are private to a group) *)
From Coq Require Import List Arith Bool Lia ZArith.
From LMBase Require Import Res ListX.
From LMDisc Require DiscModel DiscKernels.
From LMScan Require ScanModel ScanConcrete ConcreteProofs.
From LME2E Require Import E2EBridgeMaxi.
Import ListNotations.

Module DM := LMDisc.DiscModel.
Module DK := LMDisc.DiscKernels.
Module SC := LMScan.ScanConcrete.
Module CP := LMScan.ConcreteProofs.

(* related Ok values, or both panic *)
Definition rrel {A B} (R : A -> B -> Prop) (x : res A) (y : res B) : Prop :=
  match x, y with
  | Ok a, Ok b => R a b
  | Panic _, Panic _ => True
  | _, _ => False
  end.

Definition dsq (L wrap : nat) (sm : list (list nat)) : DM.sseq :=
  {| DM.ss_len := L; DM.ss_wrap := wrap; DM.ss_rows := sm |}.

Definition arm_disc (am : SC.arm) : DM.arm :=
  match am with SC.Generic => DM.AGeneric | SC.Sse2 => DM.ASse2 | SC.Avx2 => DM.AAvx2 end.

Lemma sat_add_Z x y : Z.of_nat (SC.sat_add x y) = DM.sat_add (Z.of_nat x) (Z.of_nat y).
Proof. unfold SC.sat_add, DM.sat_add. lia. Qed.

(* ---------- one cell ---------- *)

Lemma cell_bridge (sm : list (list nat)) (c : nat) :
  forall (drows : list (list nat)) (r acc : nat),
    rrel (fun a b => Z.of_nat a = b)
         (SC.dcell_from sm drows r c acc)
         (DM.cell_from DM.sat_add (Z.of_nat acc) (zmat drows) sm r c).
Proof.
  induction drows as [|drow rest IH]; intros r acc; [reflexivity|].
  cbn [SC.dcell_from zmat map DM.cell_from]. unfold DM.nth_res.
  destruct (nth_error sm r) as [srow|]; [|exact I]. cbn [rbind].
  destruct (nth_error srow c) as [sym|]; [|exact I]. cbn [rbind].
  rewrite nth_error_map. destruct (nth_error drow sym) as [x|]; [|exact I].
  cbn [option_map rbind]. rewrite <- sat_add_Z. apply IH.
Qed.

(* ---------- monadic maps ---------- *)

Lemma mapM_bridge {X A B} (R : A -> B -> Prop) (f : X -> res A) (g : X -> res B) (l : list X) :
  (forall x, In x l -> rrel R (f x) (g x)) ->
  rrel (Forall2 R) (SC.rmapM f l) (DM.map_res g l).
Proof.
  induction l as [|x rest IH]; intros H; [constructor|].
  cbn [SC.rmapM DM.map_res].
  pose proof (H x (or_introl eq_refl)) as Hx.
  destruct (f x) as [a| | |], (g x) as [b| | |]; simpl in Hx; try contradiction; cbn [rbind]; auto.
  specialize (IH (fun y Hy => H y (or_intror Hy))).
  destruct (SC.rmapM f rest) as [as_| | |], (DM.map_res g rest) as [bs| | |]; simpl in IH;
    try contradiction; cbn [rbind]; simpl; auto.
Qed.

Lemma Forall2_ofnat (l : list nat) (l' : list Z) : Forall2 (fun a b => Z.of_nat a = b) l l' -> map Z.of_nat l = l'.
Proof. induction 1; simpl; congruence. Qed.

Lemma Forall2_zmat (m : list (list nat)) (m' : list (list Z)) :
  Forall2 (fun a b => map Z.of_nat a = b) m m' -> zmat m = m'.
Proof. unfold zmat. induction 1; simpl; congruence. Qed.

Lemma drow_bridge (C : nat) (sm ddata : list (list nat)) (r : nat) :
  rrel (fun a b => map Z.of_nat a = b)
       (SC.drow C sm ddata r)
       (DM.map_res (fun c => DM.cell_from DM.sat_add 0%Z (zmat ddata) sm r c) (seq 0 C)).
Proof.
  unfold SC.drow.
  pose proof (mapM_bridge (fun a b => Z.of_nat a = b)
                (fun c => SC.dcell_from sm ddata r c 0)
                (fun c => DM.cell_from DM.sat_add 0%Z (zmat ddata) sm r c) (seq 0 C)
                (fun c _ => cell_bridge sm c ddata r 0)) as H.
  destruct (SC.rmapM _ _) as [a| | |], (DM.map_res _ _) as [b| | |]; simpl in *; auto.
  now apply Forall2_ofnat.
Qed.

(* the cache of ScanConcrete never changes a result *)
Definition dtab_ok (C : nat) (sm ddata : list (list nat)) (dtab : list (res (list nat))) : Prop :=
  forall i, SC.tab_get (SC.drow C sm ddata) dtab i = SC.drow C sm ddata i.

Lemma dtab_ok_map C sm ddata n : dtab_ok C sm ddata (map (SC.drow C sm ddata) (seq 0 n)).
Proof. intros i. apply CP.tab_get_map. Qed.

Lemma dtab_ok_nil C sm ddata : dtab_ok C sm ddata [].
Proof. intros i. unfold SC.tab_get. now destruct i. Qed.

Lemma body_bridge (C : nat) (sm ddata : list (list nat)) dtab (a e : nat) :
  dtab_ok C sm ddata dtab ->
  rrel (fun m rows => zmat m = rows)
       (SC.score_rows_body C sm ddata dtab a e)
       (DM.map_res (fun r => DM.map_res (fun c => DM.cell_from DM.sat_add 0%Z (zmat ddata) sm r c) (seq 0 C))
                   (seq a (e - a))).
Proof.
  intros Ht. unfold SC.score_rows_body.
  pose proof (mapM_bridge (fun a b => map Z.of_nat a = b)
                (SC.tab_get (SC.drow C sm ddata) dtab)
                (fun r => DM.map_res (fun c => DM.cell_from DM.sat_add 0%Z (zmat ddata) sm r c) (seq 0 C))
                (seq a (e - a))) as H.
  assert (Hx : forall x, In x (seq a (e - a)) ->
             rrel (fun a b => map Z.of_nat a = b) (SC.tab_get (SC.drow C sm ddata) dtab x)
                  (DM.map_res (fun c => DM.cell_from DM.sat_add 0%Z (zmat ddata) sm x c) (seq 0 C))).
  { intros x _. rewrite Ht. apply drow_bridge. }
  specialize (H Hx).
  destruct (SC.rmapM _ _) as [m| | |], (DM.map_res _ _) as [rows| | |]; simpl in *; auto.
  now apply Forall2_zmat.
Qed.

(* ---------- Score<u8>::score_rows_into, generic body (Generic and Sse2 arms) ---------- *)

Definition rows_rel (m : LMScan.ScanModel.dmatrix) (sc : DM.sscores Z) : Prop := zmat m = DM.sc_rows sc.

Theorem u8_rows_generic_bridge (am : SC.arm) (C : nat) (sm : list (list nat)) (wrap L : nat)
        (ddata : list (list nat)) dtab (a e : nat) :
  am <> SC.Avx2 -> dtab_ok C sm ddata dtab ->
  rrel rows_rel (SC.c_score_rows am C sm wrap L ddata dtab a e)
                (DM.score_rows_generic DM.sat_add 0%Z C (zmat ddata) (dsq L wrap sm) a e).
Proof.
  intros Ham Ht.
  assert (G : rrel rows_rel
                (if (L <? length ddata) || (e <=? a) then Ok [] else SC.score_rows_body C sm ddata dtab a e)
                (DM.score_rows_generic DM.sat_add 0%Z C (zmat ddata) (dsq L wrap sm) a e)).
  { unfold DM.score_rows_generic. cbn [dsq DM.ss_len DM.ss_rows]. rewrite zmat_length.
    destruct ((L <? length ddata) || (e <=? a)); [reflexivity|].
    pose proof (body_bridge C sm ddata dtab a e Ht) as H.
    destruct (SC.score_rows_body _ _ _ _ _ _) as [m| | |], (DM.map_res _ _) as [rows| | |];
      simpl in *; auto. }
  destruct am; try congruence; exact G.
Qed.

(* ---------- the AVX2 arm: wrapper guards + the PSHUFB / PADDUSB kernel ---------- *)

Theorem u8_rows_avx2_bridge (K : nat) (sm : list (list nat)) (wrap L : nat)
        (ddata : list (list nat)) dtab (pads : nat -> list Z) (a e : nat) :
  K <= 16 -> Forall (fun row => length row = K) ddata -> (forall i, 16 <= K + length (pads i)) ->
  Forall (fun x => length x = 32 /\ Forall (fun v => v < K) x) sm ->
  dtab_ok 32 sm ddata dtab ->
  rrel rows_rel (SC.c_score_rows SC.Avx2 32 sm wrap L ddata dtab a e)
                (DM.score_rows_avx2 (zmat ddata) pads (dsq L wrap sm) a e).
Proof.
  intros HK Hd Hp Hs Ht.
  assert (Hdz : Forall (fun row : list Z => length row = K) (zmat ddata)).
  { unfold zmat. apply Forall_forall. intros row Hin. apply in_map_iff in Hin.
    destruct Hin as (r & <- & Hr). rewrite map_length. rewrite Forall_forall in Hd. now apply Hd. }
  pose proof (u8_rows_generic_bridge SC.Generic 32 sm wrap L ddata dtab a e ltac:(discriminate) Ht) as G.
  destruct (DM.score_rows_avx2 (zmat ddata) pads (dsq L wrap sm) a e) as [sc| | |] eqn:Ea.
  - (* the kernel answered: the generic kernel answers the same (C08_avx2_eq_generic) *)
    pose proof (DK.avx2_eq_generic K (zmat ddata) pads (dsq L wrap sm) a e sc HK Hdz Hp Hs Ea) as Eg.
    rewrite Eg in G.
    unfold DM.score_rows_avx2 in Ea. cbn [dsq DM.ss_len DM.ss_wrap DM.ss_rows] in Ea.
    rewrite zmat_length in Ea.
    cbn [SC.c_score_rows] in *. cbv zeta.
    destruct (length ddata =? 0); [discriminate|].
    destruct (wrap <? length ddata - 1); [discriminate|].
    destruct ((L <? length ddata) || (e <=? a)); [exact G|].
    destruct (length sm <? e + length ddata - 1); [discriminate|]. exact G.
  - unfold DM.score_rows_avx2 in Ea.
    repeat match type of Ea with (if ?c then _ else _) = _ => destruct c; try discriminate end.
  - unfold DM.score_rows_avx2 in Ea. cbn [dsq DM.ss_len DM.ss_wrap DM.ss_rows] in Ea.
    rewrite zmat_length in Ea. cbn [SC.c_score_rows]. cbv zeta.
    destruct (length ddata =? 0); [exact I|].
    destruct (wrap <? length ddata - 1); [exact I|].
    destruct ((L <? length ddata) || (e <=? a)); [discriminate|].
    destruct (length sm <? e + length ddata - 1); [exact I|discriminate].
  - unfold DM.score_rows_avx2 in Ea.
    repeat match type of Ea with (if ?c then _ else _) = _ => destruct c; try discriminate end.
Qed.

(* ---------- every arm of Pipeline<Dna, Dispatch> ---------- *)

Theorem u8_rows_dispatch_bridge (am : SC.arm) (K : nat) (sm : list (list nat)) (wrap L : nat)
        (ddata : list (list nat)) dtab (pads : nat -> list Z) (a e : nat) :
  K <= 16 -> Forall (fun row => length row = K) ddata -> (forall i, 16 <= K + length (pads i)) ->
  Forall (fun x => length x = 32 /\ Forall (fun v => v < K) x) sm ->
  dtab_ok 32 sm ddata dtab ->
  rrel rows_rel (SC.c_score_rows am 32 sm wrap L ddata dtab a e)
                (DM.score_rows_dispatch (arm_disc am) (zmat ddata) pads (dsq L wrap sm) a e).
Proof.
  intros HK Hd Hp Hs Ht. destruct am; cbn [arm_disc DM.score_rows_dispatch].
  - apply u8_rows_generic_bridge; [discriminate|exact Ht].
  - apply u8_rows_generic_bridge; [discriminate|exact Ht].
  - now apply (u8_rows_avx2_bridge K).
Qed.
