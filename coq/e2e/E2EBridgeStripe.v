(* Bridges between the groups' models of the STRIPED SEQUENCE.

   Four groups carry a representation of a StripedSequence:
     coq/stripe  StripeModel.sseq  (mat, slen, swrap)      -- the model of Stripe::stripe_into /
                 StripeSpec.Striped                           configure_wrap (property C04)
     coq/score   ScoreModel.sseq   (sq_len, sq_wrap, sq_mat), ScoreModel.Striped / stripe_of
     coq/disc    DiscModel.sseq    (ss_len, ss_wrap, ss_rows), DiscModel.striped (closed form)
     coq/scan    ScanConcrete.smatrix K C sq wrap            (closed form, column-wise)

   This file proves that they are the same object: the state reached by the stripe model
   (any state satisfying C04's [Striped]) has exactly the matrix that scan's [smatrix],
   disc's [striped] and score's [stripe_of] write down by their closed forms. *)
From Coq Require Import List Arith Bool Lia.
From LMBase Require Import Res ListX.
From LMStripe Require StripeModel StripeSpec.
From LMScore Require ScoreModel.
From LMDisc Require DiscModel.
From LMScan Require ScanModel ScanConcrete ConcreteProofs.
Import ListNotations.

Module SM := LMStripe.StripeModel.
Module SS := LMStripe.StripeSpec.
Module SC := LMScan.ScanConcrete.
Module CP := LMScan.ConcreteProofs.

(* ---------- small list facts ---------- *)

Lemma nth_map_seq {A} (f : nat -> A) (d : A) n r : r < n -> nth r (map f (seq 0 n)) d = f r.
Proof.
  intros Hr. rewrite (nth_indep _ d (f 0)) by (rewrite map_length, seq_length; exact Hr).
  rewrite map_nth, seq_nth by exact Hr. reflexivity.
Qed.

Lemma list_eq_nth {A} (d : A) (l1 l2 : list A) :
  length l1 = length l2 -> (forall i, i < length l1 -> nth i l1 d = nth i l2 d) -> l1 = l2.
Proof. intros Hl Hn. apply (nth_ext l1 l2 d d Hl). exact Hn. Qed.

(* the closed form all groups use: R + wrap rows of C cells, cell (r, c) = s[c*R + r],
   the wildcard K-1 past the end *)
Definition closed_matrix (K C : nat) (s : list nat) (wrap : nat) : list (list nat) :=
  let R := (length s + (C - 1)) / C in
  map (fun r => map (fun c => nth (c * R + r) s (K - 1)) (seq 0 C)) (seq 0 (R + wrap)).

Lemma closed_matrix_length K C s wrap :
  length (closed_matrix K C s wrap) = (length s + (C - 1)) / C + wrap.
Proof. unfold closed_matrix. now rewrite map_length, seq_length. Qed.

Lemma closed_matrix_row K C s wrap r :
  r < (length s + (C - 1)) / C + wrap ->
  nth r (closed_matrix K C s wrap) [] =
  map (fun c => nth (c * ((length s + (C - 1)) / C) + r) s (K - 1)) (seq 0 C).
Proof. intros Hr. unfold closed_matrix. cbv zeta. now rewrite nth_map_seq. Qed.

(* ---------- scan: smatrix (column-wise) is the closed form ---------- *)

Lemma smatrix_closed K C sq wrap : SC.smatrix K C sq wrap = closed_matrix K C sq wrap.
Proof.
  unfold SC.smatrix, closed_matrix, SC.seq_rows. cbv zeta.
  apply map_ext. intros r. rewrite map_map. apply map_ext. intros c.
  apply CP.nth_skipn.
Qed.

(* ---------- disc: DiscModel.striped is the closed form ---------- *)

Lemma disc_striped_closed K C wrap s :
  LMDisc.DiscModel.ss_rows (LMDisc.DiscModel.striped K C wrap s) = closed_matrix K C s wrap /\
  LMDisc.DiscModel.ss_len (LMDisc.DiscModel.striped K C wrap s) = length s /\
  LMDisc.DiscModel.ss_wrap (LMDisc.DiscModel.striped K C wrap s) = wrap.
Proof. unfold LMDisc.DiscModel.striped, closed_matrix. cbn. auto. Qed.

(* ---------- score: ScoreModel.stripe_of is the closed form ---------- *)

Lemma score_stripe_of_closed K C s wrap :
  LMScore.ScoreModel.sq_mat (LMScore.ScoreModel.stripe_of C (K - 1) s wrap) = closed_matrix K C s wrap /\
  LMScore.ScoreModel.sq_len (LMScore.ScoreModel.stripe_of C (K - 1) s wrap) = length s /\
  LMScore.ScoreModel.sq_wrap (LMScore.ScoreModel.stripe_of C (K - 1) s wrap) = wrap.
Proof. unfold LMScore.ScoreModel.stripe_of, LMScore.ScoreModel.seq_R, closed_matrix. cbn. auto. Qed.

(* ---------- stripe: every state satisfying C04's Striped has that matrix ---------- *)

Lemma striped_mat_closed K C s st :
  SS.Striped K C s st -> SM.mat st = closed_matrix K C s (SM.swrap st).
Proof.
  intros (Hwf & Hrows & Hlen & Hcell).
  unfold SM.seq_rows in Hrows, Hcell.
  apply (list_eq_nth []).
  - now rewrite closed_matrix_length.
  - intros r Hr. rewrite Hrows in Hr. rewrite closed_matrix_row by exact Hr.
    assert (Hlr : length (nth r (SM.mat st) []) = C).
    { unfold SS.wf_matrix in Hwf. rewrite Forall_forall in Hwf. apply Hwf. apply nth_In. lia. }
    apply (list_eq_nth (K - 1)).
    + now rewrite map_length, seq_length.
    + intros c Hc. rewrite Hlr in Hc. rewrite nth_map_seq by exact Hc.
      specialize (Hcell r c Hr Hc). unfold SS.cell, SM.wild in Hcell. exact Hcell.
Qed.

(* the bridge used by the end-to-end theorems: stripe model state -> scan's smatrix *)
Theorem striped_mat_smatrix K C s st :
  SS.Striped K C s st ->
  SM.mat st = SC.smatrix K C s (SM.swrap st) /\ SM.slen st = length s.
Proof.
  intros H. split.
  - rewrite smatrix_closed. now apply striped_mat_closed.
  - destruct H as (_ & _ & Hlen & _). exact Hlen.
Qed.

(* ... -> disc's closed form *)
Theorem striped_mat_disc K C s st :
  SS.Striped K C s st ->
  LMDisc.DiscModel.ss_rows (LMDisc.DiscModel.striped K C (SM.swrap st) s) = SM.mat st.
Proof.
  intros H. rewrite (striped_mat_closed K C s st H). apply disc_striped_closed.
Qed.

(* ... -> score's closed form *)
Theorem striped_mat_score K C s st :
  SS.Striped K C s st ->
  LMScore.ScoreModel.stripe_of C (K - 1) s (SM.swrap st) =
  LMScore.ScoreModel.mkSeq (SM.slen st) (SM.swrap st) (SM.mat st).
Proof.
  intros H. destruct (score_stripe_of_closed K C s (SM.swrap st)) as (E1 & E2 & E3).
  destruct (LMScore.ScoreModel.stripe_of C (K - 1) s (SM.swrap st)) as [l w m] eqn:E.
  cbn in E1, E2, E3. subst. f_equal.
  - destruct H as (_ & _ & Hlen & _). now rewrite Hlen.
  - symmetry. now apply striped_mat_closed.
Qed.

(* conversely the closed form satisfies C04's Striped (so the hypotheses are satisfiable
   and the four representations are interchangeable) *)
Theorem closed_is_striped K C s wrap :
  SS.Striped K C s (SM.mkS (closed_matrix K C s wrap) (length s) wrap).
Proof.
  unfold SS.Striped. cbn [SM.mat SM.slen SM.swrap]. unfold SM.seq_rows.
  split; [|split; [|split]].
  - unfold SS.wf_matrix, closed_matrix. cbv zeta. apply Forall_forall. intros row Hin.
    apply in_map_iff in Hin. destruct Hin as (r & <- & _). now rewrite map_length, seq_length.
  - apply closed_matrix_length.
  - reflexivity.
  - intros r c Hr Hc. unfold SS.cell, SM.wild. rewrite closed_matrix_row by exact Hr.
    now rewrite nth_map_seq.
Qed.
