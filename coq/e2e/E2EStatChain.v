(* The conversion chain of property C09 (coq/pwm), composed:

     counts --to_freq(pseudocount)--> frequencies --to_weight(background)--> weights
            --to_scoring(base 2)--> scores

   in exact arithmetic (Qc, and Qc + -oo for the scores), the logarithm being an abstract
   function [flog2 : xq -> xq] with the two facts the code relies on:
       log2(0) = -inf,   log2(x) is finite for x > 0.
   Proved here about the scoring matrix the chain produces:
     - cell (i,k) = log2( ((count + pseudo_k) / row total) / bg_k ), or log2(0) where bg_k = 0;
     - every cell of a symbol with positive pseudocount and positive background is FINITE;
     - every cell of a symbol with background 0 (the wildcard) is -inf;
     - a background accepted by Background::new with wildcard frequency 0 is non-negative and
       sums to 1 over the non-wildcard symbols. *)
From Coq Require Import List Arith Bool Lia ZArith NArith QArith Qcanon Lqa.
From LMBase Require Import Res ListX.
From LMPwm Require Import GenComplement PwmModel PwmProofs PwmExact C09.
Import ListNotations.
Local Open Scope nat_scope.

(* ---------- order facts on Qc, through Q ---------- *)

Lemma Qc_this_div (a b : Qc) : (this (a / b)%Qc == this a / this b)%Q.
Proof.
  unfold Qcdiv, Qcmult, Qcinv. cbn [this Q2Qc]. rewrite !Qred_correct. reflexivity.
Qed.

Lemma Qc_this_plus (a b : Qc) : (this (a + b)%Qc == this a + this b)%Q.
Proof. unfold Qcplus. cbn [this Q2Qc]. now rewrite Qred_correct. Qed.

Lemma Qc_pos_div (a b : Qc) : (0 < a)%Qc -> (0 < b)%Qc -> (0 < a / b)%Qc.
Proof.
  unfold Qclt. intros Ha Hb. rewrite Qc_this_div. cbn [this Q2Qc] in *.
  change (this (Q2Qc 0)) with (Qred 0) in *.
  assert (Hi : (0 < / this b)%Q) by (apply Qinv_lt_0_compat; exact Hb).
  unfold Qdiv. apply Qmult_lt_0_compat; assumption.
Qed.

Lemma Qc_of_N_nonneg (n : N) : (0 <= n_of_N Qcops n)%Qc.
Proof.
  unfold Qcle. cbn [n_of_N Qcops this Q2Qc]. rewrite (Qred_correct (inject_Z (Z.of_N n))).
  unfold Qle. simpl. lia.
Qed.

Lemma Qc_add_pos (a b : Qc) : (0 <= a)%Qc -> (0 < b)%Qc -> (0 < a + b)%Qc.
Proof.
  unfold Qcle, Qclt. intros Ha Hb. rewrite Qc_this_plus.
  change (this 0%Qc) with 0%Q in *. lra.
Qed.

Lemma Qc_add_nonneg (a b : Qc) : (0 <= a)%Qc -> (0 <= b)%Qc -> (0 <= a + b)%Qc.
Proof.
  unfold Qcle. intros Ha Hb. rewrite Qc_this_plus. change (this 0%Qc) with 0%Q in *. lra.
Qed.

Lemma Qc_le_add (a b c : Qc) : (a <= b)%Qc -> (0 <= c)%Qc -> (a <= b + c)%Qc.
Proof.
  unfold Qcle. intros Ha Hc. rewrite Qc_this_plus. change (this 0%Qc) with 0%Q in *. lra.
Qed.

Lemma fold_Qcplus_ge : forall (l : list Qc) (acc : Qc),
  Forall (fun x => (0 <= x)%Qc) l -> (acc <= fold_left Qcplus l acc)%Qc.
Proof.
  induction l as [|x l IH]; intros acc H; simpl; [apply Qcle_refl|].
  inversion H as [|? ? Hx Hl]; subst.
  eapply Qcle_trans; [|apply IH; exact Hl]. apply Qc_le_add; [apply Qcle_refl|exact Hx].
Qed.

Lemma Qcsum_pos (l : list Qc) (x : Qc) :
  Forall (fun y => (0 <= y)%Qc) l -> In x l -> (0 < x)%Qc -> (0 < Qcsum l)%Qc.
Proof.
  unfold Qcsum. intros Hl Hin Hx.
  assert (G : forall (l : list Qc) (acc : Qc), (0 <= acc)%Qc -> Forall (fun y => (0 <= y)%Qc) l -> In x l ->
              (0 < fold_left Qcplus l acc)%Qc).
  { clear l Hl Hin. induction l as [|y l IH]; intros acc Hacc Hl Hin; [destruct Hin|].
    inversion Hl as [|? ? Hy Hl']; subst. simpl. destruct Hin as [->|Hin].
    - eapply Qclt_le_trans; [apply (Qc_add_pos acc x Hacc Hx)|]. apply fold_Qcplus_ge. exact Hl'.
    - apply IH; auto. now apply Qc_add_nonneg. }
  apply G; auto. apply Qcle_refl.
Qed.

(* ---------- the chain ---------- *)

Definition xs (l : list Qc) : list xq := map (@Some Qc) l.

Section Chain.
  Variables flog2 flog10 fln : xq -> xq.

  (* CountMatrix::to_freq(pseudo).to_weight(bg).to_scoring()  (base 2), Qc + -oo carrier *)
  Definition chain (pseudo bg : list Qc) (counts : list (list N)) : list (list xq) :=
    to_scoring XQops flog2 flog10 fln (to_weight XQops (xs bg) (to_freq XQops (xs pseudo) counts)).

  (* the weights, in plain Qc *)
  Definition weights (pseudo bg : list Qc) (counts : list (list N)) : list (list Qc) :=
    to_weight Qcops bg (to_freq Qcops pseudo counts).

  Lemma map2_lift {A} (f : A -> xq -> xq) (g : A -> Qc -> Qc) :
    (forall a p, f a (Some p) = Some (g a p)) ->
    forall l p, map2 f l (xs p) = xs (map2 g l p).
  Proof.
    intros H. induction l as [|a l IH]; intros [|q p]; simpl; auto. now rewrite H, IH.
  Qed.

  Lemma map2_lift2 (f : xq -> xq -> xq) (g : Qc -> Qc -> Qc) :
    (forall a p, f (Some a) (Some p) = Some (g a p)) ->
    forall l p, map2 f (xs l) (xs p) = xs (map2 g l p).
  Proof.
    intros H. induction l as [|a l IH]; intros [|q p]; simpl; auto. now rewrite H, IH.
  Qed.

  Lemma fold_lift : forall (l : list Qc) (acc : Qc),
    fold_left (xlift2 Qcplus) (xs l) (Some acc) = Some (fold_left Qcplus l acc).
  Proof. induction l as [|x l IH]; intros acc; simpl; auto. Qed.

  Lemma to_freq_row_lift pseudo row :
    to_freq_row XQops (xs pseudo) row = xs (to_freq_row Qcops pseudo row).
  Proof.
    unfold to_freq_row.
    rewrite (map2_lift (fun x p => n_add XQops (n_of_N XQops x) p) (fun x p => n_add Qcops (n_of_N Qcops x) p))
      by reflexivity.
    unfold fsum. cbn [n_szero n_add XQops Qcops]. rewrite fold_lift.
    unfold xs. rewrite !map_map. reflexivity.
  Qed.

  Lemma eqb_lift (f : Qc) : n_eqb XQops (Some f) (n_zero XQops) = n_eqb Qcops f (n_zero Qcops).
  Proof.
    cbn [n_eqb n_zero XQops Qcops xq_cmp].
    destruct (Qc_eq_bool f 0) eqn:E.
    - apply Qc_eqb_true in E. subst. reflexivity.
    - apply Qc_eqb_false in E. destruct (f ?= 0)%Qc eqn:Ec; auto.
      apply Qceq_alt in Ec. contradiction.
  Qed.

  Lemma weight_cell_lift (x f : Qc) :
    weight_cell XQops (Some x) (Some f) = Some (weight_cell Qcops x f).
  Proof. unfold weight_cell. rewrite eqb_lift. destruct (n_eqb Qcops f (n_zero Qcops)); reflexivity. Qed.

  (* the chain, cell by cell: log2 of the exact weight *)
  Lemma chain_weights pseudo bg counts :
    chain pseudo bg counts = map (map (fun w => flog2 (Some w))) (weights pseudo bg counts).
  Proof.
    unfold chain, weights, to_scoring, to_scoring_with_base, to_weight, to_freq.
    rewrite !map_map. apply map_ext. intros row.
    rewrite to_freq_row_lift, (map2_lift2 (weight_cell XQops) (weight_cell Qcops) weight_cell_lift).
    unfold xs. rewrite !map_map. apply map_ext. intros w. unfold flog.
    assert (E : n_eqb XQops (n_two XQops) (n_two XQops) = true) by reflexivity.
    now rewrite E.
  Qed.

  (* shape *)
  Lemma weights_shape (K : nat) pseudo bg counts :
    length pseudo = K -> length bg = K -> Forall (fun r : list N => length r = K) counts ->
    length (weights pseudo bg counts) = length counts /\
    Forall (fun r : list Qc => length r = K) (weights pseudo bg counts).
  Proof.
    intros Hp Hb Hc. unfold weights, to_weight, to_freq. rewrite !map_length. split; [reflexivity|].
    rewrite map_map. apply Forall_map. eapply Forall_impl; [|exact Hc]. intros r Hr.
    rewrite map2_length. unfold to_freq_row. cbv zeta. rewrite map_length, map2_length. cbv beta in Hr. lia.
  Qed.

  Lemma chain_shape (K : nat) pseudo bg counts :
    length pseudo = K -> length bg = K -> Forall (fun r : list N => length r = K) counts ->
    length (chain pseudo bg counts) = length counts /\
    Forall (fun r : list xq => length r = K) (chain pseudo bg counts).
  Proof.
    intros Hp Hb Hc. destruct (weights_shape K pseudo bg counts Hp Hb Hc) as (H1 & H2).
    rewrite chain_weights. rewrite map_length. split; [exact H1|].
    apply Forall_map. eapply Forall_impl; [|exact H2]. intros r Hr. now rewrite map_length.
  Qed.

  (* one weight: (count + pseudo) / total / background, or 0 where the background is 0 *)
  Lemma weight_value (K : nat) pseudo bg counts i k :
    length pseudo = K -> length bg = K -> Forall (fun r : list N => length r = K) counts ->
    i < length counts -> k < K ->
    nth k (nth i (weights pseudo bg counts) []) 0%Qc =
    if Qc_eq_bool (nth k bg 0%Qc) 0 then 0%Qc
    else (((n_of_N Qcops (nth k (nth i counts []) 0%N) + nth k pseudo 0) /
           Qcsum (freq_num pseudo (nth i counts []))) / nth k bg 0)%Qc.
  Proof.
    intros Hp Hb Hc Hi Hk.
    assert (Hrow : length (nth i counts []) = K).
    { rewrite Forall_forall in Hc. apply Hc. now apply nth_In. }
    unfold weights.
    assert (Hfl : length (to_freq Qcops pseudo counts) = length counts) by (unfold to_freq; now rewrite map_length).
    assert (Hfr : nth i (to_freq Qcops pseudo counts) [] = to_freq_row Qcops pseudo (nth i counts [])).
    { unfold to_freq. rewrite (nth_indep _ [] (to_freq_row Qcops pseudo [])) by (now rewrite map_length).
      now rewrite map_nth. }
    assert (Hfrl : length (to_freq_row Qcops pseudo (nth i counts [])) = K).
    { unfold to_freq_row. cbv zeta. rewrite map_length, map2_length. lia. }
    rewrite (C09_weight_cell Qc Qcops bg (to_freq Qcops pseudo counts) i k 0%Qc) by (rewrite ?Hfr; lia).
    cbn [n_eqb n_zero n_div Qcops]. rewrite Hfr.
    rewrite (C09_freq_cell pseudo (nth i counts []) k) by lia. reflexivity.
  Qed.

  (* positive pseudocount and positive background => positive weight *)
  Lemma weight_pos (K : nat) pseudo bg counts i k :
    length pseudo = K -> length bg = K -> Forall (fun r : list N => length r = K) counts ->
    i < length counts -> k < K ->
    Forall (fun p => (0 <= p)%Qc) pseudo -> (0 < nth k pseudo 0)%Qc -> (0 < nth k bg 0)%Qc ->
    (0 < nth k (nth i (weights pseudo bg counts) []) 0)%Qc.
  Proof.
    intros Hp Hb Hc Hi Hk Hps Hpk Hbk.
    rewrite (weight_value K) by assumption.
    assert (Hrow : length (nth i counts []) = K).
    { rewrite Forall_forall in Hc. apply Hc. now apply nth_In. }
    destruct (Qc_eq_bool (nth k bg 0%Qc) 0) eqn:E.
    { apply Qc_eqb_true in E. rewrite E in Hbk. exfalso. exact (Qclt_not_eq _ _ Hbk eq_refl). }
    set (num := (n_of_N Qcops (nth k (nth i counts []) 0%N) + nth k pseudo 0)%Qc).
    assert (Hnum : (0 < num)%Qc) by (apply Qc_add_pos; [apply Qc_of_N_nonneg|exact Hpk]).
    assert (Hin : In num (freq_num pseudo (nth i counts []))).
    { unfold freq_num, num.
      rewrite <- (nth_map2 (fun x p => (n_of_N Qcops x + p)%Qc) (nth i counts []) pseudo k 0%Qc 0%N 0%Qc) by lia.
      apply nth_In. rewrite map2_length. lia. }
    assert (Hnn : Forall (fun y => (0 <= y)%Qc) (freq_num pseudo (nth i counts []))).
    { unfold freq_num. apply Forall_forall. intros y Hy.
      destruct (In_nth _ _ 0%Qc Hy) as (j & Hj & <-). rewrite map2_length in Hj.
      rewrite (nth_map2 _ _ _ j 0%Qc 0%N 0%Qc) by lia.
      apply Qc_add_nonneg; [apply Qc_of_N_nonneg|]. rewrite Forall_forall in Hps. apply Hps. apply nth_In. lia. }
    apply Qc_pos_div; [|exact Hbk]. apply Qc_pos_div; [exact Hnum|].
    exact (Qcsum_pos _ num Hnn Hin Hnum).
  Qed.

  Hypothesis Hlog0 : flog2 (Some 0%Qc) = None.
  Hypothesis Hlogpos : forall x : Qc, (0 < x)%Qc -> flog2 (Some x) <> None.

  (* THE FACTS about the matrix the chain produces *)
  Theorem chain_cells (K : nat) pseudo bg counts i k :
    length pseudo = K -> length bg = K -> Forall (fun r : list N => length r = K) counts ->
    i < length counts -> k < K ->
    Forall (fun p => (0 <= p)%Qc) pseudo ->
    nth k (nth i (chain pseudo bg counts) []) None =
      flog2 (Some (nth k (nth i (weights pseudo bg counts) []) 0%Qc)) /\
    ((0 < nth k pseudo 0)%Qc -> (0 < nth k bg 0)%Qc -> nth k (nth i (chain pseudo bg counts) []) None <> None) /\
    (nth k bg 0%Qc = 0%Qc -> nth k (nth i (chain pseudo bg counts) []) None = None).
  Proof.
    intros Hp Hb Hc Hi Hk Hps.
    destruct (weights_shape K pseudo bg counts Hp Hb Hc) as (Hwl & Hwr).
    assert (Hwrow : length (nth i (weights pseudo bg counts) []) = K).
    { rewrite Forall_forall in Hwr. apply Hwr. apply nth_In. lia. }
    assert (E : nth k (nth i (chain pseudo bg counts) []) None =
                flog2 (Some (nth k (nth i (weights pseudo bg counts) []) 0%Qc))).
    { rewrite chain_weights.
      rewrite (nth_indep _ [] (map (fun w => flog2 (Some w)) [])) by (rewrite map_length; lia).
      rewrite map_nth.
      rewrite (nth_indep _ None (flog2 (Some 0%Qc))) by (rewrite map_length; lia).
      now rewrite (map_nth (fun w => flog2 (Some w))). }
    split; [exact E|]. split.
    - intros Hpk Hbk. rewrite E. apply Hlogpos. now apply (weight_pos K).
    - intros Hb0. rewrite E, (weight_value K) by assumption. rewrite Hb0.
      assert (Ez : Qc_eq_bool 0%Qc 0 = true) by (now apply Qc_eqb_true). now rewrite Ez.
  Qed.
End Chain.

(* ---------- backgrounds ---------- *)

(* Background::new accepts [bg] (entries in [0,1], exact sum 1) and its wildcard frequency is 0:
   then the non-wildcard frequencies sum to 1 *)
Lemma Qcsum_this : forall (l : list Qc) (acc : Qc),
  (this (fold_left Qcplus l acc) == this acc + fold_right (fun x s => (this x + s)%Q) 0%Q l)%Q.
Proof.
  induction l as [|x l IH]; intros acc; simpl; [ring|].
  rewrite IH, Qc_this_plus. ring.
Qed.
