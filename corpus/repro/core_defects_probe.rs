use lightmotif::abc::*;
use lightmotif::pli::*;
use lightmotif::pli::dispatch::Dispatch;
use lightmotif::pwm::*;
use lightmotif::scan::Scanner;
use lightmotif::seq::*;
use lightmotif::dense::*;
use lightmotif::scores::StripedScores;
use lightmotif::num::U32;
use std::panic::catch_unwind;

fn pssm() -> ScoringMatrix<Dna> {
    let cm = CountMatrix::<Dna>::from_sequences(
        ["GTTGACCTTATCAAC", "GTTGATCCAGTCAAC"].iter().map(|x| EncodedSequence::encode(x).unwrap()),
    ).unwrap();
    cm.to_freq(0.1).to_scoring(None)
}
const SEQ: &str = "ATGTCCCAACAACGATACCCCGAGCCCATCGCCGTCATCGGCTCGGCATGCAGATTCCCAGGCG";

fn report(name: &str, ok: bool) { println!("{:40} {}", name, if ok {"ok"} else {"FAIL"}); }

fn brute(p: &ScoringMatrix<Dna>, s: &StripedSequence<Dna, U32>, thr: f32) -> Vec<(usize,f32)> {
    let mut v = vec![];
    if s.len() >= p.len() { for i in 0..=s.len()-p.len() { let x = p.score_position(s, i); if x >= thr { v.push((i,x)); } } }
    v
}

fn main() {
    let p = pssm();
    // F01a: L < M
    let r = catch_unwind(|| {
        let p = pssm();
        let mut s: StripedSequence<Dna, U32> = EncodedSequence::<Dna>::encode("ATGC").unwrap().to_striped();
        s.configure(&p);
        let mut sc = Scanner::new(&p, &s); sc.threshold(-10.0);
        sc.collect::<Vec<_>>().len()
    });
    report("F01a scan L<M", matches!(r, Ok(0)));
    let r = catch_unwind(|| {
        let p = pssm();
        let mut s: StripedSequence<Dna, U32> = EncodedSequence::<Dna>::encode("").unwrap().to_striped();
        s.configure(&p);
        let mut sc = Scanner::new(&p, &s); sc.threshold(-10.0);
        sc.collect::<Vec<_>>().len()
    });
    report("F01b scan empty", matches!(r, Ok(0)));
    let r = catch_unwind(|| {
        let p = pssm();
        let seq: String = SEQ.repeat(128); // 8192 nt => R = 256
        let mut s: StripedSequence<Dna, U32> = EncodedSequence::<Dna>::encode(&seq).unwrap().to_striped();
        s.configure(&p);
        let mut sc = Scanner::new(&p, &s); sc.threshold(-10.0);
        let mut h: Vec<_> = sc.map(|h| (h.position(), h.score())).collect(); h.sort_by_key(|x| x.0);
        h == brute(&p, &s, -10.0)
    });
    report("F01c scan R multiple of B", matches!(r, Ok(true)));
    let r = catch_unwind(|| {
        let p = pssm();
        let mut s: StripedSequence<Dna, U32> = EncodedSequence::<Dna>::encode(SEQ).unwrap().to_striped();
        s.configure(&p);
        let mut sc = Scanner::new(&p, &s); sc.threshold(-1000.0);
        let mut h: Vec<_> = sc.map(|h| (h.position(), h.score())).collect(); h.sort_by_key(|x| x.0);
        h == brute(&p, &s, -1000.0)
    });
    report("F02 scan low threshold", matches!(r, Ok(true)));
    let r = catch_unwind(|| {
        let p = pssm();
        let mut s: StripedSequence<Dna, U32> = EncodedSequence::<Dna>::encode(SEQ).unwrap().to_striped();
        s.configure(&p);
        let mut sc = Scanner::new(&p, &s); sc.threshold(-5.0);
        sc.max().map(|h| (h.position(), h.score()))
    });
    println!("   max thr -5 => {:?}", r);
    report("F03 max below threshold", matches!(r, Ok(None)));
    // F05
    {
        let mut s: StripedSequence<Dna, U32> = EncodedSequence::<Dna>::encode(SEQ).unwrap().to_striped();
        s.configure(&p);
        let sc = Pipeline::<Dna,_>::avx2().unwrap().score(&p, &s);
        let m1 = Pipeline::<Dna,_>::avx2().unwrap().max(&sc);
        let m2 = Pipeline::<Dna,_>::generic().max(&sc);
        println!("   avx2 max {:?} generic {:?}", m1, m2);
        report("F05 max_f32_avx2", m1 == m2);
    }
    // F06
    {
        let mut sc = StripedScores::<u8, U32>::empty();
        sc.resize(3, 96);
        sc.matrix_mut()[1][17] = 200;
        let a = Pipeline::<Dna,_>::avx2().unwrap().argmax(&sc);
        let g = Pipeline::<Dna,_>::generic().argmax(&sc);
        println!("   avx2 argmax {:?} generic {:?}", a, g);
        report("F06 argmax_u8_avx2", a == g);
    }
    // F07
    let r = catch_unwind(|| {
        let p = pssm();
        let dm = p.to_discrete();
        let mut s: StripedSequence<Dna, U32> = EncodedSequence::<Dna>::encode("GTTGACCTTATCAAC").unwrap().to_striped();
        s.configure(&p);
        let a = Pipeline::<Dna,_>::avx2().unwrap().score(&dm, &s);
        let g = Pipeline::<Dna,_>::generic().score(&dm, &s);
        let sp = dm.score_position(&s, 0);
        println!("   avx2 {} generic {} score_position {} scale(real) {}", a.matrix()[0][0], g.matrix()[0][0], sp, dm.scale(p.score_position(&s,0)));
        a.matrix()[0][0] == g.matrix()[0][0] && sp == g.matrix()[0][0]
    });
    report("F07 generic u8 saturation", matches!(r, Ok(true)));
    // F10
    {
        let cm = CountMatrix::<Dna>::from_sequences(
            ["GTTGACCTTATCAAC", "GTTGATCCAGTCAAC"].iter().map(|x| EncodedSequence::<Dna>::encode(x).unwrap())).unwrap();
        let f = cm.to_freq(0.1);
        let w = f.to_weight(None);
        let b2 = Background::<Dna>::new([0.3,0.2,0.2,0.3,0.0]).unwrap();
        let w2 = w.rescale(b2.clone());
        let w3 = f.to_weight(b2);
        let mut ok = true;
        for i in 0..w2.len() { for j in 0..5 { let (a,b)=(w2.matrix()[i][j], w3.matrix()[i][j]); if a.is_nan() || (a-b).abs() > 1e-4*b.abs().max(1.0) { ok=false; } } }
        println!("   rescale row0 {:?} direct {:?}", &w2.matrix()[0], &w3.matrix()[0]);
        report("F10 rescale", ok);
    }
    // F11
    {
        use lightmotif_tfmpvalue::TfmPvalue;
        let m = DenseMatrix::<f32, <Dna as Alphabet>::K>::from_rows([
            [1.0f32, -1.0, 0.5, -2.0, f32::NEG_INFINITY],
            [0.25, 0.75, -1.5, -0.5, f32::NEG_INFINITY],
        ]);
        let p = ScoringMatrix::<Dna>::new(Background::uniform(), m);
        let mut bad = 0;
        for k in -40..40 {
            let s = k as f64 * 0.1;
            let mut t = TfmPvalue::new(&p);
            for it in t.approximate_pvalue(s).take(4) {
                if *it.range.end() > 1.0 + 1e-9 || *it.range.start() > 1.0 + 1e-9 { bad += 1; }
            }
        }
        println!("   tfm pvalue > 1: {}", bad);
        report("F11 tfm lookup_pvalue", bad == 0);
    }
}
