use lightmotif::abc::*;
use lightmotif::pli::*;
use lightmotif::pwm::*;
use lightmotif::seq::*;
use lightmotif::dense::*;
use lightmotif::scores::StripedScores;
use lightmotif::num::U32;
fn main() {
    let which = std::env::args().nth(1).unwrap();
    if which == "f08" {
        let l = 1000usize;
        let sv: Vec<Nucleotide> = (0..l).map(|i| [Nucleotide::A, Nucleotide::C, Nucleotide::T, Nucleotide::G][i%4]).collect();
        let sv = sv.into_boxed_slice(); // exact-size allocation
        let s: StripedSequence<Dna, U32> = Pipeline::<Dna,_>::avx2().unwrap().stripe(&sv[..]);
        let g: StripedSequence<Dna, U32> = Pipeline::<Dna,_>::generic().stripe(&sv[..]);
        println!("rows {} eq {}", s.matrix().rows(), s.matrix() == g.matrix());
    } else {
        // F09: rows reaching into wrap rows
        let m = 70usize;
        let rows: Vec<[f32;5]> = (0..m).map(|i| [i as f32, 1.0, 2.0, 3.0, 0.0]).collect();
        let p = ScoringMatrix::<Dna>::new(Background::uniform(), DenseMatrix::from_rows(rows));
        let l = 32*80;
        let sv: Vec<Nucleotide> = (0..l).map(|i| [Nucleotide::A, Nucleotide::C, Nucleotide::T, Nucleotide::G][i%4]).collect();
        let mut s: StripedSequence<Dna, U32> = Pipeline::<Dna,_>::generic().stripe(&sv[..]);
        s.configure(&p);
        let s = s.clone(); let total = s.matrix().rows();
        let mut sc = StripedScores::<f32,U32>::empty();
        let r = std::panic::catch_unwind(move || { Pipeline::<Dna,_>::avx2().unwrap().score_rows_into(&p, &s, 0..total, &mut sc); sc.matrix().rows() });
        println!("f09 result {:?}", r.is_ok());
    }
}
