use lightmotif::abc::*;
use lightmotif::pwm::*;
use lightmotif::scan::Scanner;
use lightmotif::seq::*;
use lightmotif::dense::*;
use lightmotif::num::U32;

struct Rng(u64);
impl Rng { fn next(&mut self) -> u64 { self.0 ^= self.0 << 13; self.0 ^= self.0 >> 7; self.0 ^= self.0 << 17; self.0 } fn below(&mut self, n: u64) -> u64 { self.next() % n } }

fn main() {
    let mut rng = Rng(0x1234567);
    let mut bad = 0; let mut first = None;
    for case in 0..3000 {
        let m = 2 + rng.below(6) as usize;
        let rows: Vec<[f32;5]> = (0..m).map(|_| { let mut r=[0f32;5]; for j in 0..4 { r[j] = (rng.below(17) as f32 - 8.0)*0.25 + (rng.below(5) as f32 - 2.0)*0.01; } r[4]=f32::NEG_INFINITY; r }).collect();
        let p = ScoringMatrix::<Dna>::new(Background::uniform(), DenseMatrix::from_rows(rows.clone()));
        let l = m + rng.below(200) as usize;
        let sy = [Nucleotide::A, Nucleotide::C, Nucleotide::T, Nucleotide::G];
        let sv: Vec<Nucleotide> = (0..l).map(|_| sy[rng.below(4) as usize]).collect();
        let mut s: StripedSequence<Dna, U32> = EncodedSequence::<Dna>::new(sv.clone()).to_striped();
        s.configure(&p);
        let thr = -3.0f32;
        let bs = [1usize,2,3,7,256][rng.below(5) as usize];
        let mut sc = Scanner::new(&p, &s); sc.threshold(thr); sc.block_size(bs);
        let got = sc.max().map(|h| h.score());
        let mut best: Option<f32> = None;
        for i in 0..=l-m { let x = p.score_position(&s, i); if x >= thr { best = Some(best.map_or(x, |b: f32| b.max(x))); } }
        if got != best { bad += 1; if first.is_none() { first = Some((case, rows, sv.iter().map(|x| x.as_char()).collect::<String>(), bs, got, best)); } }
    }
    println!("bad {}", bad);
    if let Some(f) = first { println!("{:?}", f); }
}
