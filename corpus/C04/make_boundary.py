#!/usr/bin/env python3
"""Writes corpus/C04/boundary.txt: committed boundary histories for property C04
(deterministic; re-run only when the line format changes)."""
import os

def seq(k, n, a=7, b=3):
    if n == 0:
        return "-"
    return "".join(chr(97 + ((i * a + i // b + (i * i) % 11) % k)) for i in range(n))

def idx(c, lens):
    out = [0]
    for l in lens:
        rc = ((l + c - 1) // c) * c
        for x in (max(l - 1, 0), l, max(rc - 1, 0), rc, l // 2):
            if x not in out:
                out.append(x)
    return ",".join(map(str, out[:16]))

lines = []
def case(alpha, c, ops, lens):
    k = 5 if alpha == "dna" else 21
    lines.append("b%d A=%s K=%d C=%d idx=%s ops=%s" % (len(lines), alpha, k, c, idx(c, lens), ";".join(ops)))

# the AVX2 kernel around the first/second/third 32-row block, into a stale configured buffer
for L in (0, 1, 31, 32, 33, 63, 64, 65, 991, 992, 993, 1000, 1023, 1024, 1025, 1054, 1055, 1056, 1057,
          1087, 1088, 1089, 2047, 2048, 2049, 2078, 2079, 2080, 2081, 3103, 3104, 3105):
    for b in ("a", "da"):
        alpha = "dna" if (L + len(b)) % 2 == 0 else "protein"
        k = 5 if alpha == "dna" else 21
        case(alpha, 32, ["si:g:" + seq(k, 1290, 5, 2), "cw:7", "si:%s:%s" % (b, seq(k, L)), "cw:3", "cf:9"], [L, 1290])
# the repaired over-read (F08): L = 1000 has a full 32-row block whose last load would pass the slice
case("dna", 32, ["st:a:" + seq(5, 1000)], [1000])
case("dna", 32, ["st:da:" + seq(5, 1000), "cw:14"], [1000])
# the two sequences of tests/stripe.rs lengths (64, 1031) through every pipeline
for b in ("g", "a", "dg", "ds", "da"):
    case("dna", 32, ["st:%s:%s" % (b, seq(5, 64)), "cf:15", "si:%s:%s" % (b, seq(5, 1031)), "cf:15"], [64, 1031])
# wrap wider than the row count, growing / shrinking widths, empty motif, empty sequence
for c in (1, 2, 4, 16, 32):
    for alpha in ("dna", "protein"):
        k = 5 if alpha == "dna" else 21
        case(alpha, c, ["si:g:" + seq(k, 6), "cw:5", "cw:2", "cf:0", "cf:9", "cw:0"], [6])
        case(alpha, c, ["si:g:" + seq(k, 3 * c + 1), "cw:4", "cw:9", "si:g:" + seq(k, 2), "cw:1", "si:g:-", "cw:3", "cf:2"], [3 * c + 1, 2, 0])
        case(alpha, c, ["cw:3", "cf:5", "si:g:" + seq(k, c), "cw:1", "cw:2", "cw:3"], [c])
        case(alpha, c, ["st:g:" + seq(k, 5 * c - 1), "cw:%d" % (2 * 5 + 3), "st:g:" + seq(k, 5 * c), "cf:7"], [5 * c - 1, 5 * c])
# --- round 3: column counts 8, 48, 64; the 16-lane arm dispatcher (ng / nn); sample / new built buffers
def rows_of(k, c, n, a=5, b=2):
    t = seq(k, n * c, a, b) if n else "-"
    return "-" if n == 0 else "/".join(t[i * c:(i + 1) * c] for i in range(n))

for c in (8, 48, 64):
    for alpha in ("dna", "protein"):
        k = 5 if alpha == "dna" else 21
        for L in (0, 1, c - 1, c, c + 1, 7 * c + 3):
            case(alpha, c, ["si:g:" + seq(k, 9 * c + 5, 5, 2), "cw:4", "si:g:" + seq(k, L), "cw:%d" % (L // c + 3), "cf:2"], [L, 9 * c + 5])
for b in ("ng", "nn"):
    for alpha in ("dna", "protein"):
        k = 5 if alpha == "dna" else 21
        for L in (0, 15, 16, 17, 100, 1031):
            case(alpha, 16, ["st:%s:%s" % (b, seq(k, 300, 5, 2)), "cw:7", "si:%s:%s" % (b, seq(k, L)), "cw:3", "cf:9"], [L, 300])
for c in (1, 2, 4, 8, 16, 32, 48, 64):
    for alpha in ("dna", "protein"):
        k = 5 if alpha == "dna" else 21
        for L in (0, 1, c, c + 1, 3 * c + 2):
            need = (L + c - 1) // c
            # sample, then look-ahead rows (copying arbitrary padding), then a stripe into the same buffer
            case(alpha, c, ["sm:%d:%d" % (1000 + 7 * L + c, L), "cw:2", "cw:%d" % (need + 2), "cf:3", "si:g:" + seq(k, L + 1), "cw:1"], [L, L + 1])
            # new: exact rows, extra rows, one row too few (Err leaves the buffer alone)
            case(alpha, c, ["nw:%d:%s" % (L, rows_of(k, c, need)), "cw:3", "nw:%d:%s" % (L, rows_of(k, c, need + 2, 3, 4)), "cf:4",
                            "nw:%d:%s" % (L + c + 1, rows_of(k, c, need)), "cw:5", "st:g:" + seq(k, L)], [L])
open(os.path.join(os.path.dirname(os.path.abspath(__file__)), "boundary.txt"), "w").write("\n".join(lines) + "\n")
print(len(lines), "cases")
