#!/usr/bin/env python3
"""Writes corpus/C04/reuse.txt: committed histories for the two change classes of seeded/C04/5 and /6
(deterministic; re-run only when the line format changes).

 (5) generic stripe_into into a REUSED destination, one case per (old length, new length) pair class:
     the old sequence is longer and holds NO wildcard, the new length L is
       - below C (R = 1: one row, columns L.. must be rewritten with the wildcard),
       - a multiple of R = ceil(L/C) but not of C (the sequence ends exactly at the bottom of a column:
         the columns after it are all padding),
       - a multiple of C, one short of / one above a multiple of C, 0,
       - longer than the old one (growing after shrinking),
     through every pipeline that runs the generic kernel (g; dg / ds at C = 32; ng / nn at C = 16) and,
     at C = 32, through the AVX2 kernel and the dispatcher's AVX2 arm too.
 (6) count_symbol(wildcard) / count_symbols with look-ahead rows present and wildcards IN the sequence
     (runs of N / X at the start, in the middle, at the end, whole sequence), after configure_wrap with
     widths below / at / above the row count and after configure(motif); also on buffers built by
     sample / new (arbitrary padding that must never be counted).
 (7) Clone (the copy has no spare capacity: configure_wrap after it must reallocate), DenseMatrix::from +
     StripedSequence::new (identity without look-ahead rows; with them all rows become sequence rows),
     From<EncodedSequence> through every dispatcher arm.
"""
import os

lines = []


def nowild(k, n, a=3, b=5):
    """n symbols, none of them the wildcard (index k-1)"""
    if n == 0:
        return "-"
    return "".join(chr(97 + ((i * a + i // b + (i * i) % 7) % (k - 1))) for i in range(n))


def withwild(k, n, where):
    """n symbols with runs of the wildcard at the places named by `where`"""
    if n == 0:
        return "-"
    w = chr(97 + k - 1)
    s = list(nowild(k, n, 5, 3))
    run = max(1, n // 5)
    if "all" in where:
        return w * n
    if "start" in where:
        s[:run] = w * len(s[:run])
    if "mid" in where:
        s[n // 2:n // 2 + run] = w * len(s[n // 2:n // 2 + run])
    if "end" in where:
        s[n - run:] = w * len(s[n - run:])
    if "every" in where:
        for i in range(0, n, 3):
            s[i] = w
    return "".join(s)


def idx(c, lens):
    out = [0]
    for l in lens:
        rc = ((l + c - 1) // c) * c
        for x in (max(l - 1, 0), l, max(rc - 1, 0), rc, l // 2):
            if x not in out:
                out.append(x)
    return ",".join(map(str, out[:16]))


def case(alpha, c, ops, lens):
    k = 5 if alpha == "dna" else 21
    lines.append("r%d A=%s K=%d C=%d idx=%s ops=%s" % (len(lines), alpha, k, c, idx(c, lens), ";".join(ops)))


def new_lengths(c):
    out = set([0, 1, c - 1, c, c + 1, 2 * c, 2 * c - 1, 3 * c + 1])
    # below C
    for l in (2, 3, c // 2, c - 2):
        if 0 < l < c:
            out.add(l)
    # L % R == 0, L % C != 0 for R = 2, 3, 5
    for r in (2, 3, 5):
        cand = [l for l in range((r - 1) * c + 1, r * c) if l % r == 0 and l % c != 0]
        for l in cand[:2] + cand[-1:]:
            out.add(l)
    return sorted(out)


# ---- (5) reused destination, pair classes
for c in (2, 4, 8, 16, 32, 48, 64):
    backs = {32: ("g", "dg", "ds", "a", "da"), 16: ("g", "ng", "nn")}.get(c, ("g",))
    for n, L in enumerate(new_lengths(c)):
        for b in backs:
            if b != "g" and n % 2 == 1 and L >= c:
                continue            # every second pair only through the plain generic pipeline
            alpha = "dna" if (n + len(b)) % 2 == 0 else "protein"
            k = 5 if alpha == "dna" else 21
            old = 6 * c + 3
            g0 = "g" if c != 16 else b
            g0 = g0 if g0 in ("g", "ng", "nn") else "g"
            # old (longer, no wildcard) -> new ; then look-ahead rows ; then grow again ; then the same new length
            case(alpha, c, ["si:%s:%s" % (g0, nowild(k, old)), "cw:2", "si:%s:%s" % (b, nowild(k, L, 5, 2)), "cw:3",
                            "si:%s:%s" % (b, nowild(k, old + c + 1, 2, 3)), "si:%s:%s" % (b, nowild(k, L, 4, 3))], [L, old])
    # shrink in steps: every new length after the previous (longer) one, one history
    ls = [l for l in reversed(new_lengths(c))]
    case("dna", c, ["si:g:" + nowild(5, 7 * c)] + ["si:g:" + nowild(5, l, 1 + l % 4, 2) for l in ls], ls[:3] + [7 * c])
    case("protein", c, ["st:g:" + nowild(21, 7 * c)] + ["si:g:" + nowild(21, l, 1 + l % 4, 2) for l in ls], ls[:3] + [7 * c])

# ---- (6) counts with look-ahead rows and wildcards in the sequence
for c in (1, 2, 4, 8, 16, 32, 48, 64):
    for alpha in ("dna", "protein"):
        k = 5 if alpha == "dna" else 21
        for L, where in ((5, "mid"), (c + 1, "start end"), (3 * c + 2, "every"), (2 * c, "all"), (5 * c - 1, "start mid end")):
            rows = (L + c - 1) // c
            b = {32: "da", 16: "nn"}.get(c, "g") if L % 2 else "g"
            case(alpha, c, ["si:%s:%s" % (b, withwild(k, L, where)), "cw:1", "cw:%d" % max(rows, 2), "cf:%d" % (rows + 4),
                            "si:g:" + withwild(k, max(L - 1, 1), "end"), "cf:2"], [L, L - 1])
        # sample / new: the padding (wildcards included) is never counted, with look-ahead rows present
        L = 2 * c + 1
        wrow = chr(97 + k - 1) * c
        case(alpha, c, ["sm:%d:%d" % (77 + c, L), "cw:2", "cw:5",
                        "nw:%d:%s" % (L, "/".join([withwild(k, c, "every"), wrow, nowild(k, c)])), "cw:1", "cf:6"], [L])

# ---- (7) Clone and the From conversions
for c in (1, 2, 4, 8, 16, 32, 48, 64):
    for alpha in ("dna", "protein"):
        k = 5 if alpha == "dna" else 21
        for L in (0, 1, c - 1 if c > 1 else 2, 3 * c + 2):
            rows = (L + c - 1) // c
            # clone (exact capacity) then look-ahead rows beyond DEFAULT_EXTRA_ROWS, clone again, restripe
            case(alpha, c, ["si:g:" + withwild(k, L, "mid"), "cl", "cw:3", "cl", "cw:%d" % (rows + 40), "cl",
                            "si:g:" + nowild(k, L + 2), "cl", "cf:4"], [L, L + 2])
            # DenseMatrix::from + new: without look-ahead rows (identity), then with (rows re-read)
            case(alpha, c, ["si:g:" + withwild(k, L, "end"), "vm", "cw:2", "vm", "cw:1", "cl", "vm", "si:g:" + nowild(k, L + 1), "vm"], [L, L + 1])
            case(alpha, c, ["vm", "cl", "cw:2", "vm", "sm:%d:%d" % (5 + L + c, L), "vm", "cw:%d" % (rows + 1), "vm", "cf:3"], [L])
for b in ("dg", "ds", "da"):
    for alpha in ("dna", "protein"):
        k = 5 if alpha == "dna" else 21
        for L in (0, 1, 31, 32, 33, 40, 62, 1000, 1024, 1056, 1089):
            case(alpha, 32, ["si:g:" + nowild(k, 1290), "cw:5", "fe:%s:%s" % (b, withwild(k, L, "start end")), "cw:2", "cl",
                            "fe:%s:%s" % (b, nowild(k, L // 2)), "vm", "cf:7"], [L, L // 2, 1290])

open(os.path.join(os.path.dirname(os.path.abspath(__file__)), "reuse.txt"), "w").write("\n".join(lines) + "\n")
print(len(lines), "cases")
