//! C04 harness: operation histories on ONE `StripedSequence` buffer.
//!
//! `stripe gen --seed S --n N [--tier t]` prints input lines
//!     <id> A=<dna|protein> K=<5|21> C=<cols> idx=<i,i,...> ops=<op;op;...>
//! with ops
//!     si:<b>:<seq>   pli.stripe_into(seq, &mut buf)
//!     st:<b>:<seq>   buf = pli.stripe(seq)        (b = d?: EncodedSequence::to_striped)
//!     cf:<M>         buf.configure(&motif) with motif.len() == M
//!     cw:<k>         buf.configure_wrap(k)
//!     sm:<seed>:<n>  buf = StripedSequence::sample(StdRng::seed_from_u64(seed), background(seed), n)
//!     nw:<n>:<rows>  buf = StripedSequence::new(matrix with the given rows, n)?   (Err: `E`, buf unchanged)
//!     cl             buf = buf.clone()            (the original is dropped: the copy has no spare capacity)
//!     fe:<b>:<seq>   buf = StripedSequence::from(EncodedSequence::new(seq))   (b = dg/ds/da, C = 32 only)
//!     vm             let l = buf.len(); let m = DenseMatrix::from(take(buf)); buf = StripedSequence::new(m, l)?
//! backends <b>: g = Pipeline::generic(), a = Pipeline::avx2(), dg/ds/da =
//! Pipeline::dispatch() with the arm forced to Generic/Sse2/Avx2 (C = 32 only for
//! everything except g); ng/nn (C = 16 only) = the dispatcher as compiled for arm/aarch64
//! (16 lanes) with the arm Generic/Neon: both arms run the generic kernel there
//! (GenStripeNet.disp_stripe_arm, regenerated from dispatch.rs), so on this host they
//! are replayed through Pipeline::generic() at 16 columns.  Sequences are written one char per symbol
//! ('a' + index), `-` for the empty sequence.
//!
//! `stripe run` reads input lines on stdin and prints them followed by
//!     ` => <obs>;<obs>;...`
//! one observation per op: `P` when the op panicked (ends the case), otherwise
//!     len|wrap|rows|<row>/<row>/...|   (len prefixed with `!` when is_empty() / as_ref() disagree with len() / matrix())
//!     ...|<index results>|<count_symbols>|<count_symbol per symbol>|<bm>|<all>
//! rows one char per cell (`-` when there are no rows), index results one char
//! per sampled index of `idx` (`P` = Index panicked), counts comma separated,
//! all = Index at every position 0..len() (one char each, `P` = panicked, `-` when len() = 0),
//! a 10th field x: `-`, or for `sm` ops `<draws>,<enc>` = the stream oracle (EncodedSequence::sample
//! with the same seed / background for rows*C symbols = the draws in order) and
//! EncodedSequence::sample(.., n),
//! bm = `n` (not a stripe op or C != 32: no AVX2 kernel exists), `<len>,<wrap>,<matrix>~<len>,<wrap>,<matrix>`
//! (the results of the generic and of the AVX2 stripe_into / stripe of this sequence on clones of the
//! buffer; the extracted checker check_agree decides whether they agree) or `!<who>-panic`.

use lightmotif::abc::{Alphabet, Background, Dna, Protein, Symbol};
use lightmotif::dense::DenseMatrix;
use lightmotif::num::{PositiveLength, U1, U16, U2, U32, U4, U48, U64, U8};
use rand::rngs::StdRng;
use rand::SeedableRng;
use lightmotif::pli::dispatch::Dispatch;
use lightmotif::pli::{Pipeline, Stripe};
use lightmotif::pwm::ScoringMatrix;
use lightmotif::seq::{EncodedSequence, StripedSequence, SymbolCount};
use lmh::*;

#[derive(Debug, Clone)]
enum Op {
    StripeInto(String, Vec<usize>),
    Stripe(String, Vec<usize>),
    Configure(usize),
    ConfigureWrap(usize),
    Sample(u64, usize),
    New(usize, Vec<Vec<usize>>),
    CloneBuf,
    FromEnc(String, Vec<usize>),
    ViaMatrix,
}

fn show_seq(s: &[usize]) -> String {
    if s.is_empty() {
        "-".to_string()
    } else {
        s.iter().map(|&x| (b'a' + x as u8) as char).collect()
    }
}

fn parse_seq(s: &str) -> Vec<usize> {
    if s == "-" {
        vec![]
    } else {
        s.bytes().map(|b| (b - b'a') as usize).collect()
    }
}

fn show_op(op: &Op) -> String {
    match op {
        Op::StripeInto(b, s) => format!("si:{}:{}", b, show_seq(s)),
        Op::Stripe(b, s) => format!("st:{}:{}", b, show_seq(s)),
        Op::Configure(m) => format!("cf:{}", m),
        Op::ConfigureWrap(k) => format!("cw:{}", k),
        Op::Sample(seed, n) => format!("sm:{}:{}", seed, n),
        Op::New(n, rows) => format!("nw:{}:{}", n, show_matrix(rows)),
        Op::CloneBuf => "cl".to_string(),
        Op::FromEnc(b, s) => format!("fe:{}:{}", b, show_seq(s)),
        Op::ViaMatrix => "vm".to_string(),
    }
}

fn parse_op(s: &str) -> Op {
    let p: Vec<&str> = s.split(':').collect();
    match p[0] {
        "si" => Op::StripeInto(p[1].to_string(), parse_seq(p[2])),
        "st" => Op::Stripe(p[1].to_string(), parse_seq(p[2])),
        "cf" => Op::Configure(p[1].parse().unwrap()),
        "cw" => Op::ConfigureWrap(p[1].parse().unwrap()),
        "sm" => Op::Sample(p[1].parse().unwrap(), p[2].parse().unwrap()),
        "nw" => Op::New(
            p[1].parse().unwrap(),
            if p[2] == "-" { vec![] } else { p[2].split('/').map(parse_seq).collect() },
        ),
        "cl" => Op::CloneBuf,
        "fe" => Op::FromEnc(p[1].to_string(), parse_seq(p[2])),
        "vm" => Op::ViaMatrix,
        _ => panic!("bad op {}", s),
    }
}

/// symbol with the given index (independent of the order of `A::symbols()`)
fn symbols_of<A: Alphabet>(s: &[usize]) -> Vec<A::Symbol> {
    let mut table: Vec<Option<A::Symbol>> = vec![None; A::symbols().len()];
    for x in A::symbols() {
        table[x.as_index()] = Some(*x);
    }
    s.iter().map(|&i| table[i].unwrap()).collect()
}

/// The AVX2 pipelines only exist on hosts with AVX2.  On any other host the `a`
/// and `da` backends fall back to the generic kernel (the check then still runs,
/// with a warning on stderr, instead of dying with SIGILL / a false alarm).
fn have_avx2() -> bool {
    #[cfg(any(target_arch = "x86", target_arch = "x86_64"))]
    {
        std::arch::is_x86_feature_detected!("avx2")
    }
    #[cfg(not(any(target_arch = "x86", target_arch = "x86_64")))]
    {
        false
    }
}

fn effective(b: &str) -> &str {
    if have_avx2() {
        b
    } else {
        match b {
            "a" => "g",
            "da" => "dg",
            x => x,
        }
    }
}

fn force(b: &str) {
    let arm = match b {
        "dg" => Some(Dispatch::Generic),
        "ds" => Some(Dispatch::Sse2),
        "da" => Some(Dispatch::Avx2),
        _ => None,
    };
    lightmotif::pli::verif::force_backend(arm);
}

/// The pipelines available for a column count.
trait Cols<A: Alphabet>: PositiveLength + Sized {
    fn stripe_into(b: &str, seq: &[A::Symbol], buf: &mut StripedSequence<A, Self>);
    fn stripe(b: &str, seq: &[A::Symbol]) -> StripedSequence<A, Self>;
    /// `StripedSequence::from(EncodedSequence)` (exists only where the dispatching pipeline stripes)
    fn from_enc(b: &str, seq: &[A::Symbol]) -> StripedSequence<A, Self>;
    const ALL: bool;
}

macro_rules! generic_cols {
    ($($c:ty),*) => {$(
        impl<A: Alphabet> Cols<A> for $c {
            const ALL: bool = false;
            fn stripe_into(b: &str, seq: &[A::Symbol], buf: &mut StripedSequence<A, Self>) {
                match b {
                    "g" => {
                        let pli = Pipeline::<A, _>::generic();
                        <Pipeline<_, _> as Stripe<A, $c>>::stripe_into(&pli, seq, buf)
                    }
                    "ng" | "nn" if <$c as typenum::Unsigned>::USIZE == 16 => {
                        let pli = Pipeline::<A, _>::generic();
                        <Pipeline<_, _> as Stripe<A, $c>>::stripe_into(&pli, seq, buf)
                    }
                    _ => panic!("backend {} does not exist for this column count", b),
                }
            }
            fn stripe(b: &str, seq: &[A::Symbol]) -> StripedSequence<A, Self> {
                match b {
                    "g" => {
                        let pli = Pipeline::<A, _>::generic();
                        <Pipeline<_, _> as Stripe<A, $c>>::stripe(&pli, seq)
                    }
                    "ng" | "nn" if <$c as typenum::Unsigned>::USIZE == 16 => {
                        let pli = Pipeline::<A, _>::generic();
                        <Pipeline<_, _> as Stripe<A, $c>>::stripe(&pli, seq)
                    }
                    _ => panic!("backend {} does not exist for this column count", b),
                }
            }
            fn from_enc(b: &str, _seq: &[A::Symbol]) -> StripedSequence<A, Self> {
                panic!("From<EncodedSequence> ({}) does not exist for this column count", b)
            }
        }
    )*};
}
generic_cols!(U1, U2, U4, U8, U16, U48, U64);

impl<A: Alphabet> Cols<A> for U32 {
    const ALL: bool = true;
    fn stripe_into(b: &str, seq: &[A::Symbol], buf: &mut StripedSequence<A, Self>) {
        let b = effective(b);
        match b {
            "g" => {
                let pli = Pipeline::<A, _>::generic();
                <Pipeline<_, _> as Stripe<A, U32>>::stripe_into(&pli, seq, buf)
            }
            "a" => {
                let pli = Pipeline::<A, _>::avx2().expect("host without AVX2");
                <Pipeline<_, _> as Stripe<A, U32>>::stripe_into(&pli, seq, buf)
            }
            "dg" | "ds" | "da" => {
                force(b);
                let pli = Pipeline::<A, Dispatch>::dispatch();
                force("");
                <Pipeline<_, _> as Stripe<A, U32>>::stripe_into(&pli, seq, buf)
            }
            _ => panic!("unknown backend {}", b),
        }
    }
    fn stripe(b: &str, seq: &[A::Symbol]) -> StripedSequence<A, Self> {
        let b = effective(b);
        match b {
            "g" => {
                let pli = Pipeline::<A, _>::generic();
                <Pipeline<_, _> as Stripe<A, U32>>::stripe(&pli, seq)
            }
            "a" => {
                let pli = Pipeline::<A, _>::avx2().expect("host without AVX2");
                <Pipeline<_, _> as Stripe<A, U32>>::stripe(&pli, seq)
            }
            "dg" | "ds" | "da" => {
                // the public entry point: EncodedSequence::to_striped
                let enc = EncodedSequence::<A>::new(seq.to_vec());
                force(b);
                let r = no_panic(|| enc.to_striped::<U32>());
                force("");
                r.expect("to_striped panicked")
            }
            _ => panic!("unknown backend {}", b),
        }
    }
    fn from_enc(b: &str, seq: &[A::Symbol]) -> StripedSequence<A, Self> {
        let b = effective(b);
        let enc = EncodedSequence::<A>::new(seq.to_vec());
        force(b);
        let r = no_panic(|| StripedSequence::<A, U32>::from(enc));
        force("");
        r.expect("From<EncodedSequence> panicked")
    }
}

fn matrix_of<A: Alphabet, C: PositiveLength>(st: &StripedSequence<A, C>) -> Vec<Vec<usize>> {
    let m = st.matrix();
    (0..m.rows())
        .map(|r| (0..m.columns()).map(|c| m[r][c].as_index()).collect())
        .collect()
}

fn show_matrix(m: &[Vec<usize>]) -> String {
    if m.is_empty() {
        "-".to_string()
    } else {
        m.iter().map(|r| show_seq(r)).collect::<Vec<_>>().join("/")
    }
}

fn observe<A: Alphabet, C: PositiveLength>(st: &StripedSequence<A, C>, idx: &[usize], bm: &str, extra: &str) -> String {
    let m = matrix_of(st);
    let ix: String = idx
        .iter()
        .map(|&i| match no_panic(|| st[i].as_index()) {
            Some(v) => (b'a' + v as u8) as char,
            None => 'P',
        })
        .collect();
    let counts = match no_panic(|| st.count_symbols()) {
        Some(c) => c.iter().map(|x| x.to_string()).collect::<Vec<_>>().join(","),
        None => "P".to_string(),
    };
    let count1 = match no_panic(|| {
        let syms = symbols_of::<A>(&(0..A::symbols().len()).collect::<Vec<_>>());
        syms.iter().map(|&x| st.count_symbol(x)).collect::<Vec<usize>>()
    }) {
        Some(c) => c.iter().map(|x| x.to_string()).collect::<Vec<_>>().join(","),
        None => "P".to_string(),
    };
    let all: String = (0..st.len())
        .map(|i| match no_panic(|| st[i].as_index()) {
            Some(v) => (b'a' + v as u8) as char,
            None => 'P',
        })
        .collect();
    // the remaining getters / AsRef impls: is_empty() <-> len() == 0, as_ref() = the object / its matrix
    let getters_ok = st.is_empty() == (st.len() == 0)
        && std::ptr::eq(AsRef::<DenseMatrix<A::Symbol, C>>::as_ref(st), st.matrix())
        && std::ptr::eq(AsRef::<StripedSequence<A, C>>::as_ref(st), st);
    format!(
        "{}{}|{}|{}|{}|{}|{}|{}|{}|{}|{}",
        if getters_ok { "" } else { "!" },
        st.len(),
        st.wrap(),
        st.matrix().rows(),
        show_matrix(&m),
        if ix.is_empty() { "-".to_string() } else { ix },
        counts,
        count1,
        bm,
        if all.is_empty() { "-".to_string() } else { all },
        extra
    )
}

/// generic versus AVX2 on clones of the buffer (C = 32 only)
fn backend_mismatch<A: Alphabet, C: Cols<A>>(buf: &StripedSequence<A, C>, seq: &[A::Symbol], fresh: bool) -> String {
    if !C::ALL {
        return "n".to_string();
    }
    let run = |b: &str| {
        no_panic(|| {
            if fresh {
                C::stripe(b, seq)
            } else {
                let mut c = buf.clone();
                C::stripe_into(b, seq, &mut c);
                c
            }
        })
    };
    // both states are printed; the extracted checker check_agree decides (a panic is a mismatch)
    let show = |st: &StripedSequence<A, C>| format!("{},{},{}", st.len(), st.wrap(), show_matrix(&matrix_of(st)));
    match (run("g"), run("a")) {
        (Some(g), Some(a)) => format!("{}~{}", show(&g), show(&a)),
        (None, None) => "!both-panic".to_string(),
        (None, _) => "!generic-panic".to_string(),
        (_, None) => "!avx2-panic".to_string(),
    }
}

/// The background handed to `sample`: positive counts derived from the seed (wildcard rare).
fn sample_background<A: Alphabet>(seed: u64) -> Background<A> {
    let mut counts = generic_array::GenericArray::<usize, A::K>::default();
    let mut x = seed | 1;
    let n = counts.len();
    for k in 0..n {
        x = x.wrapping_mul(6364136223846793005).wrapping_add(1442695040888963407);
        counts[k] = if k + 1 == n { 1 } else { 3 + ((x >> 33) % 9) as usize };
    }
    Background::<A>::from_counts(&counts).unwrap()
}

fn show_enc<A: Alphabet>(e: &EncodedSequence<A>) -> String {
    let v: Vec<usize> = e.iter().map(|x| x.as_index()).collect();
    show_seq(&v)
}

fn run_case<A: Alphabet, C: Cols<A>>(ops: &[Op], idx: &[usize]) -> String {
    let mut buf: StripedSequence<A, C> = StripedSequence::default();
    let mut out: Vec<String> = vec![];
    for op in ops {
        let mut bm = "n".to_string();
        let mut extra = "-".to_string();
        let r = match op {
            Op::StripeInto(b, s) => {
                let seq = symbols_of::<A>(s);
                bm = backend_mismatch::<A, C>(&buf, &seq, false);
                no_panic(|| C::stripe_into(b, &seq, &mut buf))
            }
            Op::Stripe(b, s) => {
                let seq = symbols_of::<A>(s);
                bm = backend_mismatch::<A, C>(&buf, &seq, true);
                no_panic(|| {
                    buf = C::stripe(b, &seq);
                })
            }
            Op::Configure(m) => {
                let motif = ScoringMatrix::<A>::new(Background::uniform(), DenseMatrix::new(*m));
                no_panic(|| buf.configure(&motif))
            }
            Op::ConfigureWrap(k) => no_panic(|| buf.configure_wrap(*k)),
            Op::Sample(seed, n) => {
                // the stream oracle: the same generator, background and distribution drive
                // EncodedSequence::sample, whose symbols are the draws in order
                let c = <C as typenum::Unsigned>::USIZE;
                let cells = ((*n + c - 1) / c) * c;
                let draws = no_panic(|| EncodedSequence::<A>::sample(StdRng::seed_from_u64(*seed), sample_background::<A>(*seed), cells));
                let enc = no_panic(|| EncodedSequence::<A>::sample(StdRng::seed_from_u64(*seed), sample_background::<A>(*seed), *n));
                extra = match (draws, enc) {
                    (Some(d), Some(e)) => format!("{},{}", show_enc(&d), show_enc(&e)),
                    _ => "P".to_string(),
                };
                no_panic(|| {
                    buf = StripedSequence::<A, C>::sample(StdRng::seed_from_u64(*seed), sample_background::<A>(*seed), *n);
                })
            }
            Op::New(n, rows) => {
                let c = <C as typenum::Unsigned>::USIZE;
                let built = no_panic(|| {
                    let mut m = DenseMatrix::<A::Symbol, C>::new(rows.len());
                    for (r, row) in rows.iter().enumerate() {
                        assert_eq!(row.len(), c, "matrix row width");
                        let syms = symbols_of::<A>(row);
                        for (k, x) in syms.iter().enumerate() {
                            m[r][k] = *x;
                        }
                    }
                    StripedSequence::<A, C>::new(m, *n)
                });
                match built {
                    None => None,
                    Some(Ok(s)) => {
                        buf = s;
                        Some(())
                    }
                    Some(Err(_)) => {
                        out.push("E".to_string());
                        continue;
                    }
                }
            }
            Op::CloneBuf => no_panic(|| {
                let copy = buf.clone();
                buf = copy;
            }),
            Op::FromEnc(b, s) => {
                let seq = symbols_of::<A>(s);
                bm = backend_mismatch::<A, C>(&buf, &seq, true);
                no_panic(|| {
                    buf = C::from_enc(b, &seq);
                })
            }
            Op::ViaMatrix => {
                let built = no_panic(|| {
                    let l = buf.len();
                    let m: DenseMatrix<A::Symbol, C> = DenseMatrix::from(std::mem::take(&mut buf));
                    StripedSequence::<A, C>::new(m, l)
                });
                match built {
                    None => None,
                    Some(Ok(s)) => {
                        buf = s;
                        Some(())
                    }
                    Some(Err(_)) => {
                        out.push("E".to_string());
                        continue;
                    }
                }
            }
        };
        force("");
        match r {
            None => {
                out.push("P".to_string());
                break;
            }
            Some(()) => out.push(observe(&buf, idx, &bm, &extra)),
        }
    }
    out.join(";")
}

fn dispatch_case(alpha: &str, c: usize, ops: &[Op], idx: &[usize]) -> String {
    macro_rules! cols {
        ($a:ty) => {
            match c {
                1 => run_case::<$a, U1>(ops, idx),
                2 => run_case::<$a, U2>(ops, idx),
                4 => run_case::<$a, U4>(ops, idx),
                8 => run_case::<$a, U8>(ops, idx),
                16 => run_case::<$a, U16>(ops, idx),
                48 => run_case::<$a, U48>(ops, idx),
                64 => run_case::<$a, U64>(ops, idx),
                32 => run_case::<$a, U32>(ops, idx),
                _ => panic!("unsupported column count {}", c),
            }
        };
    }
    match alpha {
        "dna" => cols!(Dna),
        "protein" => cols!(Protein),
        _ => panic!("unsupported alphabet {}", alpha),
    }
}

// ---------------------------------------------------------------- generator

fn gen_len(rng: &mut Rng, c: usize, tier: &str) -> usize {
    let k = rng.below(100);
    let big_ok = c >= 16;
    if k < 30 {
        rng.below(41) as usize
    } else if k < 50 {
        // around multiples of 32
        let m = 32 * (1 + rng.below(if big_ok { 40 } else { 8 })) as i64;
        (m + rng.range(-2, 2)).max(0) as usize
    } else if k < 75 && c == 32 {
        // around 32*32: where the AVX2 block loop starts to run
        992 + rng.below(109) as usize
    } else if k < 83 && big_ok {
        // several blocks, several thousand symbols (thorough: now and then ten blocks)
        if tier == "thorough" && c == 32 && rng.chance(1, 12) {
            return 6000 + rng.below(6300) as usize;
        }
        let top = if tier == "thorough" { 5200 } else { 3300 };
        1024 + rng.below(top - 1024) as usize
    } else if k < 88 && c == 32 {
        // around multiples of 1024 (block loop boundaries)
        let m = 1024 * (1 + rng.below(3)) as i64;
        (m + rng.range(-33, 33)).max(0) as usize
    } else {
        rng.below(if big_ok { 1000 } else { 300 }) as usize
    }
}

fn gen_seq(rng: &mut Rng, k: usize, len: usize) -> Vec<usize> {
    match rng.below(10) {
        0 => vec![rng.below(k as u64) as usize; len],
        1 => (0..len).map(|i| i % (k - 1)).collect(),
        _ => (0..len).map(|_| rng.below(k as u64) as usize).collect(),
    }
}

fn gen_backend(rng: &mut Rng, c: usize) -> String {
    if c == 16 {
        // the 16-lane dispatcher of arm / aarch64 targets (replayed through the generic pipeline)
        return (match rng.below(10) {
            0..=2 => "ng",
            3..=5 => "nn",
            _ => "g",
        })
        .to_string();
    }
    if c != 32 {
        return "g".to_string();
    }
    let k = rng.below(100);
    (if k < 22 {
        "g"
    } else if k < 55 {
        "a"
    } else if k < 65 {
        "dg"
    } else if k < 75 {
        "ds"
    } else {
        "da"
    })
    .to_string()
}

fn gen_history(rng: &mut Rng, k: usize, c: usize, tier: &str, nops: usize) -> (Vec<Op>, Vec<usize>) {
    let mut ops = vec![];
    let mut lens: Vec<usize> = vec![];
    let mut rows = 0usize;
    for i in 0..nops {
        let r = rng.below(100);
        let stripe = if i == 0 { r < 85 } else { r < 45 };
        let build = rng.below(100);
        let op = if build >= 92 && i > 0 {
            // Clone (exact capacity afterwards), DenseMatrix::from + new, From<EncodedSequence>
            match rng.below(if c == 32 { 10 } else { 7 }) {
                0..=3 => Op::CloneBuf,
                4..=6 => Op::ViaMatrix,
                _ => {
                    let len = gen_len(rng, c, tier);
                    lens.push(len);
                    rows = (len + c - 1) / c;
                    let b = *rng.pick(&["dg", "ds", "da", "da"]);
                    Op::FromEnc(b.to_string(), gen_seq(rng, k, len))
                }
            }
        } else if build < 7 {
            // StripedSequence::sample: every cell random, padding included
            let len = gen_len(rng, c, tier).min(1500);
            lens.push(len);
            rows = (len + c - 1) / c;
            Op::Sample(rng.below(1 << 32), len)
        } else if build < 14 {
            // StripedSequence::new on a matrix with arbitrary contents: exactly enough rows,
            // sometimes more, now and then one too few (Err)
            let len = gen_len(rng, c, tier).min(600);
            let need = (len + c - 1) / c;
            let nrows = match rng.below(10) {
                0 if need > 0 => need - 1,
                1 => need + 1,
                2 => need + 2,
                _ => need,
            };
            if nrows * c >= len {
                lens.push(len);
                rows = nrows;
            }
            Op::New(len, (0..nrows).map(|_| gen_seq(rng, k, c)).collect())
        } else if stripe {
            let len = gen_len(rng, c, tier);
            lens.push(len);
            rows = (len + c - 1) / c;
            let s = gen_seq(rng, k, len);
            let b = gen_backend(rng, c);
            if rng.chance(7, 10) {
                Op::StripeInto(b, s)
            } else {
                Op::Stripe(b, s)
            }
        } else {
            // wrap widths: small, around the number of sequence rows (look-ahead
            // rows built from look-ahead rows), sometimes large
            let w = match rng.below(10) {
                0..=4 => rng.below(7) as usize,
                5..=7 => (rows as i64 + rng.range(-2, 6)).max(0) as usize,
                8 => 2 * rows + rng.below(4) as usize,
                _ => rng.below(45) as usize,
            };
            if r < 80 {
                Op::ConfigureWrap(w.min(400))
            } else {
                Op::Configure(w.min(400))
            }
        };
        ops.push(op);
    }
    // sampled indices: ends of the sequences, ends of the matrices, random ones
    let mut idx: Vec<usize> = vec![0];
    for &l in lens.iter().rev().take(3) {
        let rc = ((l + c - 1) / c) * c;
        for x in [l.saturating_sub(1), l, rc.saturating_sub(1), rc] {
            if !idx.contains(&x) {
                idx.push(x);
            }
        }
        if l > 0 {
            let x = rng.below(l as u64) as usize;
            if !idx.contains(&x) {
                idx.push(x);
            }
        }
    }
    idx.truncate(16);
    (ops, idx)
}

/// A new length of the given pair class for a reused destination (seeded/C04/5):
/// 0 = below C (one row), 1 = a multiple of R = ceil(L/C) that is not a multiple of C (the
/// sequence ends at the bottom of a column), 2 = a multiple of C, 3 = partial last column, 4 = empty.
fn class_len(rng: &mut Rng, c: usize, class: u64) -> usize {
    match class {
        0 => rng.below(c as u64) as usize,
        1 => {
            // R in 2..=9 (R < C needed for such an L to exist), L = R*q with (R-1)*C < L < R*C
            if c < 3 {
                return rng.below(c as u64) as usize;
            }
            let r = 2 + rng.below(8.min(c as u64 - 2)) as usize;
            let qlo = ((r - 1) * c) / r + 1;
            let q = qlo + rng.below((c - qlo).max(1) as u64) as usize;
            r * q.min(c - 1)
        }
        2 => c * rng.below(12) as usize,
        3 => c * (1 + rng.below(12) as usize) + 1 + rng.below(c as u64) as usize,
        _ => 0,
    }
}

/// stripe_into into a REUSED destination: a longer sequence without any wildcard first
/// (sometimes with look-ahead rows), then new lengths of every pair class, shrinking and growing.
fn gen_reuse(rng: &mut Rng, k: usize, c: usize) -> (Vec<Op>, Vec<usize>) {
    let nowild = |rng: &mut Rng, len: usize| -> Vec<usize> { (0..len).map(|_| rng.below(k as u64 - 1) as usize).collect() };
    let mut ops = vec![];
    let mut lens = vec![];
    let old = c * (2 + rng.below(12) as usize) + rng.below(c as u64) as usize;
    let b0 = if c == 32 { gen_backend(rng, c) } else { "g".to_string() };
    ops.push(Op::StripeInto(b0, nowild(rng, old)));
    lens.push(old);
    let n = 1 + rng.below(5);
    for _ in 0..n {
        if rng.chance(1, 3) {
            ops.push(Op::ConfigureWrap(rng.below(6) as usize));
        }
        if rng.chance(1, 8) {
            ops.push(Op::CloneBuf);
        }
        let class = rng.below(5);
        let len = class_len(rng, c, class);
        // the kernels that run the provided (generic) stripe_into, and now and then the AVX2 one
        let b = match c {
            32 => rng.pick(&["g", "g", "dg", "ds", "a", "da"]).to_string(),
            16 => rng.pick(&["g", "ng", "nn"]).to_string(),
            _ => "g".to_string(),
        };
        let s = if rng.chance(4, 5) { nowild(rng, len) } else { gen_seq(rng, k, len) };
        ops.push(Op::StripeInto(b, s));
        lens.push(len);
        if rng.chance(1, 4) {
            let grow = c * (1 + rng.below(14) as usize) + rng.below(c as u64) as usize;
            ops.push(Op::StripeInto("g".to_string(), nowild(rng, grow)));
            lens.push(grow);
        }
    }
    let mut idx: Vec<usize> = vec![0];
    for &l in lens.iter().rev().take(3) {
        let rc = ((l + c - 1) / c) * c;
        for x in [l.saturating_sub(1), l, rc.saturating_sub(1), rc] {
            if !idx.contains(&x) {
                idx.push(x);
            }
        }
    }
    idx.truncate(16);
    (ops, idx)
}

fn show_case(id: &str, alpha: &str, k: usize, c: usize, ops: &[Op], idx: &[usize]) -> String {
    format!(
        "{} A={} K={} C={} idx={} ops={}",
        id,
        alpha,
        k,
        c,
        idx.iter().map(|x| x.to_string()).collect::<Vec<_>>().join(","),
        ops.iter().map(show_op).collect::<Vec<_>>().join(";")
    )
}

/// 1101 + (272+1) + (72+1) + (20+1) + (6+1) cases of the generic sweep of the thorough tier
const GENERIC_SWEEP: usize = 1101 + 273 + 73 + 21 + 7;

fn gen_case(rng: &mut Rng, id: usize, tier: &str) -> String {
    let (alpha, k) = if rng.chance(1, 2) { ("dna", 5usize) } else { ("protein", 21usize) };
    // thorough tier: the first 2202 cases sweep every length 0..=1100 through the
    // AVX2 kernel and the AVX2 arm of the dispatcher, into a stale buffer
    if tier == "thorough" && id < 2202 {
        let len = id / 2;
        let b = if id % 2 == 0 { "a" } else { "da" };
        let stale_len = gen_len(rng, 32, tier);
        let ops = vec![
            Op::StripeInto("g".to_string(), gen_seq(rng, k, stale_len)),
            Op::ConfigureWrap(rng.below(9) as usize),
            Op::StripeInto(b.to_string(), gen_seq(rng, k, len)),
            Op::ConfigureWrap(1 + rng.below(5) as usize),
        ];
        let rc = ((len + 31) / 32) * 32;
        let mut idx = vec![0, len.saturating_sub(1), len, rc.saturating_sub(1), rc];
        idx.dedup();
        return show_case(&id.to_string(), alpha, k, 32, &ops, &idx);
    }
    // thorough tier: the next 1475 cases sweep every new length 0..=1100 (C = 32) and 0..=C*C+C
    // (C = 16, 8, 4, 2) through the kernels that run the PROVIDED stripe_into (generic pipeline and the
    // dispatcher's Generic / Sse2 / arm arms) into a reused destination that held a longer sequence
    // without any wildcard (seeded/C04/5: every (old, new) pair class, exhaustively below C*C)
    if tier == "thorough" && id < 2202 + GENERIC_SWEEP {
        let mut kk = id - 2202;
        let (c, len) = if kk < 1101 {
            (32usize, kk)
        } else {
            kk -= 1101;
            let mut found = (2usize, 0usize);
            for &c in &[16usize, 8, 4, 2] {
                let n = c * c + c + 1;
                if kk < n {
                    found = (c, kk);
                    break;
                }
                kk -= n;
            }
            found
        };
        let b = match c {
            32 => ["g", "dg", "ds"][id % 3],
            16 => ["g", "ng", "nn"][id % 3],
            _ => "g",
        };
        let b0 = if c == 16 && b != "g" { b } else { "g" };
        let nowild = |rng: &mut Rng, n: usize| -> Vec<usize> { (0..n).map(|_| rng.below(k as u64 - 1) as usize).collect() };
        let old = len + c * (1 + rng.below(6) as usize) + rng.below(c as u64) as usize;
        let new_seq = if rng.chance(4, 5) { nowild(rng, len) } else { gen_seq(rng, k, len) };
        let ops = vec![
            Op::StripeInto(b0.to_string(), nowild(rng, old)),
            Op::ConfigureWrap(rng.below(4) as usize),
            Op::StripeInto(b.to_string(), new_seq),
            Op::ConfigureWrap(1 + rng.below(3) as usize),
        ];
        let rc = ((len + c - 1) / c) * c;
        let mut idx = vec![0, len.saturating_sub(1), len, rc.saturating_sub(1), rc];
        idx.dedup();
        return show_case(&id.to_string(), alpha, k, c, &ops, &idx);
    }
    let c = *rng.pick(&[1usize, 2, 4, 8, 16, 16, 48, 64, 32, 32, 32, 32, 32, 32]);
    if rng.chance(1, 7) {
        let (ops, idx) = gen_reuse(rng, k, c);
        return show_case(&id.to_string(), alpha, k, c, &ops, &idx);
    }
    let nops = 1 + rng.below(12) as usize;
    let (ops, idx) = gen_history(rng, k, c, tier, nops);
    show_case(&id.to_string(), alpha, k, c, &ops, &idx)
}

fn main() {
    let args = parse_args();
    match args.cmd.as_str() {
        "gen" => {
            let mut rng = Rng::new(args.seed);
            for id in 0..args.n {
                println!("{}", gen_case(&mut rng, id, &args.tier));
            }
        }
        "run" => {
            silence_panics();
            if !have_avx2() {
                eprintln!("stripe harness: this host has no AVX2: backends a/da run the generic kernel");
            }
            for line in stdin_lines() {
                let (_id, f) = fields(&line);
                let ops: Vec<Op> = f["ops"].split(';').filter(|s| !s.is_empty()).map(parse_op).collect();
                let idx: Vec<usize> = f
                    .get("idx")
                    .map(|s| s.split(',').filter(|x| !x.is_empty()).map(|x| x.parse().unwrap()).collect())
                    .unwrap_or_default();
                // a panic outside the per-op guards (e.g. StripedSequence::default() itself) is the
                // observation `P` of the first op, not the death of the harness
                let obs = no_panic(|| dispatch_case(&f["A"], f["C"].parse().unwrap(), &ops, &idx)).unwrap_or_else(|| "P".to_string());
                println!("{} => {}", line, obs);
            }
        }
        _ => {
            eprintln!("usage: stripe gen --seed S --n N [--tier t] | stripe run < inputs");
            std::process::exit(2);
        }
    }
}
