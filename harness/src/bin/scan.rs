//! C02 / C03 harness: `lightmotif::scan::Scanner` (next / take / max).
//!
//! `scan <c02|c03> gen --seed S --n N [--tier t]` prints input lines
//!     <id> M=<m> pssm=<b,b,b,b,b/...> seq=<digits 0-4|-> wrap=<w> thr=<bits|d> B=<b|d> arms=<gsa> ks=<k,k,..|->
//! (f32 values as decimal u32 bit patterns; `thr=d` / `B=d`: the setter is not called,
//! so that the defaults of `Scanner::new` are used; `wrap` = M-1: `configure(&pssm)`;
//! `wrap` > M-1: `configure_wrap(wrap)` first -- the sequence was configured for a longer
//! motif -- then `configure(&pssm)`; `wrap` < M-1: `configure_wrap(wrap)` only).
//! Optional token `sw=<k>:<thr2|d|=>:<B2|d|=>`: a fresh scanner is advanced by k calls of
//! next(), then `threshold(thr2)` / `block_size(B2)` are called (`=`: setter not called,
//! `d` is not allowed) and the scanner is iterated to exhaustion (c02) or asked for max() (c03).
//!
//! `scan <c02|c03> run` reads input lines on stdin and prints them followed by
//!     ` => sc=<bits,..|-|P> @<arm> <obs> @<arm> <obs> ...`
//! sc = ScoringMatrix::score_position at every position 0..=L-M (brute force); then `ovf=c|w`:
//! whether `usize + usize` panics on overflow in this build profile (c, dev) or wraps (w, release);
//! c02 obs: `hits=<pos:bits,..|-> end=<N|P|X> take=<k>/<pos:bits,..|->/<N|P>;...`
//!          (hits in yield order; end: N = next() returned None, P = a call panicked,
//!           X = more hits than cells, the harness stopped iterating)
//! c03 obs: `max=<k>/<consumed pos:bits+pos:bits..|->/<pos:bits|N|P>;...`
//!          (fresh scanner, k calls of next() stopping at None, then max())
//!          `maxb=<B'>/<answer under B'>/<answer under B>`: max() of a fresh scanner under another block size
//! with `sw=`: c02 `sw=<hits of the k calls|->/<hits after the setters|->/<N|P|X>`,
//!            c03 `swmax=<consumed pos:bits+pos:bits..|->/<pos:bits|N|P>`
//! A panic inside `Scanner::new` gives `new=P` instead.
//!
//! `scan probe` prints facts about the toolchain the Coq model relies on.

use lightmotif::abc::Background;
use lightmotif::abc::Dna;
use lightmotif::abc::Nucleotide;
use lightmotif::dense::DenseMatrix;
use lightmotif::num::U32;
use lightmotif::num::U5;
use lightmotif::pli::dispatch::Dispatch;
use lightmotif::pli::verif::force_backend;
use lightmotif::pli::Pipeline;
use lightmotif::pli::Stripe;
use lightmotif::pwm::CountMatrix;
use lightmotif::pwm::ScoringMatrix;
use lightmotif::scan::Hit;
use lightmotif::scan::Scanner;
use lightmotif::seq::EncodedSequence;
use lightmotif::seq::StripedSequence;
use lmh::*;

const C: usize = 32;

#[derive(Clone, Debug)]
struct Case {
    pssm: Vec<[f32; 5]>,
    seq: Vec<u8>,
    wrap: usize,
    thr: Option<f32>,
    b: Option<usize>,
    arms: String,
    ks: Vec<usize>,
    /// setters called after k calls of next(): (k, new threshold, new block size)
    sw: Option<(usize, Option<f32>, Option<usize>)>,
}

fn nuc(x: u8) -> Nucleotide {
    match x {
        0 => Nucleotide::A,
        1 => Nucleotide::C,
        2 => Nucleotide::T,
        3 => Nucleotide::G,
        _ => Nucleotide::N,
    }
}

fn build_pssm(rows: &[[f32; 5]]) -> ScoringMatrix<Dna> {
    let data = DenseMatrix::<f32, U5>::from_rows(rows.iter().map(|r| r.to_vec()).collect::<Vec<_>>());
    ScoringMatrix::new(Background::uniform(), data)
}

fn build_seq(seq: &[u8], wrap: usize) -> StripedSequence<Dna, U32> {
    let enc = EncodedSequence::<Dna>::new(seq.iter().map(|&x| nuc(x)).collect());
    let mut striped: StripedSequence<Dna, U32> = Pipeline::<Dna, _>::generic().stripe(&enc);
    striped.configure_wrap(wrap);
    striped
}

/// the sequence of a case: configured through the public API for `pssm`, after having been
/// configured for a longer motif when `wrap` exceeds what `pssm` needs
fn build_seq_for(seq: &[u8], wrap: usize, pssm: &ScoringMatrix<Dna>) -> StripedSequence<Dna, U32> {
    let enc = EncodedSequence::<Dna>::new(seq.iter().map(|&x| nuc(x)).collect());
    let mut striped: StripedSequence<Dna, U32> = Pipeline::<Dna, _>::generic().stripe(&enc);
    let m = pssm.len();
    if m >= 1 && wrap == m - 1 {
        striped.configure(pssm);
    } else if m >= 1 && wrap > m - 1 {
        striped.configure_wrap(wrap);
        striped.configure(pssm);
    } else {
        striped.configure_wrap(wrap);
    }
    striped
}

fn show_case(id: &str, c: &Case) -> String {
    let pssm = c
        .pssm
        .iter()
        .map(|r| r.iter().map(|x| x.to_bits().to_string()).collect::<Vec<_>>().join(","))
        .collect::<Vec<_>>()
        .join("/");
    let seq: String = if c.seq.is_empty() {
        "-".to_string()
    } else {
        c.seq.iter().map(|x| (b'0' + x) as char).collect()
    };
    let sw = match &c.sw {
        None => String::new(),
        Some((k, t, b)) => format!(
            " sw={}:{}:{}",
            k,
            t.map(|t| t.to_bits().to_string()).unwrap_or_else(|| "=".to_string()),
            b.map(|b| b.to_string()).unwrap_or_else(|| "=".to_string())
        ),
    };
    format!(
        "{} M={} pssm={} seq={} wrap={} thr={} B={} arms={} ks={}{}",
        id,
        c.pssm.len(),
        if pssm.is_empty() { "-".to_string() } else { pssm },
        seq,
        c.wrap,
        c.thr.map(|t| t.to_bits().to_string()).unwrap_or_else(|| "d".to_string()),
        c.b.map(|b| b.to_string()).unwrap_or_else(|| "d".to_string()),
        c.arms,
        if c.ks.is_empty() {
            "-".to_string()
        } else {
            c.ks.iter().map(|k| k.to_string()).collect::<Vec<_>>().join(",")
        },
        sw
    )
}

fn parse_case(f: &std::collections::HashMap<String, String>) -> Case {
    let pssm: Vec<[f32; 5]> = if f["pssm"] == "-" {
        vec![]
    } else {
        f["pssm"]
            .split('/')
            .map(|r| {
                let v: Vec<f32> = r.split(',').map(|x| f32::from_bits(x.parse::<u32>().unwrap())).collect();
                [v[0], v[1], v[2], v[3], v[4]]
            })
            .collect()
    };
    let seq: Vec<u8> = if f["seq"] == "-" { vec![] } else { f["seq"].bytes().map(|b| b - b'0').collect() };
    Case {
        pssm,
        seq,
        wrap: f["wrap"].parse().unwrap(),
        thr: if f["thr"] == "d" { None } else { Some(f32::from_bits(f["thr"].parse::<u32>().unwrap())) },
        b: if f["B"] == "d" { None } else { Some(f["B"].parse().unwrap()) },
        arms: f["arms"].clone(),
        ks: if f["ks"] == "-" { vec![] } else { f["ks"].split(',').map(|k| k.parse().unwrap()).collect() },
        sw: match f.get("sw") {
            None => None,
            Some(x) if x == "-" => None,
            Some(x) => {
                let p: Vec<&str> = x.split(':').collect();
                Some((
                    p[0].parse().unwrap(),
                    if p[1] == "=" { None } else { Some(f32::from_bits(p[1].parse::<u32>().unwrap())) },
                    if p[2] == "=" { None } else { Some(p[2].parse().unwrap()) },
                ))
            }
        },
    }
}

fn arm_of(c: char) -> Dispatch {
    match c {
        'g' => Dispatch::Generic,
        's' => Dispatch::Sse2,
        'a' => Dispatch::Avx2,
        _ => panic!("bad arm {}", c),
    }
}

fn show_hits(h: &[Hit]) -> String {
    if h.is_empty() {
        "-".to_string()
    } else {
        h.iter()
            .map(|x| format!("{}:{}", x.position(), x.score().to_bits()))
            .collect::<Vec<_>>()
            .join(",")
    }
}

type Sc<'a> = Scanner<'a, Dna, &'a ScoringMatrix<Dna>, &'a StripedSequence<Dna, U32>, U32>;

/// `Scanner::new(..)` + the setters, under catch_unwind (to_discrete can panic)
fn new_scanner<'a>(c: &Case, pssm: &'a ScoringMatrix<Dna>, striped: &'a StripedSequence<Dna, U32>) -> Option<Sc<'a>> {
    no_panic(|| {
        let mut s = Scanner::new(pssm, striped);
        if let Some(t) = c.thr {
            s.threshold(t);
        }
        if let Some(b) = c.b {
            s.block_size(b);
        }
        s
    })
}

/// up to `limit` calls of next(); returns (hits, end) with end in N / P / X
fn pull(s: &mut Sc, limit: usize) -> (Vec<Hit>, char) {
    let mut hits = vec![];
    loop {
        if hits.len() >= limit {
            return (hits, 'X');
        }
        match no_panic(|| s.next()) {
            None => return (hits, 'P'),
            Some(None) => return (hits, 'N'),
            Some(Some(h)) => hits.push(h),
        }
    }
}

fn brute_scores(pssm: &ScoringMatrix<Dna>, striped: &StripedSequence<Dna, U32>, l: usize) -> Option<Vec<f32>> {
    let m = pssm.len();
    let n = (l + 1).saturating_sub(m);
    let mut out = Vec::with_capacity(n);
    for i in 0..n {
        match no_panic(|| pssm.score_position(striped, i)) {
            None => return None,
            Some(s) => out.push(s),
        }
    }
    Some(out)
}

fn run_case(prop: &str, c: &Case) -> String {
    let pssm = build_pssm(&c.pssm);
    let striped = build_seq_for(&c.seq, c.wrap, &pssm);
    let mut out = String::new();
    match brute_scores(&pssm, &striped, c.seq.len()) {
        None => out.push_str("sc=P"),
        Some(v) if v.is_empty() => out.push_str("sc=-"),
        Some(v) => {
            out.push_str("sc=");
            out.push_str(&v.iter().map(|x| x.to_bits().to_string()).collect::<Vec<_>>().join(","));
        }
    }
    // overflow checks of this build profile (dev: panic, release: wrap): the model of
    // `self.row + self.block_size` (coq/scan/ScanWord.v) is evaluated in the same mode
    let big = std::hint::black_box(usize::MAX);
    let checked = no_panic(move || big + std::hint::black_box(1usize)).is_none();
    out.push_str(if checked { " ovf=c" } else { " ovf=w" });
    let cells = striped.matrix().rows() * C + 4;
    for a in c.arms.chars() {
        // the scanner captures Pipeline::dispatch() when it is constructed
        force_backend(Some(arm_of(a)));
        out.push_str(&format!(" @{}", a));
        if prop == "c02" {
            match new_scanner(c, &pssm, &striped) {
                None => {
                    out.push_str(" new=P");
                    continue;
                }
                Some(mut s) => {
                    let (hits, end) = pull(&mut s, cells);
                    out.push_str(&format!(" hits={} end={}", show_hits(&hits), end));
                }
            }
            let mut takes = vec![];
            for &k in &c.ks {
                let s = new_scanner(c, &pssm, &striped).unwrap();
                match no_panic(move || s.take(k).collect::<Vec<Hit>>()) {
                    None => takes.push(format!("{}/-/P", k)),
                    Some(h) => takes.push(format!("{}/{}/N", k, show_hits(&h))),
                }
            }
            out.push_str(&format!(" take={}", if takes.is_empty() { "-".to_string() } else { takes.join(";") }));
            if let Some((k, t2, b2)) = c.sw {
                let mut s = new_scanner(c, &pssm, &striped).unwrap();
                let (before, end) = pull(&mut s, k);
                if end == 'P' {
                    out.push_str(&format!(" sw={}/-/P", show_hits(&before)));
                } else {
                    let set = no_panic(|| {
                        if let Some(t) = t2 {
                            s.threshold(t);
                        }
                        if let Some(b) = b2 {
                            s.block_size(b);
                        }
                    });
                    if set.is_none() {
                        out.push_str(&format!(" sw={}/-/P", show_hits(&before)));
                    } else {
                        let (after, end) = pull(&mut s, cells);
                        out.push_str(&format!(" sw={}/{}/{}", show_hits(&before), show_hits(&after), end));
                    }
                }
            }
        } else {
            let mut items = vec![];
            let mut failed_new = false;
            for &k in &c.ks {
                let mut s = match new_scanner(c, &pssm, &striped) {
                    None => {
                        failed_new = true;
                        break;
                    }
                    Some(s) => s,
                };
                let (consumed, end) = pull(&mut s, k);
                let cons = if consumed.is_empty() {
                    "-".to_string()
                } else {
                    consumed.iter().map(|h| format!("{}:{}", h.position(), h.score().to_bits())).collect::<Vec<_>>().join("+")
                };
                if end == 'P' {
                    items.push(format!("{}/{}/P", k, cons));
                    continue;
                }
                match no_panic(move || s.max()) {
                    None => items.push(format!("{}/{}/P", k, cons)),
                    Some(None) => items.push(format!("{}/{}/N", k, cons)),
                    Some(Some(h)) => items.push(format!("{}/{}/{}:{}", k, cons, h.position(), h.score().to_bits())),
                }
            }
            if failed_new {
                out.push_str(" new=P");
            } else {
                out.push_str(&format!(" max={}", if items.is_empty() { "-".to_string() } else { items.join(";") }));
                // block-size independence (C03: "the answer does not depend on the block size"): max() of a
                // fresh scanner under the case's block size and under another one (set before iteration)
                {
                    let alt: usize = if c.b == Some(1) { 7 } else { 1 };
                    let show = |r: Option<Option<Hit>>| match r {
                        None => "P".to_string(),
                        Some(None) => "N".to_string(),
                        Some(Some(h)) => format!("{}:{}", h.position(), h.score().to_bits()),
                    };
                    let s1 = new_scanner(c, &pssm, &striped).unwrap();
                    let r1 = no_panic(move || s1.max());
                    let mut s2 = new_scanner(c, &pssm, &striped).unwrap();
                    let r2 = no_panic(move || {
                        s2.block_size(alt);
                        s2.max()
                    });
                    out.push_str(&format!(" maxb={}/{}/{}", alt, show(r2), show(r1)));
                }
                if let Some((k, t2, b2)) = c.sw {
                    let mut s = new_scanner(c, &pssm, &striped).unwrap();
                    let (consumed, end) = pull(&mut s, k);
                    let cons = if consumed.is_empty() {
                        "-".to_string()
                    } else {
                        consumed.iter().map(|h| format!("{}:{}", h.position(), h.score().to_bits())).collect::<Vec<_>>().join("+")
                    };
                    if end == 'P' {
                        out.push_str(&format!(" swmax={}/P", cons));
                    } else {
                        match no_panic(move || {
                            if let Some(t) = t2 {
                                s.threshold(t);
                            }
                            if let Some(b) = b2 {
                                s.block_size(b);
                            }
                            s.max()
                        }) {
                            None => out.push_str(&format!(" swmax={}/P", cons)),
                            Some(None) => out.push_str(&format!(" swmax={}/N", cons)),
                            Some(Some(h)) => out.push_str(&format!(" swmax={}/{}:{}", cons, h.position(), h.score().to_bits())),
                        }
                    }
                }
            }
        }
    }
    force_backend(None);
    out
}

// ------------------------------------------------------------------ generator

fn jitter(rng: &mut Rng) -> f32 {
    0.01 * (rng.range(-3, 3) as f32)
}


/// `ulp` of a finite f32 (spacing towards +inf), as coq/disc's f32_ulp
fn ulp32(x: f32) -> f32 {
    let a = x.abs();
    if a == 0.0 {
        f32::from_bits(1)
    } else {
        f32::from_bits(a.to_bits() + 1) - a
    }
}

/// true when the matrix satisfies the conditioning predicate of coq/disc (property C08) with a
/// safety margin of 4: factor = 0 or factor >= 4 * 8 (M+1) ulp(A), A = sum of the rows' largest
/// magnitudes over the non-wildcard cells.  Generated matrices stay inside the domain where the
/// scanner properties are theorems of the model (ill-conditioned matrices are known finding F14).
fn comfortably_conditioned(rows: &[[f32; 5]]) -> bool {
    let m = rows.len();
    let mut a = 0.0f32;
    let mut mx = 0.0f32;
    let mut mn = 0.0f32;
    for r in rows {
        let mut am = 0.0f32;
        let mut rmax = f32::NEG_INFINITY;
        let mut rmin = f32::INFINITY;
        for &x in r.iter().take(4) {
            if !x.is_finite() {
                return false;
            }
            am = am.max(x.abs());
            rmax = rmax.max(x);
            rmin = rmin.min(x);
        }
        a += am;
        mx += rmax;
        mn += rmin;
    }
    let factor = (mx - mn).abs() / 255.0;
    factor == 0.0 || factor >= 4.0 * 8.0 * ((m + 1) as f32) * ulp32(a)
}

fn gen_matrix(rng: &mut Rng, m: usize) -> Vec<[f32; 5]> {
    let kind = rng.below(10);
    let mut rows: Vec<[f32; 5]> = vec![];
    if kind < 6 {
        // 0.25 grid in [-4, 4], jitters of a few 0.01, optionally scaled (|entries| <= ~100)
        let scale = *rng.pick(&[1.0f32, 1.0, 1.0, 4.0, 25.0]);
        let jit = rng.chance(2, 3);
        for _ in 0..m {
            let mut r = [0f32; 5];
            for x in r.iter_mut().take(4) {
                let mut v = 0.25 * (rng.range(-16, 16) as f32);
                if jit && rng.chance(1, 2) {
                    v += jitter(rng);
                }
                *x = v * scale;
            }
            rows.push(r);
        }
        // sometimes shift every row by a large constant (cells up to ~4e3: other binades for the
        // f32 sums and for to_discrete), as long as the matrix stays comfortably conditioned
        if rng.chance(1, 6) {
            let shift = *rng.pick(&[8.0f32, 64.0, 512.0, 4096.0]) * if rng.chance(1, 2) { -1.0 } else { 1.0 };
            let mut shifted = rows.clone();
            for r in shifted.iter_mut() {
                for x in r.iter_mut().take(4) {
                    *x += shift;
                }
            }
            if comfortably_conditioned(&shifted) {
                rows = shifted;
            }
        }
    } else if kind < 7 {
        // few distinct values: many exact ties between positions, jitters break some
        let vals = [-1.0f32, 0.0, 0.5, 2.0];
        let jit = rng.chance(1, 2);
        for _ in 0..m {
            let mut r = [0f32; 5];
            for x in r.iter_mut().take(4) {
                let mut v = *rng.pick(&vals);
                if jit && rng.chance(1, 3) {
                    v += jitter(rng);
                }
                *x = v;
            }
            rows.push(r);
        }
    } else if kind < 9 {
        // count-derived log-odds matrix (the usual pipeline of the library)
        let n = 2 + rng.below(19) as u32;
        let counts: Vec<Vec<u32>> = (0..m)
            .map(|_| {
                let mut r = vec![0u32; 5];
                for _ in 0..n {
                    r[rng.below(4) as usize] += 1;
                }
                r
            })
            .collect();
        let cm = CountMatrix::<Dna>::new(DenseMatrix::from_rows(counts)).unwrap();
        let pseudo = *rng.pick(&[0.1f32, 0.25, 1.0]);
        let pssm = cm.to_freq(pseudo).to_scoring(None);
        for i in 0..m {
            let r = &pssm.matrix()[i];
            rows.push([r[0], r[1], r[2], r[3], r[4]]);
        }
        return rows;
    } else {
        // degenerate: constant rows (factor 0), or a single informative row; a constant
        // matrix of zeros gets zeros of mixed signs (the repaired F14b path: factor -0.0)
        let c0 = 0.25 * (rng.range(-8, 8) as f32);
        let informative = rng.chance(1, 2);
        for i in 0..m {
            let mut r = [c0; 5];
            if i == 0 && informative {
                r[rng.below(4) as usize] += 0.25 * (1 + rng.below(8)) as f32;
            }
            if c0 == 0.0 {
                for x in r.iter_mut().take(4) {
                    if *x == 0.0 && rng.chance(1, 2) {
                        *x = -0.0;
                    }
                }
            }
            rows.push(r);
        }
    }
    // wildcard column
    let w = rng.below(22);
    let wconst = 0.25 * (rng.range(-20, 20) as f32);
    for r in rows.iter_mut() {
        r[4] = if w < 14 {
            f32::NEG_INFINITY
        } else if w < 17 {
            0.0
        } else if w < 20 {
            wconst
        } else {
            // per-row values; in some rows N outweighs the best regular base, so that a window
            // containing N can score above ScoringMatrix::max_score() (byte cells saturate)
            let best = r[..4].iter().cloned().fold(f32::NEG_INFINITY, f32::max);
            match rng.below(4) {
                0 => f32::NEG_INFINITY,
                1 => best - 0.25 * (rng.below(8) as f32),
                _ => best + 0.25 * (1 + rng.below(12)) as f32,
            }
        };
    }
    rows
}

/// the float `d` steps above (d > 0) or below (d < 0) a finite float
fn ulp_step(x: f32, d: i32) -> f32 {
    let mut y = x;
    for _ in 0..d.abs() {
        let b = y.to_bits();
        y = if d > 0 {
            if y == 0.0 { f32::from_bits(1) } else if y > 0.0 { f32::from_bits(b + 1) } else { f32::from_bits(b - 1) }
        } else if y == 0.0 {
            f32::from_bits(0x8000_0001)
        } else if y > 0.0 {
            f32::from_bits(b - 1)
        } else {
            f32::from_bits(b + 1)
        };
        if !y.is_finite() {
            return x;
        }
    }
    y
}

fn best_word(pssm: &[[f32; 5]]) -> Vec<u8> {
    pssm.iter()
        .map(|r| {
            let mut b = 0usize;
            for j in 1..4 {
                if r[j] > r[b] {
                    b = j;
                }
            }
            b as u8
        })
        .collect()
}

fn gen_case(rng: &mut Rng, prop: &str, tier: &str) -> Case {
    let thorough = tier == "thorough";
    let m: usize = if rng.chance(3, 4) {
        1 + rng.below(6) as usize
    } else if thorough && rng.chance(1, 5) {
        13 + rng.below(18) as usize
    } else {
        7 + rng.below(6) as usize
    };
    // wide motifs (the byte scores saturate, the rounding slack of the pre-filter exceeds a byte,
    // the wrap rows outnumber the sequence rows): a few per run, with few positions each because
    // the extracted model scores in unary numbers / software floats
    let wide = rng.chance(if thorough { 3 } else { 2 }, 100);
    let m: usize = if wide {
        if thorough && rng.chance(1, 4) { 300 + rng.below(1701) as usize } else { 100 + rng.below(200) as usize }
    } else {
        m
    };
    let mut pssm = gen_matrix(rng, m);
    if wide {
        // stay inside the domain of the end-to-end theorems (coq/disc's conditioning predicate)
        let mut tries = 0;
        while tries < 8 && !(pssm.iter().all(|r| r[..4].iter().all(|x| x.is_finite())) && comfortably_conditioned(&pssm)) {
            pssm = gen_matrix(rng, m);
            tries += 1;
        }
    }
    // block size
    let bsel = rng.below(100);
    let big = if thorough { 10 } else { 3 };
    let b: usize = if bsel < big {
        256
    } else if bsel < big + 12 {
        *rng.pick(&[4usize, 5, 6, 9, 12, 32, 33, 40])
    } else {
        *rng.pick(&[1usize, 2, 3, 7, 16])
    };
    // sequence length
    let shape = rng.below(10);
    // spare: more wrap rows than the motif needs, with a last block that is not full (a block end
    // that is not clipped to the sequence rows then reads wrap rows without leaving the matrix)
    let spare = !wide && b >= 2 && rng.chance(1, 8);
    let l: usize = if wide {
        m + rng.below(if m > 600 { 40 } else { 90 }) as usize - if rng.chance(1, 10) { 1 + rng.below(3) as usize } else { 0 }
    } else if spare {
        let k = rng.below(if b >= 16 { 2 } else { 5 }) as usize;
        let r = k * b + 1 + rng.below(b as u64 - 1) as usize;
        (r - 1) * C + 1 + rng.below(C as u64) as usize
    } else if shape < 1 {
        let any = rng.below(m as u64 + 3) as usize;
        *rng.pick(&[0usize, 1, m.saturating_sub(1), m, m + 1, any])
    } else if shape < 7 {
        // row count within M-1 (+1) of a multiple of the block size
        let kmax = if b == 256 { if thorough { 2 } else { 1 } } else if b >= 7 { 3 } else { 6 };
        let k = 1 + rng.below(kmax) as i64;
        let d = rng.range(-(m as i64), m as i64);
        let r = std::cmp::max(1, k * (b as i64) + d) as usize;
        (r - 1) * C + 1 + rng.below(C as u64) as usize
    } else {
        1 + rng.below(600) as usize
    };
    // sequence content
    let nrate = if rng.chance(3, 10) { 20 } else { 0 };
    let mut seq: Vec<u8> = (0..l)
        .map(|_| if nrate > 0 && rng.chance(1, nrate) { 4 } else { rng.below(4) as u8 })
        .collect();
    if l >= m && rng.chance(1, 2) {
        // plant the consensus word (and one-off variants) a few times
        let w = best_word(&pssm);
        let plants = 1 + rng.below(4);
        for _ in 0..plants {
            let p = rng.below((l - m + 1) as u64) as usize;
            for j in 0..m {
                seq[p + j] = w[j];
            }
            if rng.chance(1, 2) {
                seq[p + rng.below(m as u64) as usize] = rng.below(4) as u8;
            }
        }
    }
    // wrap rows
    let wsel = rng.below(100);
    let wrap = if spare {
        // configured for a longer motif first: enough spare rows for a whole extra block
        m - 1 + b + rng.below(2 * b as u64 + 3) as usize
    } else if wsel < 82 || (m < 2 && wsel >= 96) {
        m - 1
    } else if wsel < 96 {
        // configured for a longer motif first (by 1..5 columns, or by much more than the sequence has rows)
        m - 1 + 1 + if rng.chance(1, 3) { rng.below(40) as usize } else { rng.below(5) as usize }
    } else {
        rng.below((m - 1) as u64) as usize
    };
    // threshold from the actual scores
    let p = build_pssm(&pssm);
    let striped = build_seq(&seq, m - 1);
    let scores = brute_scores(&p, &striped, l).unwrap_or_default();
    let mut sorted: Vec<f32> = scores.iter().cloned().filter(|x| !x.is_nan()).collect();
    sorted.sort_by(|a, b| a.partial_cmp(b).unwrap());
    let finite: Vec<f32> = sorted.iter().cloned().filter(|x| x.is_finite()).collect();
    // long sequences (default block size) get thresholds near the top in the quick
    // tier: the extracted model works on unary numbers and would need seconds per scan
    let big = l > 3000 && (!thorough || rng.chance(4, 5));
    let tsel = if big { 45 + rng.below(55) } else { rng.below(108) };
    let thr: Option<f32> = if sorted.is_empty() {
        Some(*rng.pick(&[-1000.0f32, 0.0, 5.5]))
    } else if tsel < 10 {
        Some(-1000.0)
    } else if tsel < 20 {
        Some(*finite.first().unwrap_or(&0.0))
    } else if tsel < 55 {
        let q = if big { 99 } else { *rng.pick(&[10usize, 50, 90, 99]) };
        Some(sorted[(sorted.len() - 1) * q / 100])
    } else if tsel < 70 {
        if big {
            Some(sorted[sorted.len() - 1 - rng.below(sorted.len().min(50) as u64) as usize])
        } else {
            Some(scores[rng.below(scores.len() as u64) as usize]).filter(|x| !x.is_nan()).or(Some(0.0))
        }
    } else if tsel < 82 {
        Some(*sorted.last().unwrap())
    } else if tsel < 88 {
        let mx = *sorted.last().unwrap();
        Some(if mx.is_finite() { f32::from_bits(if mx > 0.0 { mx.to_bits() + 1 } else if mx < 0.0 { mx.to_bits() - 1 } else { 1 }) } else { mx })
    } else if tsel < 92 {
        Some(*sorted.last().unwrap() + 1.0)
    } else if tsel < 94 {
        if big { Some(*sorted.last().unwrap()) } else { None }
    } else if tsel < 96 {
        if big { Some(*sorted.last().unwrap()) } else { Some(0.0) }
    } else if tsel < 97 {
        if big { Some(*sorted.last().unwrap()) } else { Some(f32::NEG_INFINITY) }
    } else if tsel < 98 {
        Some(f32::INFINITY)
    } else if tsel < 99 {
        Some(f32::NAN)
    } else if tsel < 100 {
        // just below an attained score
        let s = if big { *sorted.last().unwrap() } else { scores[rng.below(scores.len() as u64) as usize] };
        Some(if s.is_finite() { s - 0.005 } else { 0.0 })
    } else {
        // a narrow band around an attained score: 1..3 floats above or below it (often one of the top scores)
        let s = if finite.is_empty() {
            0.0
        } else if rng.chance(1, 2) {
            finite[finite.len() - 1 - rng.below(finite.len().min(4) as u64) as usize]
        } else {
            finite[rng.below(finite.len() as u64) as usize]
        };
        let d = 1 + rng.below(3) as i32;
        Some(ulp_step(s, if rng.chance(1, 2) { d } else { -d }))
    };
    let bopt = if b == 256 && rng.chance(1, 2) { None } else { Some(b) };
    // block sizes that only fit a usize (one block covers every row; `0 + B` and `row += B` at the top of the
    // range): the word-level model ScanWord.v is replayed for these (C02_word_scanner_eq)
    let bopt = if rng.chance(1, 40) { Some(*rng.pick(&[usize::MAX, usize::MAX - 1, 1usize << 63, 1usize << 32, 100_000_000])) } else { bopt };
    // prefixes
    let t = thr.unwrap_or(0.0);
    let nq = scores.iter().filter(|&&s| s >= t).count();
    let mut ks: Vec<usize> = vec![];
    if prop == "c02" {
        for _ in 0..2 {
            ks.push(rng.below(nq as u64 + 2) as usize);
        }
    } else {
        ks.push(0);
        let extra = if nq > 1500 { 2 } else { 5 };
        let cap = if nq > 1500 { 30 } else { nq + 1 };
        for _ in 0..extra {
            let k = match rng.below(4) {
                0 => 1 + rng.below(3) as usize,
                1 => nq.saturating_sub(rng.below(2) as usize),
                _ => rng.below(cap as u64 + 1) as usize,
            };
            ks.push(k.min(cap));
        }
        // the hits of the first one or two blocks: max() is then called with an empty buffer at a
        // block boundary (k = count), with one hit left in the buffer (count - 1), or one hit into
        // the next block (count + 1); consumed hits often score above everything that remains
        let rows = (l + C - 1) / C;
        let mut special: Vec<usize> = vec![0];
        if rows > 0 && nq <= 1500 {
            for nb in 1..=2usize {
                let cnt = scores.iter().enumerate().filter(|(i, &s)| s >= t && i % rows < nb * b).count();
                if cnt > 0 && rng.chance(2, 3) {
                    special.push(cnt);
                    if rng.chance(1, 2) {
                        special.push(cnt - 1);
                    }
                    if rng.chance(1, 3) {
                        special.push((cnt + 1).min(cap));
                    }
                }
            }
        }
        // at most 6 prefixes per case: the special ones first, then the random ones
        for k in ks.clone() {
            if special.len() >= 6 {
                break;
            }
            if !special.contains(&k) {
                special.push(k);
            }
        }
        ks = special;
        ks.sort();
        ks.dedup();
        ks.truncate(6);
    }
    // setters called between calls of next()
    let sw = if l <= 3000 && rng.chance(1, 14) {
        let k = match rng.below(3) {
            0 => 1 + rng.below(3) as usize,
            _ => rng.below(nq as u64 + 2) as usize,
        };
        let t2 = match rng.below(4) {
            0 => None,
            1 => Some(if finite.is_empty() { -1.0 } else { finite[rng.below(finite.len() as u64) as usize] }),
            2 => Some(t - 0.5 - (rng.below(8) as f32)),
            _ => Some(if finite.is_empty() { 1.0 } else { *finite.last().unwrap() }),
        };
        let mut b2 = if t2.is_none() || rng.chance(1, 2) { Some(*rng.pick(&[1usize, 2, 3, 5, 7, 16, 256])) } else { None };
        // block sizes next to usize::MAX: B2 = 2^64 - d.  `self.row + self.block_size` overflows iff the
        // row reached by the k calls is >= d (d <= R - 1 at most); d >= R never overflows (boundary of
        // C02_word_setters_between_calls_sound).  Known finding F-scan-ovf when it does.
        if rng.chance(1, 6) {
            let r = (l + C - 1) / C;
            let d = match rng.below(5) {
                0 => 1,
                1 => 2,
                2 => r.max(1),
                3 => r + 1,
                _ => 1 + rng.below(2 * r as u64 + 2) as usize,
            };
            b2 = Some(usize::MAX - (d - 1));
        }
        Some((k, t2, b2))
    } else {
        None
    };
    let arms = if l > 6000 { "ga".to_string() } else { "gsa".to_string() };
    Case { pssm, seq, wrap, thr, b: bopt, arms, ks, sw }
}

fn main() {
    let mut argv: Vec<String> = std::env::args().collect();
    if argv.len() >= 2 && argv[1] == "probe" {
        let e: Vec<f32> = vec![];
        println!("empty-f32-sum-bits={}", e.iter().sum::<f32>().to_bits());
        println!("columns={}", <lightmotif::dense::DefaultColumns as typenum::Unsigned>::USIZE);
        return;
    }
    if argv.len() < 3 {
        eprintln!("usage: scan <c02|c03> gen --seed S --n N [--tier t] | scan <c02|c03> run < inputs | scan probe");
        std::process::exit(2);
    }
    let prop = argv.remove(1).to_lowercase();
    // parse_args reads std::env::args: re-exec semantics are not needed, the property
    // token was the first argument and lmh::parse_args skips unknown tokens
    let args = parse_args_from(&argv);
    match args.cmd.as_str() {
        "gen" => {
            let mut rng = Rng::new(args.seed ^ if prop == "c03" { 0x5EED_C03 } else { 0 });
            for id in 0..args.n {
                let c = gen_case(&mut rng, &prop, &args.tier);
                println!("{}", show_case(&id.to_string(), &c));
            }
        }
        "run" => {
            silence_panics();
            for line in stdin_lines() {
                let (_id, f) = fields(&line);
                let c = parse_case(&f);
                println!("{} => {}", line, run_case(&prop, &c));
            }
        }
        _ => {
            eprintln!("usage: scan <c02|c03> gen|run");
            std::process::exit(2);
        }
    }
}

/// same as lmh::parse_args, on an explicit argument vector (argv[0] = program name)
fn parse_args_from(argv: &[String]) -> Args {
    let mut it = argv.iter().skip(1).cloned();
    let cmd = it.next().unwrap_or_else(|| "help".to_string());
    let mut a = Args {
        cmd,
        seed: std::env::var("VERIF_SEED").ok().and_then(|s| s.parse().ok()).unwrap_or(1),
        n: 100,
        tier: "quick".to_string(),
        rest: vec![],
    };
    while let Some(x) = it.next() {
        match x.as_str() {
            "--seed" => a.seed = it.next().unwrap().parse().unwrap(),
            "--n" => a.n = it.next().unwrap().parse().unwrap(),
            "--tier" => a.tier = it.next().unwrap(),
            _ => a.rest.push(x),
        }
    }
    a
}
