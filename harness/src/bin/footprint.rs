//! C06 harness: histories of calls to the SAFE public API of `lightmotif`, executed
//! (a) in an AddressSanitizer build of this very binary and (b) in the plain debug
//! build (the library's own `debug_assert!` alignment checks are live there).
//!
//! `footprint gen --seed S --n N --tier T` prints input lines
//!     <id> abc=<dna|prot> be=<g|s|a|dg|ds|da> seed=<u64> ops=<op;op;...>
//!     <id> kind=dense T=<u8|u32|f32> C=<cols> seed=<u64> ops=<op;op;...>
//! `footprint exec` reads input lines on stdin; for each it prints `BEGIN <id>`
//! (flushed) *before* executing the case, then `END <id> <records>`; one record per
//! op: `<op>|k=v,k=v,...|<outcome>`, the key/values being the parameter tuple the
//! kernel behind the op is entered with, computed from the public accessors before
//! the call (`L`, rows, wrap, `M`, strides via `.stride()`, capacities via
//! `.capacity()`, row range) and the outcome `P` (panic) or op specific values.
//! `footprint run` is the orchestrator used by the check: it feeds its stdin to two
//! children running `exec` — the ASan build (`LM_FP_ASAN_BIN`) and this debug build —
//! restarts a child that died and attributes the death to the case whose `BEGIN`
//! was the last one printed; it prints
//!     <input line> => asan=<CLEAN|PANIC|ASAN(kind)|CRASH(sig)|NOASAN> [rel=<same, release-mode sanitizer build>] dbg=<CLEAN|PANIC|CRASH(sig)> dbg2=<same, start-aligned guard pages> [msan=<CLEAN|PANIC|MSAN(kind)|CRASH|NOMSAN>] :: <records>
#![allow(unexpected_cfgs)]
use std::io::{BufRead, BufReader, Write};
use std::ops::Range;
use std::process::{Command, Stdio};

use lightmotif::abc::{Alphabet, Background, Dna, Protein, Symbol};
use lightmotif::dense::{DenseMatrix, MatrixElement};
use lightmotif::num::{ArrayLength, Unsigned, U16, U21, U32, U48, U5, U7};
use lightmotif::pli::dispatch::Dispatch;
use lightmotif::pli::platform::{Avx2, Generic, Sse2};
use lightmotif::pli::{Encode, Maximum, Pipeline, Score, Stripe, Threshold};
use lightmotif::pwm::{DiscreteMatrix, ScoringMatrix};
use lightmotif::sampler::{Sampler, SamplerData};
use lightmotif::scan::Scanner;
use lightmotif::scores::StripedScores;
use lightmotif::seq::{EncodedSequence, StripedSequence, SymbolCount};
use lmh::*;


// ------------------------------------------------- spare capacity is not owned content
//
// The footprint model counts `rows * stride` bytes of a matrix (and `len` bytes of a symbol
// vector) as owned, not the `Vec` capacity behind them.  AddressSanitizer only knows the
// allocation.  In the sanitizer build (`--cfg lm_asan`) the harness therefore poisons the
// spare capacity of every buffer a call only READS (sequence matrix, scoring matrix, score
// matrix of max/argmax, symbol vector of stripe) for the duration of the call, so that an
// over-read that stays inside the allocation is reported like one that leaves it.  (Buffers
// the call may resize cannot be treated that way: `Vec::resize` legitimately writes there.)

#[cfg(lm_asan)]
extern "C" {
    fn __asan_poison_memory_region(addr: *const u8, size: usize);
    fn __asan_unpoison_memory_region(addr: *const u8, size: usize);
}

// ------------------------------------------------ MemorySanitizer child (`--cfg lm_msan`, -Zbuild-std)
//
// Initialisation tracking: the sanitizer keeps one shadow bit per bit of memory (set by malloc, cleared by
// instrumented stores).  After the ops that start from uninitialised storage (`DenseMatrix::uninitialized`
// behind sample / from_rows, the rows+32 spare rows of stripe, resize, encode_raw's set_len buffer) the
// harness asks for the shadow of every LOGICAL cell of the result (`__msan_test_shadow`; the tail padding of
// a row is never written by anybody and is not a cell): "every cell that can be read was written before".
#[cfg(lm_msan)]
extern "C" {
    fn __msan_test_shadow(x: *const u8, size: usize) -> isize;
    fn __msan_unpoison(x: *const u8, size: usize);
}

/// The tail padding of the rows (stride > columns) is written by nobody (Rust never initialises struct
/// padding) and is not a cell; the AVX2/SSE2 kernels load it together with the cells of a row (the footprint
/// model lists these loads) and select lanes below K only.  The sanitizer tracks such lanes through
/// `vpermps`/`pshufb` conservatively, so the harness declares the padding of the matrices it hands to the
/// kernels initialised; whatever the sanitizer reports afterwards comes from a cell (or other memory).
#[allow(unused_variables)]
fn bless_padding<T: MatrixElement, C: ArrayLength>(m: &DenseMatrix<T, C>) {
    #[cfg(lm_msan)]
    {
        let es = std::mem::size_of::<T>();
        if m.stride() > C::USIZE {
            for r in 0..m.rows() {
                let p = m[r].as_ptr() as *const u8;
                unsafe { __msan_unpoison(p.add(C::USIZE * es), (m.stride() - C::USIZE) * es) };
            }
        }
    }
}

/// Initialisation verdict of the harness itself: a logical cell of `what` that was never written.
fn cell_check(what: &str, off: i64) {
    cell_check_nt(what, off, false)
}

/// `nt`: the buffer was just filled by a kernel that writes with non-temporal stores (`_mm*_stream_*`: inline
/// assembly the sanitizer does not see).  Today the wrappers default-initialise the rows first (`resize`), so the
/// cells ARE seen written; a wrapper that (correctly) skipped that would look uninitialised to the sanitizer
/// without being so: reported under another name, which the driver counts as a broken tie, not as a violation.
fn cell_check_nt(what: &str, off: i64, nt: bool) {
    if off >= 0 {
        let kind = if nt { "not-seen-written(non-temporal-stores-are-invisible)" } else { "never-written-cell" };
        eprintln!("ERROR: MemorySanitizer: {} at byte {} of {}", kind, off, what);
        std::process::exit(98);
    }
}

/// Byte offset (within the matrix) of the first logical cell byte that was never written, or -1.
#[allow(unused_variables)]
fn first_uninit_cell<T: MatrixElement, C: ArrayLength>(m: &DenseMatrix<T, C>) -> i64 {
    #[cfg(lm_msan)]
    {
        let es = std::mem::size_of::<T>();
        for r in 0..m.rows() {
            let p = m[r].as_ptr() as *const u8;
            let k = unsafe { __msan_test_shadow(p, C::USIZE * es) };
            if k >= 0 {
                return (r * m.stride() * es) as i64 + k as i64;
            }
        }
    }
    -1
}

#[allow(unused_variables)]
fn first_uninit_slice<T>(v: &[T]) -> i64 {
    #[cfg(lm_msan)]
    {
        return unsafe { __msan_test_shadow(v.as_ptr() as *const u8, std::mem::size_of_val(v)) } as i64;
    }
    #[allow(unreachable_code)]
    -1
}

const ASAN_OPTIONS: &str =
    "detect_leaks=0:halt_on_error=1:abort_on_error=0:exitcode=99:allocator_may_return_null=1:detect_stack_use_after_return=0:symbolize=0:allow_user_poisoning=1";

/// Address and size of the rows between `rows()` and `capacity()`.
fn spare_of<T: MatrixElement, C: ArrayLength>(m: &DenseMatrix<T, C>) -> Option<(usize, usize)> {
    if m.rows() == 0 || m.capacity() <= m.rows() {
        return None;
    }
    let rb = m.stride() * std::mem::size_of::<T>();
    Some((m[0].as_ptr() as usize + m.rows() * rb, (m.capacity() - m.rows()) * rb))
}

fn spare_of_vec<T>(v: &Vec<T>) -> Option<(usize, usize)> {
    if v.capacity() <= v.len() {
        return None;
    }
    let sz = std::mem::size_of::<T>();
    Some((v.as_ptr() as usize + v.len() * sz, (v.capacity() - v.len()) * sz))
}

struct Poisoned(Vec<(usize, usize)>);

fn poison(regions: &[Option<(usize, usize)>]) -> Poisoned {
    let v: Vec<(usize, usize)> = regions.iter().flatten().cloned().collect();
    #[cfg(lm_asan)]
    for &(a, n) in &v {
        unsafe { __asan_poison_memory_region(a as *const u8, n) };
    }
    Poisoned(v)
}

impl Drop for Poisoned {
    fn drop(&mut self) {
        #[cfg(lm_asan)]
        for &(a, n) in &self.0 {
            unsafe { __asan_unpoison_memory_region(a as *const u8, n) };
        }
    }
}


// ------------------------------------------------ guard-page allocator (plain debug build)
//
// The non-temporal stores of the kernels (`_mm256_stream_*`, `_mm_stream_ps`) are inline assembly in
// current std::arch and therefore NOT instrumented by AddressSanitizer: a kernel that streams past its
// destination matrix is invisible to the sanitizer children.  In the plain build every allocation with
// alignment >= 32 (that is: every DenseMatrix — sequence, scoring and score matrices) is therefore
// placed by this allocator so that it ENDS at a page boundary followed by an inaccessible page (and is
// preceded by one): any instruction that touches a byte past the allocation faults (SIGSEGV), which the
// orchestrator reports for the op that was running.
#[cfg(not(any(lm_asan, lm_msan)))]
mod guard_alloc {
    use std::alloc::{GlobalAlloc, Layout, System};
    const PAGE: usize = 4096;
    extern "C" {
        fn mmap(addr: *mut u8, len: usize, prot: i32, flags: i32, fd: i32, off: i64) -> *mut u8;
        fn munmap(addr: *mut u8, len: usize) -> i32;
        fn mprotect(addr: *mut u8, len: usize, prot: i32) -> i32;
    }
    const PROT_NONE: i32 = 0;
    const PROT_RW: i32 = 3;
    const MAP_PRIVATE_ANON: i32 = 0x22;
    pub struct GuardAlloc;
    /// LM_FP_GUARD=start: allocations START right after an inaccessible page (under-runs fault) instead of
    /// ending right before one (over-runs fault); set once at process start.
    pub static START: std::sync::atomic::AtomicBool = std::sync::atomic::AtomicBool::new(false);
    fn guarded(l: &Layout) -> bool {
        l.align() >= 32 && l.align() <= PAGE && l.size() > 0
    }
    fn shape(l: &Layout) -> (usize, usize) {
        let size = (l.size() + l.align() - 1) / l.align() * l.align();
        (size, (size + PAGE - 1) / PAGE)
    }
    unsafe impl GlobalAlloc for GuardAlloc {
        unsafe fn alloc(&self, l: Layout) -> *mut u8 {
            if !guarded(&l) {
                return System.alloc(l);
            }
            let (size, pages) = shape(&l);
            let len = (pages + 2) * PAGE;
            let base = mmap(std::ptr::null_mut(), len, PROT_NONE, MAP_PRIVATE_ANON, -1, 0);
            if base as isize == -1 || base.is_null() {
                return std::ptr::null_mut();
            }
            if mprotect(base.add(PAGE), pages * PAGE, PROT_RW) != 0 {
                munmap(base, len);
                return std::ptr::null_mut();
            }
            let p = if START.load(std::sync::atomic::Ordering::Relaxed) {
                base.add(PAGE)
            } else {
                base.add(PAGE + pages * PAGE - size)
            };
            // fresh matrices start as the canary pattern: rows between rows() and capacity() of a matrix that a call
            // allocated (or reallocated: the default `realloc` copies the old block, whose spare rows the harness
            // had filled with the same pattern) must still hold it afterwards (`fresh_spare_check`)
            std::ptr::write_bytes(p, super::CANARY, size);
            p
        }
        unsafe fn dealloc(&self, p: *mut u8, l: Layout) {
            if !guarded(&l) {
                return System.dealloc(p, l);
            }
            let (size, pages) = shape(&l);
            // a page-aligned pointer is start-placed (or the size is a whole number of pages: same mapping)
            let base = if p as usize % PAGE == 0 { p.sub(PAGE) } else { p.add(size).sub(pages * PAGE + PAGE) };
            munmap(base, (pages + 2) * PAGE);
        }
    }
}

#[cfg(not(any(lm_asan, lm_msan)))]
#[global_allocator]
static GLOBAL: guard_alloc::GuardAlloc = guard_alloc::GuardAlloc;


// ------------------------------------------------ canary in the spare capacity of destinations
//
// A destination matrix may be resized by the call, so its spare capacity cannot be poisoned; and the
// kernels write it with non-temporal stores the sanitizer does not see.  Instead the harness fills the
// spare rows with a pattern before the call and, when the buffer was not reallocated, checks afterwards
// that every byte beyond max(rows before, rows after) still holds it (Vec::resize only initialises the
// rows it adds).

const CANARY: u8 = 0xC7;

/// State of a destination matrix before a call: address of row 0, capacity, bytes per row, rows, and a
/// copy of the owned rows; the spare rows now hold the pattern.
struct Canary {
    base: usize,
    cap: usize,
    rb: usize,
    rows: usize,
    before: Vec<u8>,
}

fn canary_set<T: MatrixElement, C: ArrayLength>(m: &DenseMatrix<T, C>) -> Option<Canary> {
    let (rows, cap) = (m.rows(), m.capacity());
    if rows == 0 {
        return None;
    }
    let rb = m.stride() * std::mem::size_of::<T>();
    // (the spare rows are raw Vec capacity: no reference covers them)
    let base = m[0].as_ptr() as usize;
    let before = unsafe { std::slice::from_raw_parts(base as *const u8, rows * rb) }.to_vec();
    unsafe { std::ptr::write_bytes((base + rows * rb) as *mut u8, CANARY, (cap - rows) * rb) };
    Some(Canary { base, cap, rb, rows, before })
}

/// A matrix the call allocated itself (`stripe()`, `sample()`, a reallocating `resize`): in the plain build the
/// allocator hands out memory filled with the canary pattern, `Vec` never writes beyond `len`, and the harness fills
/// the spare rows of a buffer it passes in with the same pattern — so whatever the call did, every byte between
/// rows() and capacity() must hold the pattern, unless `shrunk_from` rows were owned before and the buffer was kept.
/// Byte offset of the first damaged byte, or -1 (always -1 in the sanitizer builds: their allocators do not fill).
#[allow(unused_variables)]
fn fresh_spare_check<T: MatrixElement, C: ArrayLength>(m: &DenseMatrix<T, C>) -> i64 {
    #[cfg(not(any(lm_asan, lm_msan)))]
    {
        if m.rows() > 0 && m.capacity() > m.rows() {
            let rb = m.stride() * std::mem::size_of::<T>();
            let base = m[0].as_ptr() as usize;
            for off in m.rows() * rb..m.capacity() * rb {
                if unsafe { std::ptr::read_volatile((base + off) as *const u8) } != CANARY {
                    return off as i64;
                }
            }
        }
    }
    -1
}

/// The records the orchestrator prints are those of the sanitizer child; a damaged canary found by a PLAIN child
/// (the only ones that can judge a matrix allocated inside the call) ends that child: `dbg=CRASH(exit97)@op`.
fn plain_fatal(what: &str, off: i64) -> i64 {
    #[cfg(not(any(lm_asan, lm_msan)))]
    if off >= 0 {
        eprintln!("ERROR: canary: write past the owned rows (inside the capacity) at byte {} of {}", off, what);
        std::process::exit(97);
    }
    off
}

/// After the call (buffer not reallocated): the rows between rows() and capacity() are not the call's to
/// write — those that were owned before (the call shrank the matrix: `Vec::truncate` writes nothing) must
/// hold what they held, the others the pattern.  Byte offset of the first damaged byte, or -1.
fn canary_check<T: MatrixElement, C: ArrayLength>(m: &DenseMatrix<T, C>, c: Option<Canary>) -> i64 {
    if let Some(c) = c {
        if m.rows() > 0 && m.capacity() == c.cap && m[0].as_ptr() as usize == c.base {
            for off in m.rows() * c.rb..c.cap * c.rb {
                let want = if off < c.rows * c.rb { c.before[off] } else { CANARY };
                if unsafe { std::ptr::read_volatile((c.base + off) as *const u8) } != want {
                    return off as i64;
                }
            }
        } else if m.rows() >= c.rows {
            // the call reallocated the buffer (it grew): the copy of the old spare rows and the fresh tail
            return fresh_spare_check(m);
        }
    }
    -1
}

// ------------------------------------------------------------------ pipelines

enum Pli<A: Alphabet> {
    G(Pipeline<A, Generic>),
    S(Pipeline<A, Sse2>),
    V(Pipeline<A, Avx2>),
    D(Pipeline<A, Dispatch>),
}

macro_rules! each {
    ($s:expr, $p:ident => $e:expr) => {
        match $s {
            Pli::G($p) => $e,
            Pli::S($p) => $e,
            Pli::V($p) => $e,
            Pli::D($p) => $e,
        }
    };
}

/// The dispatcher arm (and therefore the kernel family) behind a backend token.
fn arm(be: &str) -> &'static str {
    match be {
        "g" | "dg" => "generic",
        "s" | "ds" => "sse2",
        "a" | "da" => "avx2",
        _ => panic!("bad backend {}", be),
    }
}

fn force(be: &str) {
    use lightmotif::pli::verif::force_backend;
    match be {
        "dg" => force_backend(Some(Dispatch::Generic)),
        "ds" => force_backend(Some(Dispatch::Sse2)),
        "da" => force_backend(Some(Dispatch::Avx2)),
        _ => force_backend(None),
    }
}

fn make_pli<A: Alphabet>(be: &str) -> Pli<A> {
    match be {
        "g" => Pli::G(Pipeline::generic()),
        "s" => Pli::S(Pipeline::sse2().unwrap()),
        "a" => Pli::V(Pipeline::avx2().unwrap()),
        _ => Pli::D(Pipeline::dispatch()),
    }
}

/// Per-alphabet pieces that the type system does not let us write generically:
/// 8-bit scoring and the scanner exist for every alphabet on the generic/SSE2
/// pipelines but only for DNA on the AVX2 and dispatching pipelines.
trait AbcX: Alphabet {
    const NAME: &'static str;
    /// returns false when the pipeline has no 8-bit scoring for this alphabet
    fn score_u8(
        pli: &Pli<Self>,
        dm: &DiscreteMatrix<Self>,
        seq: &StripedSequence<Self, U32>,
        rows: Range<usize>,
        out: &mut StripedScores<u8, U32>,
    ) -> bool;
    /// Scanner (always through `Pipeline::dispatch()`): (hits, best position+1 or 0)
    fn scan(
        pssm: &ScoringMatrix<Self>,
        seq: &StripedSequence<Self, U32>,
        block: usize,
        thr: f32,
        buf: Option<&mut StripedScores<f32, U32>>,
        mode: u8,
    ) -> Option<(usize, usize)>;
}

impl AbcX for Dna {
    const NAME: &'static str = "dna";
    fn score_u8(
        pli: &Pli<Self>,
        dm: &DiscreteMatrix<Self>,
        seq: &StripedSequence<Self, U32>,
        rows: Range<usize>,
        out: &mut StripedScores<u8, U32>,
    ) -> bool {
        each!(pli, p => p.score_rows_into(dm, seq, rows, out));
        true
    }
    fn scan(
        pssm: &ScoringMatrix<Self>,
        seq: &StripedSequence<Self, U32>,
        block: usize,
        thr: f32,
        buf: Option<&mut StripedScores<f32, U32>>,
        mode: u8,
    ) -> Option<(usize, usize)> {
        let mut sc = Scanner::<Dna, _, _, U32>::new(pssm, seq);
        sc.block_size(block).threshold(thr);
        if let Some(b) = buf {
            sc.scores(b);
        }
        match mode {
            0 => {
                let hits: Vec<_> = sc.collect();
                Some((hits.len(), 0))
            }
            1 => {
                let best = sc.max();
                Some((0, best.map(|h| h.position() + 1).unwrap_or(0)))
            }
            _ => {
                // a few hits first, then the best of the rest
                let mut n = 0;
                for _ in 0..3 {
                    if sc.next().is_some() {
                        n += 1;
                    }
                }
                let best = sc.max();
                Some((n, best.map(|h| h.position() + 1).unwrap_or(0)))
            }
        }
    }
}

impl AbcX for Protein {
    const NAME: &'static str = "prot";
    fn score_u8(
        pli: &Pli<Self>,
        dm: &DiscreteMatrix<Self>,
        seq: &StripedSequence<Self, U32>,
        rows: Range<usize>,
        out: &mut StripedScores<u8, U32>,
    ) -> bool {
        match pli {
            Pli::G(p) => p.score_rows_into(dm, seq, rows, out),
            Pli::S(p) => p.score_rows_into(dm, seq, rows, out),
            _ => return false,
        }
        true
    }
    fn scan(
        _pssm: &ScoringMatrix<Self>,
        _seq: &StripedSequence<Self, U32>,
        _block: usize,
        _thr: f32,
        _buf: Option<&mut StripedScores<f32, U32>>,
        _mode: u8,
    ) -> Option<(usize, usize)> {
        None
    }
}

/// Striping: the SSE2 pipeline has no `Stripe` implementation (its users stripe with the
/// generic pipeline), the others stripe themselves.
fn stripe_with<A: Alphabet>(pli: &Pli<A>, enc: &Vec<A::Symbol>) -> StripedSequence<A, U32> {
    match pli {
        Pli::G(p) => Stripe::<A, U32>::stripe(p, enc),
        Pli::S(_) => Stripe::<A, U32>::stripe(&Pipeline::<A, Generic>::generic(), enc),
        Pli::V(p) => Stripe::<A, U32>::stripe(p, enc),
        Pli::D(p) => Stripe::<A, U32>::stripe(p, enc),
    }
}

fn stripe_into_with<A: Alphabet>(pli: &Pli<A>, enc: &Vec<A::Symbol>, out: &mut StripedSequence<A, U32>) {
    match pli {
        Pli::G(p) => Stripe::<A, U32>::stripe_into(p, enc, out),
        Pli::S(_) => Stripe::<A, U32>::stripe_into(&Pipeline::<A, Generic>::generic(), enc, out),
        Pli::V(p) => Stripe::<A, U32>::stripe_into(p, enc, out),
        Pli::D(p) => Stripe::<A, U32>::stripe_into(p, enc, out),
    }
}

// --------------------------------------------------------------------- state

struct State<A: AbcX> {
    enc: Vec<A::Symbol>,
    striped: StripedSequence<A, U32>,
    pssm: ScoringMatrix<A>,
    dm: DiscreteMatrix<A>,
    fs: StripedScores<f32, U32>,
    us: StripedScores<u8, U32>,
}

fn exact<T>(v: Vec<T>) -> Vec<T> {
    // capacity == len, so that any over-read leaves the allocation
    v.into_boxed_slice().into_vec()
}

fn make_text<A: Alphabet>(rng: &mut Rng, l: usize, bad: i64) -> Box<[u8]> {
    let letters = A::as_str().as_bytes();
    let mut t: Vec<u8> = (0..l).map(|_| *rng.pick(letters)).collect();
    if bad >= 0 && (bad as usize) < l {
        t[bad as usize] = *rng.pick(&[b'x', b'a', b'-', 0u8, 0xFFu8, b'Z' + 1, b' ']);
    }
    t.into_boxed_slice()
}

fn make_pssm<A: Alphabet>(rng: &mut Rng, m: usize) -> ScoringMatrix<A> {
    let mut d = DenseMatrix::<f32, A::K>::new(m);
    for i in 0..m {
        for j in 0..A::K::USIZE {
            // (-inf makes the 8-bit discretisation degenerate — all scores 0 — so keep it rare)
            let v = match rng.below(60) {
                0 => f32::NEG_INFINITY,
                1..=4 => 0.0,
                _ => (rng.range(-2000, 1500) as f32) / 256.0,
            };
            d[i][j] = v;
        }
    }
    // exact allocation (clone gives capacity == rows)
    ScoringMatrix::new(Background::uniform(), d.clone())
}

fn pu(s: &str) -> usize {
    s.parse().unwrap()
}
fn pi(s: &str) -> i64 {
    s.parse().unwrap()
}

/// Parameter tuple of a scoring call, from the public accessors, before the call.
fn score_params<A: Alphabet, T: lightmotif::dense::MatrixElement>(
    seq: &StripedSequence<A, U32>,
    pm: &DenseMatrix<T, A::K>,
    out: &DenseMatrix<T, U32>,
    rows: &Range<usize>,
) -> String {
    format!(
        "K={},es={},L={},SR={},scap={},wrap={},M={},pcap={},a={},b={},sst={},pst={},dst={},drows={},dcap={}",
        A::K::USIZE,
        std::mem::size_of::<T>(),
        seq.len(),
        seq.matrix().rows(),
        seq.matrix().capacity(),
        seq.wrap(),
        pm.rows(),
        pm.capacity(),
        rows.start,
        rows.end,
        seq.matrix().stride(),
        pm.stride(),
        out.stride(),
        out.rows(),
        out.capacity()
    )
}

fn run_ops<A: AbcX>(be: &str, seed: u64, ops: &[&str]) -> String {
    force(be);
    let pli: Pli<A> = make_pli(be);
    let arm = arm(be);
    let mut st: State<A> = State {
        enc: Vec::new(),
        striped: StripedSequence::default(),
        pssm: ScoringMatrix::new(Background::uniform(), DenseMatrix::new(0)),
        dm: ScoringMatrix::<A>::new(Background::uniform(), DenseMatrix::new(0)).to_discrete(),
        fs: StripedScores::empty(),
        us: StripedScores::empty(),
    };
    let mut out: Vec<String> = Vec::new();
    for (k, op) in ops.iter().enumerate() {
        let mut rng = Rng::new(seed ^ ((k as u64 + 1) << 32));
        let p: Vec<&str> = op.split(':').collect();
        progress(k, p[0]);
        // (sanitizer children only; no-ops elsewhere)
        bless_padding(st.striped.matrix());
        bless_padding(st.pssm.matrix());
        bless_padding(st.dm.matrix());
        bless_padding(st.fs.matrix());
        bless_padding(st.us.matrix());
        // Scanner and Sampler build scoring matrices of their own (row padding written by nobody) and score them
        // with the SIMD kernels, whose padding lanes the sanitizer cannot tell from cells: not run in this child
        if cfg!(lm_msan) && matches!(p[0], "scan" | "gibbs") {
            out.push(format!("{}||not-run-under-msan", p[0]));
            continue;
        }
        let rec: String = match p[0] {
            // ------------------------------------------------------ encoding
            "encuse" => {
                // encode_into a caller-owned buffer and KEEP the buffer whatever the result:
                // after an `Err` the buffer is still a `[Symbol]` that safe code may use
                let (l, bad) = (pu(p[1]), pi(p[2]));
                let text = make_text::<A>(&mut rng, l, bad);
                let mut dst: Box<[A::Symbol]> = vec![A::Symbol::default(); l].into_boxed_slice();
                let params = format!("pl={},arm={},how=1,L={},Ld={},bad={}", pl_of(be), arm, l, l, (bad >= 0 && (bad as usize) < l) as u8);
                let r = no_panic(|| each!(&pli, p => p.encode_into(&text[..], &mut dst[..])).is_ok());
                // largest symbol index now stored in the buffer (must be < K for a valid Symbol)
                let symmax = dst.iter().map(|x| unsafe { *(x as *const A::Symbol as *const u8) } as usize).max().unwrap_or(0);
                st.enc = dst.into_vec();
                match r {
                    None => format!("encuse|{}|P", params),
                    Some(ok) => format!("encuse|{},K={},symmax={}|{}", params, A::K::USIZE, symmax, if ok { "ok" } else { "E" }),
                }
            }
            "enc" => {
                let (l, bad, how) = (pu(p[1]), pi(p[2]), pu(p[3]));
                let text = make_text::<A>(&mut rng, l, bad);
                let dl = if how == 3 { l + 1 } else { l };
                let params = format!("pl={},arm={},how={},L={},Ld={},bad={}", if how == 2 { "d" } else { pl_of(be) }, if how == 2 { arm_of_dispatch(be) } else { arm }, how, l, dl, (bad >= 0 && (bad as usize) < l) as u8);
                let r = no_panic(|| -> Result<Vec<A::Symbol>, ()> {
                    match how {
                        0 => each!(&pli, p => p.encode_raw(&text[..])).map_err(|_| ()),
                        2 => EncodedSequence::<A>::encode(&text[..])
                            .map(|e| {
                                let s: &[A::Symbol] = e.as_ref();
                                s.to_vec()
                            })
                            .map_err(|_| ()),
                        _ => {
                            let mut dst: Box<[A::Symbol]> = vec![A::Symbol::default(); dl].into_boxed_slice();
                            each!(&pli, p => p.encode_into(&text[..], &mut dst[..])).map_err(|_| ())?;
                            Ok(dst.into_vec())
                        }
                    }
                });
                match r {
                    None => format!("enc|{}|P", params),
                    Some(Err(())) => format!("enc|{}|E", params),
                    Some(Ok(v)) => {
                        st.enc = exact(v);
                        format!("enc|{}|ok", params)
                    }
                }
            }
            // ------------------------------------------------------ striping
            "stripe" => {
                let how = pu(p[1]);
                let params = format!(
                    "pl={},arm={},how={},L={},ecap={},rows0={},cap0={},st={}",
                    if how == 2 { "d" } else { pl_of(be) },
                    if how == 2 { arm_of_dispatch(be) } else { arm },
                    how,
                    st.enc.len(),
                    st.enc.capacity(),
                    st.striped.matrix().rows(),
                    st.striped.matrix().capacity(),
                    st.striped.matrix().stride()
                );
                let enc = &st.enc;
                let striped = &mut st.striped;
                let guard = poison(&[spare_of_vec(enc)]);
                let can = if how == 1 { canary_set(striped.matrix()) } else { None };
                let r = no_panic(|| match how {
                    0 => *striped = stripe_with(&pli, enc),
                    1 => stripe_into_with(&pli, enc, striped),
                    _ => *striped = EncodedSequence::<A>::new(enc.clone()).to_striped::<U32>(),
                });
                drop(guard);
                match r {
                    None => format!("stripe|{}|P", params),
                    Some(()) => format!(
                        "stripe|{}|{},{},{},{}",
                        params,
                        st.striped.matrix().rows(),
                        st.striped.matrix().capacity(),
                        st.striped.wrap(),
                        plain_fatal("the striped sequence matrix", if how == 1 { canary_check(st.striped.matrix(), can) } else { fresh_spare_check(st.striped.matrix()) })
                    ),
                }
            }
            "sample" => {
                let l = pu(p[1]);
                let params = format!("L={},C=32", l);
                let r = no_panic(|| {
                    use rand::SeedableRng;
                    let r = rand::rngs::StdRng::seed_from_u64(seed ^ k as u64);
                    StripedSequence::<A, U32>::sample(r, Background::uniform(), l)
                });
                match r {
                    None => format!("sample|{}|P", params),
                    Some(s) => {
                        st.striped = s;
                        format!("sample|{}|{},{}", params, st.striped.matrix().rows(), st.striped.matrix().capacity())
                    }
                }
            }
            "newseq" => {
                // `StripedSequence::new(DenseMatrix::new(rows), L)`: a caller-built sequence matrix whose Vec holds
                // exactly `rows` rows (no DEFAULT_EXTRA_ROWS): configure_wrap then regrows it (amortised, or to the
                // exact size when wrap > rows); Err(InvalidData) when rows * C < L (the previous sequence stays)
                let (rows, l) = (pu(p[1]), pu(p[2]));
                let params = format!("rows={},L={},C=32", rows, l);
                let r = no_panic(|| StripedSequence::<A, U32>::new(DenseMatrix::new(rows), l).ok());
                match r {
                    None => format!("newseq|{}|P", params),
                    Some(None) => format!("newseq|{}|E", params),
                    Some(Some(s)) => {
                        st.striped = s;
                        format!("newseq|{}|{},{},{}", params, st.striped.matrix().rows(), st.striped.matrix().capacity(), st.striped.wrap())
                    }
                }
            }
            "exact" => {
                // exact-size copies of every buffer (Vec::clone allocates len elements)
                st.striped = st.striped.clone();
                st.fs = st.fs.clone();
                st.us = st.us.clone();
                st.pssm = st.pssm.clone();
                st.dm = st.dm.clone();
                st.enc = exact(std::mem::take(&mut st.enc));
                format!(
                    "exact|SR={},FR={},UR={},PR={},DR={}|{},{},{},{},{}",
                    st.striped.matrix().rows(),
                    st.fs.matrix().rows(),
                    st.us.matrix().rows(),
                    st.pssm.matrix().rows(),
                    st.dm.matrix().rows(),
                    st.striped.matrix().capacity(),
                    st.fs.matrix().capacity(),
                    st.us.matrix().capacity(),
                    st.pssm.matrix().capacity(),
                    st.dm.matrix().capacity()
                )
            }
            // --------------------------------------------------- configuration
            "pssm" => {
                let m = pu(p[1]);
                let r = no_panic(|| {
                    let pssm = make_pssm::<A>(&mut rng, m);
                    let dm = pssm.to_discrete();
                    (pssm, dm)
                });
                match r {
                    None => format!("pssm|M={}|P", m),
                    Some((a, b)) => {
                        st.pssm = a;
                        st.dm = b;
                        format!("pssm|M={}|ok", m)
                    }
                }
            }
            "cfg" | "wrap" => {
                let m = if p[0] == "cfg" { st.pssm.len().wrapping_sub(1) } else { pu(p[1]) };
                let params = format!(
                    "m={},M={},SR={},scap={},wrap={},st={}",
                    if p[0] == "cfg" && st.pssm.is_empty() { 0 } else { m },
                    st.pssm.len(),
                    st.striped.matrix().rows(),
                    st.striped.matrix().capacity(),
                    st.striped.wrap(),
                    st.striped.matrix().stride()
                );
                let (striped, pssm) = (&mut st.striped, &st.pssm);
                let r = no_panic(|| {
                    if p[0] == "cfg" {
                        striped.configure(pssm)
                    } else {
                        striped.configure_wrap(m)
                    }
                });
                match r {
                    None => format!("cfg|{}|P", params),
                    Some(()) => format!("cfg|{}|{},{},{}", params, st.striped.matrix().rows(), st.striped.wrap(), st.striped.matrix().capacity()),
                }
            }
            // -------------------------------------------------------- scoring
            "score" | "rows" => {
                let sr = st.striped.matrix().rows();
                let rows = if p[0] == "score" { 0..sr.wrapping_sub(st.striped.wrap()) } else { pu(p[1])..pu(p[2]) };
                let params = format!("arm={},{}", arm, score_params(&st.striped, st.pssm.matrix(), st.fs.matrix(), &rows));
                let (striped, pssm, fs) = (&st.striped, &st.pssm, &mut st.fs);
                let full = p[0] == "score";
                let guard = poison(&[spare_of(striped.matrix()), spare_of(pssm.matrix())]);
                let can = canary_set(fs.matrix());
                let r = no_panic(|| {
                    if full {
                        each!(&pli, p => p.score_into(pssm, striped, fs))
                    } else {
                        each!(&pli, p => p.score_rows_into(pssm, striped, rows.clone(), fs))
                    }
                });
                drop(guard);
                match r {
                    // (after a panic: rows and capacity of the score matrix as the unwinding call left it — the generic
                    // code resizes before its checked index panics, the SIMD wrappers panic before touching it)
                    None => format!("score|{}|P,{},{}", params, st.fs.matrix().rows(), st.fs.matrix().capacity()),
                    Some(()) => format!("score|{}|{},{},{}", params, st.fs.matrix().rows(), st.fs.matrix().capacity(), plain_fatal("the f32 score matrix", canary_check(st.fs.matrix(), can))),
                }
            }
            "uscore" | "urows" => {
                let sr = st.striped.matrix().rows();
                let rows = if p[0] == "uscore" { 0..sr.wrapping_sub(st.striped.wrap()) } else { pu(p[1])..pu(p[2]) };
                let params = format!("arm={},{}", arm, score_params(&st.striped, st.dm.matrix(), st.us.matrix(), &rows));
                let (striped, dm, us) = (&st.striped, &st.dm, &mut st.us);
                let guard = poison(&[spare_of(striped.matrix()), spare_of(dm.matrix())]);
                let can = canary_set(us.matrix());
                let r = no_panic(|| A::score_u8(&pli, dm, striped, rows.clone(), us));
                drop(guard);
                match r {
                    None => format!("uscore|{}|P,{},{}", params, st.us.matrix().rows(), st.us.matrix().capacity()),
                    Some(false) => format!("uscore|{}|U", params),
                    Some(true) => format!("uscore|{}|{},{},{}", params, st.us.matrix().rows(), st.us.matrix().capacity(), plain_fatal("the u8 score matrix", canary_check(st.us.matrix(), can))),
                }
            }
            "resz" => {
                // public StripedScores::resize: max/argmax must cope with any row count
                let rows = pu(p[1]);
                st.fs.resize(rows, rows * 32);
                st.us.resize(rows, rows * 32);
                format!("resz|rows={}|ok", rows)
            }
            // ------------------------------------------------- max / argmax / threshold
            "max" | "argmax" | "thr" | "smax" | "sargmax" => {
                let m = st.fs.matrix();
                let via_scores = p[0].starts_with('s');
                let params = format!(
                    "arm={},op={},es=4,C=32,rows={},cap={},maxidx={},st={}",
                    if via_scores { arm_of_dispatch(be) } else { arm },
                    p[0].trim_start_matches('s'),
                    m.rows(),
                    m.capacity(),
                    st.fs.max_index(),
                    m.stride()
                );
                let fs = &st.fs;
                let guard = poison(&[spare_of(fs.matrix())]);
                let r = no_panic(|| match p[0] {
                    "max" => each!(&pli, p => p.max(fs)).map(|x| x.to_bits() as u64).map_or(0, |x| x + 1),
                    "argmax" => each!(&pli, p => p.argmax(fs)).map_or(0, |c| (c.row * 32 + c.col + 1) as u64),
                    "smax" => fs.max().map(|x| x.to_bits() as u64).map_or(0, |x| x + 1),
                    "sargmax" => fs.argmax().map_or(0, |c| c as u64 + 1),
                    _ => each!(&pli, p => p.threshold(fs, 0.5f32)).len() as u64,
                });
                drop(guard);
                match r {
                    None => format!("fmax|{}|P", params),
                    Some(v) => format!("fmax|{}|{}", params, (v != 0) as u8),
                }
            }
            "umax" | "uargmax" | "uthr" => {
                let m = st.us.matrix();
                let params = format!(
                    "arm={},op={},es=1,C=32,rows={},cap={},maxidx={},st={}",
                    arm,
                    &p[0][1..],
                    m.rows(),
                    m.capacity(),
                    st.us.max_index(),
                    m.stride()
                );
                let us = &st.us;
                let guard = poison(&[spare_of(us.matrix())]);
                let r = no_panic(|| match p[0] {
                    "umax" => each!(&pli, p => p.max(us)).map_or(0, |x| x as u64 + 1),
                    "uargmax" => each!(&pli, p => p.argmax(us)).map_or(0, |c| (c.row * 32 + c.col + 1) as u64),
                    _ => each!(&pli, p => p.threshold(us, 200u8)).len() as u64,
                });
                drop(guard);
                match r {
                    None => format!("umax|{}|P", params),
                    Some(v) => format!("umax|{}|{}", params, (v != 0) as u8),
                }
            }
            // --------------------------------------------------------- scanner
            "scan" => {
                let (block, thr, mode, usebuf) = (pu(p[1]), pi(p[2]) as f32 / 4.0, pu(p[3]) as u8, pu(p[4]) != 0);
                let params = format!(
                    "arm={},K={},L={},SR={},scap={},wrap={},M={},block={},mode={}",
                    arm_of_dispatch(be),
                    A::K::USIZE,
                    st.striped.len(),
                    st.striped.matrix().rows(),
                    st.striped.matrix().capacity(),
                    st.striped.wrap(),
                    st.pssm.len(),
                    block,
                    mode
                );
                let (striped, pssm, fs) = (&st.striped, &st.pssm, &mut st.fs);
                let guard = poison(&[spare_of(striped.matrix()), spare_of(pssm.matrix())]);
                let r = no_panic(|| A::scan(pssm, striped, block, thr, if usebuf { Some(fs) } else { None }, mode));
                drop(guard);
                match r {
                    None => format!("scan|{}|P", params),
                    Some(None) => format!("scan|{}|U", params),
                    Some(Some((n, b))) => format!("scan|{}|{},{}", params, n, b),
                }
            }
            // --------------------------------------------------------- sampler
            "gibbs" => {
                let (n, l, width, iters, wrap) = (pu(p[1]), pu(p[2]), pu(p[3]), pu(p[4]), pu(p[5]));
                let params = format!("arm={},K={},n={},L={},width={},iters={},wrap={}", arm_of_dispatch(be), A::K::USIZE, n, l, width, iters, wrap);
                let r = no_panic(|| {
                    use rand::SeedableRng;
                    let mut seqs: Vec<StripedSequence<A, U32>> = Vec::new();
                    for i in 0..n {
                        let text = make_text::<A>(&mut rng, l + (i % 3), -1);
                        let e = EncodedSequence::<A>::encode(&text[..]).unwrap();
                        let mut s = e.to_striped::<U32>();
                        s.configure_wrap(wrap);
                        seqs.push(s.clone());
                    }
                    let data = SamplerData::<A, _, U32>::new(seqs);
                    let r = rand::rngs::StdRng::seed_from_u64(seed ^ 0x5a5a);
                    let sampler = Sampler::new(&data, width, r);
                    sampler.take(iters).count()
                });
                match r {
                    None => format!("gibbs|{}|P", params),
                    Some(c) => format!("gibbs|{}|{}", params, c),
                }
            }
            // ------------------------------------------- symbol counting etc.
            "count" => {
                let striped = &st.striped;
                let enc = &st.enc;
                let _guard = poison(&[spare_of(striped.matrix()), spare_of_vec(enc)]);
                let r = no_panic(|| {
                    let a = SymbolCount::<A>::count_symbols(striped);
                    let b = SymbolCount::<A>::count_symbols(&&enc[..]);
                    let mut idx = 0usize;
                    if striped.len() > 0 && striped.matrix().rows() > 0 {
                        idx = striped[striped.len() - 1].as_index() + striped[0].as_index();
                    }
                    a.iter().sum::<usize>() + b.iter().sum::<usize>() + idx
                });
                match r {
                    None => "count||P".to_string(),
                    Some(_) => "count||ok".to_string(),
                }
            }
            // (self-test of the orchestrator's watchdog only; never generated)
            "selfhang" => loop {
                std::thread::sleep(std::time::Duration::from_secs(1));
            },
            _ => panic!("bad op {}", op),
        };
        // every logical cell of every buffer of the history was written by somebody
        cell_check("the symbol vector", first_uninit_slice(&st.enc[..]));
        let nt_scores = matches!(p[0], "score" | "rows" | "uscore" | "urows" | "scan" | "gibbs");
        cell_check_nt("the striped sequence matrix", first_uninit_cell(st.striped.matrix()), p[0] == "stripe");
        cell_check("the scoring matrix", first_uninit_cell(st.pssm.matrix()));
        cell_check("the discrete matrix", first_uninit_cell(st.dm.matrix()));
        cell_check_nt("the f32 score matrix", first_uninit_cell(st.fs.matrix()), nt_scores);
        cell_check_nt("the u8 score matrix", first_uninit_cell(st.us.matrix()), nt_scores);
        out.push(rec);
    }
    force("none");
    out.join(";")
}

/// Pipeline type behind a backend token: g(eneric), s(se2), a(vx2), d(ispatch).
fn pl_of(be: &str) -> &'static str {
    match be {
        "g" => "g",
        "s" => "s",
        "a" => "a",
        _ => "d",
    }
}

/// Progress line (flushed) so that the orchestrator can name the op that was running
/// when a child died.
fn progress(k: usize, op: &str) {
    let out = std::io::stdout();
    let mut o = out.lock();
    let _ = writeln!(o, "OP {} {}", k, op);
    let _ = o.flush();
}

/// Arm taken by `Pipeline::dispatch()` under the current forcing (default: AVX2 on this host
/// when available, SSE2 otherwise).
fn arm_of_dispatch(be: &str) -> &'static str {
    match be {
        "dg" => "generic",
        "ds" => "sse2",
        "da" => "avx2",
        _ => {
            if std::is_x86_feature_detected!("avx2") {
                "avx2"
            } else {
                "sse2"
            }
        }
    }
}

// ----------------------------------------------- SSE2 pipeline, other widths

fn run_sse2c<A: AbcX, C>(seed: u64, l: usize, m: usize, a: usize, b: usize, wrap: usize) -> String
where
    C: lightmotif::num::PositiveLength + lightmotif::num::MultipleOf<U16>,
{
    let mut rng = Rng::new(seed);
    let pli = Pipeline::<A, Sse2>::sse2().unwrap();
    let text = make_text::<A>(&mut rng, l, -1);
    let mut out = Vec::new();
    let r = no_panic(|| {
        let enc = exact(pli.encode_raw(&text[..]).unwrap());
        let mut striped: StripedSequence<A, C> = Pipeline::<A, Generic>::generic().stripe(&enc);
        striped.configure_wrap(wrap);
        let striped = striped.clone();
        let pssm = make_pssm::<A>(&mut rng, m);
        let mut fs: StripedScores<f32, C> = StripedScores::empty();
        let rows = a..b;
        let params = format!(
            "arm=sse2,C={},K={},es=4,L={},SR={},scap={},wrap={},M={},pcap={},a={},b={},sst={},pst={},dst={}",
            C::USIZE,
            A::K::USIZE,
            striped.len(),
            striped.matrix().rows(),
            striped.matrix().capacity(),
            striped.wrap(),
            pssm.len(),
            pssm.matrix().capacity(),
            a,
            b,
            striped.matrix().stride(),
            pssm.matrix().stride(),
            fs.matrix().stride()
        );
        bless_padding(striped.matrix());
        bless_padding(pssm.matrix());
        let r = no_panic(|| pli.score_rows_into(&pssm, &striped, rows.clone(), &mut fs));
        cell_check("the striped sequence matrix", first_uninit_cell(striped.matrix()));
        cell_check_nt("the f32 score matrix", first_uninit_cell(fs.matrix()), true);
        let rec = match r {
            None => format!("score|{}|P", params),
            Some(()) => format!("score|{}|{},{}", params, fs.matrix().rows(), fs.matrix().capacity()),
        };
        let fs = fs.clone();
        let mp = format!(
            "arm=sse2,op=argmax,es=4,C={},rows={},cap={},maxidx={},st={}",
            C::USIZE,
            fs.matrix().rows(),
            fs.matrix().capacity(),
            fs.max_index(),
            fs.matrix().stride()
        );
        let r2 = no_panic(|| pli.argmax(&fs).is_some());
        let rec2 = match r2 {
            None => format!("fmax|{}|P", mp),
            Some(v) => format!("fmax|{}|{}", mp, v as u8),
        };
        (rec, rec2)
    });
    match r {
        None => out.push("setup||P".to_string()),
        Some((x, y)) => {
            out.push(x);
            out.push(y);
        }
    }
    out.join(";")
}

// ------------------------------------------------------ dense matrix histories

trait Val: Copy + Default + PartialEq + std::fmt::Debug {
    fn from_i(i: i64) -> Self;
    fn to_i(self) -> i64;
}
impl Val for u8 {
    fn from_i(i: i64) -> Self {
        i as u8
    }
    fn to_i(self) -> i64 {
        self as i64
    }
}
impl Val for u32 {
    fn from_i(i: i64) -> Self {
        i as u32
    }
    fn to_i(self) -> i64 {
        self as i64
    }
}
impl Val for f32 {
    fn from_i(i: i64) -> Self {
        i as f32
    }
    fn to_i(self) -> i64 {
        self as i64
    }
}

/// An `ExactSizeIterator` over rows of the right width whose `len()` says `claimed` but which yields `given`.
struct Rows<T> {
    claimed: usize,
    given: usize,
    next: usize,
    width: usize,
    _t: std::marker::PhantomData<T>,
}
impl<T: Val> Iterator for Rows<T> {
    type Item = Vec<T>;
    fn next(&mut self) -> Option<Vec<T>> {
        if self.next < self.given {
            let i = self.next;
            self.next += 1;
            Some((0..self.width).map(|j| T::from_i((i * 7 + j + 1) as i64)).collect())
        } else {
            None
        }
    }
    fn size_hint(&self) -> (usize, Option<usize>) {
        (self.claimed, Some(self.claimed))
    }
}
impl<T: Val> ExactSizeIterator for Rows<T> {}

fn run_dense<T: Val, C: lightmotif::num::ArrayLength>(ops: &[&str]) -> String {
    let mut m: DenseMatrix<T, C> = DenseMatrix::new(0);
    let mut out = Vec::new();
    for op in ops {
        let p: Vec<&str> = op.split(':').collect();
        progress(out.len(), p[0]);
        let pre = format!("es={},C={},rows0={},cap0={},st={}", std::mem::size_of::<T>(), C::USIZE, m.rows(), m.capacity(), m.stride());
        let mm = &mut m;
        // fill / set / sum never reallocate: rows beyond rows() are not theirs to touch
        let guard = if matches!(p[0], "fill" | "set" | "sum") { poison(&[spare_of(mm)]) } else { poison(&[]) };
        let r = no_panic(|| -> i64 {
            match p[0] {
                "new" => *mm = DenseMatrix::new(pu(p[1])),
                "cap" => *mm = DenseMatrix::with_capacity(pu(p[1]), pu(p[2])),
                "resize" => mm.resize(pu(p[1])),
                "reserve" => mm.reserve(pu(p[1])),
                "fill" => mm.fill(T::from_i(pi(p[1]))),
                "clone" => *mm = mm.clone(),
                "from" => {
                    // from_rows over n rows of the right width (or one ragged row when p[2] == 1)
                    let n = pu(p[1]);
                    let ragged = pu(p[2]) == 1;
                    let rows: Vec<Vec<T>> = (0..n)
                        .map(|i| {
                            let w = if ragged && i == n / 2 { C::USIZE + 1 } else { C::USIZE };
                            (0..w).map(|j| T::from_i((i * 7 + j) as i64)).collect()
                        })
                        .collect();
                    *mm = DenseMatrix::from_rows(rows);
                }
                "fromshort" => {
                    // from_rows over an iterator whose len() claims p[1] rows but which yields p[2]
                    let it = Rows::<T> { claimed: pu(p[1]), given: pu(p[2]), next: 0, width: C::USIZE, _t: std::marker::PhantomData };
                    *mm = DenseMatrix::from_rows(it);
                }
                "set" => {
                    let (r, c) = (pu(p[1]), pu(p[2]));
                    mm[r][c] = T::from_i(pi(p[3]));
                }
                "sum" => {
                    // read every logical cell through Index and through the iterators
                    let mut s = 0i64;
                    for r in 0..mm.rows() {
                        for c in 0..mm.columns() {
                            s = s.wrapping_add(mm[r][c].to_i());
                        }
                    }
                    for row in mm.iter().rev() {
                        s = s.wrapping_add(row[row.len() - 1].to_i());
                    }
                    for row in mm.iter_mut() {
                        row[0] = T::from_i(1);
                    }
                    return s;
                }
                _ => panic!("bad dense op"),
            }
            0
        });
        drop(guard);
        cell_check("the dense matrix", first_uninit_cell(&m));
        match r {
            None => out.push(format!("d{}|{},arg={},arg2={}|P", p[0], pre, p.get(1).unwrap_or(&"0"), p.get(2).unwrap_or(&"0"))),
            Some(_) => out.push(format!("d{}|{},arg={},arg2={}|{},{}", p[0], pre, p.get(1).unwrap_or(&"0"), p.get(2).unwrap_or(&"0"), m.rows(), m.capacity())),
        }
    }
    out.join(";")
}

// ------------------------------------------------------------------ dispatch

fn exec_case(line: &str) -> String {
    let (_id, f) = fields(line);
    if f.contains_key("kernel") {
        // a source-derived footprint line (translate/footprint_exec.py) replayed through the
        // generic flow: nothing to execute, the driver re-compares it with the model
        return "srcfp||ok".to_string();
    }
    let seed: u64 = f.get("seed").map(|s| s.parse().unwrap()).unwrap_or(1);
    let ops_s = f.get("ops").cloned().unwrap_or_default();
    let ops: Vec<&str> = ops_s.split(';').filter(|s| !s.is_empty()).collect();
    match f.get("kind").map(|s| s.as_str()).unwrap_or("api") {
        "dense" => {
            let c = pu(&f["C"]);
            macro_rules! cols {
                ($t:ty) => {
                    match c {
                        5 => run_dense::<$t, U5>(&ops),
                        7 => run_dense::<$t, U7>(&ops),
                        16 => run_dense::<$t, U16>(&ops),
                        21 => run_dense::<$t, U21>(&ops),
                        32 => run_dense::<$t, U32>(&ops),
                        48 => run_dense::<$t, U48>(&ops),
                        _ => panic!("unsupported C"),
                    }
                };
            }
            match f["T"].as_str() {
                "u8" => cols!(u8),
                "u32" => cols!(u32),
                _ => cols!(f32),
            }
        }
        "sse2c" => {
            let (c, l, m, a, b, w) = (pu(&f["C"]), pu(&f["L"]), pu(&f["M"]), pu(&f["a"]), pu(&f["b"]), pu(&f["wrap"]));
            match (f["abc"].as_str(), c) {
                ("dna", 16) => run_sse2c::<Dna, U16>(seed, l, m, a, b, w),
                ("dna", 48) => run_sse2c::<Dna, U48>(seed, l, m, a, b, w),
                ("dna", _) => run_sse2c::<Dna, U32>(seed, l, m, a, b, w),
                (_, 16) => run_sse2c::<Protein, U16>(seed, l, m, a, b, w),
                (_, 48) => run_sse2c::<Protein, U48>(seed, l, m, a, b, w),
                (_, _) => run_sse2c::<Protein, U32>(seed, l, m, a, b, w),
            }
        }
        _ => {
            let be = f["be"].as_str();
            match f["abc"].as_str() {
                "dna" => run_ops::<Dna>(be, seed, &ops),
                _ => run_ops::<Protein>(be, seed, &ops),
            }
        }
    }
}

// ----------------------------------------------------------------- generator

fn pick_len(rng: &mut Rng, tier: &str) -> usize {
    // lengths around multiples of 16/32, around 32*32 = 1024 (first AVX2 striping block),
    // L >= 993 with L mod 32 != 0, short and empty sequences
    match rng.below(10) {
        0 => rng.below(40) as usize,
        1 => (16 * rng.below(8) as i64 + rng.range(-2, 2)).max(0) as usize,
        2 | 3 => (32 * rng.range(1, 40) + rng.range(-2, 2)) as usize,
        4 | 5 | 6 => 993 + rng.below(if tier == "thorough" { 3200 } else { 1200 }) as usize,
        7 => (1024 * rng.range(1, 4) + rng.range(-33, 33)) as usize,
        8 => 900 + rng.below(200) as usize,
        _ => rng.below(if tier == "thorough" { 9000 } else { 2500 }) as usize,
    }
}

fn gen_api(rng: &mut Rng, tier: &str) -> String {
    let abc = if rng.chance(3, 5) { "dna" } else { "prot" };
    let be = *rng.pick(&["g", "s", "a", "a", "a", "dg", "ds", "da", "da"]);
    let seed = rng.next() >> 8;
    let l = pick_len(rng, tier);
    let mut ops: Vec<String> = Vec::new();
    // state tracked approximately to generate mostly in-contract calls
    let mut cur_l = l;
    let mut m = match rng.below(6) {
        0 => 1 + rng.below(3) as usize,
        1 => 60 + rng.below(21) as usize,
        _ => 1 + rng.below(32) as usize,
    };
    if rng.chance(1, 40) {
        m = 0;
    }
    let bad = if rng.chance(1, 8) { rng.below(l.max(1) as u64) as i64 } else { -1 };
    ops.push(format!("enc:{}:{}:{}", l, bad, rng.below(3)));
    if bad >= 0 {
        // the encoder must reject it; then encode a clean text so that the history goes on
        ops.push(format!("enc:{}:-1:{}", l, rng.below(3)));
    }
    if rng.chance(1, 30) {
        ops.push(format!("enc:{}:-1:3", rng.below(70)));
    }
    if rng.chance(1, 14) {
        // keep and use the destination buffer of an encode_into call that met an invalid letter
        let l3 = 32 + rng.below(200) as usize;
        ops.push(format!("encuse:{}:{}", l3, rng.below(l3 as u64)));
        cur_l = l3;
        ops.push("count".to_string());
    }
    ops.push(format!("stripe:{}", rng.below(3)));
    ops.push(format!("pssm:{}", m));
    let nops = 3 + rng.below(if tier == "thorough" { 14 } else { 9 }) as usize;
    let mut configured = false;
    for _ in 0..nops {
        let r = cur_l.div_ceil(32);
        let k = rng.below(100);
        let op = if k < 10 {
            configured = true;
            "cfg".to_string()
        } else if k < 14 {
            format!("wrap:{}", rng.below(90))
        } else if k < 22 {
            "exact".to_string()
        } else if k < 34 {
            if !configured && rng.chance(4, 5) {
                configured = true;
                ops.push("cfg".to_string());
            }
            (if rng.chance(1, 2) { "score" } else { "uscore" }).to_string()
        } else if k < 52 {
            if !configured && rng.chance(4, 5) {
                configured = true;
                ops.push("cfg".to_string());
            }
            // sub-ranges: inside the sequence rows, reaching into the look-ahead rows,
            // past the matrix, empty and inverted
            let (a, b) = match rng.below(8) {
                0 => (0, r + rng.below(m.max(1) as u64 + 2) as usize),
                1 => (r.saturating_sub(1), r + m.saturating_sub(1)),
                2 => (rng.below(r as u64 + 1) as usize, r + m + rng.below(3) as usize),
                3 => {
                    let a = rng.below(r as u64 + 2) as usize;
                    (a, a)
                }
                4 => (r, rng.below(r as u64 + 1) as usize),
                _ => {
                    let a = rng.below(r as u64 + 1) as usize;
                    let b = a + rng.below((r - a) as u64 + 1) as usize;
                    (a, b)
                }
            };
            format!("{}:{}:{}", if rng.chance(1, 2) { "rows" } else { "urows" }, a, b)
        } else if k < 66 {
            rng.pick(&["max", "argmax", "thr", "umax", "uargmax", "uthr", "smax", "sargmax"]).to_string()
        } else if k < 70 {
            format!("resz:{}", rng.below(70))
        } else if k < 78 {
            if !configured && rng.chance(4, 5) {
                configured = true;
                ops.push("cfg".to_string());
            }
            let block = *rng.pick(&[1usize, 2, 7, 31, 32, 33, 64, 256, 1000]);
            format!("scan:{}:{}:{}:{}", block, rng.range(-80, 60), rng.below(3), rng.below(2))
        } else if k < 84 {
            // a new sequence in the same buffers (reuse histories)
            let l2 = pick_len(rng, tier);
            cur_l = l2;
            configured = false;
            ops.push(format!("enc:{}:-1:{}", l2, rng.below(3)));
            format!("stripe:{}", 1 + rng.below(2))
        } else if k < 88 {
            let l2 = pick_len(rng, tier);
            cur_l = l2;
            configured = false;
            if rng.chance(1, 3) {
                // a caller-built sequence matrix with exactly the rows needed (now and then one more, or one too few: Err)
                let rows = (l2.div_ceil(32) as i64 + *rng.pick(&[0i64, 0, 0, 0, 1, -1])).max(0) as usize;
                format!("newseq:{}:{}", rows, l2)
            } else {
                format!("sample:{}", l2)
            }
        } else if k < 93 {
            let big = rng.chance(1, 4);
            m = 1 + rng.below(if big { 80 } else { 24 }) as usize;
            configured = false;
            format!("pssm:{}", m)
        } else if k < 96 {
            "count".to_string()
        } else {
            let width = 2 + rng.below(12) as usize;
            let wrap = if rng.chance(1, 6) { width - 1 } else { width + rng.below(3) as usize };
            format!("gibbs:{}:{}:{}:{}:{}", 2 + rng.below(5), 20 + rng.below(90), width, 1 + rng.below(12), wrap)
        };
        ops.push(op);
    }
    if rng.chance(1, 4) {
        // tail on an EXACT allocation (round 3, seeded change C06/5): a sequence matrix without spare rows
        // (a clone of a configured sequence; `StripedSequence::new(DenseMatrix::new(n))` or `sample()` configured
        // afterwards) with exactly the M-1 look-ahead rows the motif needs, then the kernels that read the
        // look-ahead rows: any load of row `rows()` leaves the allocation (guard page / ASan redzone)
        match rng.below(4) {
            0 => {}
            1 => {
                cur_l = pick_len(rng, tier);
                ops.push(format!("sample:{}", cur_l));
            }
            2 => {
                cur_l = pick_len(rng, tier);
                ops.push(format!("newseq:{}:{}", cur_l.div_ceil(32), cur_l));
            }
            _ => {
                cur_l = pick_len(rng, tier);
                ops.push(format!("enc:{}:-1:{}", cur_l, rng.below(3)));
                ops.push(format!("stripe:{}", rng.below(3)));
            }
        }
        if rng.chance(1, 3) {
            m = 1 + rng.below(40) as usize;
            ops.push(format!("pssm:{}", m));
        }
        ops.push("cfg".to_string());
        if rng.chance(3, 4) {
            ops.push("exact".to_string());
        }
        let r = cur_l.div_ceil(32);
        for _ in 0..1 + rng.below(3) {
            let op = match rng.below(6) {
                0 => "uscore".to_string(),
                1 => "score".to_string(),
                2 => format!("urows:{}:{}", rng.below(r as u64 + 1), r),
                3 => format!("rows:{}:{}", rng.below(r as u64 + 1), r),
                _ => {
                    let block = *rng.pick(&[1usize, 7, 32, 33, 256, 1000]);
                    format!("scan:{}:{}:{}:{}", block, rng.range(-80, 60), rng.below(3), rng.below(2))
                }
            };
            ops.push(op);
        }
    }
    format!("abc={} be={} seed={} ops={}", abc, be, seed, ops.join(";"))
}

fn gen_dense(rng: &mut Rng, tier: &str) -> String {
    let ty = *rng.pick(&["u8", "u32", "f32"]);
    let c = *rng.pick(&[5usize, 7, 16, 21, 32, 48]);
    let n = 2 + rng.below(if tier == "thorough" { 30 } else { 14 }) as usize;
    let mut rows = 0usize;
    let mut ops = Vec::new();
    for _ in 0..n {
        let k = rng.below(100);
        let op = if k < 8 {
            rows = rng.below(40) as usize;
            format!("new:{}", rows)
        } else if k < 14 {
            rows = rng.below(40) as usize;
            format!("cap:{}:{}", rows, rng.below(50))
        } else if k < 34 {
            let big = rng.chance(1, 8);
            rows = rng.below(if big { 600 } else { 48 }) as usize;
            format!("resize:{}", rows)
        } else if k < 38 {
            format!("reserve:{}", rng.below(64))
        } else if k < 50 {
            format!("fill:{}", rng.below(200))
        } else if k < 62 {
            "clone".to_string()
        } else if k < 74 {
            let ragged = rng.chance(1, 12);
            let n = rng.below(20) as usize;
            if !ragged || n == 0 {
                rows = n;
            }
            format!("from:{}:{}", n, ragged as u8)
        } else if k < 76 {
            // an ExactSizeIterator whose len() is wrong (fewer rows, occasionally one more)
            let n = rng.below(12) as usize;
            let m = if rng.chance(1, 5) { n + 1 } else { rng.below(n as u64 + 1) as usize };
            if m <= n {
                rows = n;
            }
            format!("fromshort:{}:{}", n, m)
        } else if k < 88 {
            let oob = rng.chance(1, 15);
            let r = if oob { rows + rng.below(2) as usize } else { rng.below(rows.max(1) as u64) as usize };
            let cc = if oob { c + rng.below(40) as usize } else { rng.below(c as u64) as usize };
            format!("set:{}:{}:{}", r, cc, rng.below(100))
        } else {
            "sum".to_string()
        };
        ops.push(op);
    }
    format!("kind=dense T={} C={} seed=0 ops={}", ty, c, ops.join(";"))
}

fn gen_sse2c(rng: &mut Rng, tier: &str) -> String {
    let abc = if rng.chance(1, 2) { "dna" } else { "prot" };
    let c = *rng.pick(&[16usize, 32, 48]);
    let l = pick_len(rng, tier).min(4000);
    let big = rng.chance(1, 4);
    let m = 1 + rng.below(if big { 80 } else { 20 }) as usize;
    let r = l.div_ceil(c);
    let wrap = match rng.below(6) {
        0 => m.saturating_sub(2),
        1 => m + 3,
        _ => m - 1,
    };
    let (a, b) = match rng.below(6) {
        0 => (0, r + wrap),
        1 => (r.saturating_sub(1), r + rng.below(m as u64 + 1) as usize),
        2 => (r / 2, r / 2),
        _ => {
            let a = rng.below(r as u64 + 1) as usize;
            (a, a + rng.below((r - a) as u64 + 1) as usize)
        }
    };
    format!("kind=sse2c abc={} C={} seed={} L={} M={} a={} b={} wrap={}", abc, c, rng.next() >> 8, l, m, a, b, wrap)
}

// ----------------------------------------------------------------- children

struct ChildOut {
    verdict: String,
    records: Option<String>,
}

/// Run `lines` through `<exe> exec`, restarting after a death; returns per-line verdicts.
fn run_child(exe: &str, asan: bool, lines: &[String]) -> Vec<ChildOut> {
    run_child_env(exe, asan, lines, None)
}

const MSAN_OPTIONS: &str = "halt_on_error=1:exit_code=98:symbolize=0:print_stats=0";

fn run_child_env(exe: &str, asan: bool, lines: &[String], guard: Option<&str>) -> Vec<ChildOut> {
    let mut res: Vec<ChildOut> = Vec::with_capacity(lines.len());
    let mut next = 0usize;
    let mut hangs = 0usize;
    while next < lines.len() {
        if hangs >= 2 {
            // a kernel that does not terminate hangs case after case: stop paying the time-out
            while next < lines.len() {
                res.push(ChildOut { verdict: "NOTRUN(after-repeated-hangs)".to_string(), records: None });
                next += 1;
            }
            break;
        }
        let mut cmd = Command::new(exe);
        cmd.arg("exec").stdin(Stdio::piped()).stdout(Stdio::piped()).stderr(Stdio::piped());
        if asan {
            cmd.env("ASAN_OPTIONS", ASAN_OPTIONS);
            cmd.env("MSAN_OPTIONS", MSAN_OPTIONS);
        }
        match guard {
            Some(g) => cmd.env("LM_FP_GUARD", g),
            None => cmd.env_remove("LM_FP_GUARD"),
        };
        let mut child = match cmd.spawn() {
            Ok(c) => c,
            Err(_) => {
                while next < lines.len() {
                    res.push(ChildOut { verdict: "NOASAN".to_string(), records: None });
                    next += 1;
                }
                break;
            }
        };
        let mut stdin = child.stdin.take().unwrap();
        let batch: Vec<String> = lines[next..].to_vec();
        let writer = std::thread::spawn(move || {
            for l in batch {
                if stdin.write_all(l.as_bytes()).is_err() || stdin.write_all(b"\n").is_err() {
                    break;
                }
            }
        });
        let mut stderr = child.stderr.take().unwrap();
        let errt = std::thread::spawn(move || {
            let mut s = String::new();
            let _ = std::io::Read::read_to_string(&mut stderr, &mut s);
            s
        });
        let stdout = BufReader::new(child.stdout.take().unwrap());
        // watchdog: a child that prints no progress line for LM_FP_HANG_SECS (default 90) seconds is
        // killed and the case it had begun gets the verdict HANG (a kernel that no longer terminates
        // must not hang the check)
        let progress = std::sync::Arc::new(std::sync::atomic::AtomicU64::new(0));
        let done = std::sync::Arc::new(std::sync::atomic::AtomicBool::new(false));
        let hung = std::sync::Arc::new(std::sync::atomic::AtomicBool::new(false));
        let limit: u64 = std::env::var("LM_FP_HANG_SECS").ok().and_then(|s| s.parse().ok()).unwrap_or(90);
        let watchdog = {
            let (progress, done, hung, pid) = (progress.clone(), done.clone(), hung.clone(), child.id());
            std::thread::spawn(move || {
                use std::sync::atomic::Ordering::SeqCst;
                let mut last = progress.load(SeqCst);
                let mut idle = 0u64;
                while !done.load(SeqCst) {
                    std::thread::sleep(std::time::Duration::from_millis(250));
                    let now = progress.load(SeqCst);
                    if now != last {
                        last = now;
                        idle = 0;
                    } else {
                        idle += 1;
                        if idle >= 4 * limit {
                            hung.store(true, SeqCst);
                            let _ = Command::new("kill").arg("-9").arg(pid.to_string()).status();
                            return;
                        }
                    }
                }
            })
        };
        let mut begun: Option<usize> = None;
        let mut lastop = String::new();
        for l in stdout.lines() {
            let l = match l {
                Ok(l) => l,
                Err(_) => break,
            };
            progress.fetch_add(1, std::sync::atomic::Ordering::SeqCst);
            if l.starts_with("BEGIN ") {
                begun = Some(next);
                lastop.clear();
            } else if let Some(rest) = l.strip_prefix("OP ") {
                lastop = rest.replace(' ', ":");
            } else if let Some(rest) = l.strip_prefix("END ") {
                let recs = rest.split_once(' ').map(|x| x.1).unwrap_or("");
                let panicked = recs.split(';').any(|r| r.ends_with("|P") || r.contains("|P,"));
                res.push(ChildOut {
                    verdict: if panicked { "PANIC".to_string() } else { "CLEAN".to_string() },
                    records: Some(recs.to_string()),
                });
                next += 1;
                begun = None;
            }
        }
        let status = child.wait().ok();
        done.store(true, std::sync::atomic::Ordering::SeqCst);
        let _ = watchdog.join();
        let _ = writer.join();
        let err = errt.join().unwrap_or_default();
        if next < lines.len() {
            // the child died (or stopped) before finishing: blame the case it had begun
            let verdict = if hung.load(std::sync::atomic::Ordering::SeqCst) {
                hangs += 1;
                format!("HANG@{}", lastop)
            } else if let Some(pos) = err.find("MemorySanitizer:") {
                let kind: String = err[pos + 16..].trim_start().chars().take_while(|c| !c.is_whitespace()).collect();
                format!("MSAN({})@{}", kind, lastop)
            } else if let Some(pos) = err.find("ERROR: AddressSanitizer:") {
                let kind: String = err[pos + 24..].trim_start().chars().take_while(|c| !c.is_whitespace()).collect();
                format!("ASAN({})@{}", kind, lastop)
            } else {
                use std::os::unix::process::ExitStatusExt;
                match status.and_then(|s| s.signal()) {
                    Some(sig) => format!("CRASH(sig{})@{}", sig, lastop),
                    None => format!("CRASH(exit{})@{}", status.and_then(|s| s.code()).unwrap_or(-1), lastop),
                }
            };
            if begun.is_none() && status.map(|s| s.success()).unwrap_or(false) {
                // clean exit without output for the remaining lines: should not happen
                res.push(ChildOut { verdict: "CRASH(noout)".to_string(), records: None });
            } else {
                res.push(ChildOut { verdict, records: None });
            }
            next += 1;
        }
    }
    res
}

#[inline(never)]
fn crashme(kind: &str) {
    use std::hint::black_box;
    match kind {
        "oob-read" => {
            let b = vec![1u8; 100].into_boxed_slice();
            let p = black_box(b.as_ptr());
            black_box(unsafe { std::ptr::read_volatile(p.add(100)) });
        }
        "oob-write" => {
            let mut b = vec![1u8; 100].into_boxed_slice();
            let p = black_box(b.as_mut_ptr());
            unsafe { std::ptr::write_volatile(p.add(100), 7) };
            black_box(&b);
        }
        "spare-read" => {
            // row 4 of a 4-row matrix with capacity 8: allocated, not owned
            let m = DenseMatrix::<u8, U32>::with_capacity(4, 8);
            let _g = poison(&[spare_of(&m)]);
            let p = black_box(m[0].as_ptr());
            black_box(unsafe { std::ptr::read_volatile(p.add(4 * m.stride())) });
        }
        "spare-vec-read" => {
            let mut v: Vec<u8> = Vec::with_capacity(64);
            v.resize(37, 1);
            let _g = poison(&[spare_of_vec(&v)]);
            let p = black_box(v.as_ptr());
            black_box(unsafe { std::ptr::read_volatile(p.add(37)) });
        }
        "stream-oob" | "store-oob" => {
            // one row past a 4-row matrix whose allocation is exact (clone): a non-temporal / plain store
            #[cfg(target_arch = "x86_64")]
            unsafe {
                use std::arch::x86_64::*;
                let mut m = DenseMatrix::<u8, U32>::new(4).clone();
                let st = m.stride();
                let p = black_box(m[0].as_mut_ptr().add(4 * st));
                if kind == "stream-oob" {
                    _mm256_stream_si256(p as *mut __m256i, _mm256_setzero_si256());
                    _mm_sfence();
                } else {
                    _mm256_store_si256(p as *mut __m256i, _mm256_setzero_si256());
                }
                black_box(&m);
            }
        }
        "stream-underflow" => {
            // one row BEFORE a 4-row matrix: seen by the plain build with LM_FP_GUARD=start only
            #[cfg(target_arch = "x86_64")]
            unsafe {
                use std::arch::x86_64::*;
                let mut m = DenseMatrix::<u8, U32>::new(4).clone();
                let st = m.stride();
                let p = black_box(m[0].as_mut_ptr().sub(st));
                _mm256_stream_si256(p as *mut __m256i, _mm256_setzero_si256());
                _mm_sfence();
                black_box(&m);
            }
        }
        "from-rows-short" => {
            // Observation O1 (notes/footprint.md): from_rows trusts ExactSizeIterator::len(); an iterator that
            // yields fewer rows leaves the others as the allocator handed them out (under ASan: its 0xbe fill)
            struct Short(usize);
            impl Iterator for Short {
                type Item = Vec<u32>;
                fn next(&mut self) -> Option<Vec<u32>> {
                    if self.0 == 0 {
                        self.0 = 1;
                        Some(vec![7; 5])
                    } else {
                        None
                    }
                }
                fn size_hint(&self) -> (usize, Option<usize>) {
                    (4, Some(4))
                }
            }
            impl ExactSizeIterator for Short {}
            let m = DenseMatrix::<u32, U5>::from_rows(Short(0));
            println!("len() claimed 4 rows, 1 yielded: rows()={}", m.rows());
            for r in 0..m.rows() {
                println!("row{}={:x?}", r, &m[r]);
            }
            return;
        }
        "gather-oob" => {
            // `_mm256_i32gather_ps` one element past a 2-row f32 matrix (exact allocation): gathers are target
            // intrinsics the sanitizer does not instrument; the guard page of the plain build sees them
            #[cfg(target_arch = "x86_64")]
            unsafe {
                use std::arch::x86_64::*;
                let m = DenseMatrix::<f32, U5>::new(2).clone();
                let p = black_box(m[0].as_ptr());
                let idx = _mm256_set1_epi32(black_box(2 * m.stride() as i32));
                let v = _mm256_i32gather_ps(p, idx, 4);
                black_box(v);
            }
        }
        "canary" => {
            // the canary must notice a non-temporal store into a row the call gave up (shrink) and into
            // a spare row, and must accept the rows a growing resize initialises
            #[cfg(target_arch = "x86_64")]
            unsafe {
                use std::arch::x86_64::*;
                let mut m = DenseMatrix::<u8, U32>::with_capacity(6, 10);
                let st = m.stride();
                let ones = _mm256_set1_epi8(1);
                let c = canary_set(&m);
                m.resize(8);
                let grown = canary_check(&m, c);
                let c = canary_set(&m);
                m.resize(3);
                _mm256_stream_si256(black_box(m[0].as_mut_ptr().add(3 * st)) as *mut __m256i, ones);
                _mm_sfence();
                let shrunk = canary_check(&m, c);
                let c = canary_set(&m);
                _mm256_stream_si256(black_box(m[0].as_mut_ptr().add(9 * st)) as *mut __m256i, ones);
                _mm_sfence();
                let spare = canary_check(&m, c);
                // a matrix allocated by the callee (no snapshot possible): the allocator's fill is the canary
                let mut f = DenseMatrix::<u8, U32>::with_capacity(4, 10);
                let clean = fresh_spare_check(&f);
                _mm256_stream_si256(black_box(f[0].as_mut_ptr().add(6 * st)) as *mut __m256i, ones);
                _mm_sfence();
                let fresh = fresh_spare_check(&f);
                // ... and a reallocating growth keeps the pattern in the new spare rows
                let c = canary_set(&f);
                f.resize(4);
                f.resize(25);
                let regrown = canary_check(&f, c);
                let want_fresh = if cfg!(any(lm_asan, lm_msan)) { -1 } else { 6 * 32 };
                println!("canary grown={} shrunk={} spare={} fresh-clean={} fresh={} regrown={}", grown, shrunk, spare, clean, fresh, regrown);
                if grown != -1 || shrunk != 3 * 32 || spare != 9 * 32 || clean != -1 || fresh != want_fresh || regrown != -1 {
                    std::process::exit(3);
                }
                return;
            }
        }
        "dead-load-oob" => {
            // an aligned vector load one row past an exact allocation whose value is never used (what a
            // software-pipelined kernel does on its last iteration): the optimiser may delete it, opt-level 0 keeps it
            #[cfg(target_arch = "x86_64")]
            unsafe {
                use std::arch::x86_64::*;
                let m = DenseMatrix::<u8, U32>::new(4).clone();
                let st = m.stride();
                let p = m[0].as_ptr();
                let mut x = _mm256_load_si256(p as *const __m256i);
                let mut s = _mm256_setzero_si256();
                for i in 0..4 {
                    s = _mm256_adds_epu8(s, x);
                    x = _mm256_load_si256(p.add((i + 1) * st) as *const __m256i);
                }
                black_box(s);
            }
        }
        "misaligned" => {
            #[cfg(target_arch = "x86_64")]
            unsafe {
                use std::arch::x86_64::*;
                let m = DenseMatrix::<u8, U32>::new(4);
                let p = black_box(m[0].as_ptr().add(1));
                let x = _mm_load_si128(p as *const __m128i);
                black_box(x);
            }
        }
        _ => {}
    }
}

fn main() {
    #[cfg(not(any(lm_asan, lm_msan)))]
    if std::env::var("LM_FP_GUARD").map(|v| v == "start").unwrap_or(false) {
        guard_alloc::START.store(true, std::sync::atomic::Ordering::Relaxed);
    }
    let a = parse_args();
    match a.cmd.as_str() {
        "gen" => {
            let mut rng = Rng::new(a.seed);
            for i in 0..a.n {
                let body = match rng.below(20) {
                    0 | 1 => gen_dense(&mut rng, &a.tier),
                    2 | 3 => gen_sse2c(&mut rng, &a.tier),
                    _ => gen_api(&mut rng, &a.tier),
                };
                println!("g{} {}", i, body);
            }
        }
        "exec" => {
            silence_panics();
            let out = std::io::stdout();
            for line in stdin_lines() {
                let id = line.split(' ').next().unwrap().to_string();
                {
                    let mut o = out.lock();
                    writeln!(o, "BEGIN {}", id).unwrap();
                    o.flush().unwrap();
                }
                let rec = exec_case(&line);
                let mut o = out.lock();
                writeln!(o, "END {} {}", id, rec).unwrap();
                o.flush().unwrap();
            }
        }
        "run" => {
            let lines: Vec<String> = stdin_lines().collect();
            let me = std::env::current_exe().unwrap().to_string_lossy().to_string();
            let asan_bin = std::env::var("LM_FP_ASAN_BIN")
                .unwrap_or_else(|_| "/verif/build/cargo-asan/x86_64-unknown-linux-gnu/debug/footprint".to_string());
            // optional third child: the sanitizer build in release mode (opt-level 3, no overflow checks,
            // no debug assertions)
            let rel_bin = std::env::var("LM_FP_ASAN_REL_BIN").ok().filter(|s| !s.is_empty());
            let l2 = lines.clone();
            let t = std::thread::spawn(move || run_child(&asan_bin, true, &l2));
            let l3 = lines.clone();
            let t3 = rel_bin.map(|b| std::thread::spawn(move || run_child(&b, true, &l3)));
            // plain build once more with start-aligned guard pages (under-runs of the matrices)
            // the guard-page children run the plain build made with opt-level 0 (LM_FP_O0_BIN): the optimiser removes
            // loads whose value is never used (a software-pipelined kernel that fetches one row too many: seeded
            // change C06/5 is invisible at opt-level 1), the property speaks of the accesses the code makes as written
            let plain = std::env::var("LM_FP_O0_BIN").ok().filter(|s| !s.is_empty()).unwrap_or_else(|| me.clone());
            let (l4, me4) = (lines.clone(), plain.clone());
            let t4 = std::thread::spawn(move || run_child_env(&me4, false, &l4, Some("start")));
            // optional: MemorySanitizer build (initialisation tracking)
            let msan_bin = std::env::var("LM_FP_MSAN_BIN").ok().filter(|s| !s.is_empty());
            let l5 = lines.clone();
            let t5 = msan_bin.map(|b| std::thread::spawn(move || run_child(&b, true, &l5)));
            let dbg = run_child(&plain, false, &lines);
            let asan = t.join().unwrap();
            let rel = t3.map(|t| t.join().unwrap());
            let dbg2 = t4.join().unwrap();
            let msan = t5.map(|t| t.join().unwrap());
            for (i, l) in lines.iter().enumerate() {
                let recs = asan[i].records.clone().or_else(|| dbg[i].records.clone()).unwrap_or_else(|| "-".to_string());
                let relv = rel.as_ref().map(|r| format!(" rel={}", r[i].verdict)).unwrap_or_default();
                let msanv = msan.as_ref().map(|r| format!(" msan={}", r[i].verdict.replace("NOASAN", "NOMSAN"))).unwrap_or_default();
                println!("{} => asan={}{} dbg={} dbg2={}{} :: {}", l, asan[i].verdict, relv, dbg[i].verdict, dbg2[i].verdict, msanv, recs);
            }
        }
        "crashme" => {
            // deliberate memory errors made by the harness itself (sanitizer self-test)
            let kind = a.rest.first().map(|s| s.as_str()).unwrap_or("clean");
            crashme(kind);
            println!("survived {}", kind);
        }
        "selftest" => {
            let asan_bin = std::env::var("LM_FP_ASAN_BIN")
                .unwrap_or_else(|_| "/verif/build/cargo-asan/x86_64-unknown-linux-gnu/debug/footprint".to_string());
            let me = std::env::current_exe().unwrap().to_string_lossy().to_string();
            let mut ok = true;
            // (binary, kind, must die, stderr must mention the sanitizer)
            let plan: [(&str, &str, bool, bool); 14] = [
                (&me, "gather-oob", true, false),
                (&asan_bin, "canary", false, false),
                (&me, "canary", false, false),
                (&asan_bin, "store-oob", true, true),
                // non-temporal stores are inline asm (not instrumented): the guard-page allocator of the
                // plain build is what sees them
                (&me, "stream-oob", true, false),
                (&me, "store-oob", true, false),
                (&asan_bin, "clean", false, false),
                (&asan_bin, "oob-read", true, true),
                (&asan_bin, "oob-write", true, true),
                (&asan_bin, "spare-read", true, true),
                (&asan_bin, "spare-vec-read", true, true),
                (&asan_bin, "misaligned", true, false),
                (&me, "clean", false, false),
                (&me, "misaligned", true, false),
            ];
            for (exe, kind, must_die, must_asan) in plan {
                let o = Command::new(exe).arg("crashme").arg(kind).env("ASAN_OPTIONS", ASAN_OPTIONS).output();
                let (died, asan) = match &o {
                    Ok(o) => (!o.status.success(), String::from_utf8_lossy(&o.stderr).contains("AddressSanitizer")),
                    Err(_) => (false, false),
                };
                let good = o.is_ok() && died == must_die && (!must_asan || asan);
                println!(
                    "{} {}: {}{}",
                    if exe == me { "debug" } else { "asan" },
                    kind,
                    if died { if asan { "reported" } else { "died" } } else { "survived" },
                    if good { "" } else { " UNEXPECTED" }
                );
                ok &= good;
            }
            if let Some(o0) = std::env::var("LM_FP_O0_BIN").ok().filter(|s| !s.is_empty()) {
                // the opt-level 0 build (guard-page children of `run`): same allocator, dead loads kept
                for (kind, must_die) in [("clean", false), ("stream-oob", true), ("gather-oob", true), ("dead-load-oob", true)] {
                    let o = Command::new(&o0).arg("crashme").arg(kind).output();
                    let died = o.as_ref().map(|o| !o.status.success()).unwrap_or(!must_die);
                    let good = o.is_ok() && died == must_die;
                    println!("debug(opt-level 0) {}: {}{}", kind, if died { "died" } else { "survived" }, if good { "" } else { " UNEXPECTED" });
                    ok &= good;
                }
            }
            {
                let o = Command::new(&me).arg("crashme").arg("stream-underflow").env("LM_FP_GUARD", "start").output();
                let died = o.as_ref().map(|o| !o.status.success()).unwrap_or(false);
                println!("debug(start-aligned) stream-underflow: {}{}", if died { "died" } else { "survived" }, if died { "" } else { " UNEXPECTED" });
                ok &= died;
            }
            std::process::exit(if ok { 0 } else { 1 });
        }
        _ => {
            eprintln!("usage: footprint gen --seed S --n N [--tier t] | run | exec | selftest");
            std::process::exit(2);
        }
    }
}
