//! C08 harness: 8-bit discretisation of scoring matrices.
//!
//! `disc gen --seed S --n N [--tier t]` prints input lines
//!     <id> kind=<k> mat=<b,b,b,b,b/...|-> seq=<ACTGN...|-> thr=<bits,...> bytes=<b,...> sub=<lo:hi>
//! (matrix cells and thresholds are f32 bit patterns, rows separated by `/`).
//! `disc run` reads input lines on stdin and appends ` => <key=value ...>`:
//!     disc=P                      to_discrete panicked (then nothing else), otherwise
//!     f=<bits> o=<bits> os=<bits,..|-> mn=<bits> mx=<bits>   factor, offset, offsets, min/max_score
//!     d=<b,b,b,b,b/..|->          the discrete cells
//!     sc=<b,..>  un=<bits,..>     scale(thr_i), unscale(byte_i)
//!     rs=<bits|P,..|->            ScoringMatrix::score_position at every position 0..=L-M
//!     ss=<b,..|->                 scale(real score) at every position
//!     ds=<b|P,..|->               DiscreteMatrix::score_position at every position
//!     gen= avx= dG= dS= dA= sG= sA=   u8 score matrices `rows:max_index:cells` (or `P`) from
//!         Pipeline::generic(), Pipeline::avx2(), Pipeline::dispatch() under each forced arm
//!         (sequence striped under the same arm) and score_rows_into over rows lo..hi (arms G, A).

use lightmotif::abc::Alphabet;
use lightmotif::abc::Dna;
use lightmotif::abc::Protein;
use lightmotif::abc::Symbol;
use lightmotif::abc::Nucleotide;
use lightmotif::dense::DenseMatrix;
use lightmotif::num::MultipleOf;
use lightmotif::num::PositiveLength;
use lightmotif::num::U16;
use lightmotif::num::U32;
use lightmotif::pli::platform::Generic;
use lightmotif::pli::platform::Sse2;
use lightmotif::pli::Stripe;
use lightmotif::pli::dispatch::Dispatch;
use lightmotif::pli::verif::force_backend;
use lightmotif::pli::Pipeline;
use lightmotif::pli::Score;
use lightmotif::pwm::CountMatrix;
use lightmotif::pwm::DiscreteMatrix;
use lightmotif::pwm::ScoringMatrix;
use lightmotif::scores::StripedScores;
use lightmotif::seq::EncodedSequence;
use lightmotif::seq::StripedSequence;
use lightmotif::abc::Background;
use lmh::*;

const SYMS: [char; 5] = ['A', 'C', 'T', 'G', 'N'];

fn sym_of(c: char) -> Nucleotide {
    match c {
        'A' => Nucleotide::A,
        'C' => Nucleotide::C,
        'T' => Nucleotide::T,
        'G' => Nucleotide::G,
        _ => Nucleotide::N,
    }
}

fn join<T: ToString>(v: &[T], sep: &str) -> String {
    if v.is_empty() {
        "-".to_string()
    } else {
        v.iter().map(|x| x.to_string()).collect::<Vec<_>>().join(sep)
    }
}

fn parse_list<T: std::str::FromStr>(s: &str, sep: char) -> Vec<T>
where
    T::Err: std::fmt::Debug,
{
    if s == "-" || s.is_empty() {
        vec![]
    } else {
        s.split(sep).map(|x| x.parse().unwrap()).collect()
    }
}

fn parse_matrix(s: &str) -> Vec<[f32; 5]> {
    if s == "-" || s.is_empty() {
        return vec![];
    }
    s.split('/')
        .map(|r| {
            let v: Vec<u32> = parse_list(r, ',');
            let mut a = [0f32; 5];
            for i in 0..5 {
                a[i] = f32::from_bits(v[i]);
            }
            a
        })
        .collect()
}

fn show_matrix(m: &[[f32; 5]]) -> String {
    if m.is_empty() {
        return "-".to_string();
    }
    m.iter()
        .map(|r| r.iter().map(|x| x.to_bits().to_string()).collect::<Vec<_>>().join(","))
        .collect::<Vec<_>>()
        .join("/")
}

/// bit pattern with every NaN mapped to the canonical quiet NaN
fn bits(x: f32) -> u32 {
    if x.is_nan() {
        0x7FC00000
    } else {
        x.to_bits()
    }
}

/// factor, offsets, offset of a DiscreteMatrix: the fields are private, but the derived
/// Debug output prints them with Rust's shortest round-trip float formatting, which
/// parses back to exactly the same f32.
fn private_fields<A: Alphabet>(dm: &DiscreteMatrix<A>) -> Option<(f32, Vec<f32>, f32)> {
    let s = format!("{:?}", dm);
    let i = s.rfind(", factor: ")?;
    let rest = &s[i + 10..];
    let j = rest.find(", offsets: [")?;
    let factor: f32 = rest[..j].parse().ok()?;
    let rest = &rest[j + 12..];
    let k = rest.find("], offset: ")?;
    let offs = &rest[..k];
    let offsets: Vec<f32> = if offs.trim().is_empty() {
        vec![]
    } else {
        let mut v = vec![];
        for t in offs.split(", ") {
            v.push(t.parse().ok()?);
        }
        v
    };
    let rest = &rest[k + 11..];
    let e = rest.rfind(" }")?;
    let offset: f32 = rest[..e].parse().ok()?;
    Some((factor, offsets, offset))
}

fn show_scores(r: Option<StripedScores<u8, U32>>) -> String {
    match r {
        None => "P".to_string(),
        Some(sc) => {
            let m = sc.matrix();
            let mut cells: Vec<String> = vec![];
            for r in 0..m.rows() {
                for c in 0..32 {
                    cells.push(m[r][c].to_string());
                }
            }
            format!(
                "{}:{}:{}",
                m.rows(),
                sc.max_index(),
                if cells.is_empty() { "-".to_string() } else { cells.join(",") }
            )
        }
    }
}

/// u8 score matrix with any number of columns: `rows:max_index:cells`
fn show_scores_c<C: PositiveLength>(r: Option<StripedScores<u8, C>>) -> String {
    match r {
        None => "P".to_string(),
        Some(sc) => {
            let m = sc.matrix();
            let mut cells: Vec<String> = vec![];
            for r in 0..m.rows() {
                for c in 0..C::USIZE {
                    cells.push(m[r][c].to_string());
                }
            }
            format!(
                "{}:{}:{}",
                m.rows(),
                sc.max_index(),
                if cells.is_empty() { "-".to_string() } else { cells.join(",") }
            )
        }
    }
}

/// Pipeline::generic() and Pipeline::sse2() u8 scoring of a sequence striped (by the generic
/// pipeline) into C columns and configured for the motif: (generic, sse2) score matrices
fn layout_scores<A, C>(pssm: &ScoringMatrix<A>, dm: &DiscreteMatrix<A>, seq: &[A::Symbol]) -> (String, String)
where
    A: Alphabet,
    C: PositiveLength + MultipleOf<U16>,
{
    let st: Option<StripedSequence<A, C>> = no_panic(|| {
        let mut s: StripedSequence<A, C> = Pipeline::<A, Generic>::generic().stripe(seq);
        s.configure(pssm);
        s
    });
    match st {
        None => ("SP".to_string(), "SP".to_string()),
        Some(st) => {
            let g = show_scores_c::<C>(no_panic(|| Pipeline::<A, Generic>::generic().score(dm, &st)));
            let s = match Pipeline::<A, Sse2>::sse2() {
                Err(_) => "U".to_string(),
                Ok(p) => show_scores_c::<C>(no_panic(|| p.score(dm, &st))),
            };
            (g, s)
        }
    }
}

const PSYMS: &str = "ACDEFGHIKLMNPQRSTVWYX";

fn parse_matrix_k(s: &str, k: usize) -> Vec<Vec<f32>> {
    if s == "-" || s.is_empty() {
        return vec![];
    }
    s.split('/')
        .map(|r| {
            let v: Vec<u32> = parse_list(r, ',');
            (0..k).map(|i| f32::from_bits(v[i])).collect()
        })
        .collect()
}

/// Protein (K = 21 > 16: there is no SIMD u8 kernel and no u8 dispatcher for it; `to_discrete`,
/// `scale`, `unscale`, both `score_position` are generic in the alphabet, u8 scoring runs through
/// Pipeline::generic() and Pipeline::sse2(), whose Score<u8> impl is the trait default)
fn run_case_protein(f: &std::collections::HashMap<String, String>) -> String {
    let rows = parse_matrix_k(&f["mat"], 21);
    let m = rows.len();
    let seq: Vec<<Protein as Alphabet>::Symbol> = if f["seq"] == "-" {
        vec![]
    } else {
        f["seq"].chars().map(|c| <Protein as Alphabet>::Symbol::from_char(c).unwrap_or_default()).collect()
    };
    let l = seq.len();
    let thr: Vec<u32> = parse_list(&f["thr"], ',');
    let bytes: Vec<u8> = parse_list(&f["bytes"], ',');
    let pssm = ScoringMatrix::<Protein>::new(Background::uniform(), DenseMatrix::from_rows(rows.iter()));
    let dm = match no_panic(|| pssm.to_discrete()) {
        None => return "disc=P".to_string(),
        Some(d) => d,
    };
    let mut out: Vec<String> = vec![];
    match private_fields(&dm) {
        None => return "disc=UNPARSED".to_string(),
        Some((factor, offsets, offset)) => {
            out.push(format!("f={}", bits(factor)));
            out.push(format!("o={}", bits(offset)));
            out.push(format!("os={}", join(&offsets.iter().map(|x| bits(*x)).collect::<Vec<_>>(), ",")));
        }
    }
    out.push(format!("mn={}", no_panic(|| pssm.min_score()).map(|x| bits(x).to_string()).unwrap_or("P".into())));
    out.push(format!("mx={}", no_panic(|| pssm.max_score()).map(|x| bits(x).to_string()).unwrap_or("P".into())));
    {
        let d = dm.matrix();
        let mut rs = vec![];
        for i in 0..d.rows() {
            rs.push((0..21).map(|j| d[i][j].to_string()).collect::<Vec<_>>().join(","));
        }
        out.push(format!("d={}", join(&rs, "/")));
    }
    out.push(format!(
        "sc={}",
        join(&thr.iter().map(|t| no_panic(|| dm.scale(f32::from_bits(*t))).map(|b| b.to_string()).unwrap_or("P".into())).collect::<Vec<_>>(), ",")
    ));
    out.push(format!(
        "un={}",
        join(&bytes.iter().map(|b| no_panic(|| dm.unscale(*b)).map(|x| bits(x).to_string()).unwrap_or("P".into())).collect::<Vec<_>>(), ",")
    ));
    let striped: Option<StripedSequence<Protein, U32>> = no_panic(|| {
        let mut s = EncodedSequence::<Protein>::new(seq.clone()).to_striped();
        s.configure(&pssm);
        s
    });
    let npos = if l >= m { l - m + 1 } else { 0 };
    match &striped {
        None => out.push("rs=SP ss=SP ds=SP".to_string()),
        Some(st) => {
            let mut rs = vec![];
            let mut ss = vec![];
            let mut ds = vec![];
            for pos in 0..npos {
                match no_panic(|| pssm.score_position(st, pos)) {
                    None => {
                        rs.push("P".to_string());
                        ss.push("P".to_string());
                    }
                    Some(x) => {
                        rs.push(bits(x).to_string());
                        ss.push(no_panic(|| dm.scale(x)).map(|b| b.to_string()).unwrap_or("P".into()));
                    }
                }
                ds.push(no_panic(|| dm.score_position(st, pos)).map(|b| b.to_string()).unwrap_or("P".into()));
            }
            out.push(format!("rs={}", join(&rs, ",")));
            out.push(format!("ss={}", join(&ss, ",")));
            out.push(format!("ds={}", join(&ds, ",")));
        }
    }
    let (g, s) = layout_scores::<Protein, U32>(&pssm, &dm, &seq);
    out.push(format!("gen={} sse={}", g, s));
    let (g, s) = layout_scores::<Protein, U16>(&pssm, &dm, &seq);
    out.push(format!("g16={} s16={}", g, s));
    // histories on one reused StripedScores<u8, U32> (Protein: the generic and SSE2 pipelines only)
    if let Some(h) = f.get("hist") {
        for (k, hist) in h.split('|').enumerate() {
            let (steps, fin) = run_history_gs::<Protein, U32>(&rows, &seq, hist);
            out.push(format!("h{}={} hf{}={}", k, steps, k, fin));
        }
    }
    out.join(" ")
}

fn run_case(f: &std::collections::HashMap<String, String>) -> String {
    if f.get("alpha").map(|s| s.as_str()) == Some("P") {
        return run_case_protein(f);
    }
    let rows = parse_matrix(&f["mat"]);
    let m = rows.len();
    let seq: Vec<Nucleotide> = if f["seq"] == "-" { vec![] } else { f["seq"].chars().map(sym_of).collect() };
    let l = seq.len();
    let thr: Vec<u32> = parse_list(&f["thr"], ',');
    let bytes: Vec<u8> = parse_list(&f["bytes"], ',');
    let sub: Vec<usize> = parse_list(&f["sub"], ':');

    let pssm = ScoringMatrix::<Dna>::new(Background::uniform(), DenseMatrix::from_rows(rows.iter()));
    let dm = match no_panic(|| pssm.to_discrete()) {
        None => return "disc=P".to_string(),
        Some(d) => d,
    };
    let mut out: Vec<String> = vec![];
    match private_fields(&dm) {
        None => return "disc=UNPARSED".to_string(),
        Some((factor, offsets, offset)) => {
            out.push(format!("f={}", bits(factor)));
            out.push(format!("o={}", bits(offset)));
            out.push(format!("os={}", join(&offsets.iter().map(|x| bits(*x)).collect::<Vec<_>>(), ",")));
        }
    }
    out.push(format!("mn={}", no_panic(|| pssm.min_score()).map(|x| bits(x).to_string()).unwrap_or("P".into())));
    out.push(format!("mx={}", no_panic(|| pssm.max_score()).map(|x| bits(x).to_string()).unwrap_or("P".into())));
    {
        let d = dm.matrix();
        let mut rs = vec![];
        for i in 0..d.rows() {
            rs.push((0..5).map(|j| d[i][j].to_string()).collect::<Vec<_>>().join(","));
        }
        out.push(format!("d={}", join(&rs, "/")));
    }
    out.push(format!(
        "sc={}",
        join(&thr.iter().map(|t| no_panic(|| dm.scale(f32::from_bits(*t))).map(|b| b.to_string()).unwrap_or("P".into())).collect::<Vec<_>>(), ",")
    ));
    out.push(format!(
        "un={}",
        join(&bytes.iter().map(|b| no_panic(|| dm.unscale(*b)).map(|x| bits(x).to_string()).unwrap_or("P".into())).collect::<Vec<_>>(), ",")
    ));

    // striped sequence (default dispatch), configured for the motif
    force_backend(None);
    let striped: Option<StripedSequence<Dna, U32>> = no_panic(|| {
        let mut s = EncodedSequence::<Dna>::new(seq.clone()).to_striped();
        s.configure(&pssm);
        s
    });
    let npos = if l >= m { l - m + 1 } else { 0 };
    match &striped {
        None => {
            out.push("rs=SP ss=SP ds=SP".to_string());
        }
        Some(st) => {
            let mut rs = vec![];
            let mut ss = vec![];
            let mut ds = vec![];
            for pos in 0..npos {
                match no_panic(|| pssm.score_position(st, pos)) {
                    None => {
                        rs.push("P".to_string());
                        ss.push("P".to_string());
                    }
                    Some(x) => {
                        rs.push(bits(x).to_string());
                        ss.push(no_panic(|| dm.scale(x)).map(|b| b.to_string()).unwrap_or("P".into()));
                    }
                }
                ds.push(no_panic(|| dm.score_position(st, pos)).map(|b| b.to_string()).unwrap_or("P".into()));
            }
            out.push(format!("rs={}", join(&rs, ",")));
            out.push(format!("ss={}", join(&ss, ",")));
            out.push(format!("ds={}", join(&ds, ",")));
            // un-forced generic and AVX2 pipelines
            out.push(format!("gen={}", show_scores(no_panic(|| Pipeline::<Dna, _>::generic().score(&dm, st)))));
            out.push(format!(
                "avx={}",
                match Pipeline::<Dna, _>::avx2() {
                    Err(_) => "U".to_string(),
                    Ok(p) => show_scores(no_panic(|| p.score(&dm, st))),
                }
            ));
        }
    }
    // dispatcher under each forced arm; the sequence is striped under the same arm
    for (tag, arm) in [("G", Dispatch::Generic), ("S", Dispatch::Sse2), ("A", Dispatch::Avx2)] {
        if tag == "A" && Pipeline::<Dna, lightmotif::pli::platform::Avx2>::avx2().is_err() {
            out.push("dA=U".to_string());
            if tag != "S" {
                out.push(format!("s{}=U", tag));
            }
            continue;
        }
        force_backend(Some(arm));
        let r = no_panic(|| {
            let mut s: StripedSequence<Dna, U32> = EncodedSequence::<Dna>::new(seq.clone()).to_striped();
            s.configure(&pssm);
            let full = no_panic(|| Pipeline::<Dna, Dispatch>::dispatch().score(&dm, &s));
            let part = no_panic(|| {
                let mut sc = StripedScores::<u8, U32>::empty();
                Pipeline::<Dna, Dispatch>::dispatch().score_rows_into(&dm, &s, sub[0]..sub[1], &mut sc);
                sc
            });
            (full, part)
        });
        force_backend(None);
        match r {
            None => {
                out.push(format!("d{}=SP", tag));
                if tag != "S" {
                    out.push(format!("s{}=SP", tag));
                }
            }
            Some((full, part)) => {
                out.push(format!("d{}={}", tag, show_scores(full)));
                if tag != "S" {
                    out.push(format!("s{}={}", tag, show_scores(part)));
                }
            }
        }
    }
    // Pipeline::sse2() (Score<u8> = trait default) at C = 32, and the generic / SSE2 pipelines on a
    // 16-column layout
    let (_, s32) = layout_scores::<Dna, U32>(&pssm, &dm, &seq);
    out.push(format!("sse={}", s32));
    let (g16, s16) = layout_scores::<Dna, U16>(&pssm, &dm, &seq);
    out.push(format!("g16={} s16={}", g16, s16));
    // histories on ONE reused StripedScores<u8, U32> buffer
    if let Some(h) = f.get("hist") {
        for (k, hist) in h.split('|').enumerate() {
            let (steps, fin) = run_history(&rows, &seq, hist);
            out.push(format!("h{}={} hf{}={}", k, steps, k, fin));
        }
    }
    // ... and on ONE reused StripedScores<u8, U16> (generic / SSE2 pipelines on the 16-column layout)
    if let Some(h) = f.get("hist16") {
        let vrows: Vec<Vec<f32>> = rows.iter().map(|r| r.to_vec()).collect();
        for (k, hist) in h.split('|').enumerate() {
            let (steps, fin) = run_history_gs::<Dna, U16>(&vrows, &seq, hist);
            out.push(format!("h16_{}={} hf16_{}={}", k, steps, k, fin));
        }
    }
    out.join(" ")
}

// ------------------------------------------------------------------ histories

/// motif variants of a history step (the driver derives the same ones)
fn motif_variant<T: Clone>(rows: &[T], v: usize) -> Vec<T> {
    let m = rows.len();
    match v {
        1 => rows[..(m + 1) / 2].to_vec(),
        2 => {
            if m >= 1 {
                rows[1..].to_vec()
            } else {
                vec![]
            }
        }
        3 => {
            if m <= 12 {
                let mut r = rows.to_vec();
                r.extend_from_slice(rows);
                r
            } else {
                rows.to_vec()
            }
        }
        _ => rows.to_vec(),
    }
}

/// sequence variants of a history step; `m` is the width of the MAIN motif
fn seq_variant<S: Clone>(seq: &[S], m: usize, v: usize) -> Vec<S> {
    let l = seq.len();
    match v {
        1 => seq[..l / 3].to_vec(),
        2 => {
            let mut s = seq.to_vec();
            s.extend_from_slice(seq);
            s.truncate((2 * l).min(l + 40));
            s
        }
        3 => seq[..l.min(m.max(1) - 1)].to_vec(),
        4 => seq[..l.saturating_sub(1)].to_vec(),
        _ => seq.to_vec(),
    }
}

/// `rows:max_index:checksum` for any number of columns
fn digest_c<C: PositiveLength>(sc: &StripedScores<u8, C>) -> String {
    let m = sc.matrix();
    let mut d: u64 = 0;
    for r in 0..m.rows() {
        for c in 0..C::USIZE {
            let idx = (r * C::USIZE + c) as u64;
            d = (d + (m[r][c] as u64) * ((idx % 251) + 1)) % 1_000_003;
        }
    }
    format!("{}:{}:{}", m.rows(), sc.max_index(), d)
}

/// A history on one `StripedScores<u8, C>` for ANY alphabet and column count through the pipelines that exist for
/// all of them: `G` = Pipeline::generic(), `S` = Pipeline::sse2() (both run the trait default); steps as in
/// `run_history` (`R.rows.max`, `Z.v`, `<G|S>.<motif variant>.<seq variant>.<F|lo:hi>`).
fn run_history_gs<A, C>(rows: &[Vec<f32>], seq: &[A::Symbol], hist: &str) -> (String, String)
where
    A: Alphabet,
    C: PositiveLength + MultipleOf<U16>,
{
    let m = rows.len();
    let mut buf = StripedScores::<u8, C>::empty();
    let mut obs: Vec<String> = vec![];
    let mut cut = false;
    for step in hist.split(';') {
        let t: Vec<&str> = step.split('.').collect();
        if t.len() < 2 {
            obs.push("BAD".to_string());
            cut = true;
            break;
        }
        let ok: Option<()> = match t[0] {
            "R" => {
                let r: usize = t[1].parse().unwrap();
                let mx: usize = t[2].parse().unwrap();
                no_panic(|| buf.resize(r, mx))
            }
            "Z" => {
                let v: u8 = t[1].parse().unwrap();
                no_panic(|| buf.matrix_mut().fill(v))
            }
            be => {
                let mv: usize = t[1].parse().unwrap();
                let sv: usize = t[2].parse().unwrap();
                let vrows = motif_variant(rows, mv);
                let vseq = seq_variant(seq, m, sv);
                let pssm = ScoringMatrix::<A>::new(Background::uniform(), DenseMatrix::from_rows(vrows.iter()));
                let dm = match no_panic(|| pssm.to_discrete()) {
                    None => {
                        obs.push("VP".to_string());
                        cut = true;
                        break;
                    }
                    Some(d) => d,
                };
                if be == "S" && Pipeline::<A, Sse2>::sse2().is_err() {
                    obs.push("U".to_string());
                    cut = true;
                    break;
                }
                let st: Option<StripedSequence<A, C>> = no_panic(|| {
                    let mut s: StripedSequence<A, C> = Pipeline::<A, Generic>::generic().stripe(&vseq[..]);
                    s.configure(&pssm);
                    s
                });
                match st {
                    None => {
                        obs.push("SP".to_string());
                        cut = true;
                        break;
                    }
                    Some(st) => {
                        let range: Option<(usize, usize)> = if t[3] == "F" {
                            None
                        } else {
                            let ab: Vec<usize> = parse_list(t[3], ':');
                            Some((ab[0], ab[1]))
                        };
                        no_panic(|| match (be, range) {
                            ("S", None) => Pipeline::<A, Sse2>::sse2().unwrap().score_into(&dm, &st, &mut buf),
                            ("S", Some((a, b))) => Pipeline::<A, Sse2>::sse2().unwrap().score_rows_into(&dm, &st, a..b, &mut buf),
                            (_, None) => Pipeline::<A, Generic>::generic().score_into(&dm, &st, &mut buf),
                            (_, Some((a, b))) => Pipeline::<A, Generic>::generic().score_rows_into(&dm, &st, a..b, &mut buf),
                        })
                    }
                }
            }
        };
        match ok {
            None => {
                obs.push("P".to_string());
                cut = true;
                break;
            }
            Some(()) => obs.push(digest_c::<C>(&buf)),
        }
    }
    let fin = if cut { "P".to_string() } else { show_scores_c::<C>(Some(buf)) };
    (obs.join(";"), fin)
}

/// position-weighted checksum of a score matrix, printed for the intermediate steps
fn digest(sc: &StripedScores<u8, U32>) -> String {
    let m = sc.matrix();
    let mut d: u64 = 0;
    for r in 0..m.rows() {
        for c in 0..32 {
            let idx = (r * 32 + c) as u64;
            d = (d + (m[r][c] as u64) * ((idx % 251) + 1)) % 1_000_003;
        }
    }
    format!("{}:{}:{}", m.rows(), sc.max_index(), d)
}

/// One history: steps `;`-separated,
///   `<be>.<motif variant>.<seq variant>.<F | lo:hi>`   be: G S A = Pipeline::generic()/sse2()/avx2(), g s a = dispatch() forced
///   `R.<rows>.<max_index>`  scores.resize      `Z.<v>`  scores.matrix_mut().fill(v)
/// all on one `StripedScores<u8, U32>` that starts as `StripedScores::empty()`.  Returns (per-step
/// `rows:max:digest`, `;`-separated; the first step that panics prints `P` and ends the history) and the
/// final buffer in full (`P` when the history was cut).
fn run_history(rows: &[[f32; 5]], seq: &[Nucleotide], hist: &str) -> (String, String) {
    let m = rows.len();
    let mut buf = StripedScores::<u8, U32>::empty();
    let mut obs: Vec<String> = vec![];
    let mut cut = false;
    for step in hist.split(';') {
        let t: Vec<&str> = step.split('.').collect();
        if t.len() < 2 {
            obs.push("BAD".to_string());
            cut = true;
            break;
        }
        let ok: Option<()> = match t[0] {
            "R" => {
                let r: usize = t[1].parse().unwrap();
                let mx: usize = t[2].parse().unwrap();
                no_panic(|| buf.resize(r, mx))
            }
            "Z" => {
                let v: u8 = t[1].parse().unwrap();
                no_panic(|| buf.matrix_mut().fill(v))
            }
            be => {
                let mv: usize = t[1].parse().unwrap();
                let sv: usize = t[2].parse().unwrap();
                let vrows = motif_variant(rows, mv);
                let vseq = seq_variant(seq, m, sv);
                let pssm = ScoringMatrix::<Dna>::new(Background::uniform(), DenseMatrix::from_rows(vrows.iter()));
                let dm = match no_panic(|| pssm.to_discrete()) {
                    None => {
                        obs.push("VP".to_string());
                        cut = true;
                        break;
                    }
                    Some(d) => d,
                };
                let arm = match be {
                    "g" => Some(Dispatch::Generic),
                    "s" => Some(Dispatch::Sse2),
                    "a" => Some(Dispatch::Avx2),
                    _ => None,
                };
                if (be == "a" || be == "A") && Pipeline::<Dna, lightmotif::pli::platform::Avx2>::avx2().is_err() {
                    obs.push("U".to_string());
                    cut = true;
                    break;
                }
                if be == "S" && Pipeline::<Dna, Sse2>::sse2().is_err() {
                    obs.push("U".to_string());
                    cut = true;
                    break;
                }
                force_backend(arm);
                let st: Option<StripedSequence<Dna, U32>> = no_panic(|| {
                    let mut s: StripedSequence<Dna, U32> = EncodedSequence::<Dna>::new(vseq.clone()).to_striped();
                    s.configure(&pssm);
                    s
                });
                let r = match st {
                    None => {
                        force_backend(None);
                        obs.push("SP".to_string());
                        cut = true;
                        break;
                    }
                    Some(st) => {
                        let range: Option<(usize, usize)> = if t[3] == "F" {
                            None
                        } else {
                            let ab: Vec<usize> = parse_list(t[3], ':');
                            Some((ab[0], ab[1]))
                        };
                        no_panic(|| match (be, range) {
                            ("G", None) => Pipeline::<Dna, Generic>::generic().score_into(&dm, &st, &mut buf),
                            ("G", Some((a, b))) => Pipeline::<Dna, Generic>::generic().score_rows_into(&dm, &st, a..b, &mut buf),
                            ("S", None) => Pipeline::<Dna, Sse2>::sse2().unwrap().score_into(&dm, &st, &mut buf),
                            ("S", Some((a, b))) => Pipeline::<Dna, Sse2>::sse2().unwrap().score_rows_into(&dm, &st, a..b, &mut buf),
                            ("A", None) => Pipeline::<Dna, lightmotif::pli::platform::Avx2>::avx2().unwrap().score_into(&dm, &st, &mut buf),
                            ("A", Some((a, b))) => Pipeline::<Dna, lightmotif::pli::platform::Avx2>::avx2().unwrap().score_rows_into(&dm, &st, a..b, &mut buf),
                            (_, None) => Pipeline::<Dna, Dispatch>::dispatch().score_into(&dm, &st, &mut buf),
                            (_, Some((a, b))) => Pipeline::<Dna, Dispatch>::dispatch().score_rows_into(&dm, &st, a..b, &mut buf),
                        })
                    }
                };
                force_backend(None);
                r
            }
        };
        match ok {
            None => {
                obs.push("P".to_string());
                cut = true;
                break;
            }
            Some(()) => obs.push(digest(&buf)),
        }
    }
    let fin = if cut { "P".to_string() } else { show_scores(Some(buf)) };
    (obs.join(";"), fin)
}

// ------------------------------------------------------------------ generator

fn rand_unit(rng: &mut Rng) -> f64 {
    (rng.next() >> 11) as f64 / (1u64 << 53) as f64
}

/// a "round" f32 in [lo, hi] with a random number of fractional bits
fn rand_f32(rng: &mut Rng, lo: f64, hi: f64) -> f32 {
    let x = lo + (hi - lo) * rand_unit(rng);
    match rng.below(4) {
        0 => (x * 4.0).round() as f32 / 4.0,
        1 => (x * 1024.0).round() as f32 / 1024.0,
        _ => x as f32,
    }
}

fn finite_bits(rng: &mut Rng) -> f32 {
    loop {
        let x = f32::from_bits(rng.next() as u32);
        if x.is_finite() {
            return x;
        }
    }
}

fn gen_matrix(rng: &mut Rng, tier: &str) -> (String, Vec<[f32; 5]>) {
    let maxw = if tier == "thorough" { 64 } else { 40 };
    let m = match rng.below(20) {
        0 => 1,
        1 => 2,
        2 => maxw as u64,
        3..=8 => 1 + rng.below(12),
        _ => 1 + rng.below(maxw as u64),
    } as usize;
    let k = rng.below(100);
    let mut rows: Vec<[f32; 5]> = vec![];
    let kind;
    if k < 1 {
        kind = "empty";
    } else if k < 26 {
        // CountMatrix -> to_freq(pseudocount) -> to_scoring (base-2 log-odds, uniform background)
        kind = "counts";
        let n = 1 + rng.below(60) as u32;
        let mut counts: Vec<[u32; 5]> = vec![];
        for _ in 0..m {
            let mut r = [0u32; 5];
            for _ in 0..n {
                // skewed towards one symbol per row
                let s = if rng.chance(3, 5) { rng.below(2) } else { rng.below(4) } as usize;
                r[s] += 1;
            }
            if rng.chance(1, 6) {
                r.rotate_left(1);
                r[4] = 0;
            }
            counts.push(r);
        }
        let pseudo = *rng.pick(&[0.1f32, 0.25, 1.0, 0.01, 0.0]);
        let pssm = no_panic(|| {
            CountMatrix::<Dna>::new(DenseMatrix::from_rows(counts.iter()))
                .unwrap()
                .to_freq(pseudo)
                .to_scoring(None)
        });
        match pssm {
            Some(p) => {
                for i in 0..m {
                    let mut r = [0f32; 5];
                    for j in 0..5 {
                        r[j] = p.matrix()[i][j];
                    }
                    rows.push(r);
                }
            }
            None => {
                for _ in 0..m {
                    rows.push([0.0, -1.0, -2.0, 1.0, f32::NEG_INFINITY]);
                }
            }
        }
    } else if k >= 48 && k < 51 {
        // tiny non-zero score range: an ordinary matrix scaled by 2^-e (range <= 255 * f32::EPSILON and far
        // below; factor tiny or SUBNORMAL, still well conditioned), or ordinary cells a few ulps apart
        // (range of a few f32::EPSILON around 1: ill conditioned)
        kind = "tiny";
        if rng.chance(2, 3) {
            let e = *rng.pick(&[17i32, 20, 24, 40, 100, 118, 120, 124, 126, 130, 140]);
            let sc = 2f64.powi(-e);
            for _ in 0..m {
                let mut r = [0f32; 5];
                for j in 0..4 {
                    r[j] = (rand_f32(rng, -8.0, 2.0) as f64 * sc) as f32;
                }
                rows.push(r);
            }
        } else {
            let base = *rng.pick(&[1.0f32, -1.0, 0.5, 3.0]);
            for _ in 0..m {
                let mut r = [0f32; 5];
                for j in 0..4 {
                    r[j] = f32::from_bits(base.to_bits() + rng.below(4) as u32);
                }
                rows.push(r);
            }
        }
    } else if k >= 51 && k < 53 {
        // one huge cell (the factor is set by it: every other positive difference rounds up to 1 byte unit),
        // or one huge negative cell
        kind = "hugecell";
        for _ in 0..m {
            let mut r = [0f32; 5];
            for j in 0..4 {
                r[j] = rand_f32(rng, -8.0, 2.0);
            }
            rows.push(r);
        }
        let i = rng.below(m as u64) as usize;
        let j = rng.below(4) as usize;
        rows[i][j] = *rng.pick(&[1.0e30f32, 1.0e38, -1.0e30, 3.0e38, 1.0e9, -1.0e38, 65536.0]);
    } else if k >= 53 && k < 56 {
        // CpG-like: the whole score range sits in ONE pair of adjacent rows (2-row motifs, or wider motifs whose
        // other rows are constant / almost flat), so that the two rounded-up cells of the pair add up to 256 or
        // more: a kernel that pre-adds two rows with a wrapping add under-estimates the consensus word
        kind = "cpg";
        let mm = if rng.chance(1, 2) { 2 } else { m.max(2) };
        let p = if mm == 2 { 0 } else { rng.below((mm - 1) as u64) as usize };
        let hi = *rng.pick(&[2.0f32, 1.0, 1.5, 0.75]);
        for i in 0..mm {
            let mut r = [0f32; 5];
            if i == p || i == p + 1 {
                let lo = -hi * (*rng.pick(&[1.0f32, 1.0, 0.999, 1.01, 2.0]));
                let best = rng.below(4) as usize;
                for j in 0..4 {
                    r[j] = if j == best { hi } else { lo };
                }
                if rng.chance(1, 4) {
                    r[(best + 1) % 4] = hi;
                }
            } else {
                let v = rand_f32(rng, -1.0, 1.0);
                let wob = *rng.pick(&[0.0f32, 0.0, 1.0e-4, 1.0e-3]);
                for j in 0..4 {
                    r[j] = v + wob * (rng.below(3) as f32);
                }
            }
            rows.push(r);
        }
    } else if k < 56 {
        // arbitrary finite cells of moderate size
        kind = "finite";
        let (lo, hi) = *rng.pick(&[(-20.0, 5.0), (-8.0, 2.0), (-1.0, 1.0), (0.0, 100.0), (-300.0, -200.0)]);
        for _ in 0..m {
            let mut r = [0f32; 5];
            for j in 0..4 {
                r[j] = rand_f32(rng, lo, hi);
            }
            rows.push(r);
        }
    } else if k < 68 {
        // small integers / halves: many ties, equal cells, constant rows, signed zeros
        kind = "ties";
        for _ in 0..m {
            let mut r = [0f32; 5];
            let c = rng.below(10);
            let base = rng.range(-3, 3) as f32 * 0.5;
            for j in 0..4 {
                r[j] = if c < 3 { base } else { rng.range(-4, 4) as f32 * 0.5 };
                if r[j] == 0.0 && rng.chance(1, 2) {
                    r[j] = -0.0;
                }
            }
            rows.push(r);
        }
    } else if k < 73 {
        // constant matrices (factor = 0): every row constant
        kind = "constant";
        let same = rng.chance(1, 2);
        let v0 = rand_f32(rng, -5.0, 5.0);
        for _ in 0..m {
            let v = if same { v0 } else { rand_f32(rng, -5.0, 5.0) };
            rows.push([v, v, v, v, 0.0]);
        }
    } else if k < 81 {
        // arbitrary finite bit patterns (any magnitude, subnormals, overflowing sums)
        kind = "bits";
        let narrow = rng.chance(1, 2);
        let e = rng.below(254) as u32 + 1;
        for _ in 0..m {
            let mut r = [0f32; 5];
            for j in 0..4 {
                r[j] = if narrow {
                    // same binade region, random sign: no overflow, still arbitrary mantissas
                    f32::from_bits(((rng.below(2) as u32) << 31) | ((e.saturating_sub(rng.below(3) as u32)).max(0) << 23) | (rng.next() as u32 & 0x7FFFFF))
                } else {
                    finite_bits(rng)
                };
            }
            rows.push(r);
        }
    } else if k < 84 {
        // ill-conditioned: large entries, tiny range (known finding of C08 at IEEE level)
        kind = "illcond";
        let base = *rng.pick(&[1.0e5f64, 3.0e4, 1.0e6, -1.0e5]);
        let range = *rng.pick(&[0.05f64, 0.5, 0.01]);
        for _ in 0..m {
            let mut r = [0f32; 5];
            for j in 0..4 {
                r[j] = (base + range * rand_unit(rng)) as f32;
            }
            rows.push(r);
        }
    } else if k < 91 {
        // around the boundary of the conditioning predicate
        kind = "boundary";
        let mag = 10f64.powf(1.0 + 5.0 * rand_unit(rng));
        let range = 10f64.powf(-3.0 + 4.0 * rand_unit(rng));
        let sign = if rng.chance(1, 2) { -1.0 } else { 1.0 };
        for _ in 0..m {
            let mut r = [0f32; 5];
            for j in 0..4 {
                r[j] = (sign * (mag + range * rand_unit(rng))) as f32;
            }
            rows.push(r);
        }
    } else if k < 95 {
        // non-finite cells among the non-wildcard columns (outside the theorem, inside the model)
        kind = "nonfinite";
        for _ in 0..m {
            let mut r = [0f32; 5];
            for j in 0..4 {
                r[j] = rand_f32(rng, -8.0, 2.0);
            }
            rows.push(r);
        }
        let n = 1 + rng.below(2);
        for _ in 0..n {
            let i = rng.below(m as u64) as usize;
            let j = rng.below(4) as usize;
            rows[i][j] = *rng.pick(&[f32::NEG_INFINITY, f32::NEG_INFINITY, f32::INFINITY, f32::NAN]);
        }
    } else {
        // one dominant row, many flat rows: consensus sum of rounded-up cells far above 255
        kind = "flat";
        for i in 0..m {
            let mut r = [0f32; 5];
            for j in 0..4 {
                r[j] = if i == 0 { rand_f32(rng, -10.0, 10.0) } else { rand_f32(rng, 0.0, 0.3) };
            }
            rows.push(r);
        }
    }
    // wildcard column: -inf (what to_scoring gives), or a finite stream, rarely +inf / NaN
    if kind != "counts" {
        let w = rng.below(20);
        for r in rows.iter_mut() {
            let rmin = r[..4].iter().cloned().fold(f32::INFINITY, f32::min);
            let rmax = r[..4].iter().cloned().fold(f32::NEG_INFINITY, f32::max);
            // spread of the row (of the matrix scale when the row is constant)
            let spread = if rmax > rmin && (rmax - rmin).is_finite() { rmax - rmin } else { 1.0 };
            r[4] = match w {
                0..=8 => f32::NEG_INFINITY,
                9..=10 => 0.0,
                11 => rmin,
                // finite and BELOW the row minimum: the real score of a window with N is below
                // min_score(), its byte image must saturate to 0
                12..=13 => rmin - spread * (*rng.pick(&[0.01f32, 0.3, 1.0, 4.0])),
                // finite and ABOVE the row minimum (inside the row's range): the wildcard cell
                // of the discrete matrix must be rounded up like every other cell
                14..=15 => rmin + spread * (*rng.pick(&[0.01f32, 0.25, 0.5, 0.99])),
                16 => rand_f32(rng, -30.0, 30.0),
                17 => rmax + 1.0,
                18 => *rng.pick(&[f32::INFINITY, f32::NAN, f32::NEG_INFINITY]),
                _ => rand_f32(rng, -3.0, 3.0),
            };
        }
    }
    (kind.to_string(), rows)
}

fn arg_by(row: &[f32; 5], max: bool) -> usize {
    let mut best = 0;
    for j in 1..4 {
        if (max && row[j] > row[best]) || (!max && row[j] < row[best]) {
            best = j;
        }
    }
    best
}

fn gen_seq(rng: &mut Rng, rows: &[[f32; 5]], tier: &str) -> String {
    let m = rows.len();
    let cons: Vec<usize> = rows.iter().map(|r| arg_by(r, true)).collect();
    let mins: Vec<usize> = rows.iter().map(|r| arg_by(r, false)).collect();
    let maxl = if tier == "thorough" { 700 } else { 260 };
    let target = match rng.below(20) {
        0 => 0,
        1 => m.saturating_sub(1),
        2 => m,
        3 => m + 1,
        4..=6 => m + rng.below(40) as usize,
        7 => maxl,
        _ => rng.below(maxl as u64) as usize,
    };
    let mut s: Vec<usize> = vec![];
    while s.len() < target {
        match rng.below(12) {
            0..=2 => s.extend(cons.iter()),
            3 => s.extend(mins.iter()),
            4 => {
                // consensus with a few substitutions (near-maximal scores)
                let mut w = cons.clone();
                for _ in 0..1 + rng.below(3) {
                    if m > 0 {
                        let i = rng.below(m as u64) as usize;
                        w[i] = rng.below(4) as usize;
                    }
                }
                s.extend(w);
            }
            5 => {
                // consensus with a wildcard inside
                let mut w = cons.clone();
                if m > 0 {
                    let i = rng.below(m as u64) as usize;
                    w[i] = 4;
                }
                s.extend(w);
            }
            6 => {
                for _ in 0..1 + rng.below(4) {
                    s.push(4);
                }
            }
            _ => {
                for _ in 0..1 + rng.below(24) {
                    s.push(rng.below(4) as usize);
                }
            }
        }
    }
    s.truncate(target);
    if s.is_empty() {
        "-".to_string()
    } else {
        s.iter().map(|&i| SYMS[i]).collect()
    }
}

/// The conditioning predicate of coq/disc/DiscModel.v (`well_conditioned`), recomputed
/// natively; informative only (histogram of the generated stream), never used for a verdict.
fn ulp(x: f32) -> f32 {
    if !x.is_finite() {
        return f32::INFINITY;
    }
    let e = ((x.to_bits() >> 23) & 0xff).max(1) as i32;
    2f32.powi(e - 127 - 23)
}

fn conditioning(rows: &[[f32; 5]]) -> &'static str {
    let pssm = ScoringMatrix::<Dna>::new(Background::uniform(), DenseMatrix::from_rows(rows.iter()));
    let factor = match no_panic(|| pssm.to_discrete()).and_then(|d| private_fields(&d)) {
        None => return "na",
        Some((f, _, _)) => f,
    };
    let mut a = 0f32;
    for r in rows {
        let mut mx = 0f32;
        for x in r.iter() {
            if x.is_finite() {
                mx = mx.max(x.abs());
            }
        }
        a += mx;
    }
    let bound = (8 * (rows.len() + 1)) as f32 * ulp(a);
    if !factor.is_nan() && (factor == 0.0 || bound <= factor) {
        "1"
    } else {
        "0"
    }
}

/// the next f32 above / below (NaN and the infinity on that side are left alone)
fn next_up(x: f32) -> f32 {
    if x.is_nan() || x == f32::INFINITY {
        x
    } else if x == 0.0 {
        f32::from_bits(1)
    } else if x > 0.0 {
        f32::from_bits(x.to_bits() + 1)
    } else {
        f32::from_bits(x.to_bits() - 1)
    }
}

fn next_down(x: f32) -> f32 {
    -next_up(-x)
}

fn case_line(rng: &mut Rng, id: &str, kind: &str, rows: &[[f32; 5]], seq: &str) -> String {
    let m = rows.len();
    // thresholds: specials, below the minimum, above the maximum, attainable scores, random in range
    let mut lo = 0f32;
    let mut hi = 0f32;
    for r in rows.iter() {
        lo += r[..4].iter().cloned().fold(f32::INFINITY, f32::min);
        hi += r[..4].iter().cloned().fold(f32::NEG_INFINITY, f32::max);
    }
    let mut thr: Vec<f32> = vec![
        f32::NEG_INFINITY,
        f32::INFINITY,
        f32::NAN,
        0.0,
        -0.0,
        lo,
        hi,
        lo - 1.0,
        hi + 1.0,
        f32::from_bits(lo.to_bits().wrapping_add(1)),
        f32::from_bits(hi.to_bits().wrapping_sub(1)),
    ];
    for _ in 0..6 {
        // an attainable score: a random word scored in row order from 0.0
        let mut s = 0f32;
        for r in rows.iter() {
            s += r[rng.below(4) as usize];
        }
        thr.push(s);
    }
    for _ in 0..4 {
        let t = lo as f64 + (hi as f64 - lo as f64) * (rand_unit(rng) * 1.2 - 0.1);
        thr.push(t as f32);
    }
    // below the minimum by fractions / multiples of the score range, at and above the maximum
    let range = if hi > lo && (hi - lo).is_finite() { hi - lo } else { 1.0 };
    for k in [0.002f32, 0.01, 0.5, 1.0, 1.5] {
        thr.push(lo - range * k);
    }
    thr.push(hi + range * 0.01);
    thr.push(next_down(lo));
    thr.push(next_up(hi));
    // real scores of windows of the sequence itself (what ScoringMatrix::score_position adds up,
    // windows with the wildcard included), and their two neighbours
    let sq: Vec<usize> = if seq == "-" { vec![] } else { seq.chars().map(|c| SYMS.iter().position(|&x| x == c).unwrap_or(4)).collect() };
    if m > 0 && sq.len() >= m {
        let npos = sq.len() - m + 1;
        let mut picks: Vec<usize> = vec![];
        // windows containing the wildcard first
        for p in 0..npos {
            if picks.len() < 2 && sq[p..p + m].contains(&4) {
                picks.push(p);
            }
        }
        for _ in 0..3 {
            picks.push(rng.below(npos as u64) as usize);
        }
        for p in picks {
            let mut s = 0f32;
            for (j, r) in rows.iter().enumerate() {
                s += r[sq[p + j]];
            }
            thr.push(s);
            if s.is_finite() {
                thr.push(next_up(s));
                thr.push(next_down(s));
            }
        }
    }
    thr.push(finite_bits(rng));
    // the extremes of the f32 range
    thr.extend_from_slice(&[f32::MAX, f32::MIN, f32::MIN_POSITIVE, -f32::MIN_POSITIVE, f32::from_bits(1), f32::from_bits(0x8000_0001), 1.0e30, -1.0e30]);
    let mut bytes: Vec<u8> = vec![0, 1, 127, 254, 255];
    for _ in 0..3 {
        bytes.push(rng.below(256) as u8);
    }
    // a sub-range of rows for score_rows_into (sometimes empty, sometimes reaching the wrap rows)
    let l = if seq == "-" { 0 } else { seq.len() };
    let r = (l + 31) / 32;
    let (slo, shi) = match rng.below(8) {
        0 => (0, 0),
        1 => (r, r + 1),
        2 => (0, r + m),
        3 => (1, 1),
        _ => {
            let a = rng.below(r as u64 + 1) as usize;
            let b = a + rng.below((r - a) as u64 + 1) as usize;
            (a, b)
        }
    };
    format!(
        "{} kind={} wc={} mat={} seq={} thr={} bytes={} sub={}:{}",
        id,
        kind,
        conditioning(rows),
        show_matrix(rows),
        seq,
        thr.iter().map(|x| bits(*x).to_string()).collect::<Vec<_>>().join(","),
        bytes.iter().map(|x| x.to_string()).collect::<Vec<_>>().join(","),
        slo,
        shi
    )
}

/// conditioning predicate for any alphabet (informative only)
fn conditioning_a<A: Alphabet>(rows: &[Vec<f32>]) -> &'static str {
    let pssm = ScoringMatrix::<A>::new(Background::uniform(), DenseMatrix::from_rows(rows.iter()));
    let factor = match no_panic(|| pssm.to_discrete()).and_then(|d| private_fields(&d)) {
        None => return "na",
        Some((f, _, _)) => f,
    };
    let mut a = 0f32;
    for r in rows {
        let mut mx = 0f32;
        for x in r.iter() {
            if x.is_finite() {
                mx = mx.max(x.abs());
            }
        }
        a += mx;
    }
    let bound = (8 * (rows.len() + 1)) as f32 * ulp(a);
    if !factor.is_nan() && (factor == 0.0 || bound <= factor) {
        "1"
    } else {
        "0"
    }
}

/// a Protein case (K = 21): matrix from counts or arbitrary finite cells, sequence over the 20
/// amino acids and X, thresholds as for DNA
fn gen_protein_case(rng: &mut Rng, id: usize, tier: &str) -> String {
    let maxw = if tier == "thorough" { 48 } else { 24 };
    let m = match rng.below(10) {
        0 => 1,
        1 => 2,
        _ => 1 + rng.below(maxw),
    } as usize;
    let psyms: Vec<char> = PSYMS.chars().collect();
    let mut rows: Vec<Vec<f32>> = vec![];
    let kind;
    match rng.below(10) {
        0..=3 => {
            kind = "pcounts";
            let n = 5 + rng.below(80) as u32;
            let mut counts: Vec<Vec<u32>> = vec![];
            for _ in 0..m {
                let mut r = vec![0u32; 21];
                let fav = rng.below(20) as usize;
                for _ in 0..n {
                    let s = if rng.chance(1, 2) { fav } else { rng.below(20) as usize };
                    r[s] += 1;
                }
                counts.push(r);
            }
            let pseudo = *rng.pick(&[0.1f32, 0.25, 1.0, 0.01]);
            let pssm = no_panic(|| {
                CountMatrix::<Protein>::new(DenseMatrix::from_rows(counts.iter()))
                    .unwrap()
                    .to_freq(pseudo)
                    .to_scoring(None)
            });
            match pssm {
                Some(p) => {
                    for i in 0..m {
                        rows.push((0..21).map(|j| p.matrix()[i][j]).collect());
                    }
                }
                None => {
                    for _ in 0..m {
                        let mut r: Vec<f32> = (0..20).map(|j| j as f32 * 0.25 - 2.0).collect();
                        r.push(f32::NEG_INFINITY);
                        rows.push(r);
                    }
                }
            }
        }
        4..=7 => {
            kind = "pfinite";
            let (lo, hi) = *rng.pick(&[(-12.0, 4.0), (-4.0, 4.0), (0.0, 50.0)]);
            let w = rng.below(4);
            for _ in 0..m {
                let mut r: Vec<f32> = (0..20).map(|_| rand_f32(rng, lo, hi)).collect();
                let rmin = r.iter().cloned().fold(f32::INFINITY, f32::min);
                let rmax = r.iter().cloned().fold(f32::NEG_INFINITY, f32::max);
                r.push(match w {
                    0 | 1 => f32::NEG_INFINITY,
                    2 => rmin - (rmax - rmin) * 0.3,
                    _ => rmin + (rmax - rmin) * 0.4,
                });
                rows.push(r);
            }
        }
        8 => {
            kind = "pties";
            for _ in 0..m {
                let mut r: Vec<f32> = (0..20).map(|_| rng.range(-4, 4) as f32 * 0.5).collect();
                r.push(0.0);
                rows.push(r);
            }
        }
        _ => {
            kind = "pconstant";
            let v = rand_f32(rng, -3.0, 3.0);
            for _ in 0..m {
                let mut r = vec![v; 20];
                r.push(f32::NEG_INFINITY);
                rows.push(r);
            }
        }
    }
    let argmax = |r: &Vec<f32>| (0..20).fold(0, |b, j| if r[j] > r[b] { j } else { b });
    let cons: Vec<usize> = rows.iter().map(argmax).collect();
    let maxl = if tier == "thorough" { 300 } else { 120 };
    let target = match rng.below(10) {
        0 => 0,
        1 => m.saturating_sub(1),
        2 => m,
        3..=5 => m + rng.below(20) as usize,
        _ => rng.below(maxl) as usize,
    };
    let mut sq: Vec<usize> = vec![];
    while sq.len() < target {
        match rng.below(6) {
            0 | 1 => sq.extend(cons.iter()),
            2 => {
                let mut w = cons.clone();
                let i = rng.below(m as u64) as usize;
                w[i] = 20;
                sq.extend(w);
            }
            3 => sq.push(20),
            _ => {
                for _ in 0..1 + rng.below(16) {
                    sq.push(rng.below(20) as usize);
                }
            }
        }
    }
    sq.truncate(target);
    let seq: String = if sq.is_empty() { "-".to_string() } else { sq.iter().map(|&i| psyms[i]).collect() };
    // thresholds
    let mut lo = 0f32;
    let mut hi = 0f32;
    for r in rows.iter() {
        lo += r[..20].iter().cloned().fold(f32::INFINITY, f32::min);
        hi += r[..20].iter().cloned().fold(f32::NEG_INFINITY, f32::max);
    }
    let range = if hi > lo && (hi - lo).is_finite() { hi - lo } else { 1.0 };
    let mut thr: Vec<f32> = vec![
        f32::NEG_INFINITY, f32::INFINITY, f32::NAN, 0.0, -0.0, lo, hi, lo - 1.0, hi + 1.0,
        next_down(lo), next_up(lo), next_down(hi), next_up(hi),
        lo - range * 0.01, lo - range * 1.5, hi + range * 0.01, f32::MAX, f32::MIN, f32::from_bits(1),
    ];
    for _ in 0..4 {
        thr.push((lo as f64 + (hi as f64 - lo as f64) * (rand_unit(rng) * 1.2 - 0.1)) as f32);
    }
    if m > 0 && sq.len() >= m {
        let npos = sq.len() - m + 1;
        for _ in 0..4 {
            let p = rng.below(npos as u64) as usize;
            let mut sc = 0f32;
            for (j, r) in rows.iter().enumerate() {
                sc += r[sq[p + j]];
            }
            thr.push(sc);
            if sc.is_finite() {
                thr.push(next_up(sc));
                thr.push(next_down(sc));
            }
        }
    }
    let mut bytes: Vec<u8> = vec![0, 1, 127, 254, 255];
    for _ in 0..3 {
        bytes.push(rng.below(256) as u8);
    }
    let hist = if rng.chance(1, 4) {
        let nh = 1 + rng_two(rng);
        format!(" hist={}", gen_hists_for(rng, m, sq.len(), &["G", "S"], 32, nh))
    } else {
        String::new()
    };
    format!(
        "{} kind={} alpha=P wc={} mat={} seq={} thr={} bytes={} sub=0:0{}",
        id,
        kind,
        conditioning_a::<Protein>(&rows),
        rows.iter().map(|r| r.iter().map(|x| x.to_bits().to_string()).collect::<Vec<_>>().join(",")).collect::<Vec<_>>().join("/"),
        seq,
        thr.iter().map(|x| bits(*x).to_string()).collect::<Vec<_>>().join(","),
        bytes.iter().map(|x| x.to_string()).collect::<Vec<_>>().join(","),
        hist,
    )
}

/// a wide DNA motif (100 .. 2000 rows) on a sequence only a few positions longer: the generic path
/// and the saturation of long sums, cheap to replay
fn gen_wide_case(rng: &mut Rng, id: usize, tier: &str) -> String {
    // the list-based model is quadratic in the motif width: about 20 s of driver time per case at M = 2000, 0.6 s at 700
    let maxw = if tier == "thorough" { 1400 } else { 700 };
    let m = (100 + rng.below(maxw - 99)) as usize;
    let flat = rng.chance(1, 3);
    let mut rows: Vec<[f32; 5]> = vec![];
    for i in 0..m {
        let mut r = [0f32; 5];
        for j in 0..4 {
            r[j] = if flat && i % 7 != 0 { rand_f32(rng, 0.0, 0.05) } else { rand_f32(rng, -8.0, 2.0) };
        }
        r[4] = if rng.chance(1, 2) { f32::NEG_INFINITY } else { -9.0 };
        rows.push(r);
    }
    let cons: Vec<usize> = rows.iter().map(|r| arg_by(r, true)).collect();
    let mut sq: Vec<usize> = vec![];
    for _ in 0..rng.below(4) {
        sq.push(rng.below(4) as usize);
    }
    sq.extend(cons.iter());
    for _ in 0..rng.below(6) {
        sq.push(rng.below(5) as usize);
    }
    if rng.chance(1, 4) {
        let i = rng.below(sq.len() as u64) as usize;
        sq[i] = rng.below(5) as usize;
    }
    let seq: String = sq.iter().map(|&i| SYMS[i]).collect();
    case_line(rng, &id.to_string(), "wide", &rows, &seq)
}

fn gen_case(rng: &mut Rng, id: usize, tier: &str) -> String {
    match rng.below(100) {
        0..=11 => return gen_protein_case(rng, id, tier),
        // wide motifs: 3% of the quick tier (M <= 700), 0.5% of the thorough tier (M <= 1400)
        12 if tier != "thorough" => return gen_wide_case(rng, id, tier),
        12 => {
            if rng.chance(1, 2) {
                return gen_wide_case(rng, id, tier);
            }
        }
        13..=14 if tier != "thorough" => return gen_wide_case(rng, id, tier),
        _ => {}
    }
    let (kind, rows) = gen_matrix(rng, tier);
    let seq = gen_seq(rng, &rows, tier);
    let line = case_line(rng, &id.to_string(), &kind, &rows, &seq);
    // histories on one reused score buffer: 30% of the DNA cases (12% in the thorough tier, which has 40 times as many
    // cases: every step evaluates the list-based generic model once more)
    if rng.chance(if tier == "thorough" { 12 } else { 30 }, 100) {
        let l = if seq == "-" { 0 } else { seq.len() };
        let h = gen_hists(rng, rows.len(), l);
        if rng.chance(1, 3) {
            let nh = 1 + rng_two(rng);
            let h16 = gen_hists_for(rng, rows.len(), l, &["G", "S"], 16, nh);
            format!("{} hist={} hist16={}", line, h, h16)
        } else {
            format!("{} hist={}", line, h)
        }
    } else {
        line
    }
}

fn variant_len_m(m: usize, v: usize) -> usize {
    match v {
        1 => (m + 1) / 2,
        2 => m.saturating_sub(1),
        3 => if m <= 12 { 2 * m } else { m },
        _ => m,
    }
}

fn variant_len_l(l: usize, m: usize, v: usize) -> usize {
    match v {
        1 => l / 3,
        2 => (2 * l).min(l + 40),
        3 => l.min(m.max(1) - 1),
        4 => l.saturating_sub(1),
        _ => l,
    }
}

/// 2-3 histories for one case: steps on one buffer with different motif / sequence variants, row ranges,
/// pipelines; shrinking then growing; resize / fill by the caller in between; every history ends with
/// `score_into` of the main motif on the main sequence, so that the final buffer must satisfy C08.
fn gen_hists(rng: &mut Rng, m: usize, l: usize) -> String {
    let nh = 2 + rng_two(rng);
    gen_hists_for(rng, m, l, &["G", "A", "a", "g", "S", "s"], 32, nh)
}

fn rng_two(rng: &mut Rng) -> usize {
    rng.below(2) as usize
}

/// histories restricted to the pipelines `bes`, for a layout of `cols` columns
fn gen_hists_for(rng: &mut Rng, m: usize, l: usize, bes: &[&'static str], cols: usize, nh: usize) -> String {
    let mut hists: Vec<String> = vec![];
    for h in 0..nh {
        // history 0: one pipeline throughout; the others: pipelines mixed on the same buffer
        let fixed = *rng.pick(bes);
        let mut steps: Vec<String> = vec![];
        let n = 2 + rng.below(4) as usize;
        for _ in 0..n {
            let be = if h == 0 { fixed } else { *rng.pick(bes) };
            match rng.below(12) {
                0 => {
                    steps.push(format!("R.{}.{}", rng.below(30), rng.below(900)));
                    continue;
                }
                1 => {
                    steps.push(format!("Z.{}", *rng.pick(&[255u8, 255, 0, 7, 200])));
                    continue;
                }
                _ => {}
            }
            let mut mv = *rng.pick(&[0usize, 0, 1, 2, 3]);
            if variant_len_m(m, mv) == 0 && !rng.chance(1, 8) {
                mv = 0;
            }
            let sv = *rng.pick(&[0usize, 0, 1, 2, 2, 3, 4]);
            let lv = variant_len_l(l, m, sv);
            let mvl = variant_len_m(m, mv);
            let r = (lv + cols - 1) / cols;
            let range = match rng.below(20) {
                0..=7 => "F".to_string(),
                8 => format!("{}:{}", r.saturating_sub(1), r),   // the last sequence row only
                9 => format!("0:{}", r + mvl.min(1)),             // reaches into the wrap rows: every arm panics, the history ends
                10 => "0:0".to_string(),
                11 => "1:1".to_string(),
                _ => {
                    let a = rng.below(r as u64 + 1) as usize;
                    let b = a + rng.below((r - a) as u64 + 1) as usize;
                    format!("{}:{}", a, b)
                }
            };
            steps.push(format!("{}.{}.{}.{}", be, mv, sv, range));
        }
        let be = if h == 0 { fixed } else { *rng.pick(bes) };
        steps.push(format!("{}.0.0.F", be));
        hists.push(steps.join(";"));
    }
    hists.join("|")
}

/// Boundary cases written once to corpus/C08/boundary.txt (`disc corpus`).
fn corpus_cases() -> Vec<String> {
    let mut rng = Rng::new(8);
    let mut out = vec![];
    // the README motif, its consensus word (sum of rounded-up cells 269 > 255) and the documented sequence
    let seqs = ["GTTGACCTTATCAAC", "GTTGATCCAGTCAAC"];
    let cm = CountMatrix::<Dna>::from_sequences(seqs.iter().map(|s| EncodedSequence::encode(s).unwrap())).unwrap();
    let pssm = cm.to_freq(0.1).to_scoring(None);
    let rows: Vec<[f32; 5]> = (0..pssm.matrix().rows())
        .map(|i| {
            let mut r = [0f32; 5];
            for j in 0..5 {
                r[j] = pssm.matrix()[i][j];
            }
            r
        })
        .collect();
    out.push(case_line(&mut rng, "readme-consensus", "counts", &rows, "GTTGACCTTATCAACGTTGATCCAGTCAAC"));
    out.push(case_line(
        &mut rng,
        "readme-doc",
        "counts",
        &rows,
        "ATGTCCCAACAACGATACCCCGAGCCCATCGCCGTCATCGGCTCGGCATGCAGATTCCCAGGCG",
    ));
    out.push(case_line(&mut rng, "readme-wild", "counts", &rows, "GTTGACCNTATCAACNNNNNNNNNNNNNNNNNGTTGATCCAGTCAAC"));
    // constant matrix, one row matrix, empty matrix, equal cells with signed zeros
    let c = vec![[1.5f32, 1.5, 1.5, 1.5, f32::NEG_INFINITY]; 4];
    out.push(case_line(&mut rng, "constant", "constant", &c, "ACGTNACGTACGT"));
    let c = vec![[1.5f32, 1.5, 1.5, 1.5, 2.0]; 3];
    out.push(case_line(&mut rng, "constant-wild-above", "constant", &c, "ACGTNACGTACGNNNT"));
    out.push(case_line(&mut rng, "one-row", "finite", &[[0.25f32, -1.0, 3.0, 0.0, f32::NEG_INFINITY]], "ACGTN"));
    out.push(case_line(&mut rng, "empty", "empty", &[], "ACGTN"));
    out.push(case_line(&mut rng, "empty-empty", "empty", &[], "-"));
    let z = vec![[0.0f32, -0.0, 0.0, -0.0, -0.0], [-0.0, 0.0, -0.0, 0.0, 0.0], [1.0, -0.0, 0.0, 1.0, f32::NEG_INFINITY]];
    out.push(case_line(&mut rng, "signed-zeros", "ties", &z, "ACGTACGTNNACGT"));
    // forty flat rows: every consensus cell rounds up, sum far above 255
    let mut flat = vec![];
    for i in 0..40 {
        flat.push([0.0f32, 0.1 + (i as f32) * 0.001, 0.05, 0.02, f32::NEG_INFINITY]);
    }
    let cons: String = std::iter::repeat('C').take(40).collect();
    out.push(case_line(&mut rng, "flat40", "flat", &flat, &format!("{}A{}", cons, cons)));
    // finite wildcard column below the row minimum (windows with N score below min_score():
    // their byte image must saturate to 0) and above it (the N cell must be rounded up)
    let wb = vec![[2.0f32, -3.0, -3.0, -3.0, -5.0], [-3.0, 2.0, -3.0, -3.0, -5.0], [-3.0, -3.0, -3.0, 2.0, -4.0], [-3.0, -3.0, 2.0, -3.0, -3.5]];
    out.push(case_line(&mut rng, "wild-below-min", "finite", &wb, "ACGTTTACNTGGACGNNCGTNNNNACGT"));
    let wa = vec![[2.0f32, -3.0, -3.0, -3.0, 0.0], [-3.0, 2.0, -3.0, -3.0, 0.0], [-3.0, -3.0, -3.0, 2.0, 0.0], [-3.0, -3.0, 2.0, -3.0, 0.0]];
    out.push(case_line(&mut rng, "wild-above-min", "finite", &wa, "ACGTTTACNTGGACGNNCGTNNNNACGTANGTACNT"));
    // sequence shorter than the motif, sequence of exactly the motif length
    out.push(case_line(&mut rng, "short", "counts", &rows, "GTTGACCTTATCAA"));
    out.push(case_line(&mut rng, "exact", "counts", &rows, "GTTGACCTTATCAAC"));
    out
}

/// Round-3 corpus (`disc corpus3` -> corpus/C08/round3.txt): CpG-like pair matrices (seeded/C08/1 and /5), tiny ranges
/// and subnormal factors (seeded/C08/6), one huge cell, and histories on one reused score buffer.
fn corpus3_cases() -> Vec<String> {
    let mut rng = Rng::new(9);
    let mut out = vec![];
    let ninf = f32::NEG_INFINITY;
    let h_all = "G.0.0.F;G.1.2.F;Z.255;G.0.1.F;G.0.0.F|A.0.2.F;Z.255;A.0.4.F;A.2.1.F;A.0.0.F|a.3.2.F;g.0.1.0:1;R.7.5;Z.255;s.0.4.F;a.0.0.F|S.0.2.F;A.0.0.0:1;G.0.3.F;a.0.0.F";
    // two rows, both with range 4: cells 128 + 128 = 256 on the consensus word "CG"
    let cpg2 = vec![[-2.0f32, 2.0, -2.0, -2.0, ninf], [-2.0, -2.0, -2.0, 2.0, ninf]];
    out.push(format!("{} hist={}", case_line(&mut rng, "cpg-2rows", "cpg", &cpg2, "ATGTCCCCGAACGATACCCCGAGCCCATCGCGCGNAACGCGAGCCCAT"), h_all));
    // the pair on an even index inside a wider motif whose other rows are constant
    let c = [0.25f32, 0.25, 0.25, 0.25, ninf];
    let cpg6 = vec![c, c, cpg2[0], cpg2[1], c, c];
    out.push(format!("{} hist={}", case_line(&mut rng, "cpg-even-pair", "cpg", &cpg6, "AACGTTAACGTTTTCGAAACGNACGTACGCGCGTTAACGAA"), h_all));
    // ... on an odd index, other rows almost flat (range below 1/255 of the total)
    let w = [0.25f32, 0.2501, 0.25, 0.2502, ninf];
    let cpg5 = vec![w, cpg2[0], cpg2[1], w, w];
    out.push(format!("{} hist={}", case_line(&mut rng, "cpg-odd-pair", "cpg", &cpg5, "ACGTTACGTTTCGAAACGNACGTACGCGCGTTACGAAACGAT"), h_all));
    // three rows 86 + 85 + 85: sums of two stay below 256, of three reach 256
    let t3 = vec![[-1.0f32, 1.01, -1.0, -1.0, ninf], [-1.0, -1.0, -1.0, 1.0, ninf], [1.0, -1.0, -1.0, -1.0, ninf]];
    out.push(format!("{} hist={}", case_line(&mut rng, "three-rows", "cpg", &t3, "CGACGACGAACGATTCGACGANCGACGA"), h_all));
    // tiny ranges: the README-like matrix scaled by 2^-20 (range below 255 * f32::EPSILON), 2^-40, 2^-120 and 2^-130
    // (SUBNORMAL factor), 2^-146 (range of a few subnormal steps: factor rounds to 0 or to the smallest subnormal)
    let base = vec![[-3.5f32, 1.25, -0.75, -2.0, ninf], [1.5, -2.25, -1.0, 0.5, ninf], [-1.0, -0.5, 1.75, -3.0, ninf], [0.25, 0.75, -2.5, 1.0, ninf]];
    for e in [20i32, 40, 120, 130, 146] {
        let sc = 2f64.powi(-e);
        let rows: Vec<[f32; 5]> = base.iter().map(|r| {
            let mut q = [0f32; 5];
            for j in 0..4 { q[j] = (r[j] as f64 * sc) as f32; }
            q[4] = ninf;
            q
        }).collect();
        out.push(format!("{} hist={}", case_line(&mut rng, &format!("tiny-2^-{}", e), "tiny", &rows, "CATGCATCCATGAACATGNCATGTTTCATG"), h_all));
    }
    // cells a few ulps apart around 1.0 (range 3 * f32::EPSILON: ill conditioned)
    let u = |k: u32| f32::from_bits(1.0f32.to_bits() + k);
    let ulps = vec![[u(0), u(1), u(2), u(3), ninf], [u(3), u(0), u(1), u(0), ninf], [u(1), u(1), u(0), u(2), ninf]];
    out.push(case_line(&mut rng, "tiny-ulps", "tiny", &ulps, "GAAGCAACGTGAAGAATTTGAC"));
    // one huge cell
    for (name, v) in [("huge-1e30", 1.0e30f32), ("huge-3e38", 3.0e38), ("huge-neg-1e38", -1.0e38)] {
        let mut rows = base.clone();
        rows[1][2] = v;
        out.push(format!("{} hist={}", case_line(&mut rng, name, "hugecell", &rows, "CATGCTTCCATGAACTTGNCATGTTTCATG"), h_all));
    }
    // constant rows mixed with one informative row; all rows constant but different
    let c1 = vec![[1.0f32, 1.0, 1.0, 1.0, ninf], [-2.0, 3.0, 0.5, 0.0, ninf], [0.5, 0.5, 0.5, 0.5, 0.5]];
    out.push(format!("{} hist={}", case_line(&mut rng, "constant-rows-mixed", "ties", &c1, "ACGTNACGTCCCCACGT"), h_all));
    let c2 = vec![[1.0f32, 1.0, 1.0, 1.0, ninf], [-2.0, -2.0, -2.0, -2.0, 7.0], [0.5, 0.5, 0.5, 0.5, 0.25]];
    out.push(format!("{} hist={}", case_line(&mut rng, "constant-rows-all", "constant", &c2, "ACGTNACGTCCCCACGTNNNA"), h_all));
    out
}

fn main() {
    let args = parse_args();
    match args.cmd.as_str() {
        "gen" => {
            silence_panics();
            let mut rng = Rng::new(args.seed);
            for id in 0..args.n {
                println!("{}", gen_case(&mut rng, id, &args.tier));
            }
        }
        "corpus" => {
            silence_panics();
            for l in corpus_cases() {
                println!("{}", l);
            }
        }
        "corpus3" => {
            silence_panics();
            // every case with histories also gets two on the 16-column layout (generic / SSE2 pipelines)
            let h16 = "G.0.0.F;S.1.2.F;Z.255;G.0.4.F;S.0.0.F|S.3.2.F;G.0.1.0:1;R.7.5;Z.255;G.0.0.F";
            for l in corpus3_cases() {
                if l.contains(" hist=") {
                    println!("{} hist16={}", l, h16);
                } else {
                    println!("{}", l);
                }
            }
        }
        "run" => {
            silence_panics();
            for line in stdin_lines() {
                let (_id, f) = fields(&line);
                let obs = no_panic(|| run_case(&f)).unwrap_or_else(|| "HARNESS-PANIC".to_string());
                println!("{} => {}", line, obs);
            }
        }
        _ => {
            eprintln!("usage: disc gen --seed S --n N [--tier t] | disc run < inputs");
            std::process::exit(2);
        }
    }
}
