//! C16 harness: traces of the Gibbs sampler (`lightmotif::sampler`).
//!
//! `sampler gen --seed S --n N [--tier t]` prints input lines
//!     <id> abc=dna|protein w=<width> mode=oops|zoops api=builder|new seeds=<n|-> inertia=<n|->
//!          patience=<n|-> ord=0|1 rng=<u64> steps=<n> arm=default|generic|sse2|avx2 wrap=<rows>
//!          [src=text|matrix|sample pads=<text,text,..> sseed=<u64>] seqs=<text,text,...>
//! `sampler run` reads input lines on stdin and prints them followed by
//!     ` => K=<k>|cnt=<c0,..,cK-1/...>|sym=<i,i,../...>|raw=<cells,cells,..>|rerun=<same|diffN>|wts=<ok|badSTEP:..>|pssm=<ok|badSTEP>|<record>|<record>...`
//! where
//!   cnt   = `SymbolCount::count_symbols` of every striped sequence (what `SamplerData::new` caches),
//!   sym   = the symbol indices read back through `StripedSequence::index` (0..len),
//!   raw   = all cells of the sequence rows of every striped sequence in linear order (padding included),
//!   rerun = `same` when a second run of the same configuration printed the same trace,
//!   wts   = `ok` when, at every step, scoring the hold-out with the iteration's PSSM yields exactly
//!           len - width + 1 scores through `StripedScores::iter` (what `update_holdout` turns into weights),
//!   pssm  = `ok` when every `Iteration.pssm` equals (bit for bit) `counts.to_freq(0.1).into_scoring(bg)` with
//!           bg = `Background::from_counts` of the symbol counts outside the windows of the sequences that
//!           were active before the call, the hold-out excluded (recomputed here from the data set),
//!   record = `I;<state>`               after construction
//!          | `S;z;step;itn;itcounts;<state>[;r=..][;p=..][;w=..][;e=..][;q=..;f=..]`  after every `next()`
//!            that returned `Some`; the optional fields (floating-point details, first `fl` calls) are
//!            described where they are printed
//!          | `E`                       `next()` returned `None` (converged)
//!          | `P;at=<file>;msg=<message>;rw=<words>`  construction or `next()` panicked (ends the trace):
//!            base name of the source file and message of the panic (non-alphanumerics replaced by `_`),
//!            the words the generator handed out before the panic
//!   `rw=` (on `I`, `S` and `P` records) lists every word the generator handed out during the construction /
//!   the call, in order, as `<width>:<value>` (64 = next_u64, 32 = next_u32), `-` when none.
//!   state = `n;cm;bg;active;astarts;starts` with
//!     n       = count_matrix().sequence_count()
//!     cm      = cells of count_matrix(), one base-36 digit per cell (`(v)` when v >= 36), rows joined by `/`
//!     bg      = background().frequencies() as f32 bit patterns, or `P` when `background()` panics
//!     active  = active_sequences(), astarts = active_starts(), starts = verif_starts()
//!     (empty lists are printed as `-`).

use std::str::FromStr;

use lightmotif::abc::{Alphabet, Background, Dna, Protein, Symbol};
use lightmotif::dense::{DefaultColumns, DenseMatrix};
use lightmotif::pli::dispatch::Dispatch;
use lightmotif::pwm::CountMatrix;
use lightmotif::sampler::{Sampler, SamplerBuilder, SamplerData, SamplerMode};
use lightmotif::seq::{EncodedSequence, StripedSequence, SymbolCount};
use generic_array::GenericArray;
use lmh::*;
use rand::rngs::StdRng;
use rand::{RngCore, SeedableRng};
use std::cell::RefCell;
use std::rc::Rc;
use std::collections::HashMap;
use typenum::Unsigned;

fn list(xs: &[usize]) -> String {
    if xs.is_empty() {
        "-".to_string()
    } else {
        xs.iter().map(|x| x.to_string()).collect::<Vec<_>>().join(",")
    }
}

fn cell36(v: u32) -> String {
    if v < 36 {
        std::char::from_digit(v, 36).unwrap().to_string()
    } else {
        format!("({})", v)
    }
}

fn show_cm<A: Alphabet>(cm: &CountMatrix<A>) -> String {
    let m = cm.matrix();
    if m.rows() == 0 {
        return "-".to_string();
    }
    (0..m.rows())
        .map(|j| (0..m.columns()).map(|k| cell36(m[j][k])).collect::<String>())
        .collect::<Vec<_>>()
        .join("/")
}

fn opt(f: &HashMap<String, String>, k: &str) -> Option<usize> {
    match f.get(k).map(|s| s.as_str()) {
        None | Some("-") => None,
        Some(s) => Some(s.parse().unwrap()),
    }
}


/// StdRng that records every word it hands out (the sampler is generic in its generator): the last
/// u64 of a call of next() is the one `WeightedIndex::sample` turned into the chosen weight.
struct LogRng {
    inner: StdRng,
    log: Rc<RefCell<Vec<(u8, u64)>>>,
}

impl RngCore for LogRng {
    fn next_u32(&mut self) -> u32 {
        let v = self.inner.next_u32();
        self.log.borrow_mut().push((32, v as u64));
        v
    }
    fn next_u64(&mut self) -> u64 {
        let v = self.inner.next_u64();
        self.log.borrow_mut().push((64, v));
        v
    }
    fn fill_bytes(&mut self, dest: &mut [u8]) {
        self.inner.fill_bytes(dest);
        self.log.borrow_mut().push((8, dest.len() as u64));
    }
    fn try_fill_bytes(&mut self, dest: &mut [u8]) -> Result<(), rand::Error> {
        self.fill_bytes(dest);
        Ok(())
    }
}

/// rw= : every word the generator handed out, in order, tagged with the width asked for
/// (`64:<u64>` = next_u64, `32:<u32>` = next_u32, `8:<n>` = fill_bytes of n bytes), `-` when none.
fn show_words(words: &[(u8, u64)]) -> String {
    if words.is_empty() {
        "-".to_string()
    } else {
        words.iter().map(|w| format!("{}:{}", w.0, w.1)).collect::<Vec<_>>().join(",")
    }
}

thread_local! {
    /// file (base name) and message of the last panic on this thread, recorded by the panic hook
    static LAST_PANIC: RefCell<(String, String)> = RefCell::new((String::new(), String::new()));
}

fn sanitize(s: &str, n: usize) -> String {
    s.chars().take(n).map(|c| if c.is_ascii_alphanumeric() || c == '.' { c } else { '_' }).collect()
}

/// Panic messages stay silenced, but the source file and the message of the last panic are kept:
/// a `P` record carries them (`at=<file>;msg=<message>`) so that the driver can require that the
/// model panics at the SAME documented site.
fn record_panics() {
    std::panic::set_hook(Box::new(|info| {
        let file = info
            .location()
            .map(|l| l.file().rsplit(|c| c == '/' || c == '\\').next().unwrap_or("").to_string())
            .unwrap_or_default();
        let msg = if let Some(s) = info.payload().downcast_ref::<&str>() {
            s.to_string()
        } else if let Some(s) = info.payload().downcast_ref::<String>() {
            s.clone()
        } else {
            "?".to_string()
        };
        LAST_PANIC.with(|p| *p.borrow_mut() = (sanitize(&file, 40), sanitize(&msg, 70)));
    }));
}

fn panic_record(words: &[(u8, u64)]) -> String {
    let (file, msg) = LAST_PANIC.with(|p| p.borrow().clone());
    format!("P;at={};msg={};rw={}", file, msg, show_words(words))
}

fn bits32(m: &DenseMatrix<f32, impl generic_array::ArrayLength>) -> String {
    (0..m.rows())
        .flat_map(|r| (0..m.columns()).map(move |k| (r, k)))
        .map(|(r, k)| m[r][k].to_bits().to_string())
        .collect::<Vec<_>>()
        .join(",")
}

fn pow2_bits32(m: &DenseMatrix<f32, impl generic_array::ArrayLength>) -> String {
    (0..m.rows())
        .flat_map(|r| (0..m.columns()).map(move |k| (r, k)))
        .map(|(r, k)| 2f32.powf(m[r][k]).to_bits().to_string())
        .collect::<Vec<_>>()
        .join(",")
}

// ---------------------------------------------------------------- data sets
//
// src=text   : text -> EncodedSequence -> to_striped()  (unused trailing cells hold the default symbol)
// src=matrix : StripedSequence::new(matrix, len) from a hand-filled DenseMatrix: the logical sequence
//              (seqs=) is written in linear order (symbol i at row i mod R, column i div R), the
//              remaining R*C - len cells are filled with the symbols of pads= (mostly NOT the wildcard)
// src=sample : StripedSequence::sample(StdRng::seed_from_u64(sseed + i), background(sseed), len): every
//              cell of every row is random, padding included; `gen` runs the same call and writes what
//              it produced into seqs= / pads=, `run` prints the raw cells (raw=) for the driver to compare.

/// The striped matrix of `text` followed by `pad` in linear order; (text.len() + pad.len()) must be R * C.
fn build_matrix<A: Alphabet>(text: &str, pad: &str) -> StripedSequence<A> {
    let c = <DefaultColumns as Unsigned>::USIZE;
    let all: Vec<char> = text.chars().chain(pad.chars()).collect();
    assert!(all.len() % c == 0, "matrix cells do not fill the rows");
    let rows = all.len() / c;
    let mut m = DenseMatrix::<A::Symbol, DefaultColumns>::new(rows);
    for (i, ch) in all.iter().enumerate() {
        m[i % rows][i / rows] = A::Symbol::from_char(*ch).unwrap();
    }
    StripedSequence::<A>::new(m, text.len()).unwrap()
}

/// The background handed to `StripedSequence::sample`: positive counts derived from the seed.
fn sample_background<A: Alphabet>(sseed: u64) -> Background<A> {
    let mut counts = GenericArray::<usize, A::K>::default();
    let mut x = sseed | 1;
    for k in 0..counts.len() {
        x = x.wrapping_mul(6364136223846793005).wrapping_add(1442695040888963407);
        // the last symbol is the wildcard: kept rare
        counts[k] = if k + 1 == counts.len() { 1 } else { 3 + ((x >> 33) % 9) as usize };
    }
    Background::<A>::from_counts(&counts).unwrap()
}

fn sample_striped<A: Alphabet>(sseed: u64, i: usize, len: usize) -> StripedSequence<A> {
    StripedSequence::<A>::sample(StdRng::seed_from_u64(sseed.wrapping_add(i as u64)), sample_background::<A>(sseed), len)
}

/// All cells of the sequence rows (wrap rows excluded) in linear order, as letters.
fn raw_cells<A: Alphabet>(s: &StripedSequence<A>) -> String {
    let rows = s.matrix().rows() - s.wrap();
    let c = s.matrix().columns();
    (0..rows * c).map(|i| s.matrix()[i % rows][i / rows].as_char()).collect()
}

/// (logical text, padding text) of what `StripedSequence::sample` produces for the given lengths.
fn sampled_texts(abc: &str, sseed: u64, lens: &[usize]) -> Vec<(String, String)> {
    lens.iter()
        .enumerate()
        .map(|(i, &l)| {
            let raw = if abc == "protein" {
                raw_cells(&sample_striped::<Protein>(sseed, i, l))
            } else {
                raw_cells(&sample_striped::<Dna>(sseed, i, l))
            };
            (raw[..l].to_string(), raw[l..].to_string())
        })
        .collect()
}

macro_rules! impl_run {
    ($name:ident, $abc:ty) => {
        /// One complete run of a configuration: preliminary observations and the trace.
        fn $name(f: &HashMap<String, String>) -> (String, Vec<String>, String, String) {
            type A = $abc;
            let width: usize = f["w"].parse().unwrap();
            let wrap: usize = f["wrap"].parse().unwrap();
            let steps: usize = f["steps"].parse().unwrap();
            let seed: u64 = f["rng"].parse().unwrap();
            let texts: Vec<&str> = if f["seqs"].is_empty() || f["seqs"] == "-" {
                vec![]
            } else {
                f["seqs"].split(',').map(|s| if s == "." { "" } else { s }).collect()
            };
            lightmotif::pli::verif::force_backend(match f["arm"].as_str() {
                "generic" => Some(Dispatch::Generic),
                "sse2" => Some(Dispatch::Sse2),
                "avx2" => Some(Dispatch::Avx2),
                _ => None,
            });
            // data set: encode, stripe, add wrap rows
            let prep = no_panic(|| {
                let src = f.get("src").map(|s| s.as_str()).unwrap_or("text");
                let pads: Vec<&str> = match f.get("pads").map(|s| s.as_str()) {
                    None | Some("-") | Some("") => vec![],
                    Some(p) => p.split(',').map(|s| if s == "." { "" } else { s }).collect(),
                };
                let sseed: u64 = f.get("sseed").map(|s| s.parse().unwrap()).unwrap_or(0);
                let striped: Vec<StripedSequence<A>> = texts
                    .iter()
                    .enumerate()
                    .map(|(i, t)| {
                        let mut s: StripedSequence<A> = match src {
                            "matrix" => build_matrix::<A>(t, pads[i]),
                            "sample" => sample_striped::<A>(sseed, i, t.len()),
                            _ => EncodedSequence::<A>::from_str(t).unwrap().to_striped(),
                        };
                        s.configure_wrap(wrap);
                        s
                    })
                    .collect();
                let raw = striped.iter().map(|s| raw_cells::<A>(s)).collect::<Vec<_>>().join(",");
                let cnt = striped
                    .iter()
                    .map(|s| {
                        let c = SymbolCount::<A>::count_symbols(s);
                        c.iter().map(|x| x.to_string()).collect::<Vec<_>>().join(",")
                    })
                    .collect::<Vec<_>>()
                    .join("/");
                let sym = striped
                    .iter()
                    .map(|s| {
                        if s.len() == 0 {
                            "-".to_string()
                        } else {
                            (0..s.len())
                                .map(|k| s[k].as_index().to_string())
                                .collect::<Vec<_>>()
                                .join(",")
                        }
                    })
                    .collect::<Vec<_>>()
                    .join("/");
                (striped, cnt, sym, raw)
            });
            let (striped, cnt, sym, raw) = match prep {
                Some(x) => x,
                None => {
                    lightmotif::pli::verif::force_backend(None);
                    return ("cnt=P|sym=P|raw=P".to_string(), vec!["P".to_string()], "ok".to_string(), "ok".to_string());
                }
            };
            let pre = format!(
                "cnt={}|sym={}|raw={}",
                if cnt.is_empty() { "-" } else { &cnt },
                if sym.is_empty() { "-" } else { &sym },
                if raw.is_empty() { "-" } else { &raw }
            );
            let copies = striped.clone();
            let data = SamplerData::new(striped);
            let mut trace: Vec<String> = vec![];
            // the weights of update_holdout: one per valid start position of the hold-out
            let mut wts = "ok".to_string();
            // Iteration.pssm: the scoring matrix of the alignment without the hold-out, i.e.
            // counts.to_freq(0.1).into_scoring(background of the other active sequences outside their windows)
            let mut pssm_ok = "ok".to_string();

            fn state<R: rand::Rng>(s: &Sampler<'_, R, A, Vec<StripedSequence<A>>>) -> String {
                let cm = no_panic(|| s.count_matrix());
                let (n, cms) = match &cm {
                    Some(cm) => (cm.sequence_count().to_string(), show_cm(cm)),
                    None => ("P".to_string(), "P".to_string()),
                };
                let bg = match no_panic(|| s.background()) {
                    Some(b) => b
                        .frequencies()
                        .iter()
                        .map(|x| x.to_bits().to_string())
                        .collect::<Vec<_>>()
                        .join(","),
                    None => "P".to_string(),
                };
                format!(
                    "{};{};{};{};{};{}",
                    n,
                    cms,
                    bg,
                    list(&s.active_sequences()),
                    list(&s.active_starts()),
                    list(s.verif_starts())
                )
            }

            let rlog: Rc<RefCell<Vec<(u8, u64)>>> = Rc::new(RefCell::new(vec![]));
            let rng = LogRng { inner: StdRng::seed_from_u64(seed), log: rlog.clone() };
            // number of calls of next() reported with the floating-point details
            let fl: usize = f.get("fl").map(|s| s.parse().unwrap()).unwrap_or(40);
            let built = no_panic(|| {
                if f["api"] == "new" {
                    Sampler::new(&data, width, rng)
                } else {
                    let mut b = SamplerBuilder::new(&data);
                    b.width(width);
                    b.mode(if f["mode"] == "zoops" { SamplerMode::Zoops } else { SamplerMode::Oops });
                    let ord = f.get("ord").map(|s| s == "1").unwrap_or(false);
                    if ord {
                        if let Some(i) = opt(f, "inertia") {
                            b.inertia(i);
                        }
                    }
                    if let Some(s) = opt(f, "seeds") {
                        b.seeds(s);
                    }
                    if !ord {
                        if let Some(i) = opt(f, "inertia") {
                            b.inertia(i);
                        }
                    }
                    if let Some(p) = opt(f, "patience") {
                        b.patience(p);
                    }
                    b.sample(rng)
                }
            });
            let mut s = match built {
                Some(s) => s,
                None => {
                    lightmotif::pli::verif::force_backend(None);
                    let rec = panic_record(&rlog.borrow());
                    return (pre, vec![rec], wts, pssm_ok);
                }
            };
            // rw= : the words consumed by the construction (initial starts, then index::sample in Zoops mode)
            trace.push(format!("I;{};rw={}", state(&s), show_words(&rlog.borrow())));
            for _ in 0..steps {
                let before_active = s.active_sequences();
                let before_starts = s.verif_starts().to_vec();
                rlog.borrow_mut().clear();
                match no_panic(|| s.next()) {
                    None => {
                        trace.push(panic_record(&rlog.borrow()));
                        break;
                    }
                    Some(None) => {
                        trace.push("E".to_string());
                        break;
                    }
                    Some(Some(it)) => {
                        if wts == "ok" && it.z < copies.len() {
                            // what update_holdout iterates over: the scores of the hold-out under the
                            // iteration's PSSM (same dispatcher arm), bounded by max_index
                            let seq = &copies[it.z];
                            let expected = (seq.len() + 1).saturating_sub(width);
                            match no_panic(|| {
                                let sc = it.pssm.score(seq);
                                (sc.iter().count(), sc.max_index())
                            }) {
                                Some((n, m)) if n == expected && m == expected => {}
                                Some((n, m)) => wts = format!("bad{}:{}:{}/{}", it.step, n, m, expected),
                                None => wts = format!("bad{}:P", it.step),
                            }
                        }
                        if pssm_ok == "ok" && it.z < copies.len() && before_starts.len() == copies.len() {
                            let z = it.z;
                            let verdict = no_panic(|| {
                                let mut bgc = GenericArray::<usize, <A as Alphabet>::K>::default();
                                for &i in before_active.iter().filter(|&&i| i != z && i < copies.len()) {
                                    let c = SymbolCount::<A>::count_symbols(&copies[i]);
                                    for k in 0..c.len() {
                                        bgc[k] += c[k];
                                    }
                                    for j in before_starts[i]..before_starts[i] + width {
                                        bgc[copies[i][j].as_index()] -= 1;
                                    }
                                }
                                match Background::<A>::from_counts(&bgc) {
                                    Err(_) => true, // the sampler itself would have panicked
                                    Ok(bg) => {
                                        let expect = it.counts.to_freq(0.1).into_scoring(bg);
                                        let (a, b) = (expect.matrix(), it.pssm.matrix());
                                        a.rows() == b.rows()
                                            && (0..a.rows()).all(|r| {
                                                (0..a.columns()).all(|k| a[r][k].to_bits() == b[r][k].to_bits())
                                            })
                                    }
                                }
                            });
                            match verdict {
                                Some(true) => {}
                                Some(false) => pssm_ok = format!("bad{}", it.step),
                                None => pssm_ok = format!("bad{}:P", it.step),
                            }
                        }
                        // r= : the words the generator handed out during the call (count:last u64)
                        let words = rlog.borrow();
                        let last64 = words.iter().rev().find(|w| w.0 == 64).map(|w| w.1.to_string());
                        let mut extra = format!(
                            ";r={}:{};rw={}",
                            words.len(),
                            last64.unwrap_or_else(|| "-".to_string()),
                            show_words(&words)
                        );
                        drop(words);
                        if it.step < fl && it.z < copies.len() {
                            let z = it.z;
                            // p= : cells of Iteration.pssm (the logarithm oracle of the model's PSSM)
                            extra.push_str(&format!(";p={}", bits32(it.pssm.matrix())));
                            // w= : 2f64.powf(x as f64 / 1.0) of the scores of the hold-out (the exp2 oracle)
                            if let Some(w) = no_panic(|| {
                                it.pssm
                                    .score(&copies[z])
                                    .iter()
                                    .map(|&x| 2f64.powf(x as f64 / 1.0).to_bits().to_string())
                                    .collect::<Vec<_>>()
                                    .join(",")
                            }) {
                                extra.push_str(&format!(";w={}", w));
                            }
                            // Zoops trial of an inactive sequence: e= 2f32.powf of the cells of the old PSSM;
                            // q= / f= cells and 2f32.powf of the PSSM with z included at its new start
                            // (rebuilt here from the data set: the sampler does not keep it)
                            let trial = f["mode"] == "zoops" && f["api"] != "new" && !before_active.contains(&z);
                            if trial {
                                let after_starts = s.verif_starts().to_vec();
                                let built = no_panic(|| {
                                    let mut bgc = GenericArray::<usize, <A as Alphabet>::K>::default();
                                    let mut cm = DenseMatrix::<u32, <A as Alphabet>::K>::new(width);
                                    let members: Vec<usize> =
                                        before_active.iter().cloned().filter(|&i| i != z).chain(std::iter::once(z)).collect();
                                    for &i in members.iter() {
                                        let c = SymbolCount::<A>::count_symbols(&copies[i]);
                                        for k in 0..c.len() {
                                            bgc[k] += c[k];
                                        }
                                        for (j, p) in (after_starts[i]..after_starts[i] + width).enumerate() {
                                            let x = copies[i][p].as_index();
                                            bgc[x] -= 1;
                                            cm[j][x] += 1;
                                        }
                                    }
                                    let bg = Background::<A>::from_counts(&bgc).unwrap();
                                    CountMatrix::<A>::new(cm).unwrap().to_freq(0.1).into_scoring(bg)
                                });
                                extra.push_str(&format!(";e={}", pow2_bits32(it.pssm.matrix())));
                                if let Some(np) = built {
                                    extra.push_str(&format!(";q={};f={}", bits32(np.matrix()), pow2_bits32(np.matrix())));
                                }
                            }
                        }
                        trace.push(format!(
                            "S;{};{};{};{};{}{}",
                            it.z,
                            it.step,
                            it.counts.sequence_count(),
                            show_cm(&it.counts),
                            state(&s),
                            extra
                        ));
                    }
                }
            }
            lightmotif::pli::verif::force_backend(None);
            (pre, trace, wts, pssm_ok)
        }
    };
}

impl_run!(run_dna, Dna);
impl_run!(run_protein, Protein);

fn run_case(f: &HashMap<String, String>) -> String {
    let go = |f: &HashMap<String, String>| {
        if f["abc"] == "protein" {
            (<Protein as Alphabet>::as_str().len(), run_protein(f))
        } else {
            (<Dna as Alphabet>::as_str().len(), run_dna(f))
        }
    };
    let (k, (pre1, t1, wts, pssm)) = go(f);
    let (_, (pre2, t2, _, _)) = go(f);
    let rerun = if pre1 == pre2 && t1 == t2 {
        "same".to_string()
    } else {
        let d = t1.iter().zip(t2.iter()).position(|(a, b)| a != b).unwrap_or(t1.len().min(t2.len()));
        format!("diff{}", d)
    };
    format!("K={}|{}|rerun={}|wts={}|pssm={}|{}", k, pre1, rerun, wts, pssm, t1.join("|"))
}

/// What happened in a run: calls of next() that changed a start / enlarged the active set / total.
fn annotate(f: &HashMap<String, String>) -> String {
    let (_pre, trace, _wts, _pssm) = if f["abc"] == "protein" { run_protein(f) } else { run_dna(f) };
    let mut moved = 0usize;
    let mut recruited = 0usize;
    let mut calls = 0usize;
    let mut prev: Option<(String, String)> = None; // (active, starts)
    for r in &trace {
        let p: Vec<&str> = r.split(';').collect();
        let cur = match p[0] {
            "I" if p.len() >= 7 => (p[4].to_string(), p[6].to_string()),
            "S" if p.len() >= 11 => (p[8].to_string(), p[10].to_string()),
            _ => continue,
        };
        if p[0] == "S" {
            calls += 1;
            if let Some((pa, ps)) = &prev {
                if *ps != cur.1 {
                    moved += 1;
                }
                let old: Vec<&str> = pa.split(',').collect();
                if cur.0 != "-" && cur.0.split(',').any(|i| !old.contains(&i)) {
                    recruited += 1;
                }
            }
        }
        prev = Some(cur);
    }
    format!("{}:{}:{}", moved, recruited, calls)
}

// ------------------------------------------------------------------ generator

fn gen_seq(rng: &mut Rng, abc: &str, len: usize, style: u64) -> String {
    let letters: &[u8] = if abc == "protein" { b"ACDEFGHIKLMNPQRSTVWYX" } else { b"ACTGN" };
    let k = letters.len();
    let mut out = String::with_capacity(len);
    // style 0: uniform, 1: biased towards two symbols, 2: low complexity (one symbol, few others)
    let a = rng.below((k - 1) as u64) as usize;
    let b = rng.below((k - 1) as u64) as usize;
    for _ in 0..len {
        let c = if rng.chance(1, 30) {
            k - 1 // wildcard
        } else {
            match style {
                0 => rng.below((k - 1) as u64) as usize,
                1 => {
                    if rng.chance(2, 3) {
                        if rng.chance(1, 2) {
                            a
                        } else {
                            b
                        }
                    } else {
                        rng.below((k - 1) as u64) as usize
                    }
                }
                _ => {
                    if rng.chance(9, 10) {
                        a
                    } else {
                        rng.below((k - 1) as u64) as usize
                    }
                }
            }
        };
        out.push(letters[c] as char);
    }
    out
}

fn gen_case(rng: &mut Rng, id: usize, tier: &str) -> String {
    // one case in twelve is "big": up to 40 sequences of up to 200 symbols, width up to 20
    let big = rng.chance(1, 12);
    let abc = if rng.chance(3, if big { 4 } else { 5 }) { "dna" } else { "protein" };
    let w = 1 + rng.below(if big { 20 } else { 12 }) as usize;
    let n = if big { 13 + rng.below(28) as usize } else { 2 + rng.below(11) as usize };
    let maxlen: usize = if big { 200 } else { 80 };
    // lengths width..maxlen, all different where possible
    let mut lens: Vec<usize> = vec![];
    for _ in 0..n {
        let mut l;
        let mut tries = 0;
        loop {
            l = if rng.chance(1, 25) {
                w
            } else if rng.chance(1, 4) {
                w + 1 + rng.below(4) as usize
            } else {
                w + 1 + rng.below((maxlen - w) as u64) as usize
            };
            tries += 1;
            if !lens.contains(&l) || tries > 8 {
                break;
            }
        }
        lens.push(l.min(maxlen).max(w));
    }
    // one small case in fourteen has one LONG sequence (200..700 symbols: 7..22 striped rows, so that windows
    // lie inside one column, far from the wrap rows, and starts reach well beyond the first striped column)
    if !big && rng.chance(1, 14) {
        let i = rng.below(n as u64) as usize;
        lens[i] = 200 + rng.below(500) as usize;
    }
    // how the striped sequences are built: see "data sets" above
    let src = match rng.below(4) {
        0 => "matrix",
        1 => "sample",
        _ => "text",
    };
    let sseed = rng.next() >> 1;
    let ncol = <DefaultColumns as Unsigned>::USIZE;
    let planted = gen_seq(rng, abc, w, 0);
    let mut seqs: Vec<String> = lens
        .iter()
        .map(|&l| {
            let style = rng.below(4).min(2);
            let mut s = gen_seq(rng, abc, l, style);
            // plant a common word in most sequences so that zoops has something to recruit
            if rng.chance(2, 3) && l >= w {
                let p = rng.below((l - w + 1) as u64) as usize;
                s.replace_range(p..p + w, &planted);
            }
            // a RUN of wildcards (N / X) of length 1..w+2 in one sequence out of four: windows made of
            // wildcards only, wildcard counts in the motif rows, -inf wildcard cells elsewhere
            if rng.chance(1, 4) && l > 2 {
                let run = (1 + rng.below((w + 2) as u64) as usize).min(l - 1);
                let p = rng.below((l - run + 1) as u64) as usize;
                let wc = if abc == "protein" { "X" } else { "N" };
                s.replace_range(p..p + run, &wc.repeat(run));
            }
            s
        })
        .collect();
    let mut pads: Vec<String> = vec![];
    if src == "matrix" {
        // fill the rows (sometimes one row more than needed) with symbols that are mostly not the wildcard
        for t in &seqs {
            let rows = (t.len() + ncol - 1) / ncol + if rng.chance(1, 4) { 1 } else { 0 };
            let style = rng.below(3);
            pads.push(gen_seq(rng, abc, rows * ncol - t.len(), style));
        }
    } else if src == "sample" {
        let st = sampled_texts(abc, sseed, &lens);
        seqs = st.iter().map(|x| x.0.clone()).collect();
        pads = st.iter().map(|x| x.1.clone()).collect();
    }
    let pads_field = if pads.is_empty() {
        "-".to_string()
    } else {
        pads.iter().map(|p| if p.is_empty() { ".".to_string() } else { p.clone() }).collect::<Vec<_>>().join(",")
    };
    let zoops = rng.chance(11, 20);
    let (mode, api) = if zoops {
        ("zoops", "builder")
    } else if rng.chance(3, 10) {
        ("oops", "new")
    } else {
        ("oops", "builder")
    };
    let (seeds, inertia, patience, ord) = if zoops {
        let seeds = if rng.chance(1, 10) { n + rng.below(3) as usize } else { 2 + rng.below((n - 1) as u64) as usize };
        let inertia = if rng.chance(1, 8) { "-".to_string() } else { rng.below(12).to_string() };
        // small patience: convergence after a few fruitless trials; large: the run goes on recruiting
        let patience = if rng.chance(1, 6) {
            "-".to_string()
        } else if rng.chance(2, 5) {
            rng.below(25).to_string()
        } else {
            (200 + rng.below(1000)).to_string()
        };
        (seeds.to_string(), inertia, patience, rng.below(2))
    } else if api == "builder" && rng.chance(1, 3) {
        // parameters that oops must ignore
        (rng.below(4).to_string(), rng.below(5).to_string(), rng.below(5).to_string(), rng.below(2))
    } else {
        ("-".to_string(), "-".to_string(), "-".to_string(), 0)
    };
    // at least 300 calls of next() in every tier (hundreds of include / exclude updates)
    let steps = if tier == "thorough" { 300 + rng.below(301) } else { 300 + rng.below(101) };
    // number of calls of next() replayed with the floating-point model (PSSM, scores, weights, draw, Zoops test)
    let fl = if tier == "thorough" {
        if rng.chance(1, 8) { steps as usize } else { 40 }
    } else {
        20
    };
    let arm = match rng.below(10) {
        0 => "generic",
        1 => "sse2",
        2 => "avx2",
        _ => "default",
    };
    let wrap = w + *rng.pick(&[0usize, 0, 1, 5, 12]);
    format!(
        "{} abc={} w={} mode={} api={} seeds={} inertia={} patience={} ord={} rng={} steps={} arm={} wrap={} fl={} src={} pads={} sseed={} seqs={}",
        id,
        abc,
        w,
        mode,
        api,
        seeds,
        inertia,
        patience,
        ord,
        rng.next() >> 1,
        steps,
        arm,
        wrap,
        fl,
        src,
        pads_field,
        sseed,
        seqs.join(",")
    )
}

fn main() {
    let args = parse_args();
    match args.cmd.as_str() {
        "gen" => {
            // every generated case is run once here to annotate it with what happened
            // (nt=<calls that moved a start>:<calls that recruited a sequence>:<calls>); the
            // annotation is only used to count non-trivial cases, `run` ignores it
            silence_panics();
            let mut rng = Rng::new(args.seed);
            for id in 0..args.n {
                let line = gen_case(&mut rng, id, &args.tier);
                let (_id, f) = fields(&line);
                let nt = no_panic(|| annotate(&f)).unwrap_or_else(|| "P".to_string());
                println!("{} nt={}", line, nt);
            }
        }
        "run" => {
            silence_panics();
            record_panics();
            for line in stdin_lines() {
                let (_id, f) = fields(&line);
                let obs = run_case(&f);
                println!("{} => {}", line, obs);
            }
        }
        _ => {
            eprintln!("usage: sampler gen --seed S --n N [--tier t] | sampler run < inputs");
            std::process::exit(2);
        }
    }
}
