//! C05 harness: text -> symbol encoders of `lightmotif` on every backend.
//!
//! `encode gen --seed S --n N [--tier t]` prints input lines
//!     <id> kind=tab abc=<dna|protein>
//!     <id> kind=str abc=<dna|protein> dl=<d> hex=<bytes of the text, hex>
//! `encode run` reads input lines on stdin and prints them followed by ` => <obs>`.
//!
//! kind=str: every encoder entry point is called on the byte string:
//!   for P in generic, sse2, avx2, dispatch forced to Generic / Sse2 / Avx2:
//!     P.encode(s), P.encode_raw(s), P.encode_into(s, dst) with dst.len() = len + dl
//!   EncodedSequence::encode(s) with the native arm and each forced arm,
//!   EncodedSequence::from_str(s) (only when s is valid UTF-8), to_string() of the result.
//!   An outcome is `ok:<hex of as_index() of every symbol>`, `err:<code point>` or `panic`;
//!   the observation is `name=outcome` tokens; an outcome equal to the first one printed
//!   is abbreviated `=`.
//! kind=win (`so=<lo>:<hi> do=<lo>:<hi>`): `encode_into` on sub-slices of larger allocations,
//!   for every pipeline and every pair (so, do) of the two ranges:
//!     P.encode_into(&text[B + so .. B + so + len], &mut mem[B' + do .. B' + do + len + dl])
//!   where B, B' are the indices of a 64-byte aligned address inside the two allocations, so
//!   that so / do are the misalignments of the source / destination pointers; the source is
//!   surrounded by bytes outside the alphabet, the destination by guard symbols. The outcome is
//!   `ok:<hex of the destination window>`, `err:<code point>` or `panic`, followed by `!g<j>`
//!   when the element at index j (relative to the window start) outside the window (after a
//!   panic: anywhere) no longer holds its guard value. Per pipeline the distinct outcomes are
//!   printed as `w.<P>=<outcome>@<count>@<so>:<do>` (count of offset pairs, first pair showing
//!   it; an outcome equal to the first one printed on the line is abbreviated `=`); `r.<P>=<outcome>@<count>@<so>` likewise for P.encode_raw(&text[B + so ..][..len])
//!   (not called with `raw=0`: those cases only write into guarded buffers, so that an encoder
//!   writing past its slice is observed instead of corrupting the heap).
//! kind=tab: the symbol tables as the implementation reports them (from_ascii over all
//!   256 bytes, as_ascii/as_char/as_index over symbols(), as_str(), K, default symbol,
//!   from_char over a range of chars).

use lightmotif::abc::{Alphabet, Dna, Protein, Symbol};
use lightmotif::pli::dispatch::Dispatch;
use lightmotif::pli::{Encode, Pipeline};
use lightmotif::seq::EncodedSequence;
use lmh::*;
use std::str::FromStr;
use typenum::Unsigned;

fn hex(b: &[u8]) -> String {
    let mut s = String::with_capacity(2 * b.len());
    for x in b {
        s.push_str(&format!("{:02x}", x));
    }
    s
}

fn unhex(s: &str) -> Vec<u8> {
    (0..s.len() / 2)
        .map(|i| u8::from_str_radix(&s[2 * i..2 * i + 2], 16).unwrap())
        .collect()
}

fn idx<A: Alphabet>(syms: &[A::Symbol]) -> String {
    let v: Vec<u8> = syms
        .iter()
        .map(|s| {
            let i = s.as_index();
            if i > 255 {
                255
            } else {
                i as u8
            }
        })
        .collect();
    hex(&v)
}

fn outcome<A: Alphabet>(r: Option<Result<Vec<A::Symbol>, lightmotif::err::InvalidSymbol>>) -> String {
    match r {
        None => "panic".to_string(),
        Some(Ok(v)) => format!("ok:{}", idx::<A>(&v)),
        Some(Err(e)) => format!("err:{}", e.0 as u32),
    }
}

struct Obs {
    first: Option<String>,
    toks: Vec<String>,
}

impl Obs {
    fn push(&mut self, name: &str, o: String) {
        match &self.first {
            None => {
                self.first = Some(o.clone());
                self.toks.push(format!("{}={}", name, o));
            }
            Some(f) => {
                if *f == o {
                    self.toks.push(format!("{}==", name));
                } else {
                    self.toks.push(format!("{}={}", name, o));
                }
            }
        }
    }
}

fn three<A: Alphabet, P: Encode<A>>(obs: &mut Obs, name: &str, p: &P, s: &[u8], dl: i64) {
    // Encode::encode (EncodedSequence), Encode::encode_raw, Encode::encode_into
    let e = no_panic(|| p.encode(s).map(|es| {
        let v: &[A::Symbol] = es.as_ref();
        v.to_vec()
    }));
    obs.push(&format!("{}.e", name), outcome::<A>(e));
    let r = no_panic(|| p.encode_raw(s));
    obs.push(&format!("{}.r", name), outcome::<A>(r));
    let dlen = (s.len() as i64 + dl).max(0) as usize;
    let i = no_panic(|| {
        let mut dst = vec![A::Symbol::default(); dlen];
        p.encode_into(s, &mut dst).map(|_| dst)
    });
    obs.push(&format!("{}.i", name), outcome::<A>(i));
}

fn arms() -> Vec<(&'static str, Option<Dispatch>)> {
    vec![
        ("G", Some(Dispatch::Generic)),
        ("S", Some(Dispatch::Sse2)),
        ("A", Some(Dispatch::Avx2)),
    ]
}

fn run_str<A: Alphabet>(s: &[u8], dl: i64) -> String {
    let mut obs = Obs { first: None, toks: vec![] };
    let g = Pipeline::<A, _>::generic();
    three::<A, _>(&mut obs, "gen", &g, s, dl);
    match Pipeline::<A, _>::sse2() {
        Ok(p) => three::<A, _>(&mut obs, "sse2", &p, s, dl),
        Err(_) => obs.toks.push("sse2=unsupported".to_string()),
    }
    match Pipeline::<A, _>::avx2() {
        Ok(p) => three::<A, _>(&mut obs, "avx2", &p, s, dl),
        Err(_) => obs.toks.push("avx2=unsupported".to_string()),
    }
    let have_avx2 = std::is_x86_feature_detected!("avx2");
    for (n, arm) in arms() {
        if n == "A" && !have_avx2 {
            obs.toks.push("dA=unsupported".to_string());
            continue;
        }
        lightmotif::pli::verif::force_backend(arm);
        let p = Pipeline::<A, _>::dispatch();
        three::<A, _>(&mut obs, &format!("d{}", n), &p, s, dl);
        // EncodedSequence::encode through the forced arm
        let e = no_panic(|| {
            EncodedSequence::<A>::encode(s).map(|es| {
                let v: &[A::Symbol] = es.as_ref();
                v.to_vec()
            })
        });
        obs.push(&format!("enc{}", n), outcome::<A>(e));
        if let Ok(text) = std::str::from_utf8(s) {
            let f = no_panic(|| {
                EncodedSequence::<A>::from_str(text).map(|es| {
                    let v: &[A::Symbol] = es.as_ref();
                    v.to_vec()
                })
            });
            obs.push(&format!("fs{}", n), outcome::<A>(f));
        }
        lightmotif::pli::verif::force_backend(None);
    }
    // native CPU detection
    let e = no_panic(|| EncodedSequence::<A>::encode(s));
    match e {
        None => {
            obs.push("encN", "panic".to_string());
            obs.toks.push("ts=-".to_string());
        }
        Some(Err(err)) => {
            obs.push("encN", format!("err:{}", err.0 as u32));
            obs.toks.push("ts=-".to_string());
        }
        Some(Ok(es)) => {
            let v: &[A::Symbol] = es.as_ref();
            obs.push("encN", format!("ok:{}", idx::<A>(v)));
            match no_panic(|| es.to_string()) {
                Some(t) => obs.toks.push(format!("ts={}:", hex(t.as_bytes()))),
                None => obs.toks.push("ts=panic".to_string()),
            }
        }
    }
    if let Ok(text) = std::str::from_utf8(s) {
        let f = no_panic(|| {
            text.parse::<EncodedSequence<A>>().map(|es| {
                let v: &[A::Symbol] = es.as_ref();
                v.to_vec()
            })
        });
        obs.push("fsN", outcome::<A>(f));
    }
    obs.toks.join(" ")
}

// ------------------------------------------------------------------ sub-slices (kind=win)

#[derive(Clone, PartialEq, Eq)]
enum WOut {
    Ok(Vec<u8>),
    Err(u32),
    Panic,
}

fn wout_str(o: &WOut, guard: &Option<i64>) -> String {
    let mut t = match o {
        WOut::Ok(v) => format!("ok:{}", hex(v)),
        WOut::Err(c) => format!("err:{}", c),
        WOut::Panic => "panic".to_string(),
    };
    if let Some(j) = guard {
        t.push_str(&format!("!g{}", j));
    }
    t
}

/// Bytes around the source window: never a symbol of either alphabet.
fn pad_byte(j: usize) -> u8 {
    const PAD: [u8; 7] = [0x2e, 0x61, 0x00, 0xff, 0x40, 0x5b, 0x6e];
    PAD[j % 7]
}

const SLACK: usize = 64;

struct Agg {
    entries: Vec<(WOut, Option<i64>, usize, String)>,
}

impl Agg {
    fn add(&mut self, o: WOut, g: Option<i64>, at: String) {
        for e in self.entries.iter_mut() {
            if e.0 == o && e.1 == g {
                e.2 += 1;
                return;
            }
        }
        self.entries.push((o, g, 1, at));
    }
}

fn win_pipeline<A: Alphabet, P: Encode<A>>(
    obs: &mut Obs,
    name: &str,
    p: &P,
    s: &[u8],
    dl: i64,
    so_r: (usize, usize),
    do_r: (usize, usize),
    raw: bool,
) {
    let n = s.len();
    let m = (n as i64 + dl).max(0) as usize;
    let syms = A::symbols();
    let guard = |j: usize| syms[(j * 7 + 3) % syms.len()];
    // allocations with room for a 32-byte aligned base, the offset, the window and slack
    let mut text = vec![0u8; n + 4 * SLACK];
    let mut mem: Vec<A::Symbol> = vec![A::Symbol::default(); m + 4 * SLACK];
    assert_eq!(std::mem::size_of::<A::Symbol>(), 1);
    let tb = text.as_ptr().align_offset(64) + SLACK;
    let mb = (mem.as_ptr() as *const u8).align_offset(64) + SLACK;
    let mut agg = Agg { entries: vec![] };
    let mut agg_raw = Agg { entries: vec![] };
    for so in so_r.0..=so_r.1 {
        for (j, b) in text.iter_mut().enumerate() {
            *b = pad_byte(j);
        }
        text[tb + so..tb + so + n].copy_from_slice(s);
        if raw {
            let src = &text[tb + so..tb + so + n];
            let r = no_panic(|| p.encode_raw(src));
            let o = match r {
                None => WOut::Panic,
                Some(Err(e)) => WOut::Err(e.0 as u32),
                Some(Ok(v)) => WOut::Ok(v.iter().map(|x| x.as_index().min(255) as u8).collect()),
            };
            agg_raw.add(o, None, format!("{}", so));
        }
        for d in do_r.0..=do_r.1 {
            for (j, x) in mem.iter_mut().enumerate() {
                *x = guard(j);
            }
            let src = &text[tb + so..tb + so + n];
            let w0 = mb + d;
            let r = {
                let dst = &mut mem[w0..w0 + m];
                no_panic(|| p.encode_into(src, dst))
            };
            let o = match r {
                None => WOut::Panic,
                Some(Err(e)) => WOut::Err(e.0 as u32),
                Some(Ok(())) => WOut::Ok(mem[w0..w0 + m].iter().map(|x| x.as_index().min(255) as u8).collect()),
            };
            let whole = o == WOut::Panic;
            let mut g = None;
            for (j, x) in mem.iter().enumerate() {
                if (whole || j < w0 || j >= w0 + m) && *x != guard(j) {
                    g = Some(j as i64 - w0 as i64);
                    break;
                }
            }
            agg.add(o, g, format!("{}:{}", so, d));
        }
    }
    for (kind, a) in [("w", &agg), ("r", &agg_raw)] {
        for (o, g, c, at) in a.entries.iter() {
            let mut t = wout_str(o, g);
            match &obs.first {
                None => obs.first = Some(t.clone()),
                Some(f) => {
                    if *f == t {
                        t = "=".to_string();
                    }
                }
            }
            obs.toks.push(format!("{}.{}={}@{}@{}", kind, name, t, c, at));
        }
    }
}

fn run_win<A: Alphabet>(s: &[u8], dl: i64, so_r: (usize, usize), do_r: (usize, usize), raw: bool) -> String {
    let mut obs = Obs { first: None, toks: vec![] };
    let g = Pipeline::<A, _>::generic();
    win_pipeline::<A, _>(&mut obs, "gen", &g, s, dl, so_r, do_r, raw);
    match Pipeline::<A, _>::sse2() {
        Ok(p) => win_pipeline::<A, _>(&mut obs, "sse2", &p, s, dl, so_r, do_r, raw),
        Err(_) => obs.toks.push("w.sse2=unsupported".to_string()),
    }
    match Pipeline::<A, _>::avx2() {
        Ok(p) => win_pipeline::<A, _>(&mut obs, "avx2", &p, s, dl, so_r, do_r, raw),
        Err(_) => obs.toks.push("w.avx2=unsupported".to_string()),
    }
    let have_avx2 = std::is_x86_feature_detected!("avx2");
    for (n, arm) in arms() {
        if n == "A" && !have_avx2 {
            obs.toks.push("w.dA=unsupported".to_string());
            continue;
        }
        lightmotif::pli::verif::force_backend(arm);
        let p = Pipeline::<A, _>::dispatch();
        win_pipeline::<A, _>(&mut obs, &format!("d{}", n), &p, s, dl, so_r, do_r, raw);
        lightmotif::pli::verif::force_backend(None);
    }
    obs.toks.join(" ")
}

fn parse_range(s: Option<&String>) -> (usize, usize) {
    let s = match s {
        Some(s) => s.as_str(),
        None => return (0, 0),
    };
    let mut it = s.split(':');
    let lo: usize = it.next().and_then(|x| x.parse().ok()).unwrap_or(0);
    let hi: usize = it.next().and_then(|x| x.parse().ok()).unwrap_or(lo);
    (lo.min(63), hi.min(63).max(lo.min(63)))
}

fn run_tab<A: Alphabet>() -> String {
    let mut toks = vec![];
    toks.push(format!("k={}", A::K::USIZE));
    toks.push(format!("st={}", hex(A::as_str().as_bytes())));
    toks.push(format!("df={}", A::default_symbol().as_index()));
    let sy: Vec<String> = A::symbols()
        .iter()
        .map(|s| format!("{}:{}:{}", s.as_index(), s.as_ascii(), s.as_char() as u32))
        .collect();
    toks.push(format!("sy={}", sy.join(",")));
    let fa: Vec<String> = (0..=255u8)
        .map(|b| match no_panic(|| A::Symbol::from_ascii(b)) {
            None => "p".to_string(),
            Some(Ok(s)) => format!("{}", s.as_index()),
            Some(Err(e)) => format!("e{}", e.0 as u32),
        })
        .collect();
    toks.push(format!("fa={}", fa.join(",")));
    let mut cps: Vec<u32> = (0..0x180).collect();
    cps.extend_from_slice(&[0x391, 0x410, 0x7ff, 0x800, 0x2126, 0x212a, 0x212b, 0xff21, 0xff41, 0xffff, 0x1d400, 0x1f600, 0xe0041, 0x10ffff]);
    let fc: Vec<String> = cps
        .iter()
        .filter_map(|&cp| char::from_u32(cp))
        .map(|c| match no_panic(|| A::Symbol::from_char(c)) {
            None => format!("{}:p", c as u32),
            Some(Ok(s)) => format!("{}:{}", c as u32, s.as_index()),
            Some(Err(e)) => format!("{}:e{}", c as u32, e.0 as u32),
        })
        .collect();
    toks.push(format!("fc={}", fc.join(",")));
    toks.join(" ")
}

// ------------------------------------------------------------------ generator

const DNA: &[u8] = b"ACTGN";
const PROT: &[u8] = b"ACDEFGHIKLMNPQRSTVWYX";
const LENS: &[usize] = &[33, 34, 47, 48, 49, 64, 65, 66, 96, 97, 130];
const NCLASS: usize = 9;

fn alphabet(abc: &str) -> &'static [u8] {
    if abc == "dna" {
        DNA
    } else {
        PROT
    }
}

/// Position of class `c` in a text of length `l` (> 0).
fn class_pos(rng: &mut Rng, c: usize, l: usize) -> usize {
    let p = match c {
        0 => 0,
        1 => 15,
        2 => 16,
        3 => 17,
        4 => 31,
        5 => 32,
        6 => 33,
        7 => {
            // in the scalar tail of the 32-byte kernel (the whole text when l < 32)
            let t = 32 * (l / 32);
            if t < l {
                t + rng.below((l - t) as u64) as usize
            } else {
                l - 1
            }
        }
        _ => l - 1,
    };
    p.min(l - 1)
}

fn valid_text(rng: &mut Rng, abc: &str, l: usize) -> Vec<u8> {
    let a = alphabet(abc);
    (0..l).map(|_| *rng.pick(a)).collect()
}

fn line(id: usize, abc: &str, dl: i64, s: &[u8]) -> String {
    format!("{} kind=str abc={} dl={} hex={}", id, abc, dl, hex(s))
}

fn gen_systematic(rng: &mut Rng, id: usize, k: usize, full: bool) -> String {
    // k enumerates (alphabet, byte value, round); in the thorough tier the rounds walk the
    // full product position class x length, in the quick tier they rotate through it.
    let abc = if k % 2 == 0 { "dna" } else { "protein" };
    let v = (k / 2) % 256;
    let j = k / 512;
    let (c, l) = if full {
        (j % NCLASS, LENS[(j / NCLASS) % LENS.len()])
    } else {
        ((v + j) % NCLASS, LENS[(v / NCLASS + 3 * j) % LENS.len()])
    };
    let mut s = valid_text(rng, abc, l);
    let p = class_pos(rng, c, l);
    s[p] = v as u8;
    line(id, abc, 0, &s)
}

fn bad_value(rng: &mut Rng, abc: &str) -> Vec<u8> {
    let a = alphabet(abc);
    let k = rng.below(100);
    if k < 30 {
        vec![rng.below(256) as u8]
    } else if k < 50 {
        vec![rng.pick(a).to_ascii_lowercase()]
    } else if k < 60 {
        let x = *rng.pick(a);
        vec![if rng.chance(1, 2) { x + 1 } else { x - 1 }]
    } else if k < 70 {
        vec![*rng.pick(a) | 0x80]
    } else if k < 80 {
        vec![*rng.pick(&[0x00u8, 0x0a, 0x20, 0x2e, 0x2d, 0x2a, 0x40, 0x5b, 0x60, 0x7b, 0x7f, 0x80, 0xff, 0x05, 0x15])]
    } else if k < 90 {
        vec![b'A' + rng.below(26) as u8]
    } else {
        // a multi-byte UTF-8 character (keeps the text valid UTF-8, so from_str is driven)
        let c = *rng.pick(&['\u{e9}', '\u{c1}', '\u{20ac}', '\u{391}', '\u{ff21}', '\u{1f600}', '\u{80}', '\u{ff}']);
        let mut b = [0u8; 4];
        c.encode_utf8(&mut b).as_bytes().to_vec()
    }
}

fn gen_random(rng: &mut Rng, id: usize) -> String {
    let abc = if rng.chance(1, 2) { "dna" } else { "protein" };
    let k = rng.below(100);
    let l = if k < 70 {
        rng.below(131) as usize
    } else if k < 90 {
        *rng.pick(&[0usize, 1, 15, 16, 17, 31, 32, 33, 47, 48, 49, 63, 64, 65, 95, 96, 97, 127, 128, 129])
    } else if k < 99 {
        131 + rng.below(470) as usize
    } else {
        1000 + rng.below(2001) as usize
    };
    let mut s = valid_text(rng, abc, l);
    let k = rng.below(100);
    let nbad = if k < 25 { 0 } else if k < 70 { 1 } else { 2 };
    if l > 0 {
        for _ in 0..nbad {
            let p = if rng.chance(3, 5) {
                let c = rng.below(NCLASS as u64) as usize;
                class_pos(rng, c, l)
            } else {
                rng.below(l as u64) as usize
            };
            let bad = bad_value(rng, abc);
            // overwrite in place (a multi-byte value may run over the end: then truncate it
            // only when that keeps the interesting first byte)
            for (o, b) in bad.iter().enumerate() {
                if p + o < s.len() {
                    s[p + o] = *b;
                }
            }
        }
    }
    let dl = if rng.chance(3, 100) {
        if rng.chance(1, 2) || l == 0 {
            *rng.pick(&[1i64, 1, 16, 32])
        } else {
            -(*rng.pick(&[1i64, 1, 16, 33]).min(&(l as i64)))
        }
    } else {
        0
    };
    line(id, abc, dl, &s)
}

const WLENS: &[usize] = &[
    0, 1, 2, 15, 16, 17, 18, 30, 31, 32, 33, 34, 46, 47, 48, 49, 50, 63, 64, 65, 66, 79, 80, 81, 95, 96, 97, 111, 112, 113,
    127, 128, 129, 130,
];

/// Position classes for the sub-slice cases, relative to a scalar prologue of up to 31
/// symbols, the first / last vector and the scalar tail.
fn win_pos(rng: &mut Rng, c: usize, l: usize) -> usize {
    let last = l - 1;
    let p = match c {
        0 => 0,
        1 => 1 + rng.below(14) as usize,   // inside a prologue window of a 16-byte kernel
        2 => 15,
        3 => 16 + rng.below(16) as usize,  // first vector behind a prologue / second SSE2 vector
        4 => 31,
        5 => 32 + rng.below(16) as usize,
        6 => l.saturating_sub(1 + rng.below(16) as usize),  // last 16 symbols
        7 => l.saturating_sub(17 + rng.below(16) as usize), // the vector before
        8 => {
            let t = 16 * (last / 16);
            t + rng.below((l - t) as u64) as usize // SSE2 tail (strict loop bound)
        }
        9 => last,
        _ => rng.below(l as u64) as usize,
    };
    p.min(last)
}

fn gen_win(rng: &mut Rng, id: usize, k: usize) -> String {
    let abc = if k % 2 == 0 { "dna" } else { "protein" };
    let l = if rng.chance(4, 5) { WLENS[(k / 2) % WLENS.len()] } else { rng.below(200) as usize };
    let mut s = valid_text(rng, abc, l);
    let r = rng.below(100);
    let nbad = if r < 35 { 0 } else if r < 85 { 1 } else { 2 };
    if l > 0 {
        for _ in 0..nbad {
            let c = rng.below(11) as usize;
            let p = win_pos(rng, c, l);
            let bad = bad_value(rng, abc);
            s[p] = bad[0];
        }
    }
    let dl = if rng.chance(4, 100) {
        if rng.chance(1, 2) || l == 0 {
            *rng.pick(&[1i64, 1, 16, 32])
        } else {
            -(*rng.pick(&[1i64, 1, 16, 33]).min(&(l as i64)))
        }
    } else {
        0
    };
    let a = rng.below(64);
    let b = rng.below(64);
    let (so, d) = match rng.below(10) {
        0..=2 => ("0:31".to_string(), "0:31".to_string()),
        3..=5 => (format!("{}", a), "0:31".to_string()),
        6..=7 => ("0:31".to_string(), format!("{}", b)),
        _ => ("0:15".to_string(), "0:15".to_string()),
    };
    format!("{} kind=win abc={} dl={} so={} do={} hex={}", id, abc, dl, so, d, hex(&s))
}

/// Texts around 4 KiB / 8 KiB / 64 KiB (page size, 16-bit counters): property check only,
/// the kernel model is not run on them by the driver.
const LONG: &[usize] = &[4095, 4096, 4097, 8192, 8193, 65535, 65536, 65537];

fn gen_long(rng: &mut Rng, id: usize, k: usize) -> String {
    let abc = if (k / LONG.len()) % 2 == 0 { "dna" } else { "protein" };
    let l = LONG[k % LONG.len()];
    let mut s = valid_text(rng, abc, l);
    match rng.below(4) {
        0 => {}
        1 => s[l - 1] = bad_value(rng, abc)[0],
        2 => {
            let p = (l & !31).min(l - 1);
            s[p] = bad_value(rng, abc)[0]
        }
        _ => {
            let p = rng.below(l as u64) as usize;
            s[p] = bad_value(rng, abc)[0]
        }
    }
    line(id, abc, 0, &s)
}

fn main() {
    let args = parse_args();
    match args.cmd.as_str() {
        "gen" => {
            let mut rng = Rng::new(args.seed);
            let full = args.tier == "thorough";
            let total_sys = if full { 512 * NCLASS * LENS.len() } else { 512 * 3 };
            let nsys = total_sys.min(args.n / 2);
            // sub-slice cases: one sixth of the run, interleaved after the systematic part
            let nwin = args.n / 6;
            let nlong = if args.n >= 1000 { if full { 64 } else { 8 } } else { 0 };
            for id in 0..args.n {
                if id == 0 {
                    println!("{} kind=tab abc=dna", id);
                } else if id == 1 {
                    println!("{} kind=tab abc=protein", id);
                } else if id - 2 < nsys {
                    println!("{}", gen_systematic(&mut rng, id, id - 2, full));
                } else if id >= args.n - nlong {
                    println!("{}", gen_long(&mut rng, id, id - (args.n - nlong)));
                } else if id - 2 - nsys < nwin {
                    println!("{}", gen_win(&mut rng, id, id - 2 - nsys));
                } else {
                    println!("{}", gen_random(&mut rng, id));
                }
            }
        }
        "run" => {
            silence_panics();
            for l in stdin_lines() {
                let (_id, f) = fields(&l);
                let abc = f.get("abc").map(|s| s.as_str()).unwrap_or("dna");
                let kind = f.get("kind").map(|s| s.as_str()).unwrap_or("str");
                let obs = if kind == "tab" {
                    if abc == "dna" {
                        run_tab::<Dna>()
                    } else {
                        run_tab::<Protein>()
                    }
                } else if kind == "win" {
                    let s = unhex(f.get("hex").map(|s| s.as_str()).unwrap_or(""));
                    let dl: i64 = f.get("dl").and_then(|s| s.parse().ok()).unwrap_or(0);
                    let so_r = parse_range(f.get("so"));
                    let do_r = parse_range(f.get("do"));
                    let raw = f.get("raw").map(|s| s != "0").unwrap_or(true);
                    if abc == "dna" {
                        run_win::<Dna>(&s, dl, so_r, do_r, raw)
                    } else {
                        run_win::<Protein>(&s, dl, so_r, do_r, raw)
                    }
                } else {
                    let s = unhex(f.get("hex").map(|s| s.as_str()).unwrap_or(""));
                    let dl: i64 = f.get("dl").and_then(|s| s.parse().ok()).unwrap_or(0);
                    if abc == "dna" {
                        run_str::<Dna>(&s, dl)
                    } else {
                        run_str::<Protein>(&s, dl)
                    }
                };
                println!("{} => {}", l, obs);
            }
        }
        _ => {
            eprintln!("usage: encode gen --seed S --n N [--tier t] | encode run < inputs");
            std::process::exit(2);
        }
    }
}
