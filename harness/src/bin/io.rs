//! C14 / C15 harness: the JASPAR (raw), JASPAR 2016 and UniPROBE readers of
//! `lightmotif-io` driven over generated, bundled and malformed files under many
//! chunkings of the byte stream.
//!
//! `io c14 gen --seed S --n N --tier T`   well-formed files (random record lists printed by the
//!                                        canonical printers re-implemented below) x 10 chunkings (one with Interrupted events)
//! `io c15 gen --seed S --n N --tier T`   malformed inputs x 3 chunkings (fault scripts included)
//! `io <any> run`                         stdin: input lines; stdout: `<line> => <observation>`
//! `io selftest`                          facts about std/nom the Coq model relies on
//!
//! Input line:  <id> mode=c14|c15 fmt=jaspar|jaspar16|uniprobe abc=dna|protein
//!                   (recs=<rec>/<rec>.. pre=<hex> suf=<hex> | hex=<bytes> | file=<path>)
//!                   chunks=<spec>;<spec>..  [post=<k>] [expect=<n>]
//!   rec   = <style>~<idhex>~<deschex or ->~<col>;<col>..      col = <symbol code>:<tok>,<tok>..
//!   style = <crlf 0/1>.<hsep>.<lead>.<sep>.<sym>.<tail>.<post>.<gap>[.<trail 0/1>]   (blank strings: s = ' ', t = TAB)
//!   `layout=g` on the line: general layout (IoPrintG.v): a count token may be `<blanks>^<digits>` (its own blanks), trail = 1
//!   prints hsep after an identifier without description
//!   spec  = cap:<c> (BufReader::with_capacity(c, Cursor)) | cyc:<a>,<b>,.. (custom BufRead whose
//!           successive fill_buf slices have these sizes, cyclically) | all (Cursor)
//!           | ev:<e>,<e>,.. (custom BufRead following a script: <n> = a data slice of n bytes,
//!           Ei|Eo|Eu|Ed|Ew = fill_buf returns an io::Error of kind Interrupted|Other|UnexpectedEof|
//!           InvalidData|WouldBlock, consumed when reported; then the rest of the data in one slice)
//! Observation: len=<n> fnv=<hash of the file bytes> [ft=<tok>:<f32 bits>,..] obs=<o>;<o>..|<o>;..|=
//!   one `|`-separated group per chunking (`=`: identical to the first group); outcome
//!   o = R:<idhex>:<deschex or ->:<rows>:<cells row-major, K per row> | E:io|nom|inv | END | PANIC | CAP | HANG
//!       | X:accessors-differ (matrix(), AsRef::as_ref and into_matrix() / From<Record> disagree: never expected)
//!   (HANG: the case did not finish within the watchdog limit LM_IO_WATCHDOG_S, default 180 s)
//!   next() is called until the first outcome that is not a record (END or an error; CAP after
//!   len + 2 calls without one), then `post` more times whatever the calls return (a PANIC ends the list).  ft: Rust's str::parse::<f32> of every float token that
//!   follows a TAB (the oracle of the UniPROBE model), cells of UniPROBE records are f32 bits.

use std::io::{BufRead, BufReader, Cursor, Read};

use lightmotif::abc::{Alphabet, Dna, Protein};
use lightmotif_io::error::Error;
use lmh::*;

// ------------------------------------------------------------------ chunked reader

struct ChunkReader<'a> {
    data: &'a [u8],
    pos: usize,
    end: usize,
    sizes: Vec<usize>,
    k: usize,
}

impl<'a> ChunkReader<'a> {
    fn new(data: &'a [u8], sizes: Vec<usize>) -> Self {
        ChunkReader { data, pos: 0, end: 0, sizes, k: 0 }
    }
}

impl<'a> Read for ChunkReader<'a> {
    fn read(&mut self, buf: &mut [u8]) -> std::io::Result<usize> {
        let avail = self.fill_buf()?;
        let n = avail.len().min(buf.len());
        buf[..n].copy_from_slice(&avail[..n]);
        self.consume(n);
        Ok(n)
    }
}

impl<'a> BufRead for ChunkReader<'a> {
    fn fill_buf(&mut self) -> std::io::Result<&[u8]> {
        if self.pos == self.end && self.pos < self.data.len() {
            let sz = self.sizes[self.k % self.sizes.len()].max(1);
            self.k += 1;
            self.end = (self.pos + sz).min(self.data.len());
        }
        Ok(&self.data[self.pos..self.end])
    }
    fn consume(&mut self, n: usize) {
        self.pos = (self.pos + n).min(self.end);
    }
}

/// A BufRead whose successive fill_buf() calls follow a script of events: a data slice of the given
/// size, or an io::Error of the given kind (consumed when reported: the next call goes on).  After
/// the script the rest of the data comes in one slice.
#[derive(Clone, Copy)]
enum Ev {
    Data(usize),
    Err(std::io::ErrorKind),
}

struct EvReader<'a> {
    data: &'a [u8],
    pos: usize,
    end: usize,
    script: Vec<Ev>,
    k: usize,
}

impl<'a> EvReader<'a> {
    fn new(data: &'a [u8], script: Vec<Ev>) -> Self {
        EvReader { data, pos: 0, end: 0, script, k: 0 }
    }
}

impl<'a> Read for EvReader<'a> {
    fn read(&mut self, buf: &mut [u8]) -> std::io::Result<usize> {
        let avail = self.fill_buf()?;
        let n = avail.len().min(buf.len());
        buf[..n].copy_from_slice(&avail[..n]);
        self.consume(n);
        Ok(n)
    }
}

impl<'a> BufRead for EvReader<'a> {
    fn fill_buf(&mut self) -> std::io::Result<&[u8]> {
        while self.pos == self.end {
            if self.k < self.script.len() {
                let ev = self.script[self.k];
                self.k += 1;
                match ev {
                    Ev::Err(kind) => return Err(std::io::Error::new(kind, "injected")),
                    Ev::Data(sz) => {
                        // a data event when nothing is left delivers nothing and is skipped
                        self.end = (self.pos + sz.max(1)).min(self.data.len());
                    }
                }
            } else {
                self.end = self.data.len();
                break;
            }
        }
        Ok(&self.data[self.pos..self.end])
    }
    fn consume(&mut self, n: usize) {
        self.pos = (self.pos + n).min(self.end);
    }
}

fn parse_events(l: &str) -> Vec<Ev> {
    l.split(',')
        .filter(|x| !x.is_empty())
        .map(|x| match x {
            "Ei" => Ev::Err(std::io::ErrorKind::Interrupted),
            "Eo" => Ev::Err(std::io::ErrorKind::Other),
            "Eu" => Ev::Err(std::io::ErrorKind::UnexpectedEof),
            "Ed" => Ev::Err(std::io::ErrorKind::InvalidData),
            "Ew" => Ev::Err(std::io::ErrorKind::WouldBlock),
            n => Ev::Data(n.parse().unwrap()),
        })
        .collect()
}

// ------------------------------------------------------------------ records, styles, printers

#[derive(Clone, Debug)]
struct Style {
    crlf: bool,
    hsep: String,
    lead: String,
    sep: String,
    sym: String,
    tail: String,
    post: String,
    gap: usize,
    /// general layout only: a record without description prints `hsep` as trailing blanks after the identifier
    trail: bool,
    /// not encoded: the record was generated with per-count blanks (the line gets `layout=g`)
    general: bool,
}

#[derive(Clone, Debug)]
struct Src {
    id: Vec<u8>, // UTF-8
    desc: Option<Vec<u8>>,
    cols: Vec<(u8, Vec<String>)>,
}

fn blanks_enc(s: &str) -> String {
    s.chars().map(|c| if c == ' ' { 's' } else { 't' }).collect()
}
fn blanks_dec(s: &str) -> String {
    s.chars().map(|c| if c == 's' { ' ' } else { '\t' }).collect()
}

fn hex(b: &[u8]) -> String {
    let mut s = String::with_capacity(b.len() * 2);
    for x in b {
        s.push_str(&format!("{:02x}", x));
    }
    s
}
fn unhex(s: &str) -> Vec<u8> {
    (0..s.len() / 2).map(|i| u8::from_str_radix(&s[2 * i..2 * i + 2], 16).unwrap()).collect()
}

impl Style {
    fn enc(&self) -> String {
        format!(
            "{}.{}.{}.{}.{}.{}.{}.{}.{}",
            self.crlf as u8,
            blanks_enc(&self.hsep),
            blanks_enc(&self.lead),
            blanks_enc(&self.sep),
            blanks_enc(&self.sym),
            blanks_enc(&self.tail),
            blanks_enc(&self.post),
            self.gap,
            self.trail as u8
        )
    }
    fn dec(s: &str) -> Style {
        let p: Vec<&str> = s.split('.').collect();
        Style {
            crlf: p[0] == "1",
            hsep: blanks_dec(p[1]),
            lead: blanks_dec(p[2]),
            sep: blanks_dec(p[3]),
            sym: blanks_dec(p[4]),
            tail: blanks_dec(p[5]),
            post: blanks_dec(p[6]),
            gap: p[7].parse().unwrap(),
            trail: p.get(8).map_or(false, |x| *x == "1"),
            general: false,
        }
    }
    fn eol(&self) -> &'static str {
        if self.crlf {
            "\r\n"
        } else {
            "\n"
        }
    }
}

/// A token may carry its own leading blanks (general layout: right-aligned columns): `ss^123`.
fn tok_enc(t: &str) -> String {
    let k = t.chars().take_while(|c| *c == ' ' || *c == '\t').count();
    if k == 0 {
        t.to_string()
    } else {
        format!("{}^{}", blanks_enc(&t[..k]), &t[k..])
    }
}
fn tok_dec(t: &str) -> String {
    match t.split_once('^') {
        Some((b, d)) => format!("{}{}", blanks_dec(b), d),
        None => t.to_string(),
    }
}

fn rec_enc(y: &Style, r: &Src) -> String {
    let cols: Vec<String> =
        r.cols.iter().map(|(s, t)| format!("{}:{}", s, t.iter().map(|x| tok_enc(x)).collect::<Vec<_>>().join(","))).collect();
    format!(
        "{}~{}~{}~{}",
        y.enc(),
        hex(&r.id),
        r.desc.as_ref().map(|d| hex(d)).unwrap_or_else(|| "-".to_string()),
        cols.join(";")
    )
}

fn rec_dec(s: &str) -> (Style, Src) {
    let p: Vec<&str> = s.split('~').collect();
    let cols = if p[3].is_empty() {
        vec![]
    } else {
        p[3].split(';')
            .map(|c| {
                let (s, t) = c.split_once(':').unwrap();
                let toks = if t.is_empty() { vec![] } else { t.split(',').map(|x| tok_dec(x)).collect() };
                (s.parse::<u8>().unwrap(), toks)
            })
            .collect()
    };
    (
        Style::dec(p[0]),
        Src { id: unhex(p[1]), desc: if p[2] == "-" { None } else { Some(unhex(p[2])) }, cols },
    )
}

/// The canonical printers (same text as coq/io/IoPrint.v print_jaspar / print_jaspar16 / print_uniprobe).
fn print_rec(fmt: &str, y: &Style, r: &Src, out: &mut Vec<u8>) {
    let eol = y.eol().as_bytes();
    if fmt == "uniprobe" {
        out.extend_from_slice(&r.id);
        out.extend_from_slice(eol);
        for (s, toks) in &r.cols {
            out.push(*s);
            out.push(b':');
            for t in toks {
                out.push(b'\t');
                out.extend_from_slice(t.as_bytes());
            }
            out.extend_from_slice(eol);
        }
        for _ in 0..y.gap {
            out.extend_from_slice(eol);
        }
        return;
    }
    out.push(b'>');
    out.extend_from_slice(&r.id);
    if let Some(d) = &r.desc {
        out.extend_from_slice(y.hsep.as_bytes());
        out.extend_from_slice(d);
    } else if y.trail {
        out.extend_from_slice(y.hsep.as_bytes());
    }
    out.extend_from_slice(eol);
    for (s, toks) in &r.cols {
        if fmt == "jaspar16" {
            out.push(*s);
            out.extend_from_slice(y.sym.as_bytes());
            out.push(b'[');
        }
        out.extend_from_slice(y.lead.as_bytes());
        out.extend_from_slice(toks.join(&y.sep).as_bytes());
        if fmt == "jaspar16" {
            out.extend_from_slice(y.tail.as_bytes());
            out.push(b']');
            out.extend_from_slice(y.post.as_bytes());
        }
        out.extend_from_slice(eol);
    }
}

fn print_file(fmt: &str, pre: &[u8], recs: &[(Style, Src)], suf: &[u8]) -> Vec<u8> {
    let mut out = pre.to_vec();
    for (y, r) in recs {
        print_rec(fmt, y, r, &mut out);
    }
    out.extend_from_slice(suf);
    out
}

// ------------------------------------------------------------------ running the readers

fn ekind(e: &Error) -> &'static str {
    match e {
        Error::InvalidData => "inv",
        Error::Io(_) => "io",
        Error::Nom(_) => "nom",
    }
}

fn show_rec(id: &str, desc: Option<&str>, rows: usize, cells: Vec<String>) -> String {
    format!(
        "R:{}:{}:{}:{}",
        hex(id.as_bytes()),
        desc.map(|d| hex(d.as_bytes())).unwrap_or_else(|| "-".to_string()),
        rows,
        cells.join(",")
    )
}

/// Drive one reader: `step` performs one `next()` and renders the outcome.  Records are read until
/// the first outcome that is not a record (an error or END; CAP if none came within len + 2 calls),
/// then `post` more calls are made WHATEVER they return (C15: each request returns a record, an error
/// or end of input -- the requests after an error and after END too); only a PANIC ends the list early.
fn drive(n_bytes: usize, post: usize, mut step: impl FnMut() -> Option<Result<String, String>>) -> Vec<String> {
    let mut out = vec![];
    let cap = n_bytes + 2;
    let mut calls = 0usize;
    let mut after: Option<usize> = None;
    loop {
        if let Some(k) = after {
            if k >= post {
                break;
            }
        } else if calls >= cap {
            out.push("CAP".to_string());
            break;
        }
        calls += 1;
        let o = match no_panic(|| step()) {
            None => {
                out.push("PANIC".to_string());
                break;
            }
            Some(None) => (false, "END".to_string()),
            Some(Some(Ok(r))) => (true, r),
            Some(Some(Err(e))) => (false, format!("E:{}", e)),
        };
        out.push(o.1);
        match after.as_mut() {
            Some(k) => *k += 1,
            None => {
                if !o.0 {
                    after = Some(0)
                }
            }
        }
    }
    out
}

fn run_reader<B: BufRead>(fmt: &str, abc: &str, n_bytes: usize, post: usize, mk: impl FnOnce() -> B) -> Vec<String> {
    fn cells_u32<A: Alphabet>(m: &lightmotif::pwm::CountMatrix<A>) -> (usize, Vec<String>) {
        let d = m.matrix();
        let mut v = vec![];
        for i in 0..d.rows() {
            for x in d[i].iter() {
                v.push(x.to_string());
            }
        }
        (d.rows(), v)
    }
    fn cells_f32<A: Alphabet>(m: &lightmotif::pwm::FrequencyMatrix<A>) -> (usize, Vec<String>) {
        let d = m.matrix();
        let mut v = vec![];
        for i in 0..d.rows() {
            for x in d[i].iter() {
                v.push(x.to_bits().to_string());
            }
        }
        (d.rows(), v)
    }
    fn j16<A: Alphabet, B: BufRead>(n: usize, post: usize, mk: impl FnOnce() -> B) -> Vec<String> {
        match no_panic(|| lightmotif_io::jaspar16::read::<B, A>(mk())) {
            None => vec!["PANIC".to_string()],
            Some(mut rd) => drive(n, post, move || {
                rd.next().map(|r| {
                    r.map(|rec| {
                        let (rows, cells) = cells_u32(rec.matrix());
                        let shown = show_rec(rec.id(), rec.description(), rows, cells.clone());
                        // the other accessors of the record give the same matrix
                        let by_ref = cells_u32(AsRef::<lightmotif::pwm::CountMatrix<A>>::as_ref(&rec));
                        let owned = cells_u32(&rec.into_matrix());
                        if by_ref.1 != cells || owned.1 != cells || by_ref.0 != rows || owned.0 != rows {
                            return "X:accessors-differ".to_string();
                        }
                        shown
                    })
                    .map_err(|e| ekind(&e).to_string())
                })
            }),
        }
    }
    fn uni<A: Alphabet, B: BufRead>(n: usize, post: usize, mk: impl FnOnce() -> B) -> Vec<String> {
        match no_panic(|| lightmotif_io::uniprobe::read::<B, A>(mk())) {
            None => vec!["PANIC".to_string()],
            Some(mut rd) => drive(n, post, move || {
                rd.next().map(|r| {
                    r.map(|rec| {
                        let (rows, cells) = cells_f32(rec.matrix());
                        let shown = show_rec(rec.id(), None, rows, cells.clone());
                        let by_ref = cells_f32(AsRef::<lightmotif::pwm::FrequencyMatrix<A>>::as_ref(&rec));
                        let owned = cells_f32(&rec.into_matrix());
                        if by_ref.1 != cells || owned.1 != cells || by_ref.0 != rows || owned.0 != rows {
                            return "X:accessors-differ".to_string();
                        }
                        shown
                    })
                    .map_err(|e| ekind(&e).to_string())
                })
            }),
        }
    }
    match (fmt, abc) {
        ("jaspar", _) => match no_panic(|| lightmotif_io::jaspar::read(mk())) {
            None => vec!["PANIC".to_string()],
            Some(mut rd) => drive(n_bytes, post, move || {
                rd.next().map(|r| {
                    r.map(|rec| {
                        let (rows, cells) = cells_u32(rec.matrix());
                        let shown = show_rec(rec.id(), rec.description(), rows, cells.clone());
                        let by_ref = cells_u32(AsRef::<lightmotif::pwm::CountMatrix<Dna>>::as_ref(&rec));
                        let owned = cells_u32(&lightmotif::pwm::CountMatrix::<Dna>::from(rec));
                        if by_ref.1 != cells || owned.1 != cells || by_ref.0 != rows || owned.0 != rows {
                            return "X:accessors-differ".to_string();
                        }
                        shown
                    })
                    .map_err(|e| ekind(&e).to_string())
                })
            }),
        },
        ("jaspar16", "protein") => j16::<Protein, B>(n_bytes, post, mk),
        ("jaspar16", _) => j16::<Dna, B>(n_bytes, post, mk),
        ("uniprobe", "protein") => uni::<Protein, B>(n_bytes, post, mk),
        ("uniprobe", _) => uni::<Dna, B>(n_bytes, post, mk),
        _ => vec!["SKIP".to_string()],
    }
}

fn run_chunking(fmt: &str, abc: &str, data: &[u8], spec: &str, post: usize) -> Vec<String> {
    let n = data.len();
    if spec == "all" {
        run_reader(fmt, abc, n, post, || Cursor::new(data))
    } else if let Some(c) = spec.strip_prefix("cap:") {
        let c: usize = c.parse().unwrap();
        run_reader(fmt, abc, n, post, || BufReader::with_capacity(c, Cursor::new(data)))
    } else if let Some(l) = spec.strip_prefix("cyc:") {
        let sizes: Vec<usize> = l.split(',').map(|x| x.parse().unwrap()).collect();
        run_reader(fmt, abc, n, post, || ChunkReader::new(data, sizes))
    } else if let Some(l) = spec.strip_prefix("ev:") {
        let script = parse_events(l);
        // every error event can cost one more call
        let extra = script.iter().filter(|e| matches!(e, Ev::Err(_))).count();
        run_reader(fmt, abc, n + extra, post, || EvReader::new(data, script))
    } else {
        vec!["SKIP".to_string()]
    }
}

// ------------------------------------------------------------------ float tokens (oracle table)

fn ndigits(b: &[u8]) -> usize {
    b.iter().take_while(|c| c.is_ascii_digit()).count()
}

/// nom 7.1.3 `recognize_float_or_exceptions` on bytes: length of the recognised token.
fn recognize_float(b: &[u8]) -> Option<usize> {
    let mut i = 0;
    if i < b.len() && (b[i] == b'+' || b[i] == b'-') {
        i += 1;
    }
    let d0 = ndigits(&b[i..]);
    let mut ok = false;
    if d0 > 0 {
        i += d0;
        if i < b.len() && b[i] == b'.' {
            i += 1;
            i += ndigits(&b[i..]);
        }
        ok = true;
    } else if i < b.len() && b[i] == b'.' {
        let d = ndigits(&b[i + 1..]);
        if d > 0 {
            i += 1 + d;
            ok = true;
        }
    }
    if ok {
        if i < b.len() && (b[i] == b'e' || b[i] == b'E') {
            let mut j = i + 1;
            if j < b.len() && (b[j] == b'+' || b[j] == b'-') {
                j += 1;
            }
            let d = ndigits(&b[j..]);
            if d == 0 {
                return None; // cut(digit1): Failure
            }
            i = j + d;
        }
        return Some(i);
    }
    if b.len() >= 3 {
        let l = [b[0].to_ascii_lowercase(), b[1].to_ascii_lowercase(), b[2].to_ascii_lowercase()];
        if &l == b"nan" || &l == b"inf" {
            return Some(3);
        }
    }
    None
}

fn float_table(data: &[u8]) -> String {
    let mut seen = std::collections::BTreeMap::new();
    for p in 1..data.len() {
        if data[p - 1] == b'\t' {
            if let Some(l) = recognize_float(&data[p..]) {
                let tok = std::str::from_utf8(&data[p..p + l]).unwrap();
                if !seen.contains_key(tok) {
                    match tok.parse::<f32>() {
                        Ok(f) => {
                            seen.insert(tok.to_string(), f.to_bits().to_string());
                        }
                        Err(_) => {
                            seen.insert(tok.to_string(), "x".to_string());
                        }
                    }
                }
            }
        }
    }
    seen.iter().map(|(k, v)| format!("{}:{}", k, v)).collect::<Vec<_>>().join(",")
}

fn fnv64(data: &[u8]) -> u64 {
    let mut h: u64 = 0xcbf29ce484222325;
    for b in data {
        h ^= *b as u64;
        h = h.wrapping_mul(0x100000001b3);
    }
    h
}

fn run_line(line: &str) -> String {
    let (_id, f) = fields(line);
    let fmt = f.get("fmt").map(|s| s.as_str()).unwrap_or("?");
    if !matches!(fmt, "jaspar" | "jaspar16" | "uniprobe") {
        return format!("{} => SKIP", line);
    }
    let abc = f.get("abc").map(|s| s.as_str()).unwrap_or("dna");
    let post: usize = f.get("post").and_then(|s| s.parse().ok()).unwrap_or(0);
    let data: Vec<u8> = if let Some(h) = f.get("hex") {
        unhex(h)
    } else if let Some(p) = f.get("file") {
        std::fs::read(p).unwrap_or_default()
    } else {
        let recs: Vec<(Style, Src)> = match f.get("recs") {
            Some(r) if !r.is_empty() => r.split('/').map(rec_dec).collect(),
            _ => vec![],
        };
        let pre = f.get("pre").map(|h| unhex(h)).unwrap_or_default();
        let suf = f.get("suf").map(|h| unhex(h)).unwrap_or_default();
        print_file(fmt, &pre, &recs, &suf)
    };
    let specs: Vec<&str> = f.get("chunks").map(|s| s.split(';').collect()).unwrap_or_else(|| vec!["all"]);
    let mut groups: Vec<String> = vec![];
    let mut first: Option<String> = None;
    for sp in specs {
        let o = run_chunking(fmt, abc, &data, sp, post).join(";");
        match &first {
            None => {
                first = Some(o.clone());
                groups.push(o);
            }
            Some(f0) => groups.push(if *f0 == o { "=".to_string() } else { o }),
        }
    }
    let ft = if fmt == "uniprobe" { format!(" ft={}", float_table(&data)) } else { String::new() };
    format!("{} => len={} fnv={}{} obs={}", line, data.len(), fnv64(&data), ft, groups.join("|"))
}

// ------------------------------------------------------------------ generators

const DNA: &[u8] = b"ACTGN";
const PROTEIN: &[u8] = b"ACDEFGHIKLMNPQRSTVWYX";

fn blanks(rng: &mut Rng, min: usize, max: usize) -> String {
    let n = rng.range(min as i64, max as i64) as usize;
    (0..n).map(|_| if rng.chance(3, 4) { ' ' } else { '\t' }).collect()
}

fn gen_style(rng: &mut Rng) -> Style {
    let plain = rng.chance(1, 3);
    Style {
        crlf: rng.chance(1, 3),
        hsep: if plain { " ".into() } else { blanks(rng, 1, 3) },
        lead: if plain { "".into() } else { blanks(rng, 0, 3) },
        sep: if plain { " ".into() } else { blanks(rng, 1, 4) },
        sym: if plain { " ".into() } else { blanks(rng, 1, 3) },
        tail: if plain { " ".into() } else { blanks(rng, 0, 2) },
        post: if plain { "".into() } else { blanks(rng, 0, 2) },
        gap: if rng.chance(1, 2) { 0 } else { rng.range(0, 3) as usize },
        trail: false,
        general: false,
    }
}

const ID_CHARS: &[u8] = b"ABCDEFGHIJKLMNOPQRSTUVWXYZabcdefghijklmnopqrstuvwxyz0123456789._-:|()[]#+";
const NON_ASCII: &[&str] = &["\u{e9}", "\u{3b1}", "\u{a0}", "\u{2003}", "\u{4e2d}", "\u{1F9EC}", "\u{85}", "\u{7ff}", "\u{800}", "\u{ffff}", "\u{10000}", "\u{10ffff}", "\u{d7ff}", "\u{e000}"];

fn gen_id(rng: &mut Rng, uniprobe: bool) -> Vec<u8> {
    let n = if rng.chance(1, 60) { rng.range(100, 600) as usize } else { rng.range(1, 12) as usize };
    let mut v = vec![];
    for k in 0..n {
        if rng.chance(1, 25) && !uniprobe {
            // white-space-like non-ASCII characters are legal inside a JASPAR identifier
            v.extend_from_slice(rng.pick(NON_ASCII).as_bytes());
        } else if rng.chance(1, 25) && uniprobe {
            v.extend_from_slice(rng.pick(&NON_ASCII[..2]).as_bytes());
        } else {
            let mut c = *rng.pick(ID_CHARS);
            if uniprobe && k == 1 && c == b':' {
                c = b'_'; // a name must not look like a matrix column "S:"
            }
            v.push(c);
        }
    }
    if uniprobe && rng.chance(1, 6) {
        // names may contain blanks inside
        v.extend_from_slice(b"  Motif:\tx");
    }
    v
}

fn gen_desc(rng: &mut Rng) -> Option<Vec<u8>> {
    if rng.chance(1, 3) {
        return None;
    }
    // now and then a description longer than any small fixed buffer
    let n = if rng.chance(1, 40) { rng.range(200, 1500) as usize } else { rng.range(1, 20) as usize };
    let mut v: Vec<u8> = vec![];
    for k in 0..n {
        let edge = k == 0 || k == n - 1;
        if !edge && rng.chance(1, 6) {
            v.push(*rng.pick(b" \t \x0c"));
        } else if rng.chance(1, 20) {
            // not white space (the description is trimmed)
            v.extend_from_slice(rng.pick(&["\u{e9}", "\u{3b1}", "\u{4e2d}", "\u{1F9EC}", "\u{10ffff}"]).as_bytes());
        } else {
            v.push(*rng.pick(ID_CHARS));
        }
    }
    Some(v)
}

fn gen_count(rng: &mut Rng, class: u64) -> String {
    let v: u64 = match class {
        0 => rng.below(10),
        1 => rng.below(1000),
        2 => rng.below(100000),
        3 => rng.below(1u64 << 32),
        _ => *rng.pick(&[0u64, 1, 9, 10, 4294967295, 4294967294, 4294967290, 429496729, 1000000000, 3999999999]),
    };
    if rng.chance(1, 40) {
        format!("{:0w$}", v, w = rng.range(1, 12) as usize)
    } else {
        v.to_string()
    }
}

fn shuffle<T>(rng: &mut Rng, v: &mut Vec<T>) {
    for i in (1..v.len()).rev() {
        let j = rng.below(i as u64 + 1) as usize;
        v.swap(i, j);
    }
}

fn sym_index(abc: &str, s: u8) -> usize {
    let a = if abc == "protein" { PROTEIN } else { DNA };
    a.iter().position(|x| *x == s).unwrap()
}

fn gen_freq_cols(rng: &mut Rng, abc: &str, syms: &[u8], w: usize) -> Vec<(u8, Vec<String>)> {
    // frequencies whose rows sum to 1 (tolerance of FrequencyMatrix::new: 0.01, computed in f32
    // over the K cells in index order)
    let k = if abc == "protein" { 21 } else { 5 };
    let mut cols: Vec<(u8, Vec<String>)> = syms.iter().map(|s| (*s, vec![])).collect();
    for _ in 0..w {
        loop {
            let raw: Vec<f64> = syms.iter().map(|_| if rng.chance(1, 8) { 0.0 } else { (rng.below(1000000) as f64 + 1.0) / 1e6 }).collect();
            let total: f64 = raw.iter().sum();
            if total <= 0.0 {
                continue;
            }
            let digits = rng.range(5, 17) as usize;
            let toks: Vec<String> = raw
                .iter()
                .map(|x| {
                    let v = x / total;
                    match rng.below(12) {
                        0 => format!("{:e}", v),
                        1 => format!("{:E}", v),
                        2 if v < 1.0 && v > 0.0 => {
                            let s = format!("{:.*}", digits, v);
                            s[1..].to_string() // ".25"
                        }
                        3 => format!("+{:.*}", digits, v),
                        _ => format!("{:.*}", digits, v),
                    }
                })
                .collect();
            // check the tolerance exactly as the implementation does
            let mut row = vec![0f32; k];
            for (s, t) in syms.iter().zip(&toks) {
                row[sym_index(abc, *s)] = t.parse::<f32>().unwrap();
            }
            let sum: f32 = row.iter().sum();
            if (sum - 1.0).abs() < 0.009 {
                for (c, t) in cols.iter_mut().zip(toks) {
                    c.1.push(t);
                }
                break;
            }
        }
    }
    cols
}

fn gen_record(rng: &mut Rng, fmt: &str, abc: &str, maxw: usize) -> (Style, Src) {
    let y = gen_style(rng);
    let w = if rng.chance(1, 10) { 1 } else { rng.range(1, maxw as i64) as usize };
    let class = rng.below(5);
    let alphabet = if abc == "protein" { PROTEIN } else { DNA };
    let cols = match fmt {
        "jaspar" => b"ACGT".iter().map(|s| (*s, (0..w).map(|_| gen_count(rng, class)).collect())).collect(),
        _ => {
            let mut syms: Vec<u8> = alphabet.to_vec();
            if !rng.chance(1, 3) {
                shuffle(rng, &mut syms);
            }
            if rng.chance(1, 3) {
                let keep = rng.range(1, syms.len() as i64) as usize;
                syms.truncate(keep);
            } else if abc == "dna" && rng.chance(1, 2) {
                syms = b"ACGT".to_vec();
                if rng.chance(1, 2) {
                    shuffle(rng, &mut syms);
                }
            }
            if fmt == "uniprobe" {
                gen_freq_cols(rng, abc, &syms, w)
            } else {
                syms.iter().map(|s| (*s, (0..w).map(|_| gen_count(rng, class)).collect())).collect()
            }
        }
    };
    let id = gen_id(rng, fmt == "uniprobe");
    let desc = if fmt == "uniprobe" { None } else { gen_desc(rng) };
    let (mut y, mut cols) = (y, cols);
    if fmt != "uniprobe" && rng.chance(2, 5) {
        // general layout (IoPrintG.v): every count carries its own blanks -- right-aligned columns as in the
        // JASPAR database files, or ragged blanks; the record-wide lead / separator strings are then empty
        let cols2: &mut Vec<(u8, Vec<String>)> = &mut cols;
        let maxlen = cols2.iter().flat_map(|c| c.1.iter().map(|t| t.len())).max().unwrap_or(1);
        let pad = rng.range(1, 3) as usize;
        let ragged = rng.chance(1, 3);
        for c in cols2.iter_mut() {
            for (i, t) in c.1.iter_mut().enumerate() {
                let k = if ragged {
                    (if i == 0 { rng.range(0, 3) } else { rng.range(1, 5) }) as usize
                } else {
                    maxlen + pad - t.len()
                };
                let b: String = (0..k).map(|_| if ragged && rng.chance(1, 4) { '\t' } else { ' ' }).collect();
                *t = format!("{}{}", b, t);
            }
        }
        y.lead = "".into();
        y.sep = "".into();
        y.general = true;
        if desc.is_none() && rng.chance(1, 2) {
            y.trail = true; // ">ID  \n": blanks after an identifier without description
        }
    }
    (y, Src { id, desc, cols })
}

fn gen_chunks(rng: &mut Rng, len: usize) -> String {
    let maxs = *rng.pick(&[3u64, 8, 64, 1000, 100000]);
    let n = rng.range(1, 12) as usize;
    let _ = len;
    let v: Vec<String> = (0..n).map(|_| (1 + rng.below(maxs)).to_string()).collect();
    format!("cyc:{}", v.join(","))
}

fn pick_fmt(rng: &mut Rng) -> (&'static str, &'static str) {
    match rng.below(20) {
        0..=6 => ("jaspar", "dna"),
        7..=11 => ("jaspar16", "dna"),
        12..=14 => ("jaspar16", "protein"),
        15..=17 => ("uniprobe", "dna"),
        _ => ("uniprobe", "protein"),
    }
}

fn gen_c14(seed: u64, n: usize, tier: &str) {
    let mut rng = Rng::new(seed ^ 0x14);
    for i in 0..n {
        let (fmt, abc) = pick_fmt(&mut rng);
        let nrec = match rng.below(20) {
            0..=11 => rng.range(1, 6),
            12..=17 => rng.range(7, 40),
            _ => {
                if tier == "thorough" {
                    rng.range(41, 300)
                } else {
                    rng.range(41, 120)
                }
            }
        } as usize;
        // now and then a file of a few very wide matrices (hundreds of columns: lines of several kilobytes)
        let wide = rng.chance(1, 25);
        let nrec = if wide { nrec.min(if tier == "thorough" { 3 } else { 2 }) } else { nrec };
        let maxw = if wide { if tier == "thorough" { 400 } else { 120 } } else if nrec > 60 { 12 } else { 40 };
        let recs: Vec<(Style, Src)> = (0..nrec).map(|_| gen_record(&mut rng, fmt, abc, maxw)).collect();
        // bytes before the first record (JASPAR formats), white space after the last
        let pre: Vec<u8> = if fmt != "uniprobe" && rng.chance(1, 5) {
            let k = rng.range(1, 30) as usize;
            (0..k).map(|_| { let b = rng.below(256) as u8; if b == b'>' { b'#' } else { b } }).collect()
        } else if fmt == "uniprobe" && rng.chance(1, 5) {
            b"\n  \n".to_vec()
        } else {
            vec![]
        };
        let suf: Vec<u8> = if rng.chance(1, 4) { (0..rng.range(1, 5)).map(|_| *rng.pick(b"\n\n \t\r\x0b\x0c")).collect() } else { vec![] };
        // UniPROBE: a white-space suffix must be made of complete (blank) lines or end the file
        let len = print_file(fmt, &pre, &recs, &suf).len();
        let mut chunks: Vec<String> = ["cap:1", "cap:2", "cap:3", "cap:5", "cap:17", "cap:64", "cap:8192"].iter().map(|s| s.to_string()).collect();
        chunks.push(gen_chunks(&mut rng, len));
        chunks.push(gen_chunks(&mut rng, len));
        // ErrorKind::Interrupted is retried by std's read_until / read_line: a stream that is interrupted
        // now and then (in Reader::new, inside a record, at the end) must give the same records
        {
            let maxs = *rng.pick(&[3u64, 40, 700]);
            let mut v: Vec<String> = (0..rng.range(2, 14)).map(|_| (1 + rng.below(maxs)).to_string()).collect();
            for _ in 0..rng.range(1, 4) {
                let at = rng.below(v.len() as u64 + 1) as usize;
                v.insert(at, "Ei".to_string());
            }
            if rng.chance(1, 2) {
                v.push((len + 1).to_string());
                v.push("Ei".to_string());
            }
            chunks.push(format!("ev:{}", v.join(",")));
        }
        let enc: Vec<String> = recs.iter().map(|(y, r)| rec_enc(y, r)).collect();
        println!(
            "g{} mode=c14 fmt={} abc={}{} post=2 pre={} suf={} chunks={} recs={}",
            i,
            fmt,
            abc,
            if recs.iter().any(|(y, _)| y.general) { " layout=g" } else { "" },
            hex(&pre),
            hex(&suf),
            chunks.join(";"),
            enc.join("/")
        );
    }
}

const JUNK: &[u8] = b">>\n\n\r  \t\t0123456789ACGTNXacgt[]::..ee-+\x80\xc3\xff\xa0\xe2\x00~#";

fn mutate(rng: &mut Rng, base: &[u8]) -> Vec<u8> {
    let mut v = base.to_vec();
    let k = 1 + rng.below(3);
    for _ in 0..k {
        let op = rng.below(3);
        if v.is_empty() {
            v.push(*rng.pick(JUNK));
            continue;
        }
        let p = rng.below(v.len() as u64) as usize;
        match op {
            0 => v[p] = if rng.chance(1, 4) { rng.below(256) as u8 } else { *rng.pick(JUNK) },
            1 => {
                v.remove(p);
            }
            _ => v.insert(p, if rng.chance(1, 4) { rng.below(256) as u8 } else { *rng.pick(JUNK) }),
        }
    }
    v
}

fn gen_events(rng: &mut Rng, len: usize) -> String {
    // data slices (small, line-sized or large) with 1-3 error events: on the first call, in the middle
    // of a record, at a chunk boundary, after the end of the data, several in a row
    let maxs = *rng.pick(&[2u64, 7, 40, 400]);
    let n = rng.range(1, 10) as usize;
    let mut v: Vec<String> = (0..n).map(|_| (1 + rng.below(maxs)).to_string()).collect();
    let nerr = rng.range(1, 3) as usize;
    for _ in 0..nerr {
        let kind = *rng.pick(&["Eo", "Eo", "Eu", "Ed", "Ew", "Ei", "Ei"]);
        let at = match rng.below(6) {
            0 => 0,
            1 => v.len(),
            _ => rng.below(v.len() as u64 + 1) as usize,
        };
        v.insert(at, kind.to_string());
        if rng.chance(1, 5) {
            v.insert(at, kind.to_string());
        }
    }
    if rng.chance(1, 4) {
        // make sure the whole input is covered by the script so that errors can come after the data
        v.insert(v.len() - 1, (len + 1).to_string());
    }
    format!("ev:{}", v.join(","))
}

fn c15_chunks(rng: &mut Rng, len: usize) -> String {
    let mut v = vec![];
    for k in 0..3 {
        if k == 2 && rng.chance(1, 2) {
            v.push(gen_events(rng, len));
            continue;
        }
        v.push(match rng.below(9) {
            0 => "all".to_string(),
            1 => "cap:1".to_string(),
            2 => "cap:2".to_string(),
            3 => "cap:3".to_string(),
            4 => "cap:5".to_string(),
            5 => "cap:17".to_string(),
            6 => "cap:8192".to_string(),
            _ => gen_chunks(rng, len),
        });
    }
    v.join(";")
}

fn structural(rng: &mut Rng, fmt: &str, abc: &str) -> Vec<u8> {
    // hand-made malformed shapes
    let mut recs: Vec<(Style, Src)> = (0..rng.range(1, 3)).map(|_| gen_record(rng, fmt, abc, 5)).collect();
    let which = rng.below(12);
    let k = rng.below(recs.len() as u64) as usize;
    match which {
        0 => {
            // ragged matrix
            let c = rng.below(recs[k].1.cols.len() as u64) as usize;
            if rng.chance(1, 2) {
                recs[k].1.cols[c].1.pop();
            } else {
                recs[k].1.cols[c].1.push("1".to_string());
            }
        }
        1 => recs[k].1.cols.clear(), // header only
        2 => {
            // '>' inside the description / identifier
            recs[k].1.desc = Some(b"a > b".to_vec());
        }
        3 => {
            // duplicated symbol line
            let c = recs[k].1.cols[0].clone();
            recs[k].1.cols.push(c);
        }
        4 => {
            // unknown symbol
            recs[k].1.cols[0].0 = *rng.pick(b"ZJ*acgt1 \t");
        }
        5 => {
            // count overflow / odd numbers
            let t = rng.pick(&["4294967296", "99999999999999999999", "-1", "+1", "1.5", "1e3", "0x10", ""]).to_string();
            let c = rng.below(recs[k].1.cols.len() as u64) as usize;
            if !recs[k].1.cols[c].1.is_empty() {
                recs[k].1.cols[c].1[0] = t;
            }
        }
        6 => {
            // float edge tokens
            let t = rng.pick(&["nan", "NaN", "inf", "-inf", "infinity", "1e", "1e+", "1e400", "-0.0", "1e-50", ".", "1.", ".5e1", "1e5x", "0.5\t", "٣"]).to_string();
            let c = rng.below(recs[k].1.cols.len() as u64) as usize;
            if !recs[k].1.cols[c].1.is_empty() {
                recs[k].1.cols[c].1[0] = t;
            }
        }
        7 => {
            recs[k].1.id = b"".to_vec();
        }
        8 => {
            recs[k].0.sep = "".to_string();
        }
        9 => {
            // rows that do not sum to one / zero rows
            for c in recs[k].1.cols.iter_mut() {
                for t in c.1.iter_mut() {
                    *t = "0".to_string();
                }
            }
        }
        10 => {
            recs[k].1.id = b"A:\t1.0".to_vec();
        }
        _ => {}
    }
    let mut data = print_file(fmt, b"", &recs, b"");
    match rng.below(8) {
        0 => {
            // missing final newline
            while data.last().map_or(false, |b| *b == b'\n' || *b == b'\r') {
                data.pop();
            }
        }
        1 => {
            // blank lines between / after records
            let p = rng.below(data.len() as u64 + 1) as usize;
            let opts: [&[u8]; 6] = [b"\n", b"\n\n", b" \n", b"\r\n", b"\r", b"\xc2\xa0\n"];
            let ins: &[u8] = *rng.pick(&opts);
            let mut q = p;
            while q < data.len() && data[q] != b'\n' {
                q += 1;
            }
            let at = (q + 1).min(data.len());
            data.splice(at..at, ins.iter().cloned());
        }
        2 => {
            // trailing blanks on a line
            let p = rng.below(data.len() as u64 + 1) as usize;
            let mut q = p;
            while q < data.len() && data[q] != b'\n' {
                q += 1;
            }
            data.splice(q..q, b" ".iter().cloned());
        }
        3 => {
            let opts: [&[u8]; 7] = [b">", b">x", b"\n\n\n", b"x", b"\xff", b"\xc2\xa0", b"\xc2"];
            data.extend_from_slice(*rng.pick(&opts))
        }
        4 => {
            let opts: [&[u8]; 6] = [b">", b">>", b"x>", b"\n", b"\xff>", b">a>b>"];
            let mut d = rng.pick(&opts).to_vec();
            d.extend_from_slice(&data);
            data = d;
        }
        _ => {}
    }
    data
}

fn emit15(out: &mut Vec<String>, rng: &mut Rng, fmt: &str, abc: &str, data: &[u8]) {
    let chunks = c15_chunks(rng, data.len());
    emit15_with(out, fmt, abc, data, &chunks);
}

fn emit15_with(out: &mut Vec<String>, fmt: &str, abc: &str, data: &[u8], chunks: &str) {
    let i = out.len();
    out.push(format!("g{} mode=c15 fmt={} abc={} post=3 chunks={} hex={}", i, fmt, abc, chunks, hex(data)));
}

/// Offsets at which a line starts (0 and after every LF).
fn line_starts(data: &[u8]) -> Vec<usize> {
    let mut v = vec![0usize];
    for (i, b) in data.iter().enumerate() {
        if *b == b'\n' && i + 1 <= data.len() {
            v.push(i + 1);
        }
    }
    v
}

/// Bytes that are not UTF-8 on their own: a stray continuation byte, lead bytes without their
/// continuation (2-, 3-, 4-byte forms), an overlong lead, 0xFF, a UTF-16 surrogate encoded in 3 bytes.
const BAD_UTF8: &[&[u8]] = &[b"\x80", b"\xc3", b"\xe2\x82", b"\xf0\x9f\xa7", b"\xc0\xaf", b"\xff", b"\xed\xa0\x80"];

/// Invalid UTF-8 at chosen offsets of a multi-record file (inserted or overwriting), multi-byte
/// characters (white-space-like ones included) at line starts, and fault scripts failing at the k-th fill_buf.
fn sweeps(out: &mut Vec<String>, rng: &mut Rng, fmt: &str, abc: &str, base: &[u8], all: bool) {
    // (a) invalid bytes at every offset (thorough) / a sample of offsets (quick)
    let offs: Vec<usize> = if all { (0..=base.len()).collect() } else { (0..10).map(|_| rng.below(base.len() as u64 + 1) as usize).collect() };
    for p in offs {
        let bad: &[u8] = *rng.pick(BAD_UTF8);
        let mut v = base.to_vec();
        if rng.chance(1, 2) && p < v.len() {
            let e = (p + bad.len()).min(v.len());
            v.splice(p..e, bad.iter().cloned());
        } else {
            v.splice(p..p, bad.iter().cloned());
        }
        emit15(out, rng, fmt, abc, &v);
    }
    // (b) multi-byte characters at line starts
    let ls = line_starts(base);
    let picks: Vec<usize> = if all { ls.clone() } else { (0..6).map(|_| *rng.pick(&ls)).collect() };
    for p in picks {
        let ch = rng.pick(NON_ASCII).as_bytes();
        let mut v = base.to_vec();
        v.splice(p..p, ch.iter().cloned());
        emit15(out, rng, fmt, abc, &v);
    }
    // (c) fill_buf fails at the k-th call (in Reader::new for k = 0, inside next() later), slices of a fixed size
    for _ in 0..(if all { 24 } else { 8 }) {
        let c = *rng.pick(&[1usize, 2, 5, 16, 61, 4096]);
        let slices = (base.len() + c - 1) / c.max(1);
        let k = rng.below(slices.min(40) as u64 + 2) as usize;
        let kind = *rng.pick(&["Eo", "Eo", "Eu", "Ed", "Ew", "Ei"]);
        let mut ev: Vec<String> = (0..k).map(|_| c.to_string()).collect();
        ev.push(kind.to_string());
        if rng.chance(1, 3) {
            // a second failure a few slices later, or right away
            for _ in 0..rng.below(4) {
                ev.push(c.to_string());
            }
            ev.push((*rng.pick(&["Eo", "Ei", "Eu"])).to_string());
        }
        let spec = format!("all;ev:{};cap:3", ev.join(","));
        emit15_with(out, fmt, abc, base, &spec);
    }
}

fn gen_c15(seed: u64, n: usize, tier: &str) {
    let mut rng = Rng::new(seed ^ 0x15);
    let mut out: Vec<String> = vec![];
    let formats = [("jaspar", "dna"), ("jaspar16", "dna"), ("jaspar16", "protein"), ("uniprobe", "dna"), ("uniprobe", "protein")];
    // fixed cases
    for (fmt, abc) in formats {
        for d in [&b""[..], b">", b"\n", b" ", b">\n", b">x\n", b"x", b"\xff", b">\xff\n", b"\xc2\xa0", b">a>b>x\n1\n2\n3\n4\n\n\n\n", b">a>b>x\nA [1]\n\n\n\n", b"ID\n", b"ID\nfoo\n", b"ID", b"A:\t1\n", b"ID\r", b"ID\rx\n"] {
            emit15(&mut out, &mut rng, fmt, abc, d);
        }
    }
    let per_base = if tier == "thorough" { 1usize << 30 } else { 24 };
    while out.len() < n {
        let (fmt, abc) = *rng.pick(&formats);
        let recs: Vec<(Style, Src)> = (0..rng.range(1, 3)).map(|_| gen_record(&mut rng, fmt, abc, 5)).collect();
        let base = print_file(fmt, b"", &recs, b"");
        // prefixes: all of them (thorough) or a sample (quick)
        if base.len() <= per_base {
            for l in 0..base.len() {
                emit15(&mut out, &mut rng, fmt, abc, &base[..l]);
            }
        } else {
            for _ in 0..per_base {
                let l = rng.below(base.len() as u64) as usize;
                emit15(&mut out, &mut rng, fmt, abc, &base[..l]);
            }
        }
        // single-byte (and up to three) substitutions / deletions / insertions
        for _ in 0..(if tier == "thorough" { 60 } else { 30 }) {
            let m = mutate(&mut rng, &base);
            emit15(&mut out, &mut rng, fmt, abc, &m);
        }
        // structural damage
        for _ in 0..16 {
            let d = structural(&mut rng, fmt, abc);
            emit15(&mut out, &mut rng, fmt, abc, &d);
        }
        // invalid UTF-8 / multi-byte characters / failing fill_buf over a multi-record file
        {
            let recs: Vec<(Style, Src)> = (0..rng.range(2, 3)).map(|_| gen_record(&mut rng, fmt, abc, 4)).collect();
            let multi = print_file(fmt, b"", &recs, b"");
            sweeps(&mut out, &mut rng, fmt, abc, &multi, tier == "thorough");
        }
        // random bytes, random text over the format's own characters
        for _ in 0..6 {
            let l = rng.below(40) as usize;
            let d: Vec<u8> = (0..l).map(|_| if rng.chance(1, 2) { rng.below(256) as u8 } else { *rng.pick(JUNK) }).collect();
            emit15(&mut out, &mut rng, fmt, abc, &d);
        }
    }
    for l in out.iter().take(n.max(90)) {
        println!("{}", l);
    }
}

// ------------------------------------------------------------------ self test

/// Facts about std / nom 7.1.3 that the Coq model states as plain definitions.
fn selftest() -> i32 {
    let mut bad = 0;
    let ws: Vec<u32> = vec![9, 10, 11, 12, 13, 32, 0x85, 0xA0, 0x1680, 0x2000, 0x2001, 0x2002, 0x2003, 0x2004, 0x2005, 0x2006, 0x2007, 0x2008, 0x2009, 0x200A, 0x2028, 0x2029, 0x202F, 0x205F, 0x3000];
    for c in 0..=0x10FFFFu32 {
        if let Some(ch) = char::from_u32(c) {
            if ch.is_whitespace() != ws.contains(&c) {
                println!("White_Space mismatch at U+{:04X}", c);
                bad += 1;
            }
            let aw = matches!(c, 32 | 9 | 10 | 12 | 13);
            if ch.is_ascii_whitespace() != aw {
                println!("is_ascii_whitespace mismatch at U+{:04X}", c);
                bad += 1;
            }
            // tag_no_case compares char::to_lowercase(): only ASCII letters map onto n, a, i, f, t, y
            let lower: String = ch.to_lowercase().collect();
            if ["n", "a", "i", "f", "t", "y"].contains(&lower.as_str()) && !ch.is_ascii() {
                println!("non-ASCII char lower-cases to an ASCII tag letter: U+{:04X}", c);
                bad += 1;
            }
            if ch.to_digit(10).is_some() != (48..=57).contains(&c) {
                println!("to_digit mismatch at U+{:04X}", c);
                bad += 1;
            }
            let mut b = [0u8; 4];
            if ch.encode_utf8(&mut b).len() != ch.len_utf8() {
                bad += 1;
            }
        }
    }
    // std's read_until / read_line over a failing BufRead, as stated by IoErr.read_until_e / read_line_e:
    {
        use std::io::ErrorKind as K;
        let mut fact = |name: &str, ok: bool| {
            if !ok {
                println!("std BufRead fact does not hold: {}", name);
                bad += 1;
            }
        };
        // an error comes after the bytes seen so far were appended and consumed
        let mut r = EvReader::new(b"ab>cd", vec![Ev::Data(2), Ev::Err(K::Other)]);
        let mut buf = vec![b'#'];
        let e = r.read_until(b'>', &mut buf);
        fact("read_until: Err after appending what it consumed", e.is_err() && buf == b"#ab");
        let e2 = r.read_until(b'>', &mut buf);
        fact("read_until: the next call goes on after the consumed bytes", matches!(e2, Ok(1)) && buf == b"#ab>");
        // Interrupted is retried
        let mut r = EvReader::new(b"ab>cd", vec![Ev::Err(K::Interrupted), Ev::Data(1), Ev::Err(K::Interrupted), Ev::Data(1)]);
        let mut buf = vec![];
        fact("read_until: Interrupted is retried", matches!(r.read_until(b'>', &mut buf), Ok(3)) && buf == b"ab>");
        // read_line keeps valid UTF-8 read before an error
        let mut r = EvReader::new(b"ab\ncd", vec![Ev::Data(1), Ev::Err(K::Other)]);
        let mut st = String::from("#");
        let e = r.read_line(&mut st);
        fact("read_line: Err keeps the valid UTF-8 it appended", e.is_err() && st == "#a");
        fact("read_line: the next call completes the line", matches!(r.read_line(&mut st), Ok(2)) && st == "#ab\n");
        // invalid UTF-8: the bytes of the line are consumed, the String is unchanged, InvalidData
        let mut r = EvReader::new(b"a\xffb\ncd\n", vec![]);
        let mut st = String::from("#");
        let e = r.read_line(&mut st);
        fact("read_line: invalid UTF-8 gives InvalidData and leaves the String unchanged",
             matches!(&e, Err(x) if x.kind() == K::InvalidData) && st == "#");
        fact("read_line: the invalid line was consumed", matches!(r.read_line(&mut st), Ok(3)) && st == "#cd\n");
        // invalid UTF-8 followed by an I/O error inside the same call: still an error, String unchanged
        let mut r = EvReader::new(b"a\xffb\ncd\n", vec![Ev::Data(2), Ev::Err(K::Other)]);
        let mut st = String::from("#");
        fact("read_line: invalid bytes then I/O error: Err, String unchanged", r.read_line(&mut st).is_err() && st == "#");
        fact("read_line: ... and those bytes are gone", matches!(r.read_line(&mut st), Ok(2)) && st == "#b\n");
        // end of input: Ok(0) again and again
        let mut r = EvReader::new(b"", vec![]);
        let mut st = String::new();
        fact("read_line: Ok(0) at end of input, repeatedly",
             matches!(r.read_line(&mut st), Ok(0)) && matches!(r.read_line(&mut st), Ok(0)) && st.is_empty());
    }
    println!("selftest: {} mismatches", bad);
    if bad == 0 {
        0
    } else {
        1
    }
}

fn main() {
    silence_panics();
    let a = parse_args();
    let sub = if a.cmd == "selftest" { "selftest".to_string() } else { a.rest.first().cloned().unwrap_or_default() };
    match sub.as_str() {
        "gen" => {
            if a.cmd == "c14" {
                gen_c14(a.seed, a.n, &a.tier)
            } else {
                gen_c15(a.seed, a.n, &a.tier)
            }
        }
        "run" => {
            use std::io::Write;
            let out = std::io::stdout();
            let mut out = out.lock();
            // every case runs in its own thread under a watchdog: a call that never returns is a
            // HANG observation (the stuck thread is abandoned and dies with the process)
            let limit = std::time::Duration::from_secs(
                std::env::var("LM_IO_WATCHDOG_S").ok().and_then(|s| s.parse().ok()).unwrap_or(180),
            );
            for line in stdin_lines() {
                let (tx, rx) = std::sync::mpsc::channel();
                let l2 = line.clone();
                std::thread::Builder::new()
                    .stack_size(64 << 20)
                    .spawn(move || {
                        let _ = tx.send(run_line(&l2));
                    })
                    .unwrap();
                match rx.recv_timeout(limit) {
                    Ok(r) => writeln!(out, "{}", r).unwrap(),
                    Err(_) => writeln!(out, "{} => len=0 fnv=0 obs=HANG", line).unwrap(),
                }
            }
            out.flush().unwrap();
            std::process::exit(0);
        }
        "selftest" => std::process::exit(selftest()),
        _ => {
            eprintln!("usage: io c14|c15 gen --seed S --n N --tier T | io c14|c15 run | io selftest");
            std::process::exit(2);
        }
    }
}
