//! C01 harness: PSSM scoring through every pipeline.
//!
//! `score gen --seed S --n N [--tier t]` prints input lines
//!     <id> abc=<dna|prot> C=<16|32|48> M=<m> pad=<hex> pssm=<row;row;..> seq=<letters>
//!          wrap=<m|k> rows=<a:b,a:b,..> pos=<p,..> idx=<i,..>
//!   pssm rows are the K cells as 8-digit hex bit patterns (no separator), `-` = no rows;
//!   wrap=m calls `configure(&pssm)`, wrap=<k> calls `configure_wrap(k)`; several steps on the
//!   same striped sequence are joined by `+` (wrap=2+m: configure_wrap(2), then configure(&pssm)).
//! `score run` reads input lines and appends ` => <observation>`; the observation is a
//!   list of space-separated `key=value` tokens:
//!     sq=<len>/<wrap>/<row,row,..>     the striped matrix built by the library ('a'+symbol)
//!     <p>s=<res>                        full scan `score()` of pipeline <p>
//!     <p>r<k>=<res>                     `score_rows_into(rows k)` on the buffer of the full scan
//!     un=<n>/<values>                   unstripe() of the generic full scan
//!     mun=..                            unstripe() of ScoringMatrix::score (default dispatch)
//!     sp=<pos>:<v>,..                   ScoringMatrix::score_position
//!     ix=<i>:<v>,..                     StripedScores::index on the generic full scan
//!     il=<n>                            iter().len() of the generic full scan
//!     rv=<n>/<values>                   iter().rev() collected
//!     mx=<v|N>,..                       the `it=` ops (f = next, b = next_back) on one iterator
//!     of=<i>:<offset>,..                offset(MatrixCoordinates { row: i % rows, col: i / rows })
//!     cv=ok|<what differs>              From/AsRef/Deref/Default conversions of Scores / StripedScores
//!   pipelines: g generic, s sse2, a avx2, dg/ds/da Pipeline::dispatch() with the arm forced,
//!   mg/ms/ma ScoringMatrix::score with the arm forced, md ScoringMatrix::score unforced.
//!   <res> = `P` (panic) | `<max_index>/<rows>/<row,row,..>` (cells as 8-digit hex, NaN
//!   canonicalised to 7fc00000) | `=` (bit-identical to the generic pipeline's token).

use std::ops::Range;

use lightmotif::abc::Alphabet;
use lightmotif::abc::Background;
use lightmotif::abc::Dna;
use lightmotif::abc::Protein;
use lightmotif::abc::Symbol;
use lightmotif::dense::DenseMatrix;
use lightmotif::num::MultipleOf;
use lightmotif::num::PositiveLength;
use lightmotif::num::Unsigned;
use lightmotif::num::{U16, U32, U48, U64};
use lightmotif::dense::MatrixCoordinates;
use lightmotif::scores::Scores;
use lightmotif::pli::dispatch::Dispatch;
use lightmotif::pli::verif::force_backend;
use lightmotif::pli::Pipeline;
use lightmotif::pli::Score;
use lightmotif::pli::Stripe;
use lightmotif::pwm::ScoringMatrix;
use lightmotif::scores::StripedScores;
use lightmotif::seq::EncodedSequence;
use lightmotif::seq::StripedSequence;
use lmh::*;

const DNA: &str = "ACTGN";
const PROT: &str = "ACDEFGHIKLMNPQRSTVWYX";
const NEG_INF: u32 = 0xff80_0000;

fn canon(x: f32) -> u32 {
    if x.is_nan() {
        0x7fc0_0000
    } else {
        x.to_bits()
    }
}

struct Case {
    abc: String,
    c: usize,
    pad: u32,
    pssm: Vec<Vec<u32>>,
    seq: String,
    wrap: Vec<Option<usize>>,
    ranges: Vec<(usize, usize)>,
    pos: Vec<usize>,
    idx: Vec<usize>,
    itops: String,
}

fn parse_case(line: &str) -> (String, Case) {
    let (id, f) = fields(line);
    let k = if f["abc"] == "dna" { 5 } else { 21 };
    let pssm: Vec<Vec<u32>> = if f["pssm"] == "-" {
        vec![]
    } else {
        f["pssm"]
            .split(';')
            .map(|r| {
                assert_eq!(r.len(), 8 * k);
                (0..k)
                    .map(|i| u32::from_str_radix(&r[8 * i..8 * i + 8], 16).unwrap())
                    .collect()
            })
            .collect()
    };
    let list = |s: &str| -> Vec<usize> {
        if s.is_empty() || s == "-" {
            vec![]
        } else {
            s.split(',').map(|x| x.parse().unwrap()).collect()
        }
    };
    let ranges = if f["rows"] == "-" {
        vec![]
    } else {
        f["rows"]
            .split(',')
            .map(|r| {
                let (a, b) = r.split_once(':').unwrap();
                (a.parse().unwrap(), b.parse().unwrap())
            })
            .collect()
    };
    let case = Case {
        abc: f["abc"].clone(),
        c: f["C"].parse().unwrap(),
        pad: u32::from_str_radix(&f["pad"], 16).unwrap(),
        pssm,
        seq: if f["seq"] == "-" { String::new() } else { f["seq"].clone() },
        wrap: f["wrap"]
            .split('+')
            .map(|w| if w == "m" { None } else { Some(w.parse().unwrap()) })
            .collect(),
        ranges,
        pos: list(&f["pos"]),
        idx: list(&f["idx"]),
        itops: f.get("it").cloned().filter(|x| x != "-").unwrap_or_default(),
    };
    (id, case)
}

fn show_scores<C: PositiveLength>(s: &StripedScores<f32, C>) -> String {
    let m = s.matrix();
    let mut out = format!("{}/{}/", s.max_index(), m.rows());
    for r in 0..m.rows() {
        if r > 0 {
            out.push(',');
        }
        for c in 0..C::USIZE {
            out.push_str(&format!("{:08x}", canon(m[r][c])));
        }
    }
    out
}

fn show_values(v: &[f32]) -> String {
    let mut out = format!("{}/", v.len());
    for x in v {
        out.push_str(&format!("{:08x}", canon(*x)));
    }
    out
}

/// One way of calling the scoring code: `None` = full scan into a fresh matrix
/// (`score`), `Some(rows)` = `score_rows_into` on the given buffer.
type Runner<A, C> = Box<
    dyn Fn(&ScoringMatrix<A>, &StripedSequence<A, C>, Option<Range<usize>>, &mut StripedScores<f32, C>),
>;

fn runner_of<A, C, P>(make: impl Fn() -> P + 'static) -> Runner<A, C>
where
    A: Alphabet,
    C: PositiveLength,
    P: Score<f32, A, C>,
{
    Box::new(move |pssm, seq, rows, buf| {
        let pli = make();
        match rows {
            None => *buf = Score::<f32, A, C>::score(&pli, pssm, seq),
            Some(r) => Score::<f32, A, C>::score_rows_into(&pli, pssm, seq, r, buf),
        }
    })
}

trait Cols<A: Alphabet>: PositiveLength + MultipleOf<U16> {
    fn stripe(enc: &EncodedSequence<A>) -> StripedSequence<A, Self>;
    fn runners() -> Vec<(&'static str, Runner<A, Self>)>;
    fn matrix_score(
        _pssm: &ScoringMatrix<A>,
        _seq: &StripedSequence<A, Self>,
    ) -> Option<StripedScores<f32, Self>> {
        None
    }
}

fn base_runners<A: Alphabet, C: PositiveLength + MultipleOf<U16>>() -> Vec<(&'static str, Runner<A, C>)> {
    vec![
        ("g", runner_of::<A, C, _>(|| Pipeline::<A, _>::generic())),
        ("s", runner_of::<A, C, _>(|| Pipeline::<A, _>::sse2().unwrap())),
    ]
}

impl<A: Alphabet> Cols<A> for U16 {
    fn stripe(enc: &EncodedSequence<A>) -> StripedSequence<A, Self> {
        Pipeline::<A, _>::generic().stripe(enc)
    }
    fn runners() -> Vec<(&'static str, Runner<A, Self>)> {
        base_runners::<A, U16>()
    }
}

impl<A: Alphabet> Cols<A> for U48 {
    fn stripe(enc: &EncodedSequence<A>) -> StripedSequence<A, Self> {
        Pipeline::<A, _>::generic().stripe(enc)
    }
    fn runners() -> Vec<(&'static str, Runner<A, Self>)> {
        base_runners::<A, U48>()
    }
}

impl<A: Alphabet> Cols<A> for U64 {
    fn stripe(enc: &EncodedSequence<A>) -> StripedSequence<A, Self> {
        Pipeline::<A, _>::generic().stripe(enc)
    }
    fn runners() -> Vec<(&'static str, Runner<A, Self>)> {
        base_runners::<A, U64>()
    }
}

impl<A: Alphabet> Cols<A> for U32 {
    fn stripe(enc: &EncodedSequence<A>) -> StripedSequence<A, Self> {
        enc.to_striped()
    }
    fn runners() -> Vec<(&'static str, Runner<A, Self>)> {
        let mut v = base_runners::<A, U32>();
        v.push(("a", runner_of::<A, U32, _>(|| Pipeline::<A, _>::avx2().unwrap())));
        v.push((
            "dg",
            runner_of::<A, U32, _>(|| {
                force_backend(Some(Dispatch::Generic));
                Pipeline::<A, _>::dispatch()
            }),
        ));
        v.push((
            "ds",
            runner_of::<A, U32, _>(|| {
                force_backend(Some(Dispatch::Sse2));
                Pipeline::<A, _>::dispatch()
            }),
        ));
        v.push((
            "da",
            runner_of::<A, U32, _>(|| {
                force_backend(Some(Dispatch::Avx2));
                Pipeline::<A, _>::dispatch()
            }),
        ));
        for (name, arm) in [
            ("mg", Some(Dispatch::Generic)),
            ("ms", Some(Dispatch::Sse2)),
            ("ma", Some(Dispatch::Avx2)),
            ("md", None),
        ] {
            v.push((
                name,
                Box::new(move |pssm, seq, rows, buf| {
                    force_backend(arm.clone());
                    match rows {
                        None => *buf = pssm.score(seq),
                        // ScoringMatrix has no row-range entry point: go through the
                        // pipeline `score` uses
                        Some(r) => Pipeline::<A, _>::dispatch().score_rows_into(pssm, seq, r, buf),
                    }
                }),
            ));
        }
        v
    }
    fn matrix_score(
        pssm: &ScoringMatrix<A>,
        seq: &StripedSequence<A, Self>,
    ) -> Option<StripedScores<f32, Self>> {
        Some(pssm.score(seq))
    }
}

fn run_cols<A: Alphabet, C: Cols<A>>(case: &Case) -> String {
    let k = <A::K as Unsigned>::USIZE;
    // scoring matrix: every storage cell (padding included) is first set to `pad`
    let mut data = DenseMatrix::<f32, A::K>::new(case.pssm.len());
    data.fill(f32::from_bits(case.pad));
    for (j, row) in case.pssm.iter().enumerate() {
        for s in 0..k {
            data[j][s] = f32::from_bits(row[s]);
        }
    }
    let pssm = ScoringMatrix::<A>::new(Background::uniform(), data);

    let enc = EncodedSequence::<A>::encode(&case.seq).expect("generated sequences are valid");
    let mut striped: StripedSequence<A, C> = C::stripe(&enc);
    // one or more configuration steps on the same striped sequence (a sequence scanned
    // with several motifs is re-configured without being re-striped)
    for step in case.wrap.iter() {
        match step {
            None => striped.configure(&pssm),
            Some(w) => striped.configure_wrap(*w),
        }
    }

    let mut out: Vec<String> = vec![];
    {
        let m = striped.matrix();
        let mut s = format!("sq={}/{}/", striped.len(), striped.wrap());
        for r in 0..m.rows() {
            if r > 0 {
                s.push(',');
            }
            for c in 0..C::USIZE {
                s.push((b'a' + m[r][c].as_index() as u8) as char);
            }
        }
        out.push(s);
    }

    let mut generic_tokens: Vec<String> = vec![];
    let mut generic_full: Option<StripedScores<f32, C>> = None;
    for (name, runner) in C::runners() {
        let mut buf: StripedScores<f32, C> = StripedScores::empty();
        let mut tokens: Vec<String> = vec![];
        let r = no_panic(|| runner(&pssm, &striped, None, &mut buf));
        force_backend(None);
        tokens.push(match r {
            Some(()) => show_scores(&buf),
            None => {
                buf = StripedScores::empty();
                "P".to_string()
            }
        });
        if name == "g" && r.is_some() {
            generic_full = Some(buf.clone());
        }
        for (a, b) in case.ranges.iter() {
            let r = no_panic(|| runner(&pssm, &striped, Some(*a..*b), &mut buf));
            force_backend(None);
            tokens.push(match r {
                Some(()) => show_scores(&buf),
                None => "P".to_string(),
            });
        }
        if name == "g" {
            generic_tokens = tokens.clone();
        }
        for (i, t) in tokens.iter().enumerate() {
            let key = if i == 0 { format!("{}s", name) } else { format!("{}r{}", name, i - 1) };
            if name != "g" && *t == generic_tokens[i] {
                out.push(format!("{}==", key));
            } else {
                out.push(format!("{}={}", key, t));
            }
        }
    }

    // unstripe / index on the generic full scan
    match &generic_full {
        Some(sc) => {
            let un = no_panic(|| sc.unstripe());
            let un_s = match &un {
                Some(v) => show_values(v),
                None => "P".to_string(),
            };
            out.push(format!("un={}", un_s));
            if let Some(ms) = no_panic(|| C::matrix_score(&pssm, &striped)) {
                if let Some(ms) = ms {
                    let mun = no_panic(|| ms.unstripe())
                        .map(|v| show_values(&v))
                        .unwrap_or_else(|| "P".to_string());
                    out.push(if mun == un_s { "mun==".to_string() } else { format!("mun={}", mun) });
                }
            } else {
                out.push("mun=P".to_string());
            }
            let ix: Vec<String> = case
                .idx
                .iter()
                .map(|i| match no_panic(|| sc[*i]) {
                    Some(v) => format!("{}:{:08x}", i, canon(v)),
                    None => format!("{}:P", i),
                })
                .collect();
            out.push(format!("ix={}", if ix.is_empty() { "-".to_string() } else { ix.join(",") }));
            // the rest of the StripedScores / Scores API on the same scan
            if let Some(n) = no_panic(|| sc.iter().len()) {
                out.push(format!("il={}", n));
            } else {
                out.push("il=P".to_string());
            }
            out.push(format!(
                "rv={}",
                no_panic(|| sc.iter().rev().cloned().collect::<Vec<f32>>())
                    .map(|v| show_values(&v))
                    .unwrap_or_else(|| "P".to_string())
            ));
            if !case.itops.is_empty() {
                let ops = case.itops.clone();
                let r = no_panic(|| {
                    let mut it = sc.iter();
                    ops.chars()
                        .map(|o| {
                            let x = if o == 'f' { it.next() } else { it.next_back() };
                            match x {
                                Some(v) => format!("{:08x}", canon(*v)),
                                None => "N".to_string(),
                            }
                        })
                        .collect::<Vec<String>>()
                        .join(",")
                });
                out.push(format!("mx={}", r.unwrap_or_else(|| "P".to_string())));
            }
            let rows = sc.matrix().rows();
            if rows > 0 {
                let of: Vec<String> = case
                    .idx
                    .iter()
                    .map(|i| {
                        let mc = MatrixCoordinates::new(*i % rows, *i / rows);
                        match no_panic(|| sc.offset(mc)) {
                            Some(o) => format!("{}:{}", i, o),
                            None => format!("{}:P", i),
                        }
                    })
                    .collect();
                out.push(format!("of={}", if of.is_empty() { "-".to_string() } else { of.join(",") }));
            }
            let cv = no_panic(|| {
                let bits = |v: &[f32]| v.iter().map(|x| canon(*x)).collect::<Vec<u32>>();
                let u: Scores<f32> = sc.unstripe();
                let want = bits(&u);
                let mut bad: Vec<&str> = vec![];
                if bits(&Vec::<f32>::from(sc.clone())) != want {
                    bad.push("Vec::from(StripedScores)");
                }
                if u.len() != want.len() {
                    bad.push("Deref::len");
                }
                if bits(AsRef::<Vec<f32>>::as_ref(&u)) != want {
                    bad.push("AsRef<Vec>");
                }
                let plain: Vec<f32> = Vec::<f32>::from(u.clone());
                if bits(&plain) != want {
                    bad.push("Vec::from(Scores)");
                }
                if bits(&Scores::new(plain.clone())) != want || bits(&Scores::from(plain)) != want {
                    bad.push("Scores::new/from");
                }
                let d = StripedScores::<f32, C>::default();
                if d.max_index() != 0 || d.matrix().rows() != 0 || !d.is_empty() || d.unstripe().len() != 0 {
                    bad.push("Default");
                }
                if AsRef::<DenseMatrix<f32, C>>::as_ref(sc).rows() != sc.matrix().rows() {
                    bad.push("AsRef<DenseMatrix>");
                }
                let mut m = sc.clone();
                if AsMut::<DenseMatrix<f32, C>>::as_mut(&mut m).rows() != sc.matrix().rows() {
                    bad.push("AsMut<DenseMatrix>");
                }
                if sc.is_empty() != (sc.matrix().rows() == 0) {
                    bad.push("is_empty");
                }
                if bad.is_empty() { "ok".to_string() } else { bad.join("+") }
            });
            out.push(format!("cv={}", cv.unwrap_or_else(|| "P".to_string())));
        }
        None => {
            out.push("un=-".to_string());
            out.push("ix=-".to_string());
        }
    }

    let sp: Vec<String> = case
        .pos
        .iter()
        .map(|p| match no_panic(|| pssm.score_position(&striped, *p)) {
            Some(v) => format!("{}:{:08x}", p, canon(v)),
            None => format!("{}:P", p),
        })
        .collect();
    out.push(format!("sp={}", if sp.is_empty() { "-".to_string() } else { sp.join(",") }));
    out.join(" ")
}

fn run_case(case: &Case) -> String {
    match (case.abc.as_str(), case.c) {
        ("dna", 16) => run_cols::<Dna, U16>(case),
        ("dna", 32) => run_cols::<Dna, U32>(case),
        ("dna", 48) => run_cols::<Dna, U48>(case),
        ("prot", 16) => run_cols::<Protein, U16>(case),
        ("prot", 32) => run_cols::<Protein, U32>(case),
        ("prot", 48) => run_cols::<Protein, U48>(case),
        ("dna", 64) => run_cols::<Dna, U64>(case),
        ("prot", 64) => run_cols::<Protein, U64>(case),
        _ => panic!("unsupported configuration"),
    }
}

// ---------------------------------------------------------------- generator

fn gen_cell(rng: &mut Rng, style: u64) -> u32 {
    match style {
        // "nice" quarter-grid values
        0 => ((rng.range(-32, 32) as f32) * 0.25).to_bits(),
        // log-odds like values
        1 => {
            let x = (rng.range(-4000, 2000) as f32) / 1000.0;
            x.to_bits()
        }
        // random bit patterns of moderate magnitude: exponent 2^-12 .. 2^12
        2 => {
            let sign = (rng.below(2) as u32) << 31;
            let exp = (127 - 12 + rng.below(25) as u32) << 23;
            let man = (rng.next() as u32) & 0x007f_ffff;
            sign | exp | man
        }
        // wide dynamic range (cancellation, absorption), still far from overflow
        3 => {
            let sign = (rng.below(2) as u32) << 31;
            let exp = (127 - 60 + rng.below(100) as u32) << 23;
            let man = (rng.next() as u32) & 0x007f_ffff;
            sign | exp | man
        }
        // subnormals and tiny values
        4 => {
            let sign = (rng.below(2) as u32) << 31;
            let exp = (rng.below(3) as u32) << 23;
            let man = (rng.next() as u32) & 0x007f_ffff;
            sign | exp | man
        }
        // huge values: sums overflow
        _ => {
            let sign = (rng.below(2) as u32) << 31;
            let exp = (127 + 120 + rng.below(8) as u32) << 23;
            let man = (rng.next() as u32) & 0x007f_ffff;
            sign | exp | man
        }
    }
}

fn gen_case(rng: &mut Rng, id: usize, tier: &str) -> String {
    let thorough = tier == "thorough";
    let abc = if rng.chance(55, 100) { "dna" } else { "prot" };
    let (alpha, k) = if abc == "dna" { (DNA, 5usize) } else { (PROT, 21usize) };
    // 16 columns is `DefaultColumns` on hosts without AVX2 (and the lane count of the NEON
    // dispatcher); 48 and 64 exercise more than two 16-column blocks of the SSE2 kernel
    let c: usize = match rng.below(100) {
        0..=49 => 32,
        50..=84 => 16,
        85..=92 => 48,
        _ => 64,
    };
    // motif width
    let m: usize = match rng.below(100) {
        0 => 0,
        1..=34 => 1 + rng.below(6) as usize,
        35..=74 => 7 + rng.below(14) as usize,
        _ => 21 + rng.below(20) as usize,
    };
    // sequence length
    let sel = rng.below(100);
    let mut l: i64 = if sel < 22 {
        rng.range(0, m as i64 + 2)
    } else if sel < 55 {
        (rng.range(1, 6) * c as i64) + rng.range(-2, 2)
    } else if sel < 88 {
        rng.range(1, 300)
    } else if sel < 97 || (!thorough && sel < 99) {
        // around C*C: one more row than columns, full blocks of the AVX2 striping
        (c * c) as i64 + rng.range(-3, 40)
    } else {
        // around 256 rows (1 % of the quick tier, 3 % of the thorough tier)
        (c * 256) as i64 + rng.range(-3, 3)
    };
    if thorough && sel >= 22 && sel < 30 {
        l = (c as i64) * rng.range(7, 40) + rng.range(-1, 1);
    }
    let l = l.max(0) as usize;
    let r = (l + c - 1) / c;

    // scoring matrix
    let style = match rng.below(100) {
        0..=29 => 0,
        30..=54 => 1,
        55..=79 => 2,
        80..=91 => 3,
        92..=96 => 4,
        _ => 5,
    };
    let wild_inf = rng.chance(60, 100);
    let inf_elsewhere = rng.chance(25, 100);
    let special = rng.chance(3, 100);
    let mut rows: Vec<String> = vec![];
    for _ in 0..m {
        let mut row = String::new();
        for s in 0..k {
            let mut v = gen_cell(rng, style);
            if rng.chance(5, 100) {
                v = if rng.chance(1, 2) { 0 } else { 0x8000_0000 };
            }
            if (s == k - 1 && wild_inf) || (inf_elsewhere && rng.chance(3, 100)) {
                v = NEG_INF;
            }
            // outside the property's quantifier (nothing is claimed about the values), but the
            // pipelines must still agree with the model bit for bit: +inf and NaN cells
            if special && rng.chance(4, 100) {
                v = if rng.chance(1, 2) { 0x7f80_0000 } else { 0x7fc0_0000 };
            }
            row.push_str(&format!("{:08x}", v));
        }
        rows.push(row);
    }
    let pad = *rng.pick(&[0x7fc0_0000u32, 0x7f80_0000, 0x4640_e400, 0xff80_0000, 0]);

    // sequence
    let wild = match rng.below(100) {
        0..=9 => 40,
        10..=14 => 100,
        15..=24 => 0,
        _ => 5,
    };
    let mono = rng.chance(5, 100);
    let mono_sym = rng.below(k as u64 - 1) as usize;
    let seq: String = (0..l)
        .map(|_| {
            let s = if rng.below(100) < wild {
                k - 1
            } else if mono {
                mono_sym
            } else {
                rng.below(k as u64 - 1) as usize
            };
            alpha.as_bytes()[s] as char
        })
        .collect();

    // look-ahead rows
    let need = m.saturating_sub(1);
    let (wrap_s, wrap) = match rng.below(100) {
        // re-configuration of an already configured sequence for a wider motif
        0..=17 if need >= 2 => {
            let w1 = 1 + rng.below(need as u64 - 1) as usize;
            if rng.chance(1, 3) && w1 >= 2 {
                let w0 = 1 + rng.below(w1 as u64 - 1) as usize;
                (format!("{}+{}+m", w0, w1), need)
            } else {
                (format!("{}+m", w1), need)
            }
        }
        0..=74 => ("m".to_string(), need),
        75..=84 => {
            let w = need + *rng.pick(&[1usize, 2, 5, 33]);
            (w.to_string(), w)
        }
        85..=94 if need > 0 => {
            let w = rng.below(need as u64) as usize;
            (w.to_string(), w)
        }
        _ => ("0".to_string(), 0),
    };
    let total = r + wrap;

    // row sub-ranges
    let nr = 1 + rng.below(2) as usize;
    let mut ranges: Vec<String> = vec![];
    for _ in 0..nr {
        let (a, b) = match rng.below(100) {
            0..=54 if r > 0 => {
                let a = rng.below(r as u64) as usize;
                let b = a + 1 + rng.below((r - a) as u64) as usize;
                (a, b)
            }
            55..=64 => {
                let a = rng.below(total as u64 + 1) as usize;
                (a, a)
            }
            65..=72 => {
                let a = 1 + rng.below(total as u64 + 1) as usize;
                (a, rng.below(a as u64) as usize)
            }
            73..=87 if total > 0 => {
                // may reach into the look-ahead rows
                let a = rng.below(total as u64) as usize;
                let b = a + 1 + rng.below((total - a) as u64) as usize;
                (a, b)
            }
            88..=93 => {
                // reaches past the matrix
                let a = rng.below(total as u64 + 1) as usize;
                (a, total + 1 + rng.below(3) as usize)
            }
            _ => (0, r),
        };
        ranges.push(format!("{}:{}", a, b));
    }

    // positions for score_position and indices for Index<usize>
    let nvals = (l + 1).saturating_sub(m);
    let mut pos: Vec<usize> = vec![];
    if nvals > 0 {
        pos.push(0);
        pos.push(nvals - 1);
        pos.push(rng.below(nvals as u64) as usize);
    }
    pos.push(nvals + rng.below(3) as usize);
    pos.push((r * c + 1).saturating_sub(m) + rng.below(2) as usize);
    pos.sort();
    pos.dedup();
    let mut idx: Vec<usize> = vec![];
    if nvals > 0 {
        idx.push(rng.below(nvals as u64) as usize);
    }
    if r * c > nvals {
        idx.push(nvals + rng.below((r * c - nvals) as u64) as usize);
    }
    idx.push(r * c + rng.below(3) as usize);
    idx.push(0);
    idx.sort();
    idx.dedup();
    let join = |v: &[usize]| v.iter().map(|x| x.to_string()).collect::<Vec<_>>().join(",");
    // next / next_back operations on one iterator of the scores (sometimes more than there are values)
    let nops = match rng.below(10) {
        0..=1 => 0,
        2..=7 => 1 + rng.below(10) as usize,
        _ => nvals.min(40) + 1 + rng.below(3) as usize,
    };
    let itops: String = (0..nops).map(|_| if rng.chance(1, 2) { 'f' } else { 'b' }).collect();

    format!(
        "g{} abc={} C={} M={} L={} pad={:08x} pssm={} seq={} wrap={} rows={} pos={} idx={} it={}",
        id,
        abc,
        c,
        m,
        l,
        pad,
        if rows.is_empty() { "-".to_string() } else { rows.join(";") },
        if seq.is_empty() { "-".to_string() } else { seq },
        wrap_s,
        ranges.join(","),
        join(&pos),
        join(&idx),
        if itops.is_empty() { "-".to_string() } else { itops }
    )
}

fn main() {
    let args = parse_args();
    match args.cmd.as_str() {
        "gen" => {
            let mut rng = Rng::new(args.seed);
            for i in 0..args.n {
                println!("{}", gen_case(&mut rng, i, &args.tier));
            }
        }
        // the README example as an input line (the scoring matrix is computed by the library)
        "readme" => {
            use lightmotif::pwm::CountMatrix;
            let counts = CountMatrix::<Dna>::from_sequences(
                ["GTTGACCTTATCAAC", "GTTGATCCAGTCAAC"]
                    .into_iter()
                    .map(|s| EncodedSequence::encode(s).unwrap()),
            )
            .unwrap();
            let pssm = counts.to_freq(0.1).to_scoring(None);
            let m = pssm.matrix();
            let rows: Vec<String> = (0..m.rows())
                .map(|j| (0..5).map(|k| format!("{:08x}", m[j][k].to_bits())).collect::<String>())
                .collect();
            let seq = "ATGTCCCAACAACGATACCCCGAGCCCATCGCCGTCATCGGCTCGGCATGCAGATTCCCAGGCG";
            println!(
                "readme abc=dna C=32 M={} L={} pad=00000000 pssm={} seq={} wrap=m rows=0:1,1:2 pos=0,18,49,50 idx=0,18,49,50,63,64",
                m.rows(),
                seq.len(),
                rows.join(";"),
                seq
            );
        }
        "run" => {
            silence_panics();
            for line in stdin_lines() {
                let input = line.split(" => ").next().unwrap().to_string();
                let (_, case) = parse_case(&input);
                let obs = run_case(&case);
                println!("{} => {}", input, obs);
            }
        }
        _ => {
            eprintln!("usage: score gen --seed S --n N [--tier quick|thorough] | score run");
            std::process::exit(2);
        }
    }
}
