//! C01 harness: PSSM scoring through every pipeline.
//!
//! `score gen --seed S --n N [--tier t]` prints input lines
//!     <id> abc=<dna|prot> C=<16|32|48> M=<m> pad=<hex> pssm=<row;row;..> seq=<letters>
//!          wrap=<m|k> rows=<a:b,a:b,..> pos=<p,..> idx=<i,..>
//!   pssm rows are the K cells as 8-digit hex bit patterns (no separator), `-` = no rows;
//!   wrap=m calls `configure(&pssm)`, wrap=<k> calls `configure_wrap(k)`; several steps on the
//!   same striped sequence are joined by `+` (wrap=2+m: configure_wrap(2), then configure(&pssm)).
//!   optional `src=` says how the StripedSequence is built (default: Stripe::stripe / to_striped):
//!     src=new.<extra>.<letters>  StripedSequence::new(matrix, L) on a matrix of ceil(L/C)+extra rows whose cell
//!                                of linear index i (row i % R, column i / R) is seq[i] for i < L and
//!                                letters[(i - L) % len] otherwise (padding that is NOT the wildcard)
//!     src=sample.<seed>          StripedSequence::sample(StdRng::seed_from_u64(seed), Background::uniform(), L)
//!                                (`seq=-`; the sequence is whatever was drawn; the padding cells were drawn too up to
//!                                /repo a1b1f91 and are the wildcard since the fix 740d563: the driver accepts both)
//!   for both the observation starts with lq=<letters>: Index<usize> of the striped sequence at 0 .. L-1
//! `score run` reads input lines and appends ` => <observation>`; the observation is a
//!   list of space-separated `key=value` tokens:
//!     sq=<len>/<wrap>/<row,row,..>     the striped matrix built by the library ('a'+symbol)
//!     <p>s=<res>                        full scan `score()` of pipeline <p>
//!     <p>r<k>=<res>                     `score_rows_into(rows k)` on the buffer of the full scan
//!     un=<n>/<values>                   unstripe() of the generic full scan
//!     mun=..                            unstripe() of ScoringMatrix::score (default dispatch)
//!     sp=<pos>:<v>,..                   ScoringMatrix::score_position
//!     ix=<i>:<v>,..                     StripedScores::index on the generic full scan
//!     il=<n>                            iter().len() of the generic full scan
//!     rv=<n>/<values>                   iter().rev() collected
//!     mx=<v|N>,..                       the `it=` ops (f = next, b = next_back) on one iterator
//!     of=<i>:<offset>,..                offset(MatrixCoordinates { row: i % rows, col: i / rows })
//!     cv=ok|<what differs>              From/AsRef/Deref/Default conversions of Scores / StripedScores
//!   HISTORY cases (`hist=1`): one reused `StripedScores` buffer driven through a list of calls
//!     <id> hist=1 C=<c> pad=<hex> ms=<abc>:<row;row;..>|.. qs=<abc>:<wrap>:<letters>[:new.<extra>.<pad letters>]|.. ops=<op>,<op>,..
//!     op = S.<p>.<mi>.<qi>        pli.score_into(&ms[mi], &qs[qi], &mut scores)
//!        | R.<p>.<mi>.<qi>.<a>.<b> pli.score_rows_into(&ms[mi], &qs[qi], a..b, &mut scores)
//!        | Z.<rows>.<max_index>    scores.resize(rows, max_index)
//!        | C                       scores = scores.clone()
//!        | D                       scores = Default::default()
//!        | F.<hex>                 scores.matrix_mut().fill(f32::from_bits(hex))
//!     observation: q<j>=<len>/<wrap>/<rows> (striped matrix of sequence j), and after step i:
//!     o<i>=<res> (`P|<res>`: the call panicked, <res> is what the buffer holds afterwards),
//!     f<i>=<res> the same call through the generic pipeline on a FRESH buffer (`=`: identical to o<i>),
//!     u<i>=<n>/<values> unstripe(), l<i>=iter().len(), e<i>=is_empty(), x<i>=<idx>:<v>;.. Index,
//!     v<i>=<what> when Vec::from(scores.clone()) / iter().rev() disagree with unstripe()
//!   pipelines: g generic, s sse2, a avx2, dg/ds/da Pipeline::dispatch() with the arm forced,
//!   mg/ms/ma ScoringMatrix::score with the arm forced, md ScoringMatrix::score unforced.
//!   <res> = `P` (panic) | `<max_index>/<rows>/<row,row,..>` (cells as 8-digit hex, NaN
//!   canonicalised to 7fc00000) | `=` (bit-identical to the generic pipeline's token).

use std::ops::Range;

use lightmotif::abc::Alphabet;
use lightmotif::abc::Background;
use lightmotif::abc::Dna;
use lightmotif::abc::Protein;
use lightmotif::abc::Symbol;
use lightmotif::dense::DenseMatrix;
use lightmotif::num::MultipleOf;
use lightmotif::num::PositiveLength;
use lightmotif::num::Unsigned;
use lightmotif::num::{U16, U32, U48, U64};
use lightmotif::dense::MatrixCoordinates;
use lightmotif::scores::Scores;
use lightmotif::pli::dispatch::Dispatch;
use lightmotif::pli::verif::force_backend;
use lightmotif::pli::Pipeline;
use lightmotif::pli::Score;
use lightmotif::pli::Stripe;
use lightmotif::pwm::ScoringMatrix;
use lightmotif::scores::StripedScores;
use lightmotif::seq::EncodedSequence;
use lightmotif::seq::StripedSequence;
use lmh::*;

const DNA: &str = "ACTGN";
const PROT: &str = "ACDEFGHIKLMNPQRSTVWYX";
const NEG_INF: u32 = 0xff80_0000;

fn canon(x: f32) -> u32 {
    if x.is_nan() {
        0x7fc0_0000
    } else {
        x.to_bits()
    }
}

struct Case {
    abc: String,
    c: usize,
    pad: u32,
    pssm: Vec<Vec<u32>>,
    seq: String,
    wrap: Vec<Option<usize>>,
    ranges: Vec<(usize, usize)>,
    pos: Vec<usize>,
    idx: Vec<usize>,
    itops: String,
    src: Src,
    len: usize,
}

/// how the striped sequence of a case is built
#[derive(Clone, Debug)]
enum Src {
    Stripe,
    New(usize, String),
    Sample(u64),
}

fn parse_case(line: &str) -> (String, Case) {
    let (id, f) = fields(line);
    let k = if f["abc"] == "dna" { 5 } else { 21 };
    let pssm: Vec<Vec<u32>> = if f["pssm"] == "-" {
        vec![]
    } else {
        f["pssm"]
            .split(';')
            .map(|r| {
                assert_eq!(r.len(), 8 * k);
                (0..k)
                    .map(|i| u32::from_str_radix(&r[8 * i..8 * i + 8], 16).unwrap())
                    .collect()
            })
            .collect()
    };
    let list = |s: &str| -> Vec<usize> {
        if s.is_empty() || s == "-" {
            vec![]
        } else {
            s.split(',').map(|x| x.parse().unwrap()).collect()
        }
    };
    let ranges = if f["rows"] == "-" {
        vec![]
    } else {
        f["rows"]
            .split(',')
            .map(|r| {
                let (a, b) = r.split_once(':').unwrap();
                (a.parse().unwrap(), b.parse().unwrap())
            })
            .collect()
    };
    let case = Case {
        abc: f["abc"].clone(),
        c: f["C"].parse().unwrap(),
        pad: u32::from_str_radix(&f["pad"], 16).unwrap(),
        pssm,
        seq: if f["seq"] == "-" { String::new() } else { f["seq"].clone() },
        wrap: f["wrap"]
            .split('+')
            .map(|w| if w == "m" { None } else { Some(w.parse().unwrap()) })
            .collect(),
        ranges,
        pos: list(&f["pos"]),
        idx: list(&f["idx"]),
        itops: f.get("it").cloned().filter(|x| x != "-").unwrap_or_default(),
        src: parse_src(f.get("src").map(|s| s.as_str())),
        len: f.get("L").and_then(|x| x.parse().ok()).unwrap_or(0),
    };
    (id, case)
}

fn show_scores<C: PositiveLength>(s: &StripedScores<f32, C>) -> String {
    let m = s.matrix();
    let mut out = format!("{}/{}/", s.max_index(), m.rows());
    for r in 0..m.rows() {
        if r > 0 {
            out.push(',');
        }
        for c in 0..C::USIZE {
            out.push_str(&format!("{:08x}", canon(m[r][c])));
        }
    }
    out
}

fn show_values(v: &[f32]) -> String {
    let mut out = format!("{}/", v.len());
    for x in v {
        out.push_str(&format!("{:08x}", canon(*x)));
    }
    out
}

/// One way of calling the scoring code: `None` = full scan into a fresh matrix
/// (`score`), `Some(rows)` = `score_rows_into` on the given buffer.
type Runner<A, C> = Box<
    dyn Fn(&ScoringMatrix<A>, &StripedSequence<A, C>, Option<Range<usize>>, &mut StripedScores<f32, C>),
>;

fn runner_of<A, C, P>(make: impl Fn() -> P + 'static) -> Runner<A, C>
where
    A: Alphabet,
    C: PositiveLength,
    P: Score<f32, A, C>,
{
    Box::new(move |pssm, seq, rows, buf| {
        let pli = make();
        match rows {
            None => *buf = Score::<f32, A, C>::score(&pli, pssm, seq),
            Some(r) => Score::<f32, A, C>::score_rows_into(&pli, pssm, seq, r, buf),
        }
    })
}

trait Cols<A: Alphabet>: PositiveLength + MultipleOf<U16> {
    fn stripe(enc: &EncodedSequence<A>) -> StripedSequence<A, Self>;
    fn runners() -> Vec<(&'static str, Runner<A, Self>)>;
    fn matrix_score(
        _pssm: &ScoringMatrix<A>,
        _seq: &StripedSequence<A, Self>,
    ) -> Option<StripedScores<f32, Self>> {
        None
    }
    /// one call of a history on the reused buffer: `score_into` (rows = None) or `score_rows_into`
    fn call(
        p: &str,
        pssm: &ScoringMatrix<A>,
        seq: &StripedSequence<A, Self>,
        rows: Option<Range<usize>>,
        buf: &mut StripedScores<f32, Self>,
    ) {
        match p {
            "g" => call_with::<A, Self, _>(&Pipeline::<A, _>::generic(), pssm, seq, rows, buf),
            "s" => call_with::<A, Self, _>(&Pipeline::<A, _>::sse2().unwrap(), pssm, seq, rows, buf),
            _ => panic!("pipeline {} does not exist for this column count", p),
        }
    }
}

fn call_with<A: Alphabet, C: PositiveLength, P: Score<f32, A, C>>(
    pli: &P,
    pssm: &ScoringMatrix<A>,
    seq: &StripedSequence<A, C>,
    rows: Option<Range<usize>>,
    buf: &mut StripedScores<f32, C>,
) {
    match rows {
        None => Score::<f32, A, C>::score_into(pli, pssm, seq, buf),
        Some(r) => Score::<f32, A, C>::score_rows_into(pli, pssm, seq, r, buf),
    }
}

fn base_runners<A: Alphabet, C: PositiveLength + MultipleOf<U16>>() -> Vec<(&'static str, Runner<A, C>)> {
    vec![
        ("g", runner_of::<A, C, _>(|| Pipeline::<A, _>::generic())),
        ("s", runner_of::<A, C, _>(|| Pipeline::<A, _>::sse2().unwrap())),
    ]
}

impl<A: Alphabet> Cols<A> for U16 {
    fn stripe(enc: &EncodedSequence<A>) -> StripedSequence<A, Self> {
        Pipeline::<A, _>::generic().stripe(enc)
    }
    fn runners() -> Vec<(&'static str, Runner<A, Self>)> {
        base_runners::<A, U16>()
    }
}

impl<A: Alphabet> Cols<A> for U48 {
    fn stripe(enc: &EncodedSequence<A>) -> StripedSequence<A, Self> {
        Pipeline::<A, _>::generic().stripe(enc)
    }
    fn runners() -> Vec<(&'static str, Runner<A, Self>)> {
        base_runners::<A, U48>()
    }
}

impl<A: Alphabet> Cols<A> for U64 {
    fn stripe(enc: &EncodedSequence<A>) -> StripedSequence<A, Self> {
        Pipeline::<A, _>::generic().stripe(enc)
    }
    fn runners() -> Vec<(&'static str, Runner<A, Self>)> {
        base_runners::<A, U64>()
    }
}

impl<A: Alphabet> Cols<A> for U32 {
    fn stripe(enc: &EncodedSequence<A>) -> StripedSequence<A, Self> {
        enc.to_striped()
    }
    fn runners() -> Vec<(&'static str, Runner<A, Self>)> {
        let mut v = base_runners::<A, U32>();
        v.push(("a", runner_of::<A, U32, _>(|| Pipeline::<A, _>::avx2().unwrap())));
        v.push((
            "dg",
            runner_of::<A, U32, _>(|| {
                force_backend(Some(Dispatch::Generic));
                Pipeline::<A, _>::dispatch()
            }),
        ));
        v.push((
            "ds",
            runner_of::<A, U32, _>(|| {
                force_backend(Some(Dispatch::Sse2));
                Pipeline::<A, _>::dispatch()
            }),
        ));
        v.push((
            "da",
            runner_of::<A, U32, _>(|| {
                force_backend(Some(Dispatch::Avx2));
                Pipeline::<A, _>::dispatch()
            }),
        ));
        for (name, arm) in [
            ("mg", Some(Dispatch::Generic)),
            ("ms", Some(Dispatch::Sse2)),
            ("ma", Some(Dispatch::Avx2)),
            ("md", None),
        ] {
            v.push((
                name,
                Box::new(move |pssm, seq, rows, buf| {
                    force_backend(arm.clone());
                    match rows {
                        None => *buf = pssm.score(seq),
                        // ScoringMatrix has no row-range entry point: go through the
                        // pipeline `score` uses
                        Some(r) => Pipeline::<A, _>::dispatch().score_rows_into(pssm, seq, r, buf),
                    }
                }),
            ));
        }
        v
    }
    fn matrix_score(
        pssm: &ScoringMatrix<A>,
        seq: &StripedSequence<A, Self>,
    ) -> Option<StripedScores<f32, Self>> {
        Some(pssm.score(seq))
    }
    fn call(
        p: &str,
        pssm: &ScoringMatrix<A>,
        seq: &StripedSequence<A, Self>,
        rows: Option<Range<usize>>,
        buf: &mut StripedScores<f32, Self>,
    ) {
        let forced = |arm: Dispatch| {
            force_backend(Some(arm));
            Pipeline::<A, _>::dispatch()
        };
        match p {
            "g" => call_with::<A, U32, _>(&Pipeline::<A, _>::generic(), pssm, seq, rows, buf),
            "s" => call_with::<A, U32, _>(&Pipeline::<A, _>::sse2().unwrap(), pssm, seq, rows, buf),
            "a" => call_with::<A, U32, _>(&Pipeline::<A, _>::avx2().unwrap(), pssm, seq, rows, buf),
            "dg" => call_with::<A, U32, _>(&forced(Dispatch::Generic), pssm, seq, rows, buf),
            "ds" => call_with::<A, U32, _>(&forced(Dispatch::Sse2), pssm, seq, rows, buf),
            "da" => call_with::<A, U32, _>(&forced(Dispatch::Avx2), pssm, seq, rows, buf),
            _ => panic!("unknown pipeline {}", p),
        }
    }
}

/// scoring matrix: every storage cell (padding included) is first set to `pad`
fn make_pssm<A: Alphabet>(rows: &[Vec<u32>], pad: u32) -> ScoringMatrix<A> {
    let k = <A::K as Unsigned>::USIZE;
    let mut data = DenseMatrix::<f32, A::K>::new(rows.len());
    data.fill(f32::from_bits(pad));
    for (j, row) in rows.iter().enumerate() {
        for s in 0..k {
            data[j][s] = f32::from_bits(row[s]);
        }
    }
    ScoringMatrix::<A>::new(Background::uniform(), data)
}

fn show_striped<A: Alphabet, C: PositiveLength>(key: &str, striped: &StripedSequence<A, C>) -> String {
    let m = striped.matrix();
    let mut s = format!("{}={}/{}/", key, striped.len(), striped.wrap());
    for r in 0..m.rows() {
        if r > 0 {
            s.push(',');
        }
        for c in 0..C::USIZE {
            s.push((b'a' + m[r][c].as_index() as u8) as char);
        }
    }
    s
}

// ---------------------------------------------------------------- histories on one buffer

struct Hist {
    c: usize,
    pad: u32,
    ms: Vec<(String, Vec<Vec<u32>>)>,
    qs: Vec<(String, usize, String, Src)>,
    ops: Vec<Vec<String>>,
}

fn parse_rows(k: usize, text: &str) -> Vec<Vec<u32>> {
    if text == "-" || text.is_empty() {
        return vec![];
    }
    text.split(';')
        .map(|r| {
            assert_eq!(r.len(), 8 * k);
            (0..k).map(|i| u32::from_str_radix(&r[8 * i..8 * i + 8], 16).unwrap()).collect()
        })
        .collect()
}

fn parse_hist(line: &str) -> Hist {
    let (_, f) = fields(line);
    let ms = f["ms"]
        .split('|')
        .map(|m| {
            let (abc, rows) = m.split_once(':').unwrap();
            (abc.to_string(), parse_rows(if abc == "dna" { 5 } else { 21 }, rows))
        })
        .collect();
    let qs = f["qs"]
        .split('|')
        .map(|q| {
            let mut it = q.splitn(4, ':');
            let abc = it.next().unwrap().to_string();
            let wrap = it.next().unwrap().parse().unwrap();
            let seq = it.next().unwrap();
            let src = parse_src(it.next());
            (abc, wrap, if seq == "-" { String::new() } else { seq.to_string() }, src)
        })
        .collect();
    Hist {
        c: f["C"].parse().unwrap(),
        pad: u32::from_str_radix(&f["pad"], 16).unwrap(),
        ms,
        qs,
        ops: f["ops"].split(',').map(|o| o.split('.').map(|x| x.to_string()).collect()).collect(),
    }
}

struct Typed<A: Alphabet, C: Cols<A>> {
    ms: Vec<Option<ScoringMatrix<A>>>,
    qs: Vec<Option<StripedSequence<A, C>>>,
}

fn build_typed<A: Alphabet, C: Cols<A>>(h: &Hist, abc: &str, out: &mut Vec<String>) -> Typed<A, C> {
    let ms = h
        .ms
        .iter()
        .map(|(a, rows)| if a == abc { Some(make_pssm::<A>(rows, h.pad)) } else { None })
        .collect();
    let mut qs = vec![];
    for (j, (a, wrap, seq, src)) in h.qs.iter().enumerate() {
        if a == abc {
            let enc = EncodedSequence::<A>::encode(seq).expect("generated sequences are valid");
            let mut striped: StripedSequence<A, C> = build_striped::<A, C>(&enc, src, seq.len());
            striped.configure_wrap(*wrap);
            out.push(show_striped(&format!("q{}", j), &striped));
            qs.push(Some(striped));
        } else {
            qs.push(None);
        }
    }
    Typed { ms, qs }
}

fn hist_scoring_call<A: Alphabet, C: Cols<A>>(
    t: &Typed<A, C>,
    p: &str,
    mi: usize,
    qi: usize,
    rows: Option<Range<usize>>,
    buf: &mut StripedScores<f32, C>,
) -> bool {
    let pssm = t.ms[mi].as_ref().expect("motif and sequence of one call share the alphabet");
    let seq = t.qs[qi].as_ref().expect("motif and sequence of one call share the alphabet");
    let r = no_panic(|| <C as Cols<A>>::call(p, pssm, seq, rows, buf));
    force_backend(None);
    r.is_some()
}

fn run_hist_cols<C: Cols<Dna> + Cols<Protein>>(h: &Hist) -> String {
    let mut out: Vec<String> = vec![];
    let dna: Typed<Dna, C> = build_typed(h, "dna", &mut out);
    let prot: Typed<Protein, C> = build_typed(h, "prot", &mut out);
    let mut buf: StripedScores<f32, C> = StripedScores::empty();
    for (i, op) in h.ops.iter().enumerate() {
        let num = |k: usize| -> usize { op[k].parse().unwrap() };
        let mut ok = true;
        let mut fresh: Option<String> = None;
        match op[0].as_str() {
            "S" | "R" => {
                let (p, mi, qi) = (op[1].as_str(), num(2), num(3));
                let rows = if op[0] == "R" { Some(num(4)..num(5)) } else { None };
                let mut fb: StripedScores<f32, C> = StripedScores::empty();
                let is_dna = h.ms[mi].0 == "dna";
                let (r, fr) = if is_dna {
                    (
                        hist_scoring_call(&dna, p, mi, qi, rows.clone(), &mut buf),
                        hist_scoring_call(&dna, "g", mi, qi, rows.clone(), &mut fb),
                    )
                } else {
                    (
                        hist_scoring_call(&prot, p, mi, qi, rows.clone(), &mut buf),
                        hist_scoring_call(&prot, "g", mi, qi, rows.clone(), &mut fb),
                    )
                };
                ok = r;
                fresh = Some(if fr { show_scores(&fb) } else { "P".to_string() });
            }
            "Z" => {
                let (rows, maxi) = (num(1), num(2));
                ok = no_panic(|| buf.resize(rows, maxi)).is_some();
            }
            "C" => {
                let c = buf.clone();
                buf = c;
            }
            "D" => buf = Default::default(),
            "F" => {
                let v = f32::from_bits(u32::from_str_radix(&op[1], 16).unwrap());
                ok = no_panic(|| buf.matrix_mut().fill(v)).is_some();
            }
            _ => panic!("unknown history op"),
        }
        let state = show_scores(&buf);
        let o = if ok { state.clone() } else { format!("P|{}", state) };
        if let Some(f) = fresh {
            out.push(if f == o { format!("f{}==", i) } else { format!("f{}={}", i, f) });
        }
        out.push(format!("o{}={}", i, o));
        let un = no_panic(|| buf.unstripe());
        out.push(format!("u{}={}", i, un.as_ref().map(|v| show_values(v)).unwrap_or_else(|| "P".to_string())));
        out.push(format!("l{}={}", i, no_panic(|| buf.iter().len()).map(|n| n.to_string()).unwrap_or_else(|| "P".to_string())));
        out.push(format!("e{}={}", i, if buf.is_empty() { 1 } else { 0 }));
        let rows = buf.matrix().rows();
        let idx = [buf.max_index() / 2, rows * C::USIZE, if rows > 0 { rows * C::USIZE - 1 } else { 0 }];
        let xs: Vec<String> = idx
            .iter()
            .map(|j| match no_panic(|| buf[*j]) {
                Some(v) => format!("{}:{:08x}", j, canon(v)),
                None => format!("{}:P", j),
            })
            .collect();
        out.push(format!("x{}={}", i, xs.join(";")));
        // the other ways of reading the same values
        if let Some(u) = un {
            let bits = |v: &[f32]| v.iter().map(|x| canon(*x)).collect::<Vec<u32>>();
            let want = bits(&u);
            let mut bad: Vec<&str> = vec![];
            match no_panic(|| Vec::<f32>::from(buf.clone())) {
                Some(v) if bits(&v) == want => {}
                _ => bad.push("Vec::from"),
            }
            match no_panic(|| buf.iter().rev().cloned().collect::<Vec<f32>>()) {
                Some(mut v) => {
                    v.reverse();
                    if bits(&v) != want {
                        bad.push("rev");
                    }
                }
                None => bad.push("rev"),
            }
            if !bad.is_empty() {
                out.push(format!("v{}={}", i, bad.join("+")));
            }
        }
    }
    out.join(" ")
}

fn run_hist(h: &Hist) -> String {
    match h.c {
        16 => run_hist_cols::<U16>(h),
        32 => run_hist_cols::<U32>(h),
        48 => run_hist_cols::<U48>(h),
        64 => run_hist_cols::<U64>(h),
        _ => panic!("unsupported configuration"),
    }
}

/// the striped sequence of a case: Stripe::stripe / to_striped, StripedSequence::new on a hand-made matrix
/// (any matrix with rows * C >= L is accepted: more rows than needed, padding that is not the wildcard), or
/// StripedSequence::sample
fn build_striped<A: Alphabet, C: Cols<A>>(enc: &EncodedSequence<A>, src: &Src, len: usize) -> StripedSequence<A, C> {
    match src {
        Src::Stripe => C::stripe(enc),
        Src::New(extra, letters) => {
            let syms: &[A::Symbol] = enc.as_ref();
            let l = syms.len();
            let pad = EncodedSequence::<A>::encode(letters).expect("generated padding is valid");
            let pad: &[A::Symbol] = pad.as_ref();
            let rows = (l + C::USIZE - 1) / C::USIZE + extra;
            let mut data = DenseMatrix::<A::Symbol, C>::new(rows);
            for i in 0..rows * C::USIZE {
                data[i % rows][i / rows] = if i < l { syms[i] } else { pad[(i - l) % pad.len()] };
            }
            StripedSequence::new(data, l).expect("rows * C >= L")
        }
        Src::Sample(seed) => {
            use rand::SeedableRng;
            StripedSequence::<A, C>::sample(rand::rngs::StdRng::seed_from_u64(*seed), Background::uniform(), len)
        }
    }
}

fn parse_src(s: Option<&str>) -> Src {
    match s {
        None | Some("stripe") | Some("") => Src::Stripe,
        Some(s) => {
            let p: Vec<&str> = s.split('.').collect();
            match p[0] {
                "new" => Src::New(p[1].parse().unwrap(), p[2].to_string()),
                "sample" => Src::Sample(p[1].parse().unwrap()),
                _ => panic!("unknown src"),
            }
        }
    }
}

fn run_cols<A: Alphabet, C: Cols<A>>(case: &Case) -> String {
    let pssm = make_pssm::<A>(&case.pssm, case.pad);

    let enc = EncodedSequence::<A>::encode(&case.seq).expect("generated sequences are valid");
    let mut striped: StripedSequence<A, C> = build_striped::<A, C>(&enc, &case.src, case.len);
    let lq: Option<String> = match &case.src {
        Src::Stripe => None,
        _ => Some(
            no_panic(|| (0..striped.len()).map(|i| (b'a' + striped[i].as_index() as u8) as char).collect::<String>())
                .unwrap_or_else(|| "P".to_string()),
        ),
    };
    // one or more configuration steps on the same striped sequence (a sequence scanned
    // with several motifs is re-configured without being re-striped)
    for step in case.wrap.iter() {
        match step {
            None => striped.configure(&pssm),
            Some(w) => striped.configure_wrap(*w),
        }
    }

    let mut out: Vec<String> = vec![];
    if let Some(lq) = lq {
        out.push(format!("lq={}", if lq.is_empty() { "-".to_string() } else { lq }));
    }
    {
        let m = striped.matrix();
        let mut s = format!("sq={}/{}/", striped.len(), striped.wrap());
        for r in 0..m.rows() {
            if r > 0 {
                s.push(',');
            }
            for c in 0..C::USIZE {
                s.push((b'a' + m[r][c].as_index() as u8) as char);
            }
        }
        out.push(s);
    }

    let mut generic_tokens: Vec<String> = vec![];
    let mut generic_full: Option<StripedScores<f32, C>> = None;
    for (name, runner) in C::runners() {
        let mut buf: StripedScores<f32, C> = StripedScores::empty();
        let mut tokens: Vec<String> = vec![];
        let r = no_panic(|| runner(&pssm, &striped, None, &mut buf));
        force_backend(None);
        tokens.push(match r {
            Some(()) => show_scores(&buf),
            None => {
                buf = StripedScores::empty();
                "P".to_string()
            }
        });
        if name == "g" && r.is_some() {
            generic_full = Some(buf.clone());
        }
        for (a, b) in case.ranges.iter() {
            let r = no_panic(|| runner(&pssm, &striped, Some(*a..*b), &mut buf));
            force_backend(None);
            tokens.push(match r {
                Some(()) => show_scores(&buf),
                None => "P".to_string(),
            });
        }
        if name == "g" {
            generic_tokens = tokens.clone();
        }
        for (i, t) in tokens.iter().enumerate() {
            let key = if i == 0 { format!("{}s", name) } else { format!("{}r{}", name, i - 1) };
            if name != "g" && *t == generic_tokens[i] {
                out.push(format!("{}==", key));
            } else {
                out.push(format!("{}={}", key, t));
            }
        }
    }

    // unstripe / index on the generic full scan
    match &generic_full {
        Some(sc) => {
            let un = no_panic(|| sc.unstripe());
            let un_s = match &un {
                Some(v) => show_values(v),
                None => "P".to_string(),
            };
            out.push(format!("un={}", un_s));
            if let Some(ms) = no_panic(|| C::matrix_score(&pssm, &striped)) {
                if let Some(ms) = ms {
                    let mun = no_panic(|| ms.unstripe())
                        .map(|v| show_values(&v))
                        .unwrap_or_else(|| "P".to_string());
                    out.push(if mun == un_s { "mun==".to_string() } else { format!("mun={}", mun) });
                }
            } else {
                out.push("mun=P".to_string());
            }
            let ix: Vec<String> = case
                .idx
                .iter()
                .map(|i| match no_panic(|| sc[*i]) {
                    Some(v) => format!("{}:{:08x}", i, canon(v)),
                    None => format!("{}:P", i),
                })
                .collect();
            out.push(format!("ix={}", if ix.is_empty() { "-".to_string() } else { ix.join(",") }));
            // the rest of the StripedScores / Scores API on the same scan
            if let Some(n) = no_panic(|| sc.iter().len()) {
                out.push(format!("il={}", n));
            } else {
                out.push("il=P".to_string());
            }
            out.push(format!(
                "rv={}",
                no_panic(|| sc.iter().rev().cloned().collect::<Vec<f32>>())
                    .map(|v| show_values(&v))
                    .unwrap_or_else(|| "P".to_string())
            ));
            if !case.itops.is_empty() {
                let ops = case.itops.clone();
                let r = no_panic(|| {
                    let mut it = sc.iter();
                    ops.chars()
                        .map(|o| {
                            let x = if o == 'f' { it.next() } else { it.next_back() };
                            match x {
                                Some(v) => format!("{:08x}", canon(*v)),
                                None => "N".to_string(),
                            }
                        })
                        .collect::<Vec<String>>()
                        .join(",")
                });
                out.push(format!("mx={}", r.unwrap_or_else(|| "P".to_string())));
            }
            let rows = sc.matrix().rows();
            if rows > 0 {
                let of: Vec<String> = case
                    .idx
                    .iter()
                    .map(|i| {
                        let mc = MatrixCoordinates::new(*i % rows, *i / rows);
                        match no_panic(|| sc.offset(mc)) {
                            Some(o) => format!("{}:{}", i, o),
                            None => format!("{}:P", i),
                        }
                    })
                    .collect();
                out.push(format!("of={}", if of.is_empty() { "-".to_string() } else { of.join(",") }));
            }
            let cv = no_panic(|| {
                let bits = |v: &[f32]| v.iter().map(|x| canon(*x)).collect::<Vec<u32>>();
                let u: Scores<f32> = sc.unstripe();
                let want = bits(&u);
                let mut bad: Vec<&str> = vec![];
                if bits(&Vec::<f32>::from(sc.clone())) != want {
                    bad.push("Vec::from(StripedScores)");
                }
                if u.len() != want.len() {
                    bad.push("Deref::len");
                }
                if bits(AsRef::<Vec<f32>>::as_ref(&u)) != want {
                    bad.push("AsRef<Vec>");
                }
                let plain: Vec<f32> = Vec::<f32>::from(u.clone());
                if bits(&plain) != want {
                    bad.push("Vec::from(Scores)");
                }
                if bits(&Scores::new(plain.clone())) != want || bits(&Scores::from(plain)) != want {
                    bad.push("Scores::new/from");
                }
                let d = StripedScores::<f32, C>::default();
                if d.max_index() != 0 || d.matrix().rows() != 0 || !d.is_empty() || d.unstripe().len() != 0 {
                    bad.push("Default");
                }
                if AsRef::<DenseMatrix<f32, C>>::as_ref(sc).rows() != sc.matrix().rows() {
                    bad.push("AsRef<DenseMatrix>");
                }
                let mut m = sc.clone();
                if AsMut::<DenseMatrix<f32, C>>::as_mut(&mut m).rows() != sc.matrix().rows() {
                    bad.push("AsMut<DenseMatrix>");
                }
                if sc.is_empty() != (sc.matrix().rows() == 0) {
                    bad.push("is_empty");
                }
                if bad.is_empty() { "ok".to_string() } else { bad.join("+") }
            });
            out.push(format!("cv={}", cv.unwrap_or_else(|| "P".to_string())));
        }
        None => {
            out.push("un=-".to_string());
            out.push("ix=-".to_string());
        }
    }

    let sp: Vec<String> = case
        .pos
        .iter()
        .map(|p| match no_panic(|| pssm.score_position(&striped, *p)) {
            Some(v) => format!("{}:{:08x}", p, canon(v)),
            None => format!("{}:P", p),
        })
        .collect();
    out.push(format!("sp={}", if sp.is_empty() { "-".to_string() } else { sp.join(",") }));
    out.join(" ")
}

fn run_case(case: &Case) -> String {
    match (case.abc.as_str(), case.c) {
        ("dna", 16) => run_cols::<Dna, U16>(case),
        ("dna", 32) => run_cols::<Dna, U32>(case),
        ("dna", 48) => run_cols::<Dna, U48>(case),
        ("prot", 16) => run_cols::<Protein, U16>(case),
        ("prot", 32) => run_cols::<Protein, U32>(case),
        ("prot", 48) => run_cols::<Protein, U48>(case),
        ("dna", 64) => run_cols::<Dna, U64>(case),
        ("prot", 64) => run_cols::<Protein, U64>(case),
        _ => panic!("unsupported configuration"),
    }
}

// ---------------------------------------------------------------- generator

fn gen_cell(rng: &mut Rng, style: u64) -> u32 {
    match style {
        // "nice" quarter-grid values
        0 => ((rng.range(-32, 32) as f32) * 0.25).to_bits(),
        // log-odds like values
        1 => {
            let x = (rng.range(-4000, 2000) as f32) / 1000.0;
            x.to_bits()
        }
        // random bit patterns of moderate magnitude: exponent 2^-12 .. 2^12
        2 => {
            let sign = (rng.below(2) as u32) << 31;
            let exp = (127 - 12 + rng.below(25) as u32) << 23;
            let man = (rng.next() as u32) & 0x007f_ffff;
            sign | exp | man
        }
        // wide dynamic range (cancellation, absorption), still far from overflow
        3 => {
            let sign = (rng.below(2) as u32) << 31;
            let exp = (127 - 60 + rng.below(100) as u32) << 23;
            let man = (rng.next() as u32) & 0x007f_ffff;
            sign | exp | man
        }
        // subnormals and tiny values
        4 => {
            let sign = (rng.below(2) as u32) << 31;
            let exp = (rng.below(3) as u32) << 23;
            let man = (rng.next() as u32) & 0x007f_ffff;
            sign | exp | man
        }
        // huge values: sums overflow
        _ => {
            let sign = (rng.below(2) as u32) << 31;
            let exp = (127 + 120 + rng.below(8) as u32) << 23;
            let man = (rng.next() as u32) & 0x007f_ffff;
            sign | exp | man
        }
    }
}

/// a history of calls on one reused StripedScores buffer
fn gen_hist(rng: &mut Rng, id: usize, tier: &str) -> String {
    let thorough = tier == "thorough";
    let c: usize = match rng.below(100) {
        0..=54 => 32,
        55..=89 => 16,
        90..=94 => 48,
        _ => 64,
    };
    let mixed = rng.chance(30, 100);
    let main_abc = if rng.chance(60, 100) { "dna" } else { "prot" };
    let abc_of = |rng: &mut Rng| {
        if mixed && rng.chance(1, 2) {
            if main_abc == "dna" { "prot" } else { "dna" }
        } else {
            main_abc
        }
    };
    // motifs
    let nm = 2 + rng.below(3) as usize;
    let mut ms: Vec<(&str, usize, String)> = vec![];
    for i in 0..nm {
        let abc = if i == 0 { main_abc } else { abc_of(rng) };
        let k = if abc == "dna" { 5 } else { 21 };
        let m = match rng.below(10) {
            0..=5 => 1 + rng.below(6) as usize,
            6..=8 => 7 + rng.below(8) as usize,
            _ => 15 + rng.below(if thorough { 16 } else { 6 }) as usize,
        };
        let style = *rng.pick(&[0u64, 0, 1, 1, 2, 3]);
        let wild_inf = rng.chance(1, 2);
        let rows: Vec<String> = (0..m)
            .map(|_| {
                (0..k)
                    .map(|s| {
                        let mut v = gen_cell(rng, style);
                        if rng.chance(5, 100) {
                            v = if rng.chance(1, 2) { 0 } else { 0x8000_0000 };
                        }
                        if (s == k - 1 && wild_inf) || rng.chance(1, 100) {
                            v = NEG_INF;
                        }
                        format!("{:08x}", v)
                    })
                    .collect::<String>()
            })
            .collect();
        ms.push((abc, m, rows.join(";")));
    }
    // sequences: several lengths with the SAME number of rows, shorter and longer ones, some
    // shorter than a motif, sometimes the empty sequence
    let base_r = 1 + rng.below(if thorough { 6 } else { 4 }) as usize;
    let nq = 2 + rng.below(3) as usize;
    let mut qs: Vec<(&str, usize, usize, String, Option<(usize, String)>)> = vec![];
    for i in 0..nq {
        let abc = if i == 0 { main_abc } else { abc_of(rng) };
        let (alpha, k) = if abc == "dna" { (DNA, 5usize) } else { (PROT, 21usize) };
        let l = match rng.below(100) {
            // same number of rows, different lengths
            0..=44 => (base_r - 1) * c + 1 + rng.below(c as u64) as usize,
            45..=54 => base_r * c - rng.below(3) as usize,
            // fewer / more rows
            55..=69 => 1 + rng.below((base_r * c) as u64) as usize,
            70..=84 => base_r * c + 1 + rng.below(3 * c as u64) as usize,
            // shorter than most motifs, empty
            85..=95 => rng.below(8) as usize,
            _ => 0,
        };
        let need = ms.iter().filter(|m| m.0 == abc).map(|m| m.1.saturating_sub(1)).max().unwrap_or(0);
        let wrap = match rng.below(100) {
            0..=79 => need,
            80..=91 => need + 1 + rng.below(4) as usize,
            _ => rng.below(need as u64 + 1) as usize,
        };
        let wild = *rng.pick(&[0u64, 5, 5, 5, 30]);
        let seq: String = (0..l)
            .map(|_| {
                let s = if rng.below(100) < wild { k - 1 } else { rng.below(k as u64 - 1) as usize };
                alpha.as_bytes()[s] as char
            })
            .collect();
        // 15 %: built by StripedSequence::new with 0..2 extra rows and padding that is not the wildcard
        let qsrc = if rng.chance(15, 100) {
            let extra = *rng.pick(&[0usize, 0, 1, 2]);
            let pat: String = (0..1 + rng.below(5) as usize).map(|_| alpha.as_bytes()[rng.below(k as u64 - 1) as usize] as char).collect();
            Some((extra, pat))
        } else {
            None
        };
        qs.push((abc, wrap, l, seq, qsrc));
    }
    // operations
    let pipes: &[&str] = if c == 32 { &["g", "s", "a", "dg", "ds", "da", "s", "a"] } else { &["g", "s", "s"] };
    let nops = 3 + rng.below(if thorough { 12 } else { 7 }) as usize;
    let mut ops: Vec<String> = vec![];
    for i in 0..nops {
        let last = i + 1 == nops;
        let kind = if last && rng.chance(75, 100) { 0 } else { rng.below(100) };
        match kind {
            0..=69 => {
                // a scoring call: motif and sequence of the same alphabet
                let qi = rng.below(qs.len() as u64) as usize;
                let cands: Vec<usize> = (0..ms.len()).filter(|j| ms[*j].0 == qs[qi].0).collect();
                if cands.is_empty() {
                    ops.push("C".to_string());
                    continue;
                }
                let mi = *rng.pick(&cands);
                let p = *rng.pick(pipes);
                let r = (qs[qi].2 + c - 1) / c + qs[qi].4.as_ref().map(|x| x.0).unwrap_or(0);
                let total = r + qs[qi].1;
                if kind <= 37 {
                    ops.push(format!("S.{}.{}.{}", p, mi, qi));
                } else {
                    let (a, b) = match rng.below(100) {
                        0..=59 if r > 0 => {
                            let a = rng.below(r as u64) as usize;
                            (a, a + 1 + rng.below((r - a) as u64) as usize)
                        }
                        60..=69 => {
                            let a = rng.below(total as u64 + 1) as usize;
                            (a, a)
                        }
                        70..=84 if total > 0 => {
                            let a = rng.below(total as u64) as usize;
                            (a, a + 1 + rng.below((total - a) as u64) as usize)
                        }
                        85..=91 => (rng.below(total as u64 + 1) as usize, total + 1 + rng.below(2) as usize),
                        _ => (0, r),
                    };
                    ops.push(format!("R.{}.{}.{}.{}.{}", p, mi, qi, a, b));
                }
            }
            70..=84 => {
                let rows = rng.below(base_r as u64 + 4) as usize;
                let maxi = match rng.below(5) {
                    0 => 0,
                    1 => rows * c,
                    2 => rows * c + 1 + rng.below(40) as usize,
                    3 => (rows * c).saturating_sub(1 + rng.below(c as u64) as usize),
                    _ => rng.below(300) as usize,
                };
                ops.push(format!("Z.{}.{}", rows, maxi));
            }
            85..=90 => ops.push("C".to_string()),
            91..=95 => ops.push(format!(
                "F.{:08x}",
                *rng.pick(&[0x7fc0_0000u32, 0x7f80_0000, 0xff80_0000, 0x4640_e400, 0x8000_0000, 0x0000_0001])
            )),
            _ => ops.push("D".to_string()),
        }
    }
    let pad = *rng.pick(&[0x7fc0_0000u32, 0x7f80_0000, 0x4640_e400, 0xff80_0000, 0]);
    format!(
        "h{} hist=1 C={} pad={:08x} ms={} qs={} ops={}",
        id,
        c,
        pad,
        ms.iter()
            .map(|m| format!("{}:{}", m.0, if m.2.is_empty() { "-" } else { m.2.as_str() }))
            .collect::<Vec<_>>()
            .join("|"),
        qs.iter()
            .map(|q| {
                format!(
                    "{}:{}:{}{}",
                    q.0,
                    q.1,
                    if q.3.is_empty() { "-" } else { q.3.as_str() },
                    q.4.as_ref().map(|x| format!(":new.{}.{}", x.0, x.1)).unwrap_or_default()
                )
            })
            .collect::<Vec<_>>()
            .join("|"),
        ops.join(",")
    )
}

fn gen_case(rng: &mut Rng, id: usize, tier: &str) -> String {
    let thorough = tier == "thorough";
    // 10 %: a history of calls on one reused StripedScores buffer
    if rng.chance(10, 100) {
        return gen_hist(rng, id, tier);
    }
    let abc = if rng.chance(55, 100) { "dna" } else { "prot" };
    let (alpha, k) = if abc == "dna" { (DNA, 5usize) } else { (PROT, 21usize) };
    // 16 columns is `DefaultColumns` on hosts without AVX2 (and the lane count of the NEON
    // dispatcher); 48 and 64 exercise more than two 16-column blocks of the SSE2 kernel
    let mut c: usize = match rng.below(100) {
        0..=49 => 32,
        50..=84 => 16,
        85..=92 => 48,
        _ => 64,
    };
    // 8 %: FINITE wildcard column + many wildcard symbols in the sequence + many -0.0 / +0.0 cells,
    // at 16 and 32 columns (the SSE2 kernel adds `lut & mask` for every symbol incl. the wildcard;
    // the generic and AVX2 kernels look the wildcard cell up like any other)
    let wc_focus = rng.chance(8, 100);
    if wc_focus {
        c = if rng.chance(1, 2) { 16 } else { 32 };
    }
    // motif width
    let m: usize = match rng.below(100) {
        0 => 0,
        1..=34 => 1 + rng.below(6) as usize,
        35..=74 => 7 + rng.below(14) as usize,
        _ => 21 + rng.below(20) as usize,
    };
    // sequence length
    let sel = rng.below(100);
    let mut l: i64 = if sel < 22 {
        rng.range(0, m as i64 + 2)
    } else if sel < 55 {
        (rng.range(1, 6) * c as i64) + rng.range(-2, 2)
    } else if sel < 88 {
        rng.range(1, 300)
    } else if sel < 97 || (!thorough && sel < 99) {
        // around C*C: one more row than columns, full blocks of the AVX2 striping
        (c * c) as i64 + rng.range(-3, 40)
    } else {
        // around 256 rows (1 % of the quick tier, 3 % of the thorough tier)
        (c * 256) as i64 + rng.range(-3, 3)
    };
    if thorough && sel >= 22 && sel < 30 {
        l = (c as i64) * rng.range(7, 40) + rng.range(-1, 1);
    }
    let l = l.max(0) as usize;
    // how the striped sequence is built: 12 % StripedSequence::new on a hand-made matrix (0, 1, 2 or 5 rows more
    // than needed; padding letters that are mostly NOT the wildcard), 8 % StripedSequence::sample
    let src_sel = rng.below(100);
    let src_seed = rng.next() % 1_000_000_007;
    let extra = *rng.pick(&[0usize, 0, 0, 1, 1, 2, 5]);
    let pat_len = 1 + rng.below(7) as usize;
    let pat_wild = rng.chance(15, 100);
    let pat: String = (0..pat_len)
        .map(|_| {
            let s = if pat_wild && rng.chance(1, 3) { k - 1 } else { rng.below(k as u64 - 1) as usize };
            alpha.as_bytes()[s] as char
        })
        .collect();
    let src: String = if src_sel < 12 {
        format!("new.{}.{}", extra, pat)
    } else if src_sel < 20 {
        format!("sample.{}", src_seed)
    } else {
        "stripe".to_string()
    };
    let r = (l + c - 1) / c + if src_sel < 12 { extra } else { 0 };

    // scoring matrix
    let style = match rng.below(100) {
        0..=29 => 0,
        30..=54 => 1,
        55..=79 => 2,
        80..=91 => 3,
        92..=96 => 4,
        _ => 5,
    };
    let wild_inf = rng.chance(60, 100) && !wc_focus;
    let inf_elsewhere = rng.chance(25, 100) && !wc_focus;
    let special = rng.chance(3, 100) && !wc_focus;
    let zero_rate = if wc_focus { *rng.pick(&[20u64, 40, 100]) } else { 5 };
    // a motif of -0.0 cells only: every pipeline must return +0.0 (C01_score_never_negative_zero)
    let all_neg_zero = zero_rate == 100 && rng.chance(1, 2);
    let mut rows: Vec<String> = vec![];
    for _ in 0..m {
        let mut row = String::new();
        for s in 0..k {
            let mut v = gen_cell(rng, style);
            if rng.chance(zero_rate, 100) {
                v = if !all_neg_zero && rng.chance(if wc_focus { 1 } else { 2 }, 4) { 0 } else { 0x8000_0000 };
            }
            if (s == k - 1 && wild_inf) || (inf_elsewhere && rng.chance(3, 100)) {
                v = NEG_INF;
            }
            // outside the property's quantifier (nothing is claimed about the values), but the
            // pipelines must still agree with the model bit for bit: +inf and NaN cells
            if special && rng.chance(4, 100) {
                v = if rng.chance(1, 2) { 0x7f80_0000 } else { 0x7fc0_0000 };
            }
            row.push_str(&format!("{:08x}", v));
        }
        rows.push(row);
    }
    let pad = *rng.pick(&[0x7fc0_0000u32, 0x7f80_0000, 0x4640_e400, 0xff80_0000, 0]);

    // sequence
    let mut wild = match rng.below(100) {
        0..=9 => 40,
        10..=14 => 100,
        15..=24 => 0,
        _ => 5,
    };
    if wc_focus {
        wild = *rng.pick(&[15u64, 30, 60]);
    }
    let mono = rng.chance(5, 100);
    let mono_sym = rng.below(k as u64 - 1) as usize;
    let seq: String = (0..l)
        .map(|_| {
            let s = if rng.below(100) < wild {
                k - 1
            } else if mono {
                mono_sym
            } else {
                rng.below(k as u64 - 1) as usize
            };
            alpha.as_bytes()[s] as char
        })
        .collect();

    // look-ahead rows
    let need = m.saturating_sub(1);
    let (wrap_s, wrap) = match rng.below(100) {
        // re-configuration of an already configured sequence for a wider motif
        0..=17 if need >= 2 => {
            let w1 = 1 + rng.below(need as u64 - 1) as usize;
            if rng.chance(1, 3) && w1 >= 2 {
                let w0 = 1 + rng.below(w1 as u64 - 1) as usize;
                (format!("{}+{}+m", w0, w1), need)
            } else {
                (format!("{}+m", w1), need)
            }
        }
        0..=74 => ("m".to_string(), need),
        75..=84 => {
            let w = need + *rng.pick(&[1usize, 2, 5, 33]);
            (w.to_string(), w)
        }
        85..=94 if need > 0 => {
            let w = rng.below(need as u64) as usize;
            (w.to_string(), w)
        }
        _ => ("0".to_string(), 0),
    };
    let total = r + wrap;

    // row sub-ranges
    let nr = 1 + rng.below(2) as usize;
    let mut ranges: Vec<String> = vec![];
    for _ in 0..nr {
        let (a, b) = match rng.below(100) {
            0..=54 if r > 0 => {
                let a = rng.below(r as u64) as usize;
                let b = a + 1 + rng.below((r - a) as u64) as usize;
                (a, b)
            }
            55..=64 => {
                let a = rng.below(total as u64 + 1) as usize;
                (a, a)
            }
            65..=72 => {
                let a = 1 + rng.below(total as u64 + 1) as usize;
                (a, rng.below(a as u64) as usize)
            }
            73..=87 if total > 0 => {
                // may reach into the look-ahead rows
                let a = rng.below(total as u64) as usize;
                let b = a + 1 + rng.below((total - a) as u64) as usize;
                (a, b)
            }
            88..=93 => {
                // reaches past the matrix
                let a = rng.below(total as u64 + 1) as usize;
                (a, total + 1 + rng.below(3) as usize)
            }
            _ => (0, r),
        };
        ranges.push(format!("{}:{}", a, b));
    }

    // positions for score_position and indices for Index<usize>
    let nvals = (l + 1).saturating_sub(m);
    let mut pos: Vec<usize> = vec![];
    if nvals > 0 {
        pos.push(0);
        pos.push(nvals - 1);
        pos.push(rng.below(nvals as u64) as usize);
    }
    pos.push(nvals + rng.below(3) as usize);
    pos.push((r * c + 1).saturating_sub(m) + rng.below(2) as usize);
    pos.sort();
    pos.dedup();
    let mut idx: Vec<usize> = vec![];
    if nvals > 0 {
        idx.push(rng.below(nvals as u64) as usize);
    }
    if r * c > nvals {
        idx.push(nvals + rng.below((r * c - nvals) as u64) as usize);
    }
    idx.push(r * c + rng.below(3) as usize);
    idx.push(0);
    idx.sort();
    idx.dedup();
    let join = |v: &[usize]| v.iter().map(|x| x.to_string()).collect::<Vec<_>>().join(",");
    // next / next_back operations on one iterator of the scores (sometimes more than there are values)
    let nops = match rng.below(10) {
        0..=1 => 0,
        2..=7 => 1 + rng.below(10) as usize,
        _ => nvals.min(40) + 1 + rng.below(3) as usize,
    };
    let itops: String = (0..nops).map(|_| if rng.chance(1, 2) { 'f' } else { 'b' }).collect();

    let seq = if src_sel >= 12 && src_sel < 20 { String::new() } else { seq };
    format!(
        "g{} abc={} C={} M={} L={} pad={:08x} pssm={} seq={} wrap={} rows={} pos={} idx={} it={} src={}",
        id,
        abc,
        c,
        m,
        l,
        pad,
        if rows.is_empty() { "-".to_string() } else { rows.join(";") },
        if seq.is_empty() { "-".to_string() } else { seq },
        wrap_s,
        ranges.join(","),
        join(&pos),
        join(&idx),
        if itops.is_empty() { "-".to_string() } else { itops },
        src
    )
}

fn main() {
    let args = parse_args();
    match args.cmd.as_str() {
        "gen" => {
            let mut rng = Rng::new(args.seed);
            for i in 0..args.n {
                println!("{}", gen_case(&mut rng, i, &args.tier));
            }
        }
        // the README example as an input line (the scoring matrix is computed by the library)
        "readme" => {
            use lightmotif::pwm::CountMatrix;
            let counts = CountMatrix::<Dna>::from_sequences(
                ["GTTGACCTTATCAAC", "GTTGATCCAGTCAAC"]
                    .into_iter()
                    .map(|s| EncodedSequence::encode(s).unwrap()),
            )
            .unwrap();
            let pssm = counts.to_freq(0.1).to_scoring(None);
            let m = pssm.matrix();
            let rows: Vec<String> = (0..m.rows())
                .map(|j| (0..5).map(|k| format!("{:08x}", m[j][k].to_bits())).collect::<String>())
                .collect();
            let seq = "ATGTCCCAACAACGATACCCCGAGCCCATCGCCGTCATCGGCTCGGCATGCAGATTCCCAGGCG";
            println!(
                "readme abc=dna C=32 M={} L={} pad=00000000 pssm={} seq={} wrap=m rows=0:1,1:2 pos=0,18,49,50 idx=0,18,49,50,63,64",
                m.rows(),
                seq.len(),
                rows.join(";"),
                seq
            );
        }
        "run" => {
            silence_panics();
            for line in stdin_lines() {
                let input = line.split(" => ").next().unwrap().to_string();
                let obs = if input.contains(" hist=1 ") {
                    run_hist(&parse_hist(&input))
                } else {
                    let (_, case) = parse_case(&input);
                    run_case(&case)
                };
                println!("{} => {}", input, obs);
            }
        }
        _ => {
            eprintln!("usage: score gen --seed S --n N [--tier quick|thorough] | score run");
            std::process::exit(2);
        }
    }
}
