//! C19 harness: operation sequences on `lightmotif::dense::DenseMatrix`.
//!
//! `dense gen --seed S --n N` prints input lines
//!     <id> T=<ty> size=<bytes> C=<cols> align=<a> ops=<op;op;...>
//! `dense run` reads input lines on stdin and prints them followed by
//!     ` => <obs>;<obs>;...;END|iter|rev|eqclone|eqpad|eqmod`
//! where each per-op observation is `rows|stride|aligned|ravelok|contents`, or `P`
//! when the operation panicked (which ends the case).

use generic_array::ArrayLength;
use lightmotif::dense::DenseMatrix;
use lightmotif::dense::MatrixCoordinates;
use lightmotif::num::{U1, U16, U21, U32, U43, U5, U7};
use lmh::*;

#[cfg(target_arch = "x86_64")]
const ALIGN: usize = 32;
#[cfg(not(target_arch = "x86_64"))]
const ALIGN: usize = 16;

trait Val: Copy + Default + PartialEq + std::fmt::Debug {
    fn from_i(i: i64) -> Self;
    fn to_i(self) -> i64;
}
impl Val for u8 {
    fn from_i(i: i64) -> Self {
        i as u8
    }
    fn to_i(self) -> i64 {
        self as i64
    }
}
impl Val for u32 {
    fn from_i(i: i64) -> Self {
        i as u32
    }
    fn to_i(self) -> i64 {
        self as i64
    }
}
impl Val for f32 {
    fn from_i(i: i64) -> Self {
        i as f32
    }
    fn to_i(self) -> i64 {
        self as i64
    }
}
impl Val for i64 {
    fn from_i(i: i64) -> Self {
        i
    }
    fn to_i(self) -> i64 {
        self
    }
}

#[derive(Debug, Clone)]
enum Op {
    New(usize),
    Cap(usize, usize),
    Resize(usize),
    Fill(i64),
    Set(usize, usize, i64),
    SetMc(usize, usize, i64),
    From(Vec<Vec<i64>>),
    Clone,
    Imc(usize, i64),
}

fn show_rows(rows: &[Vec<i64>]) -> String {
    rows.iter()
        .map(|r| {
            if r.is_empty() {
                "-".to_string()
            } else {
                r.iter().map(|x| x.to_string()).collect::<Vec<_>>().join(",")
            }
        })
        .collect::<Vec<_>>()
        .join("/")
}

fn show_op(op: &Op) -> String {
    match op {
        Op::New(r) => format!("new:{}", r),
        Op::Cap(r, c) => format!("cap:{}:{}", r, c),
        Op::Resize(r) => format!("resize:{}", r),
        Op::Fill(v) => format!("fill:{}", v),
        Op::Set(r, c, v) => format!("set:{}:{}:{}", r, c, v),
        Op::SetMc(r, c, v) => format!("setmc:{}:{}:{}", r, c, v),
        Op::From(rows) => {
            if rows.is_empty() {
                "from".to_string()
            } else {
                format!("from:{}", show_rows(rows))
            }
        }
        Op::Clone => "clone".to_string(),
        Op::Imc(c, v) => format!("imc:{}:{}", c, v),
    }
}

fn parse_rows(s: &str) -> Vec<Vec<i64>> {
    if s.is_empty() {
        return vec![];
    }
    s.split('/')
        .map(|r| {
            if r == "-" {
                vec![]
            } else {
                r.split(',').map(|x| x.parse().unwrap()).collect()
            }
        })
        .collect()
}

fn parse_op(s: &str) -> Op {
    let p: Vec<&str> = s.split(':').collect();
    match p[0] {
        "new" => Op::New(p[1].parse().unwrap()),
        "cap" => Op::Cap(p[1].parse().unwrap(), p[2].parse().unwrap()),
        "resize" => Op::Resize(p[1].parse().unwrap()),
        "fill" => Op::Fill(p[1].parse().unwrap()),
        "set" => Op::Set(p[1].parse().unwrap(), p[2].parse().unwrap(), p[3].parse().unwrap()),
        "setmc" => Op::SetMc(p[1].parse().unwrap(), p[2].parse().unwrap(), p[3].parse().unwrap()),
        "from" => Op::From(if p.len() > 1 { parse_rows(p[1]) } else { vec![] }),
        "clone" => Op::Clone,
        "imc" => Op::Imc(p[1].parse().unwrap(), p[2].parse().unwrap()),
        _ => panic!("bad op {}", s),
    }
}

fn contents<T: Val, C: ArrayLength>(m: &DenseMatrix<T, C>) -> Vec<Vec<i64>> {
    (0..m.rows())
        .map(|r| (0..m.columns()).map(|c| m[r][c].to_i()).collect())
        .collect()
}

fn observe<T: Val, C: ArrayLength>(m: &DenseMatrix<T, C>) -> String {
    let rows = m.rows();
    let stride = m.stride();
    let mut aligned = true;
    for r in 0..rows {
        let p = m[r].as_ptr() as usize;
        if p % ALIGN != 0 {
            aligned = false;
        }
        let p0 = m[0].as_ptr() as usize;
        if p != p0 + r * stride * std::mem::size_of::<T>() {
            aligned = false;
        }
    }
    let rav = unsafe { m.ravel() };
    let mut ravelok = rav.len() == rows * stride;
    if ravelok {
        for r in 0..rows {
            for c in 0..m.columns() {
                if rav[r * stride + c] != m[r][c] {
                    ravelok = false;
                }
            }
        }
    }
    format!(
        "{}|{}|{}|{}|{}",
        rows,
        stride,
        aligned as u8,
        ravelok as u8,
        show_rows(&contents(m))
    )
}

fn apply<T: Val, C: ArrayLength>(m: &mut DenseMatrix<T, C>, op: &Op) {
    match op {
        Op::New(r) => *m = DenseMatrix::new(*r),
        Op::Cap(r, c) => *m = DenseMatrix::with_capacity(*r, *c),
        Op::Resize(r) => m.resize(*r),
        Op::Fill(v) => m.fill(T::from_i(*v)),
        Op::Set(r, c, v) => m[*r][*c] = T::from_i(*v),
        Op::SetMc(r, c, v) => m[MatrixCoordinates::new(*r, *c)] = T::from_i(*v),
        Op::From(rows) => {
            let rs: Vec<Vec<T>> = rows
                .iter()
                .map(|r| r.iter().map(|x| T::from_i(*x)).collect())
                .collect();
            *m = DenseMatrix::from_rows(rs);
        }
        Op::Clone => *m = m.clone(),
        Op::Imc(c, v) => {
            for row in m.iter_mut() {
                row[*c] = T::from_i(*v);
            }
        }
    }
}

fn run_case<T: Val, C: ArrayLength + PartialEq>(ops: &[Op]) -> String {
    let mut m: DenseMatrix<T, C> = DenseMatrix::new(0);
    let mut out: Vec<String> = vec![];
    for op in ops {
        let r = no_panic(|| apply(&mut m, op));
        match r {
            None => {
                out.push("P".to_string());
                return out.join(";");
            }
            Some(()) => out.push(observe(&m)),
        }
    }
    // final observations
    let it: Vec<Vec<i64>> = m.iter().map(|r| r.iter().map(|x| x.to_i()).collect()).collect();
    let rv: Vec<Vec<i64>> = m
        .iter()
        .rev()
        .map(|r| r.iter().map(|x| x.to_i()).collect())
        .collect();
    // double-ended iteration with a fixed interleaving of next()/next_back():
    // call i uses next() unless i % 3 == 1; one extra call must return None
    let mix = |n: usize| -> Vec<bool> { (0..n).map(|i| i % 3 != 1).collect() };
    let mut mixed: Vec<Vec<i64>> = vec![];
    let mut extra_none;
    let mut len_ok;
    {
        let mut it = m.iter();
        len_ok = it.len() == m.rows();
        for front in mix(m.rows()) {
            let r = if front { it.next() } else { it.next_back() };
            match r {
                Some(row) => mixed.push(row.iter().map(|x| x.to_i()).collect()),
                None => mixed.push(vec![-1]),
            }
            len_ok &= it.len() + mixed.len() == m.rows();
        }
        extra_none = it.next().is_none() && it.next_back().is_none();
    }
    // the same through iter_mut() on a clone, reading the rows it hands out
    let mut mixed_mut: Vec<Vec<i64>> = vec![];
    {
        let mut c = m.clone();
        let rows = c.rows();
        let mut it = c.iter_mut();
        len_ok &= it.len() == rows;
        for front in mix(rows) {
            let r = if front { it.next() } else { it.next_back() };
            match r {
                Some(row) => mixed_mut.push(row.iter().map(|x| x.to_i()).collect()),
                None => mixed_mut.push(vec![-1]),
            }
        }
        extra_none &= it.next().is_none();
    }
    let into: Vec<Vec<i64>> = (&m).into_iter().map(|r| r.iter().map(|x| x.to_i()).collect()).collect();
    let eqclone = m == m.clone();
    // same logical cells, different padding
    let mut c = m.clone();
    c.fill(T::from_i(99));
    for r in 0..m.rows() {
        for k in 0..m.columns() {
            c[r][k] = m[r][k];
        }
    }
    let eqpad = c == m && m == c;
    // one logical cell changed
    let mut c2 = m.clone();
    if c2.rows() > 0 {
        let v = c2[0][0].to_i();
        c2[0][0] = T::from_i(if v == 1 { 2 } else { 1 });
    }
    let eqmod = c2 == m;
    out.push(format!(
        "END|{}|{}|{}|{}|{}|{}|{}|{}|{}",
        show_rows(&it),
        show_rows(&rv),
        eqclone as u8,
        eqpad as u8,
        eqmod as u8,
        show_rows(&mixed),
        show_rows(&mixed_mut),
        show_rows(&into),
        (extra_none && len_ok) as u8
    ));
    out.join(";")
}

fn dispatch(ty: &str, c: usize, ops: &[Op]) -> String {
    macro_rules! cols {
        ($t:ty) => {
            match c {
                1 => run_case::<$t, U1>(ops),
                5 => run_case::<$t, U5>(ops),
                7 => run_case::<$t, U7>(ops),
                16 => run_case::<$t, U16>(ops),
                21 => run_case::<$t, U21>(ops),
                32 => run_case::<$t, U32>(ops),
                43 => run_case::<$t, U43>(ops),
                _ => panic!("unsupported column count {}", c),
            }
        };
    }
    match ty {
        "u8" => cols!(u8),
        "u32" => cols!(u32),
        "f32" => cols!(f32),
        "i64" => cols!(i64),
        _ => panic!("unsupported type {}", ty),
    }
}

fn size_of(ty: &str) -> usize {
    match ty {
        "u8" => 1,
        "u32" | "f32" => 4,
        "i64" => 8,
        _ => panic!(),
    }
}

fn gen_case(rng: &mut Rng, id: usize, tier: &str) -> String {
    let ty = *rng.pick(&["u8", "u32", "f32", "i64"]);
    let c = *rng.pick(&[1usize, 5, 7, 16, 21, 32, 43]);
    let maxops = if tier == "thorough" { 60 } else { 24 };
    let nops = 1 + rng.below(maxops) as usize;
    let mut rows = 0usize; // tracked to generate mostly-valid indices
    let mut ops = vec![];
    for i in 0..nops {
        // start from a non-empty matrix most of the time; keep writes in range
        let mut k = rng.below(100);
        if i == 0 && rng.chance(9, 10) {
            k = *rng.pick(&[0u64, 8, 12, 70]);
        }
        if rows == 0 && (40..70).contains(&k) && rng.chance(9, 10) {
            k = 12;
        }
        let op = if k < 8 {
            let r = rng.below(9) as usize;
            rows = r;
            Op::New(r)
        } else if k < 12 {
            let r = rng.below(9) as usize;
            rows = r;
            Op::Cap(r, r + rng.below(5) as usize)
        } else if k < 32 {
            let r = if rows == 0 { 1 + rng.below(12) as usize } else { rng.below(13) as usize };
            rows = r;
            Op::Resize(r)
        } else if k < 40 {
            Op::Fill(rng.range(0, 200))
        } else if k < 70 {
            // mostly valid coordinates, sometimes out of range
            let oob = rng.chance(1, 25);
            let r = if oob && rng.chance(1, 2) {
                rows + rng.below(2) as usize
            } else if rows > 0 {
                rng.below(rows as u64) as usize
            } else {
                0
            };
            let cc = if oob { c + rng.below(2) as usize } else { rng.below(c as u64) as usize };
            let v = rng.range(0, 200);
            if rng.chance(1, 2) {
                Op::Set(r, cc, v)
            } else {
                Op::SetMc(r, cc, v)
            }
        } else if k < 80 {
            let r = rng.below(6) as usize;
            let ragged = rng.chance(1, 20);
            let rs: Vec<Vec<i64>> = (0..r)
                .map(|i| {
                    let len = if ragged && i == r - 1 { c.saturating_sub(1) } else { c };
                    (0..len).map(|_| rng.range(0, 200)).collect()
                })
                .collect();
            if !(ragged && r > 0) {
                rows = r;
            }
            Op::From(rs)
        } else if k < 90 {
            Op::Clone
        } else {
            let cc = if rng.chance(1, 25) { c } else { rng.below(c as u64) as usize };
            Op::Imc(cc, rng.range(0, 200))
        };
        ops.push(op);
    }
    format!(
        "{} T={} size={} C={} align={} ops={}",
        id,
        ty,
        size_of(ty),
        c,
        ALIGN,
        ops.iter().map(show_op).collect::<Vec<_>>().join(";")
    )
}

fn main() {
    let args = parse_args();
    match args.cmd.as_str() {
        "gen" => {
            let mut rng = Rng::new(args.seed);
            for id in 0..args.n {
                println!("{}", gen_case(&mut rng, id, &args.tier));
            }
        }
        "run" => {
            silence_panics();
            for line in stdin_lines() {
                let (_id, f) = fields(&line);
                let ops: Vec<Op> = f["ops"].split(';').filter(|s| !s.is_empty()).map(parse_op).collect();
                let obs = dispatch(&f["T"], f["C"].parse().unwrap(), &ops);
                println!("{} => {}", line, obs);
            }
        }
        _ => {
            eprintln!("usage: dense gen --seed S --n N [--tier t] | dense run < inputs");
            std::process::exit(2);
        }
    }
}
