//! C19 harness: operation sequences on a register file of three
//! `lightmotif::dense::DenseMatrix` values (different histories, capacities, paddings).
//!
//! `dense gen --seed S --n N` prints input lines
//!     <id> T=<ty> size=<bytes> C=<cols> align=<a> pat=<bits> ops=<op;op;...>
//! An op is `[r<k>.]<name>:<args>`; without the `r<k>.` prefix it acts on register 0.
//!   single-matrix : new:R  cap:R:CAP  resize:R  fill:V  set:R:C:V  setmc:R:C:V  from[:ROWS]
//!                   clone  imc:C:V  fromx:CLAIMED[:ROWS]  reserve:N
//!   two registers : cf:D:S (regs[D].clone_from(&regs[S]))   ct:D:S (regs[D] = regs[S].clone())
//!                   swap:A:B (mem::swap)    mv:D:S (regs[D] = mem::replace(&mut regs[S], new(0)))
//! `fromx` is `from_rows` with an iterator whose `ExactSizeIterator::len()` says CLAIMED.
//! `pat` is the next()/next_back() pattern (1 = next) of the final double-ended walks.
//! `steps` (optional) = positional calls n / b / N<k> / M<k> (next, next_back, nth, nth_back) of a further
//! walk over iter(), iter_mut() and into_iter(), plus skip / step_by / last / count adaptors (`STEPS&` item).
//!
//! `dense run` reads input lines on stdin and prints them followed by
//!     ` => <obs>;<obs>;...;END&<fin0>&<fin1>&<fin2>`
//! where each per-op observation is `<m0>&<m1>&<m2>&E<9 bits>&N<9 bits>`,
//! `<mi>` = `rows|stride|addrs|ravelok|capacity|contents|U<v> or -` (addrs: the address of every row,
//! `m[r].as_ptr() as usize`, comma separated, `-` when there is no row; U<v>: every cell of ravel(), padding
//! included, holds v), E/N the results of `==` / `!=`
//! for all register pairs (a-major); `P` when the operation panicked (which ends the case);
//! `<fin>` = `iter|rev|into|intomut|mixed|mixedmut|mixedinto|lens|eqclone|eqpad|eqmod` with eqclone = two bits
//! (m == m.clone(), m != m.clone()), eqpad = three bits (copy == m, m == copy, copy != m), eqmod one bit.
//! A `STEPS&<st0>&<st1>&<st2>` item always follows (empty call list when the input has no `steps=`).
//!
//! Cell values travel as i64.  For u8/u32/i64 the value itself.  For f32 a CODE: an integer i with
//! |i| <= 2^24 (except -0.0) is the code of `i as f32`; every other value (NaN, -0.0, infinities,
//! fractions) has the code 2^40 + its bit pattern.  `to_i` always produces this canonical code, so
//! two cells hold the same bits iff their codes are equal; `==` on f32 is NOT that (NaN, 0.0 == -0.0):
//! coq/dense/DenseF32.v models it on the codes.

use generic_array::ArrayLength;
use lightmotif::dense::DenseMatrix;
use lightmotif::dense::MatrixCoordinates;
use lightmotif::num::{U1, U16, U21, U32, U43, U5, U7};
use lmh::*;

#[cfg(target_arch = "x86_64")]
const ALIGN: usize = 32;
#[cfg(not(target_arch = "x86_64"))]
const ALIGN: usize = 16;

const NREG: usize = 3;
const DEFAULT_PAT: &str = "1011011011011011";

trait Val: Copy + Default + PartialEq + std::fmt::Debug {
    fn from_i(i: i64) -> Self;
    fn to_i(self) -> i64;
}
impl Val for u8 {
    fn from_i(i: i64) -> Self {
        i as u8
    }
    fn to_i(self) -> i64 {
        self as i64
    }
}
impl Val for u32 {
    fn from_i(i: i64) -> Self {
        i as u32
    }
    fn to_i(self) -> i64 {
        self as i64
    }
}
const F32_BASE: i64 = 1 << 40;
const F32_NAN: i64 = F32_BASE + 0x7fc0_0000;
const F32_NAN2: i64 = F32_BASE + 0xffc0_0001;
const F32_NEGZERO: i64 = F32_BASE + 0x8000_0000;
const F32_INF: i64 = F32_BASE + 0x7f80_0000;
const F32_NEGINF: i64 = F32_BASE + 0xff80_0000;
const F32_HALF: i64 = F32_BASE + 0x3f00_0000;
impl Val for f32 {
    fn from_i(i: i64) -> Self {
        if i >= F32_BASE {
            f32::from_bits((i - F32_BASE) as u32)
        } else {
            i as f32
        }
    }
    fn to_i(self) -> i64 {
        let integral = self.is_finite() && self.fract() == 0.0 && self.abs() <= 16777216.0;
        if integral && self.to_bits() != 0x8000_0000 {
            self as i64
        } else {
            F32_BASE + self.to_bits() as i64
        }
    }
}
impl Val for i64 {
    fn from_i(i: i64) -> Self {
        i
    }
    fn to_i(self) -> i64 {
        self
    }
}

/// single-matrix operations
#[derive(Debug, Clone)]
enum Op {
    New(usize),
    Cap(usize, usize),
    Resize(usize),
    Fill(i64),
    Set(usize, usize, i64),
    SetMc(usize, usize, i64),
    From(Vec<Vec<i64>>),
    Clone,
    Imc(usize, i64),
    FromX(usize, Vec<Vec<i64>>),
    Reserve(usize),
}

/// operations on the register file
#[derive(Debug, Clone)]
enum ROp {
    Local(usize, Op),
    CloneFrom(usize, usize),
    CloneTo(usize, usize),
    Swap(usize, usize),
    Move(usize, usize),
}

fn show_rows(rows: &[Vec<i64>]) -> String {
    rows.iter()
        .map(|r| {
            if r.is_empty() {
                "-".to_string()
            } else {
                r.iter().map(|x| x.to_string()).collect::<Vec<_>>().join(",")
            }
        })
        .collect::<Vec<_>>()
        .join("/")
}

fn show_opt_rows(rows: &[Option<Vec<i64>>]) -> String {
    rows.iter()
        .map(|r| match r {
            None => "~".to_string(),
            Some(r) if r.is_empty() => "-".to_string(),
            Some(r) => r.iter().map(|x| x.to_string()).collect::<Vec<_>>().join(","),
        })
        .collect::<Vec<_>>()
        .join("/")
}

fn show_op(op: &Op) -> String {
    match op {
        Op::New(r) => format!("new:{}", r),
        Op::Cap(r, c) => format!("cap:{}:{}", r, c),
        Op::Resize(r) => format!("resize:{}", r),
        Op::Fill(v) => format!("fill:{}", v),
        Op::Set(r, c, v) => format!("set:{}:{}:{}", r, c, v),
        Op::SetMc(r, c, v) => format!("setmc:{}:{}:{}", r, c, v),
        Op::From(rows) => {
            if rows.is_empty() {
                "from".to_string()
            } else {
                format!("from:{}", show_rows(rows))
            }
        }
        Op::Clone => "clone".to_string(),
        Op::Imc(c, v) => format!("imc:{}:{}", c, v),
        Op::FromX(n, rows) => {
            if rows.is_empty() {
                format!("fromx:{}", n)
            } else {
                format!("fromx:{}:{}", n, show_rows(rows))
            }
        }
        Op::Reserve(n) => format!("reserve:{}", n),
    }
}

fn show_rop(op: &ROp) -> String {
    match op {
        ROp::Local(0, o) => show_op(o),
        ROp::Local(d, o) => format!("r{}.{}", d, show_op(o)),
        ROp::CloneFrom(d, s) => format!("cf:{}:{}", d, s),
        ROp::CloneTo(d, s) => format!("ct:{}:{}", d, s),
        ROp::Swap(a, b) => format!("swap:{}:{}", a, b),
        ROp::Move(d, s) => format!("mv:{}:{}", d, s),
    }
}

fn parse_rows(s: &str) -> Vec<Vec<i64>> {
    if s.is_empty() {
        return vec![];
    }
    s.split('/')
        .map(|r| {
            if r == "-" {
                vec![]
            } else {
                r.split(',').map(|x| x.parse().unwrap()).collect()
            }
        })
        .collect()
}

fn parse_op(s: &str) -> Op {
    let p: Vec<&str> = s.split(':').collect();
    match p[0] {
        "new" => Op::New(p[1].parse().unwrap()),
        "cap" => Op::Cap(p[1].parse().unwrap(), p[2].parse().unwrap()),
        "resize" => Op::Resize(p[1].parse().unwrap()),
        "fill" => Op::Fill(p[1].parse().unwrap()),
        "set" => Op::Set(p[1].parse().unwrap(), p[2].parse().unwrap(), p[3].parse().unwrap()),
        "setmc" => Op::SetMc(p[1].parse().unwrap(), p[2].parse().unwrap(), p[3].parse().unwrap()),
        "from" => Op::From(if p.len() > 1 { parse_rows(p[1]) } else { vec![] }),
        "clone" => Op::Clone,
        "imc" => Op::Imc(p[1].parse().unwrap(), p[2].parse().unwrap()),
        "fromx" => Op::FromX(p[1].parse().unwrap(), if p.len() > 2 { parse_rows(p[2]) } else { vec![] }),
        "reserve" => Op::Reserve(p[1].parse().unwrap()),
        _ => panic!("bad op {}", s),
    }
}

fn parse_rop(s: &str) -> ROp {
    if let Some(rest) = s.strip_prefix('r') {
        if let Some((d, o)) = rest.split_once('.') {
            if let Ok(d) = d.parse::<usize>() {
                return ROp::Local(d, parse_op(o));
            }
        }
    }
    let p: Vec<&str> = s.split(':').collect();
    match p[0] {
        "cf" => ROp::CloneFrom(p[1].parse().unwrap(), p[2].parse().unwrap()),
        "ct" => ROp::CloneTo(p[1].parse().unwrap(), p[2].parse().unwrap()),
        "swap" => ROp::Swap(p[1].parse().unwrap(), p[2].parse().unwrap()),
        "mv" => ROp::Move(p[1].parse().unwrap(), p[2].parse().unwrap()),
        _ => ROp::Local(0, parse_op(s)),
    }
}

/// An iterator over rows whose `ExactSizeIterator::len()` reports `claimed`.
struct Lying<T> {
    it: std::vec::IntoIter<Vec<T>>,
    claimed: usize,
}
impl<T> Iterator for Lying<T> {
    type Item = Vec<T>;
    fn next(&mut self) -> Option<Vec<T>> {
        self.it.next()
    }
    fn size_hint(&self) -> (usize, Option<usize>) {
        (self.claimed, Some(self.claimed))
    }
}
impl<T> ExactSizeIterator for Lying<T> {
    fn len(&self) -> usize {
        self.claimed
    }
}

fn row_i<T: Val>(r: &[T]) -> Vec<i64> {
    r.iter().map(|x| x.to_i()).collect()
}

fn observe<T: Val, C: ArrayLength>(m: &DenseMatrix<T, C>) -> String {
    let rows = m.rows();
    let stride = m.stride();
    let cap = m.capacity();
    // rows() reads the `rows` field, iteration / indexing the data vector: when they
    // disagree the other observers (m[r], ravel()) are out of bounds; report the rows
    // iteration sees and flag layout as broken instead of touching them
    let it_rows: Vec<Vec<i64>> = m.iter().map(row_i).collect();
    if it_rows.len() != rows {
        return format!("{}|{}|-|0|{}|{}|-", rows, stride, cap, show_rows(&it_rows));
    }
    // the address of every row: the property (alignment, spacing) is decided by the checker
    let addrs: Vec<String> = (0..rows).map(|r| (m[r].as_ptr() as usize).to_string()).collect();
    let addrs = if addrs.is_empty() { "-".to_string() } else { addrs.join(",") };
    let contents: Vec<Vec<i64>> = (0..rows)
        .map(|r| (0..m.columns()).map(|c| m[r][c].to_i()).collect())
        .collect();
    let rav = unsafe { m.ravel() };
    let mut ravelok = rav.len() == rows * stride;
    if ravelok {
        for r in 0..rows {
            for c in 0..m.columns() {
                // identity of the cells (bit patterns), not `==` (NaN)
                if rav[r * stride + c].to_i() != m[r][c].to_i()
                    || m[MatrixCoordinates::new(r, c)].to_i() != m[r][c].to_i()
                {
                    ravelok = false;
                }
            }
        }
    }
    // the whole flat view (padding included) holds one value: what fill() must achieve
    let uniform = match rav.first() {
        Some(v0) if rav.iter().all(|x| x.to_i() == v0.to_i()) => format!("U{}", v0.to_i()),
        _ => "-".to_string(),
    };
    format!(
        "{}|{}|{}|{}|{}|{}|{}",
        rows,
        stride,
        addrs,
        ravelok as u8,
        cap,
        show_rows(&contents),
        uniform
    )
}

fn apply<T: Val, C: ArrayLength>(m: &mut DenseMatrix<T, C>, op: &Op) {
    match op {
        Op::New(r) => *m = DenseMatrix::new(*r),
        Op::Cap(r, c) => *m = DenseMatrix::with_capacity(*r, *c),
        Op::Resize(r) => m.resize(*r),
        Op::Fill(v) => m.fill(T::from_i(*v)),
        Op::Set(r, c, v) => m[*r][*c] = T::from_i(*v),
        Op::SetMc(r, c, v) => m[MatrixCoordinates::new(*r, *c)] = T::from_i(*v),
        Op::From(rows) => {
            let rs: Vec<Vec<T>> = rows
                .iter()
                .map(|r| r.iter().map(|x| T::from_i(*x)).collect())
                .collect();
            *m = DenseMatrix::from_rows(rs);
        }
        Op::Clone => *m = m.clone(),
        Op::Imc(c, v) => {
            for row in m.iter_mut() {
                row[*c] = T::from_i(*v);
            }
        }
        Op::FromX(claimed, rows) => {
            let rs: Vec<Vec<T>> = rows
                .iter()
                .map(|r| r.iter().map(|x| T::from_i(*x)).collect())
                .collect();
            *m = DenseMatrix::from_rows(Lying {
                it: rs.into_iter(),
                claimed: *claimed,
            });
        }
        Op::Reserve(n) => m.reserve(*n),
    }
}

fn apply_r<T: Val, C: ArrayLength>(regs: &mut Vec<DenseMatrix<T, C>>, op: &ROp) {
    match op {
        ROp::Local(d, o) => apply(&mut regs[*d], o),
        ROp::CloneFrom(d, s) => {
            if d == s {
                let c = regs[*s].clone();
                regs[*d].clone_from(&c);
            } else if d < s {
                let (a, b) = regs.split_at_mut(*s);
                a[*d].clone_from(&b[0]);
            } else {
                let (a, b) = regs.split_at_mut(*d);
                b[0].clone_from(&a[*s]);
            }
        }
        ROp::CloneTo(d, s) => {
            let c = regs[*s].clone();
            regs[*d] = c;
        }
        ROp::Swap(a, b) => {
            assert!(*a < regs.len() && *b < regs.len());
            if a != b {
                let (lo, hi) = if a < b { (*a, *b) } else { (*b, *a) };
                let (x, y) = regs.split_at_mut(hi);
                std::mem::swap(&mut x[lo], &mut y[0]);
            }
        }
        ROp::Move(d, s) => {
            assert!(*d < regs.len());
            let taken = std::mem::replace(&mut regs[*s], DenseMatrix::new(0));
            regs[*d] = taken;
        }
    }
}

fn bits(v: &[bool]) -> String {
    v.iter().map(|b| if *b { '1' } else { '0' }).collect()
}

fn observe_all<T: Val, C: ArrayLength + PartialEq>(regs: &[DenseMatrix<T, C>]) -> String {
    let mut parts: Vec<String> = regs.iter().map(observe).collect();
    let mut eq = vec![];
    let mut ne = vec![];
    for a in regs {
        for b in regs {
            eq.push(a == b);
            ne.push(a != b);
        }
    }
    parts.push(format!("E{}", bits(&eq)));
    parts.push(format!("N{}", bits(&ne)));
    parts.join("&")
}

/// One positional iterator call of the final "steps" walk (input field `steps=`, tokens separated by
/// `.`): `n` next(), `b` next_back(), `N<k>` nth(k), `M<k>` nth_back(k).  std's skip / step_by /
/// rev().skip / rev().step_by are made of these calls.
#[derive(Clone, Copy, Debug)]
enum Step {
    Next,
    Back,
    Nth(usize),
    NthBack(usize),
}

fn parse_steps(s: &str) -> Vec<Step> {
    s.split('.')
        .filter(|t| !t.is_empty())
        .map(|t| match t.as_bytes()[0] {
            b'n' => Step::Next,
            b'b' => Step::Back,
            b'N' => Step::Nth(t[1..].parse().unwrap()),
            b'M' => Step::NthBack(t[1..].parse().unwrap()),
            _ => panic!("bad step {}", t),
        })
        .collect()
}

fn show_steps(st: &[Step]) -> String {
    st.iter()
        .map(|s| match s {
            Step::Next => "n".to_string(),
            Step::Back => "b".to_string(),
            Step::Nth(k) => format!("N{}", k),
            Step::NthBack(k) => format!("M{}", k),
        })
        .collect::<Vec<_>>()
        .join(".")
}

fn walk_steps<'a, R, I>(mut it: I, steps: &[Step], f: impl Fn(R) -> Vec<i64>) -> (Vec<Option<Vec<i64>>>, Vec<usize>)
where
    I: DoubleEndedIterator<Item = R> + ExactSizeIterator,
{
    let mut out = vec![];
    let mut lens = vec![];
    for s in steps {
        let r = match s {
            Step::Next => it.next(),
            Step::Back => it.next_back(),
            Step::Nth(k) => it.nth(*k),
            Step::NthBack(k) => it.nth_back(*k),
        };
        out.push(r.map(&f));
        lens.push(it.len());
    }
    (out, lens)
}

/// `<iter walk>|<iter_mut walk>|<into_iter walk>|<lens of the iter walk>|<adaptors>` where adaptors =
/// rows of `iter().skip(k)`, `iter().rev().skip(k)`, `iter().step_by(k+1)`, `iter().rev().step_by(k+1)`,
/// `iter().last()`, `iter().count()` for k = the argument of the first N/M token (0 when there is none).
fn steps_obs<T: Val, C: ArrayLength + PartialEq>(m: &DenseMatrix<T, C>, steps: &[Step]) -> String {
    let (a, lens) = walk_steps(m.iter(), steps, |r| row_i(r));
    let mut c = m.clone();
    let (b, _) = walk_steps(c.iter_mut(), steps, |r| row_i(r));
    let (d, _) = walk_steps((&*m).into_iter(), steps, |r| row_i(r));
    let k = steps
        .iter()
        .filter_map(|s| match s {
            Step::Nth(k) | Step::NthBack(k) => Some(*k),
            _ => None,
        })
        .next()
        .unwrap_or(0);
    let sk: Vec<Vec<i64>> = m.iter().skip(k).map(row_i).collect();
    let rsk: Vec<Vec<i64>> = m.iter().rev().skip(k).map(row_i).collect();
    let sb: Vec<Vec<i64>> = m.iter().step_by(k + 1).map(row_i).collect();
    let rsb: Vec<Vec<i64>> = m.iter().rev().step_by(k + 1).map(row_i).collect();
    let mut c2 = m.clone();
    let msk: Vec<Vec<i64>> = c2.iter_mut().rev().skip(k).map(|r| row_i(r)).collect();
    let last: Vec<Option<Vec<i64>>> = vec![m.iter().last().map(row_i)];
    format!(
        "{}|{}|{}|{}|{}|{}|{}|{}|{}|{}|{}|{}",
        show_opt_rows(&a),
        show_opt_rows(&b),
        show_opt_rows(&d),
        lens.iter().map(|x| x.to_string()).collect::<Vec<_>>().join(","),
        k,
        show_rows(&sk),
        show_rows(&rsk),
        show_rows(&sb),
        show_rows(&rsb),
        show_rows(&msk),
        show_opt_rows(&last),
        m.iter().count()
    )
}

fn final_obs<T: Val, C: ArrayLength + PartialEq>(m: &DenseMatrix<T, C>, pat: &[bool]) -> String {
    let it: Vec<Vec<i64>> = m.iter().map(row_i).collect();
    let rv: Vec<Vec<i64>> = m.iter().rev().map(row_i).collect();
    let into: Vec<Vec<i64>> = (&*m).into_iter().map(row_i).collect();
    let mut cm = m.clone();
    let into_mut: Vec<Vec<i64>> = (&mut cm).into_iter().map(|r| row_i(r)).collect();
    // double-ended iteration following the pattern, continued past exhaustion
    let mut mixed: Vec<Option<Vec<i64>>> = vec![];
    let mut lens: Vec<usize> = vec![];
    {
        let mut it = m.iter();
        for front in pat {
            let r = if *front { it.next() } else { it.next_back() };
            mixed.push(r.map(row_i));
            lens.push(it.len());
        }
    }
    let mut mixed_mut: Vec<Option<Vec<i64>>> = vec![];
    {
        let mut c = m.clone();
        let mut it = c.iter_mut();
        for front in pat {
            let r = if *front { it.next() } else { it.next_back() };
            mixed_mut.push(r.map(|x| row_i(x)));
        }
    }
    let mut mixed_into: Vec<Option<Vec<i64>>> = vec![];
    {
        let mut it = (&*m).into_iter();
        for front in pat {
            let r = if *front { it.next() } else { it.next_back() };
            mixed_into.push(r.map(row_i));
        }
    }
    let eqclone = format!("{}{}", (*m == m.clone()) as u8, (*m != m.clone()) as u8);
    // same logical cells; different history, capacity and padding
    let mut c: DenseMatrix<T, C> = DenseMatrix::with_capacity(it.len() + 2, it.len() + 7);
    c.fill(T::from_i(99));
    c.resize(it.len());
    for (r, row) in it.iter().enumerate() {
        for (k, x) in row.iter().enumerate() {
            c[r][k] = T::from_i(*x);
        }
    }
    let eqpad = format!("{}{}{}", (c == *m) as u8, (*m == c) as u8, (c != *m) as u8);
    // one logical cell changed
    let mut c2 = m.clone();
    if !it.is_empty() && c2.columns() > 0 {
        let v = c2[0][0].to_i();
        c2[0][0] = T::from_i(if v == 1 { 2 } else { 1 });
    }
    let eqmod = c2 == *m;
    format!(
        "{}|{}|{}|{}|{}|{}|{}|{}|{}|{}|{}",
        show_rows(&it),
        show_rows(&rv),
        show_rows(&into),
        show_rows(&into_mut),
        show_opt_rows(&mixed),
        show_opt_rows(&mixed_mut),
        show_opt_rows(&mixed_into),
        lens.iter().map(|x| x.to_string()).collect::<Vec<_>>().join(","),
        eqclone,
        eqpad,
        eqmod as u8
    )
}

fn run_case<T: Val, C: ArrayLength + PartialEq>(ops: &[ROp], pat: &[bool], steps: &[Step]) -> String {
    let mut regs: Vec<DenseMatrix<T, C>> = (0..NREG).map(|_| DenseMatrix::new(0)).collect();
    let mut out: Vec<String> = vec![];
    for op in ops {
        let r = no_panic(|| apply_r(&mut regs, op));
        match r {
            None => {
                out.push("P".to_string());
                return out.join(";");
            }
            Some(()) => match no_panic(|| observe_all(&regs)) {
                Some(o) => {
                    out.push(o);
                    // a matrix whose rows() field disagrees with its data vector is already a rejected
                    // observation; going on would run ravel_mut()/fill() out of bounds (undefined
                    // behaviour that can take the whole harness process down): the case ends here
                    if regs.iter().any(|m| m.rows() != m.iter().len()) {
                        return out.join(";");
                    }
                }
                None => {
                    out.push("OBSPANIC".to_string());
                    return out.join(";");
                }
            },
        }
    }
    match no_panic(|| regs.iter().map(|m| final_obs(m, pat)).collect::<Vec<_>>().join("&")) {
        Some(f) => out.push(format!("END&{}", f)),
        None => out.push("OBSPANIC".to_string()),
    }
    match no_panic(|| regs.iter().map(|m| steps_obs(m, steps)).collect::<Vec<_>>().join("&")) {
        Some(f) => out.push(format!("STEPS&{}", f)),
        None => out.push("STEPSPANIC".to_string()),
    }
    out.join(";")
}

fn dispatch(ty: &str, c: usize, ops: &[ROp], pat: &[bool], steps: &[Step]) -> String {
    macro_rules! cols {
        ($t:ty) => {
            match c {
                1 => run_case::<$t, U1>(ops, pat, steps),
                5 => run_case::<$t, U5>(ops, pat, steps),
                7 => run_case::<$t, U7>(ops, pat, steps),
                16 => run_case::<$t, U16>(ops, pat, steps),
                21 => run_case::<$t, U21>(ops, pat, steps),
                32 => run_case::<$t, U32>(ops, pat, steps),
                43 => run_case::<$t, U43>(ops, pat, steps),
                _ => panic!("unsupported column count {}", c),
            }
        };
    }
    match ty {
        "u8" => cols!(u8),
        "u32" => cols!(u32),
        "f32" => cols!(f32),
        "i64" => cols!(i64),
        _ => panic!("unsupported type {}", ty),
    }
}

fn size_of(ty: &str) -> usize {
    match ty {
        "u8" => 1,
        "u32" | "f32" => 4,
        "i64" => 8,
        _ => panic!(),
    }
}

// ---------- generator ----------

struct Gen<'a> {
    rng: &'a mut Rng,
    ty: &'static str,
    c: usize,
    rows: [usize; NREG], // tracked to generate mostly-valid indices
    ops: Vec<ROp>,
    special: bool, // f32 only: NaN / -0.0 / infinities / fractions among the cell values
}

impl<'a> Gen<'a> {
    fn push(&mut self, op: ROp) {
        match &op {
            ROp::Local(d, o) => match o {
                Op::New(r) | Op::Cap(r, _) | Op::Resize(r) => self.rows[*d] = *r,
                Op::From(rs) => {
                    if rs.iter().all(|r| r.len() == self.c) {
                        self.rows[*d] = rs.len()
                    }
                }
                Op::FromX(n, rs) => {
                    if rs.iter().all(|r| r.len() == self.c) && rs.len() <= *n {
                        self.rows[*d] = rs.len()
                    }
                }
                _ => {}
            },
            ROp::CloneFrom(d, s) | ROp::CloneTo(d, s) => self.rows[*d] = self.rows[*s],
            ROp::Swap(a, b) => self.rows.swap(*a, *b),
            ROp::Move(d, s) => {
                if d != s {
                    self.rows[*d] = self.rows[*s];
                    self.rows[*s] = 0;
                }
            }
        }
        self.ops.push(op);
    }

    /// a cell value the element type represents exactly: mostly small, sometimes an extreme
    fn val(&mut self) -> i64 {
        if self.special && self.rng.chance(1, 6) {
            // values on which `==` is not identity (NaN != NaN, 0.0 == -0.0) and non-integers
            return *self.rng.pick(&[F32_NAN, F32_NEGZERO, 0, F32_NEGZERO, F32_NAN2, F32_INF, F32_NEGINF, F32_HALF, 0]);
        }
        if self.rng.chance(4, 5) {
            return self.rng.range(0, 200);
        }
        match self.ty {
            "u8" => *self.rng.pick(&[255i64, 128, 254, 1]),
            "u32" => *self.rng.pick(&[4294967295i64, 2147483648, 65536, 16843009]),
            "f32" => *self.rng.pick(&[-1i64, 16777216, -16777216, -200]),
            _ => *self.rng.pick(&[-1i64, 4611686018427387903, -4611686018427387903, 72340172838076673]),
        }
    }

    fn data_rows(&mut self, n: usize) -> Vec<Vec<i64>> {
        let c = self.c;
        (0..n).map(|_| (0..c).map(|_| self.val()).collect()).collect()
    }

    fn reg(&mut self) -> usize {
        // register 0 most often
        if self.rng.chance(1, 2) {
            0
        } else {
            self.rng.below(NREG as u64) as usize
        }
    }

    fn write(&mut self, d: usize) {
        // a valid cell write (or a column write) on a non-empty register
        if self.rows[d] == 0 {
            return;
        }
        let r = self.rng.below(self.rows[d] as u64) as usize;
        let cc = self.rng.below(self.c as u64) as usize;
        let v = self.val();
        let op = match self.rng.below(3) {
            0 => Op::Set(r, cc, v),
            1 => Op::SetMc(r, cc, v),
            _ => Op::Imc(cc, v),
        };
        { let op__ = ROp::Local(d, op); self.push(op__); }
    }

    fn random_op(&mut self, first: bool) {
        let c = self.c;
        let d = self.reg();
        let rows = self.rows[d];
        let mut k = self.rng.below(130);
        if first && self.rng.chance(9, 10) {
            k = *self.rng.pick(&[0u64, 8, 12, 70]);
        }
        if rows == 0 && (40..70).contains(&k) && self.rng.chance(9, 10) {
            k = 12;
        }
        let op = if k < 8 {
            ROp::Local(d, Op::New(self.rng.below(9) as usize))
        } else if k < 12 {
            let r = self.rng.below(9) as usize;
            let cap = match self.rng.below(3) {
                0 => self.rng.below(r as u64 + 1) as usize, // capacity below the row count
                1 => r,
                _ => r + self.rng.below(8) as usize,
            };
            ROp::Local(d, Op::Cap(r, cap))
        } else if k < 32 {
            let r = if self.rng.chance(1, 12) {
                13 + self.rng.below(28) as usize
            } else if rows == 0 {
                1 + self.rng.below(12) as usize
            } else {
                self.rng.below(13) as usize
            };
            ROp::Local(d, Op::Resize(r))
        } else if k < 40 {
            ROp::Local(d, Op::Fill(self.val()))
        } else if k < 70 {
            // mostly valid coordinates, sometimes out of range
            let oob = self.rng.chance(1, 25);
            let r = if oob && self.rng.chance(1, 2) {
                rows + self.rng.below(2) as usize
            } else if rows > 0 {
                self.rng.below(rows as u64) as usize
            } else {
                0
            };
            let cc = if oob { c + self.rng.below(2) as usize } else { self.rng.below(c as u64) as usize };
            let v = self.val();
            if self.rng.chance(1, 2) {
                ROp::Local(d, Op::Set(r, cc, v))
            } else {
                ROp::Local(d, Op::SetMc(r, cc, v))
            }
        } else if k < 80 {
            let r = self.rng.below(6) as usize;
            let ragged = self.rng.chance(1, 20);
            let mut rs = self.data_rows(r);
            if ragged && r > 0 {
                let i = self.rng.below(r as u64) as usize;
                if self.rng.chance(1, 2) {
                    rs[i].pop();
                } else {
                    rs[i].push(7);
                }
            }
            if self.rng.chance(1, 3) {
                // untrusted len(): honest, fewer rows than claimed, (rarely) more
                let claimed = match self.rng.below(8) {
                    0 => r.saturating_sub(1 + self.rng.below(2) as usize),
                    1 | 2 => r,
                    _ => r + 1 + self.rng.below(4) as usize,
                };
                ROp::Local(d, Op::FromX(claimed, rs))
            } else {
                ROp::Local(d, Op::From(rs))
            }
        } else if k < 88 {
            ROp::Local(d, Op::Clone)
        } else if k < 98 {
            let cc = if self.rng.chance(1, 25) { c } else { self.rng.below(c as u64) as usize };
            ROp::Local(d, Op::Imc(cc, self.val()))
        } else if k < 102 {
            ROp::Local(d, Op::Reserve(self.rng.below(12) as usize))
        } else if k < 112 {
            ROp::CloneFrom(d, self.rng.below(NREG as u64) as usize)
        } else if k < 120 {
            ROp::CloneTo(d, self.rng.below(NREG as u64) as usize)
        } else if k < 125 {
            ROp::Swap(d, self.rng.below(NREG as u64) as usize)
        } else {
            ROp::Move(d, self.rng.below(NREG as u64) as usize)
        };
        { let op__ = op; self.push(op__); }
    }

    /// directed openings for the multi-step situations that random sequences rarely reach
    fn scenario(&mut self) {
        let d = self.rng.below(NREG as u64) as usize;
        let s = (d + 1 + self.rng.below(NREG as u64 - 1) as usize) % NREG;
        match self.rng.below(6) {
            0 => {
                // clone_from into a destination with spare capacity and another row count
                let big = 4 + self.rng.below(9) as usize;
                if self.rng.chance(1, 2) {
                    { let op__ = ROp::Local(d, Op::New(big)); self.push(op__); }
                } else {
                    let extra = self.rng.below(6) as usize;
                    { let op__ = ROp::Local(d, Op::Cap(self.rng.below(big as u64 + 1) as usize, big + extra)); self.push(op__); }
                }
                if self.rng.chance(1, 2) {
                    { let op__ = ROp::Local(d, Op::Fill(self.val())); self.push(op__); }
                }
                self.write(d);
                if self.rng.chance(2, 3) {
                    { let op__ = ROp::Local(d, Op::Resize(self.rng.below(big as u64) as usize)); self.push(op__); }
                }
                let k = self.rng.below(big as u64 + 1) as usize;
                let rs = self.data_rows(k);
                { let op__ = ROp::Local(s, Op::From(rs)); self.push(op__); }
                { let op__ = ROp::CloneFrom(d, s); self.push(op__); }
                if self.rng.chance(1, 2) {
                    { let op__ = ROp::Local(d, Op::Fill(self.val())); self.push(op__); }
                }
                if self.rng.chance(1, 2) {
                    // refresh a second time from a template of another height
                    let k2 = self.rng.below(big as u64 + 1) as usize;
                    let rs2 = self.data_rows(k2);
                    { let op__ = ROp::Local(s, Op::From(rs2)); self.push(op__); }
                    { let op__ = ROp::CloneFrom(d, s); self.push(op__); }
                }
            }
            1 => {
                // with_capacity + resize up/down sequences crossing the capacity
                let cap = self.rng.below(10) as usize;
                let r0 = self.rng.below(cap as u64 + 1) as usize;
                { let op__ = ROp::Local(d, Op::Cap(r0, cap)); self.push(op__); }
                for _ in 0..(2 + self.rng.below(5)) {
                    let r = match self.rng.below(4) {
                        0 => cap,
                        1 => cap + 1 + self.rng.below(6) as usize,
                        2 => self.rng.below(cap as u64 + 1) as usize,
                        _ => 0,
                    };
                    { let op__ = ROp::Local(d, Op::Resize(r)); self.push(op__); }
                    match self.rng.below(3) {
                        0 => { let op__ = ROp::Local(d, Op::Fill(self.val())); self.push(op__); }
                        1 => self.write(d),
                        _ => {}
                    }
                }
            }
            2 => {
                // fill, shrink, grow: the re-exposed rows must be default again
                let n = 2 + self.rng.below(10) as usize;
                { let op__ = ROp::Local(d, Op::New(n)); self.push(op__); }
                { let op__ = ROp::Local(d, Op::Fill(self.val())); self.push(op__); }
                let small = self.rng.below(n as u64) as usize;
                { let op__ = ROp::Local(d, Op::Resize(small)); self.push(op__); }
                if self.rng.chance(1, 3) {
                    { let op__ = ROp::Local(d, Op::Fill(self.val())); self.push(op__); }
                }
                { let op__ = ROp::Local(d, Op::Resize(small + 1 + self.rng.below(8) as usize)); self.push(op__); }
                if self.rng.chance(1, 2) {
                    { let op__ = ROp::CloneTo(s, d); self.push(op__); }
                }
            }
            3 => {
                // from_rows with a lying len()
                let r = self.rng.below(6) as usize;
                let rs = self.data_rows(r);
                let claimed = if self.rng.chance(1, 5) {
                    r.saturating_sub(1)
                } else {
                    r + self.rng.below(6) as usize
                };
                { let op__ = ROp::Local(d, Op::FromX(claimed, rs)); self.push(op__); }
                { let op__ = ROp::Local(d, Op::Fill(self.val())); self.push(op__); }
                { let op__ = ROp::Local(d, Op::Resize(r + self.rng.below(4) as usize)); self.push(op__); }
            }
            4 => {
                // zero-row / zero-capacity matrices through every operation
                match self.rng.below(3) {
                    0 => { let op__ = ROp::Local(d, Op::New(0)); self.push(op__); }
                    1 => { let op__ = ROp::Local(d, Op::Cap(0, 0)); self.push(op__); }
                    _ => { let op__ = ROp::Local(d, Op::Cap(0, self.rng.below(5) as usize)); self.push(op__); }
                }
                { let op__ = ROp::Local(d, Op::Fill(self.val())); self.push(op__); }
                { let op__ = ROp::Local(d, Op::Imc(self.rng.below(self.c as u64) as usize, 3)); self.push(op__); }
                { let op__ = ROp::CloneFrom(s, d); self.push(op__); }
                { let op__ = ROp::Local(d, Op::Clone); self.push(op__); }
                { let op__ = ROp::Local(d, Op::Reserve(self.rng.below(4) as usize)); self.push(op__); }
                { let op__ = ROp::Local(d, Op::Resize(self.rng.below(4) as usize)); self.push(op__); }
                { let op__ = ROp::Local(d, Op::Resize(0)); self.push(op__); }
                { let op__ = ROp::Swap(d, s); self.push(op__); }
            }
            _ => {
                // equal logical cells reached through different histories
                let n = 1 + self.rng.below(5) as usize;
                let rs = self.data_rows(n);
                { let op__ = ROp::Local(d, Op::From(rs.clone())); self.push(op__); }
                { let op__ = ROp::Local(s, Op::Cap(n + 3, n + 9)); self.push(op__); }
                { let op__ = ROp::Local(s, Op::Fill(self.val())); self.push(op__); }
                { let op__ = ROp::Local(s, Op::Resize(n)); self.push(op__); }
                for (r, row) in rs.iter().enumerate() {
                    for (k, v) in row.iter().enumerate() {
                        { let op__ = ROp::Local(s, Op::Set(r, k, *v)); self.push(op__); }
                    }
                    if self.ops.len() > 80 {
                        break;
                    }
                }
                if self.rng.chance(1, 2) {
                    self.write(s);
                }
            }
        }
    }
}

fn gen_case(rng: &mut Rng, id: usize, tier: &str) -> String {
    let ty = *rng.pick(&["u8", "u32", "f32", "i64"]);
    let c = *rng.pick(&[1usize, 5, 7, 16, 21, 32, 43]);
    let maxops = if tier == "thorough" { 60 } else { 24 };
    let nops = 1 + rng.below(maxops) as usize;
    let npat = rng.below(20) as usize;
    let pat: Vec<bool> = (0..npat).map(|_| rng.chance(1, 2)).collect();
    let nsteps = 1 + rng.below(10) as usize;
    let steps: Vec<Step> = (0..nsteps)
        .map(|_| match rng.below(6) {
            0 | 1 => Step::Next,
            2 | 3 => Step::Back,
            4 => Step::Nth(rng.below(4) as usize),
            _ => Step::NthBack(rng.below(4) as usize),
        })
        .collect();
    let special = ty == "f32" && rng.chance(2, 5);
    let mut g = Gen {
        rng,
        ty,
        c,
        rows: [0; NREG],
        ops: vec![],
        special,
    };
    if g.rng.chance(2, 5) {
        g.scenario();
        if g.rng.chance(1, 3) {
            g.scenario();
        }
    }
    let start = g.ops.len();
    for i in 0..nops {
        g.random_op(i == 0 && start == 0);
    }
    format!(
        "{} T={} size={} C={} align={} pat={} steps={} ops={}",
        id,
        ty,
        size_of(ty),
        c,
        ALIGN,
        bits(&pat),
        show_steps(&steps),
        g.ops.iter().map(show_rop).collect::<Vec<_>>().join(";")
    )
}

fn main() {
    let args = parse_args();
    match args.cmd.as_str() {
        "gen" => {
            let mut rng = Rng::new(args.seed);
            for id in 0..args.n {
                println!("{}", gen_case(&mut rng, id, &args.tier));
            }
        }
        "run" => {
            silence_panics();
            for line in stdin_lines() {
                let (_id, f) = fields(&line);
                let ops: Vec<ROp> = f["ops"].split(';').filter(|s| !s.is_empty()).map(parse_rop).collect();
                let pat: Vec<bool> = f
                    .get("pat")
                    .map(|s| s.as_str())
                    .unwrap_or(DEFAULT_PAT)
                    .chars()
                    .map(|c| c == '1')
                    .collect();
                let steps: Vec<Step> = f.get("steps").map(|s| parse_steps(s)).unwrap_or_default();
                let obs = dispatch(&f["T"], f["C"].parse().unwrap(), &ops, &pat, &steps);
                println!("{} => {}", line, obs);
            }
        }
        _ => {
            eprintln!("usage: dense gen --seed S --n N [--tier t] | dense run < inputs");
            std::process::exit(2);
        }
    }
}
