//! C12 / C13 harness: TFM-PVALUE (`lightmotif_tfmpvalue::TfmPvalue`) on small DNA
//! scoring matrices (M in 2..=6, so that all 4^M / 5^M words can be enumerated by
//! the exact checker).
//!
//! `tfm c12|c13 gen --seed S --n N [--tier t]` prints input lines
//!     <id> M=<m> mk=<kind> bgk=<kind> qk=<kind> nt=<0|1> steps=<n>
//!          mat=<f32bits,..x5>/<row>/.. bg=<f32bits x5> q=<f64bits>
//! (`q` is the query score for C12 and the query p-value for C13; all floats are
//! IEEE bit patterns printed as decimal integers.)
//!
//! `tfm c12|c13 run` reads input lines and appends ` => <observation>`:
//!     c12:  it=<iter>;<iter>;...  fin=<f64bits|-|P>
//!     c13:  w0=<min>:<max> it=<iter>;...  fin=<f64bits|-|P>
//! where <iter> is `P` (the call panicked) or
//!     <granularity>:<range.start>:<range.end>:<converged>:<score>|<state>
//! and <state> is `-` or the private state of the algorithm after that step, read
//! through the `verif-hooks` accessors `verif_state()` / `verif_window()` of the
//! iterators (/repo 86badd0):
//!     perm|offsets|error_max bits|int_matrix rows|min rows|max rows|qdigests|last row|win|ord
//! with one digest `n:minkey:maxkey:keysum:valsum bits:checksum` per Q-value row
//! (checksum = wrapping sum of bits(v) * (2 key + 1): all values of the row bit for bit),
//! the last row `key:bits,key:bits,..` sorted by key, `win` = `min:max` of the
//! `ScoresIterator` after the step (`-` for C12) and `ord` = the keys of the rows
//! 0..M-2 in the iteration order of their hash maps, `k,k,..` joined by `/` (`-` when
//! there are more than ORD_CAP entries): the order in which `distribution` visited them.

use generic_array::GenericArray;
use lightmotif::abc::{Alphabet, Background, Dna, Protein};
use lightmotif::dense::DenseMatrix;
use lightmotif::num::{Unsigned, U5};
use lightmotif::pwm::{CountMatrix, ScoringMatrix};
use lightmotif_tfmpvalue::{TfmPvalue, VerifState};
use lmh::*;

/// alphabet size of the DNA cases (the protein cases have 21 columns)
const K: usize = 5;

// ---------------------------------------------------------------- private state (verif-hooks)

fn join<T: ToString>(v: &[T], sep: &str) -> String {
    v.iter().map(|x| x.to_string()).collect::<Vec<_>>().join(sep)
}

/// Above this number of entries in the rows 0..M-2 the iteration order is not printed
/// (the driver then compares the probabilities of that step with a tolerance).
const ORD_CAP: usize = 6000;

/// Order-independent checksum of a Q-value row: wrapping sum of bits(v) * (2 k + 1).
fn row_checksum(row: &[(i64, f64)]) -> i64 {
    let mut c = 0u64;
    for kv in row.iter() {
        c = c.wrapping_add(kv.1.to_bits().wrapping_mul((kv.0 as u64).wrapping_mul(2).wrapping_add(1)));
    }
    c as i64
}

/// Private state of the algorithm, from the `verif-hooks` accessor `verif_state()`
/// (`win` = `verif_window()` of a `ScoresIterator`).
fn state_of(vs: &VerifState, win: Option<(i64, i64)>) -> Option<String> {
    let m = vs.permutation.len();
    if vs.offsets.len() != m || vs.int_matrix.len() != m || vs.qvalues.len() != m + 1 || m == 0 {
        return None;
    }
    // rows sorted by key (digest, last row) and in the iteration order of the hash map (ord)
    let sorted: Vec<Vec<(i64, f64)>> = vs
        .qvalues
        .iter()
        .map(|row| {
            let mut r = row.clone();
            r.sort_by_key(|kv| kv.0);
            r
        })
        .collect();
    let digests: Vec<String> = sorted
        .iter()
        .map(|row| {
            if row.is_empty() {
                "0:0:0:0:0:0".to_string()
            } else {
                let ks: i128 = row.iter().map(|kv| kv.0 as i128).sum();
                let mut v = 0.0f64;
                for kv in row.iter() {
                    v += kv.1;
                }
                format!(
                    "{}:{}:{}:{}:{}:{}",
                    row.len(),
                    row[0].0,
                    row[row.len() - 1].0,
                    ks,
                    v.to_bits(),
                    row_checksum(row)
                )
            }
        })
        .collect();
    let last: Vec<String> = sorted[m - 1]
        .iter()
        .map(|kv| format!("{}:{}", kv.0, kv.1.to_bits()))
        .collect();
    let total: usize = vs.qvalues[..m - 1].iter().map(|r| r.len()).sum();
    // (TFM_ORD_CAP: development override, to exercise the driver's tolerance path)
    let cap = std::env::var("TFM_ORD_CAP").ok().and_then(|v| v.parse::<usize>().ok()).unwrap_or(ORD_CAP);
    let ord = if total > cap {
        "-".to_string()
    } else {
        vs.qvalues[..m - 1]
            .iter()
            .map(|r| r.iter().map(|kv| kv.0.to_string()).collect::<Vec<_>>().join(","))
            .collect::<Vec<_>>()
            .join("/")
    };
    let win = match win {
        Some((lo, hi)) => format!("{}:{}", lo, hi),
        None => "-".to_string(),
    };
    Some(format!(
        "{}|{}|{}|{}|{}|{}|{}|{}|{}|{}",
        join(&vs.permutation, ","),
        join(&vs.offsets, ","),
        vs.error_max.to_bits(),
        vs.int_matrix.iter().map(|r| join(r, ",")).collect::<Vec<_>>().join("/"),
        join(&vs.min_score_rows, ","),
        join(&vs.max_score_rows, ","),
        digests.join("/"),
        last.join(","),
        win,
        ord
    ))
}

// ---------------------------------------------------------------- cases

struct Case {
    m: usize,
    k: usize,
    mat: Vec<Vec<f32>>,
    bg: Vec<f32>,
    q: f64,
    steps: usize,
}

fn parse_case(f: &std::collections::HashMap<String, String>) -> Case {
    let mat: Vec<Vec<f32>> = f["mat"]
        .split('/')
        .map(|r| r.split(',').map(|x| f32::from_bits(x.parse::<u32>().unwrap())).collect())
        .collect();
    let bg: Vec<f32> = f["bg"].split(',').map(|x| f32::from_bits(x.parse::<u32>().unwrap())).collect();
    Case {
        m: mat.len(),
        k: bg.len(),
        mat,
        bg,
        q: f64::from_bits(f["q"].parse::<u64>().unwrap()),
        steps: f["steps"].parse().unwrap(),
    }
}

fn build<A: Alphabet>(c: &Case) -> Option<ScoringMatrix<A>> {
    if c.bg.len() != A::K::USIZE || c.mat.iter().any(|r| r.len() != A::K::USIZE) {
        return None;
    }
    let arr: GenericArray<f32, A::K> = GenericArray::from_slice(&c.bg).clone();
    // `Background::uniform()` is not always accepted by `Background::new` (twenty times 0.05f32
    // do not sum to 1.0f32): build it the way a user would
    let bg = match Background::<A>::new(arr) {
        Ok(b) => b,
        Err(_) => {
            let u = Background::<A>::uniform();
            if u.frequencies() == &c.bg[..] {
                u
            } else {
                return None;
            }
        }
    };
    let mut data = DenseMatrix::<f32, A::K>::new(c.m);
    for i in 0..c.m {
        for j in 0..A::K::USIZE {
            data[i][j] = c.mat[i][j];
        }
    }
    Some(ScoringMatrix::new(bg, data))
}

fn run_c12(c: &Case) -> String {
    if c.k == 21 {
        run_c12_g::<Protein>(c)
    } else {
        run_c12_g::<Dna>(c)
    }
}

fn run_c13(c: &Case) -> String {
    if c.k == 21 {
        run_c13_g::<Protein>(c)
    } else {
        run_c13_g::<Dna>(c)
    }
}

fn run_c12_g<A: Alphabet>(c: &Case) -> String {
    let pssm = match build::<A>(c) {
        Some(p) => p,
        None => return "bgerr".to_string(),
    };
    let mut its: Vec<String> = vec![];
    let mut converged_quickly = false;
    let mut panicked = false;
    {
        let mut tfmp = TfmPvalue::new(&pssm);
        let mut it = tfmp.approximate_pvalue(c.q);
        for _ in 0..c.steps {
            match no_panic(|| it.next()) {
                None => {
                    its.push("P".to_string());
                    panicked = true;
                    break;
                }
                Some(None) => break,
                Some(Some(x)) => {
                    let st = no_panic(|| state_of(&it.verif_state(), None)).flatten().unwrap_or("-".to_string());
                    its.push(format!(
                        "{}:{}:{}:{}:{}|{}",
                        x.granularity.to_bits(),
                        x.range.start().to_bits(),
                        x.range.end().to_bits(),
                        x.converged as u8,
                        x.score.to_bits(),
                        st
                    ));
                    if x.converged {
                        converged_quickly = true;
                    }
                }
            }
        }
    }
    let fin = if converged_quickly && !panicked {
        let mut tfmp = TfmPvalue::new(&pssm);
        match no_panic(|| tfmp.pvalue(c.q)) {
            None => "P".to_string(),
            Some(p) => p.to_bits().to_string(),
        }
    } else {
        "-".to_string()
    };
    format!("it={} fin={}", its.join(";"), fin)
}

fn run_c13_g<A: Alphabet>(c: &Case) -> String {
    let pssm = match build::<A>(c) {
        Some(p) => p,
        None => return "bgerr".to_string(),
    };
    let mut its: Vec<String> = vec![];
    let mut converged_quickly = false;
    let mut panicked = false;
    let mut w0 = "-".to_string();
    {
        let mut tfmp = TfmPvalue::new(&pssm);
        let it0 = no_panic(|| tfmp.approximate_score(c.q));
        match it0 {
            None => {
                its.push("P".to_string());
                panicked = true;
            }
            Some(mut it) => {
                if let Some((lo, hi)) = no_panic(|| it.verif_window()) {
                    w0 = format!("{}:{}", lo, hi);
                }
                for _ in 0..c.steps {
                    match no_panic(|| it.next()) {
                        None => {
                            its.push("P".to_string());
                            panicked = true;
                            break;
                        }
                        Some(None) => break,
                        Some(Some(x)) => {
                            let st = no_panic(|| state_of(&it.verif_state(), Some(it.verif_window()))).flatten().unwrap_or("-".to_string());
                            its.push(format!(
                                "{}:{}:{}:{}:{}|{}",
                                x.granularity.to_bits(),
                                x.range.start().to_bits(),
                                x.range.end().to_bits(),
                                x.converged as u8,
                                x.score.to_bits(),
                                st
                            ));
                            if x.converged {
                                converged_quickly = true;
                            }
                        }
                    }
                }
            }
        }
    }
    let fin = if converged_quickly && !panicked {
        let mut tfmp = TfmPvalue::new(&pssm);
        match no_panic(|| tfmp.score(c.q)) {
            None => "P".to_string(),
            Some(p) => p.to_bits().to_string(),
        }
    } else {
        "-".to_string()
    };
    format!("w0={} it={} fin={}", w0, its.join(";"), fin)
}

// ---------------------------------------------------------------- generator

struct Mat {
    m: usize,
    k: usize,
    mat: Vec<Vec<f32>>,
    bg: Vec<f32>,
    mk: &'static str,
    bgk: &'static str,
    /// cells are multiples of 1/grid (exact reference by convolution over the grid), 0 = enumerate all words
    grid: i64,
}

/// background with dyadic frequencies (exact in f32, exact sum 1)
fn gen_bg(rng: &mut Rng) -> ([f32; K], &'static str) {
    let r = rng.below(100);
    if r < 45 {
        ([0.25, 0.25, 0.25, 0.25, 0.0], "uni")
    } else if r < 88 {
        // non-uniform, no wildcard mass: counts over 64 (sometimes a zero frequency)
        let den = *rng.pick(&[16u32, 64, 256]);
        let mut c = [0u32; 4];
        let mut left = den;
        for k in 0..3 {
            let lo = if rng.chance(1, 12) { 0 } else { 1 };
            let hi = left - (3 - k as u32);
            let x = lo + rng.below((hi.min(den / 2) - lo + 1) as u64) as u32;
            c[k] = x;
            left -= x;
        }
        c[3] = left;
        let s = rng.below(4) as usize;
        c.rotate_left(s);
        (
            [c[0] as f32 / den as f32, c[1] as f32 / den as f32, c[2] as f32 / den as f32, c[3] as f32 / den as f32, 0.0],
            "nonuni",
        )
    } else if r < 94 {
        // decimal frequencies accepted by Background::new (sum == 1.0 in f32 arithmetic)
        let b = *rng.pick(&[[0.3f32, 0.2, 0.2, 0.3, 0.0], [0.1, 0.4, 0.4, 0.1, 0.0], [0.35, 0.15, 0.15, 0.35, 0.0]]);
        (b, "decimal")
    } else {
        // wildcard mass
        let den = 64u32;
        let w = 1 + rng.below(16) as u32;
        let mut c = [0u32; 4];
        let mut left = den - w;
        for k in 0..3 {
            let hi = left - (3 - k as u32);
            let x = 1 + rng.below(hi.min(den / 2) as u64) as u32;
            c[k] = x;
            left -= x;
        }
        c[3] = left;
        (
            [
                c[0] as f32 / den as f32,
                c[1] as f32 / den as f32,
                c[2] as f32 / den as f32,
                c[3] as f32 / den as f32,
                w as f32 / den as f32,
            ],
            "wild",
        )
    }
}

fn gen_matrix(rng: &mut Rng) -> Mat {
    let m = 2 + rng.below(5) as usize;
    let (bg, bgk) = gen_bg(rng);
    let r = rng.below(100);
    let mut mat = vec![[0f32; K]; m];
    let mk;
    if r < 8 {
        // clustered top words (the shape of the F13 witness): the first row has three
        // close high cells and one low cell, the other rows one high cell over three
        // equal low cells -- consecutive integer scores at g = 0.1 whose images at
        // g = 0.01 spread over +-9M around ten times the old ones
        mk = "cluster";
        // cell = (integer + fraction) / 10: at g = 0.1 the fraction is the rounding error of the
        // cell, its first digit decides where the cell lands at g = 0.01; high cells and row minima
        // get fractions of opposite classes so that all top words move the same way
        let small = [0.05f64, 0.15, 0.25, 0.125];
        let large = [0.65f64, 0.75, 0.85, 0.95, 0.875];
        let flip = rng.chance(1, 3);
        let (fh, fl) = if flip { (&large[..], &small[..]) } else { (&small[..], &large[..]) };
        let step = 1 + rng.below(2) as i64;
        for (i, row) in mat.iter_mut().enumerate() {
            if i == 0 {
                let hi = rng.range(8, 30);
                let lo = -rng.range(2, 12);
                row[0] = ((hi as f64 + *rng.pick(fh)) / 10.0) as f32;
                row[1] = (((hi - step) as f64 + *rng.pick(fh)) / 10.0) as f32;
                row[2] = (((hi - 2 * step) as f64 + *rng.pick(fh)) / 10.0) as f32;
                row[3] = ((lo as f64 + *rng.pick(fl)) / 10.0) as f32;
            } else {
                let h = rng.range(2, 12);
                let l = -rng.range(1, 9);
                let lowv = ((l as f64 + *rng.pick(fl)) / 10.0) as f32;
                row[0] = ((h as f64 + *rng.pick(fh)) / 10.0) as f32;
                row[1] = lowv;
                row[2] = lowv;
                row[3] = if rng.chance(1, 4) { lowv - 0.5 } else { lowv };
            }
            let sh = rng.below(4) as usize;
            row[..4].rotate_left(sh);
        }
    } else if r < 30 {
        // fine grid: multiples of 1/1024 in [-8, 4]
        mk = "fine";
        for row in mat.iter_mut() {
            for j in 0..4 {
                row[j] = rng.range(-8192, 4096) as f32 / 1024.0;
            }
        }
    } else if r < 55 {
        // coarse grid: multiples of 1/4 (many ties, repeated ranges)
        mk = "coarse";
        for row in mat.iter_mut() {
            for j in 0..4 {
                row[j] = rng.range(-16, 8) as f32 / 4.0;
            }
        }
    } else if r < 63 {
        // decimal grid: multiples of 0.1 / 0.01 (not representable: floor boundaries)
        mk = "decimal";
        let den = *rng.pick(&[10.0f32, 100.0]);
        for row in mat.iter_mut() {
            for j in 0..4 {
                row[j] = rng.range(-60, 30) as f32 / den * if den > 50.0 { 10.0 } else { 1.0 };
            }
        }
    } else if r < 70 {
        // small rounded weights on a 0.05 lattice (hand-written PSSM files): many words tie in
        // real score but not in integer score, so the refinement converges only when the f32
        // representation noise separates them (granularity 1e-8 and below)
        mk = "lattice";
        for row in mat.iter_mut() {
            for j in 0..4 {
                row[j] = (rng.range(-24, 20) as f64 * 0.05) as f32;
            }
        }
    } else {
        // count-derived log-odds matrices (through the library's own conversion)
        mk = "counts";
        let n = 4 + rng.below(30) as u32;
        let mut data = DenseMatrix::<u32, U5>::new(m);
        for i in 0..m {
            let mut left = n;
            for j in 0..3 {
                let x = rng.below(left as u64 + 1) as u32;
                data[i][j] = x;
                left -= x;
            }
            data[i][3] = left;
        }
        let pseudo = *rng.pick(&[0.1f32, 0.25, 0.5, 1.0]);
        let b = Background::<Dna>::new(bg).ok();
        let pssm = CountMatrix::<Dna>::new(data).unwrap().to_freq(pseudo).to_scoring(b);
        for i in 0..m {
            for j in 0..K {
                mat[i][j] = pssm.matrix()[i][j];
            }
        }
        // zero background frequency gives -inf in a non-wildcard column: replace (finite cells only)
        for row in mat.iter_mut() {
            for j in 0..4 {
                if !row[j].is_finite() {
                    row[j] = -3.5;
                }
            }
        }
    }
    if mk != "counts" {
        for row in mat.iter_mut() {
            row[4] = f32::NEG_INFINITY;
        }
    }
    // a finite wildcard column: with wildcard mass (the words through it then have a
    // finite score), or -- rarely -- without (the cell then only enters error_max)
    if (bgk == "wild" && rng.chance(1, 3)) || (bgk != "wild" && rng.chance(1, 16)) {
        let pos = rng.chance(1, 2);
        for row in mat.iter_mut() {
            row[4] = if pos { rng.range(-12, 6) as f32 / 2.0 } else { rng.range(-12, 0) as f32 / 2.0 };
        }
    }
    // sometimes an uninformative position: all symbol cells equal (integer range 0 at every
    // granularity), or nearly equal (integer range 0 at the coarse granularities only)
    if rng.chance(1, 7) {
        let i = rng.below(m as u64) as usize;
        let v = mat[i][rng.below(4) as usize];
        let near = rng.chance(1, 3);
        for j in 0..4 {
            mat[i][j] = if near { v + rng.below(4) as f32 * 0.0078125 } else { v };
        }
    }
    // sometimes equal rows (ties in the row permutation)
    if m >= 3 && rng.chance(1, 8) {
        mat[m - 1] = mat[0];
    }
    Mat { m, k: K, mat: mat.iter().map(|r| r.to_vec()).collect(), bg: bg.to_vec(), mk, bgk, grid: 0 }
}

/// background over `n` symbols + wildcard: uniform (1/n as f32, whose f64 sum may exceed 1),
/// dyadic non-uniform (counts over a power of two) or with wildcard mass
fn gen_bg_n(rng: &mut Rng, n: usize) -> (Vec<f32>, &'static str) {
    let r = rng.below(100);
    if r < 40 {
        let mut b = vec![1.0 / n as f32; n];
        b.push(0.0);
        (b, "uni")
    } else {
        let wild = r >= 88;
        let den: u32 = if n > 8 { 256 } else { 64 };
        let w = if wild { 1 + rng.below(den as u64 / 8) as u32 } else { 0 };
        // n positive counts summing to den - w
        let mut c = vec![1u32; n];
        let mut left = den - w - n as u32;
        while left > 0 {
            let i = rng.below(n as u64) as usize;
            let x = 1 + rng.below(left.min(den / 8) as u64) as u32;
            c[i] += x;
            left -= x;
        }
        let mut b: Vec<f32> = c.iter().map(|&x| x as f32 / den as f32).collect();
        b.push(w as f32 / den as f32);
        (b, if wild { "wild" } else { "nonuni" })
    }
}

/// protein matrices (K = 21) and wide motifs on a coarse grid
fn gen_matrix_ext(rng: &mut Rng) -> Mat {
    let r = rng.below(100);
    if r < 35 {
        // small protein motif, arbitrary cells: all 20^M words are enumerated
        let m = 2 + rng.below(2) as usize;
        let (bg, bgk) = gen_bg_n(rng, 20);
        let den = *rng.pick(&[1024.0f32, 4.0, 10.0]);
        let mut mat = vec![vec![0f32; 21]; m];
        for row in mat.iter_mut() {
            for j in 0..20 {
                row[j] = rng.range(-6 * den as i64, 4 * den as i64) as f32 / den;
            }
            row[20] = f32::NEG_INFINITY;
        }
        if bgk == "wild" && rng.chance(1, 3) {
            for row in mat.iter_mut() {
                row[20] = rng.range(-12, 4) as f32 / 2.0;
            }
        }
        Mat { m, k: 21, mat, bg, mk: "prot", bgk, grid: 0 }
    } else if r < 55 {
        // DNA, width 7..8 (16 384 / 65 536 words)
        let m = 7 + rng.below(2) as usize;
        let (bg, bgk) = gen_bg_n(rng, 4);
        let den = *rng.pick(&[1024.0f32, 16.0]);
        let mut mat = vec![vec![0f32; 5]; m];
        for row in mat.iter_mut() {
            for j in 0..4 {
                row[j] = rng.range(-6 * den as i64, 3 * den as i64) as f32 / den;
            }
            row[4] = f32::NEG_INFINITY;
        }
        Mat { m, k: 5, mat, bg, mk: "dnawide", bgk, grid: 0 }
    } else {
        // wide motifs on a 1/4 grid: protein width 4..14, DNA width 9..22
        let prot = rng.chance(2, 3);
        let n = if prot { 20 } else { 4 };
        // half of the protein motifs are wide enough (10..14) for exact tails far below 1e-12
        let m = if prot {
            if rng.chance(1, 2) { 10 + rng.below(5) as usize } else { 4 + rng.below(6) as usize }
        } else {
            9 + rng.below(14) as usize
        };
        let (bg, bgk) = gen_bg_n(rng, n);
        let grid = 4i64;
        let mut mat = vec![vec![0f32; n + 1]; m];
        for row in mat.iter_mut() {
            // a conserved position: one or two high cells, the others low
            let hi = rng.range(2, 9);
            for j in 0..n {
                row[j] = rng.range(-10, 1) as f32 / grid as f32;
            }
            let nh = 1 + rng.below(2) as usize;
            for _ in 0..nh {
                let j = rng.below(n as u64) as usize;
                row[j] = (hi - rng.below(2) as i64) as f32 / grid as f32;
            }
            row[n] = f32::NEG_INFINITY;
        }
        Mat { m, k: n + 1, mat, bg, mk: if prot { "protgrid" } else { "dnagrid" }, bgk, grid }
    }
}

/// DNA motif of width 6..7 with two informative positions and 4..5 nearly uninformative ones whose
/// ranges (0.05 .. 0.099) are all below the first granularity 0.1: such a row is either constant at
/// g = 0.1 (all cells in one bin, integer range 0) or straddles a multiple of 0.1 (integer range 1),
/// and the INTEGER range is not monotone in the float range by which `TfmPvalue::new` sorts the rows.
/// Half of the time the widest of these rows is bin-constant and all narrower ones straddle.  In the
/// `tight` variant (2 in 3) the cells sit just below bin boundaries (fractional parts of x / 0.1 close to
/// one), so that the rounding errors of a word use up nearly all of the (M+1) g slack of the property:
/// an integer score that is one unit off per row is then visible in the reported range.
/// Cells in units of 1e-4.
fn gen_matrix_flat(rng: &mut Rng) -> Mat {
    let tight = rng.chance(2, 3);
    let nflat = if tight { 5 } else { 4 + rng.below(2) as usize };
    let m = 2 + nflat;
    let (bg, bgk) = gen_bg_n(rng, 4);
    let mut mat = vec![vec![0f32; 5]; m];
    // informative rows; in the tight variant their 16 sums are 0.6 apart (more than the total range of the
    // nearly uninformative rows), so that the score distribution is a sequence of separated clusters
    for (i, row) in mat.iter_mut().take(2).enumerate() {
        if tight {
            let step = if i == 0 { 24 } else { 6 };
            let base = rng.range(-40, 5);
            let mut order = [0i64, 1, 2, 3];
            for j in (1..4).rev() {
                let k = rng.below(j as u64 + 1) as usize;
                order.swap(j, k);
            }
            for j in 0..4 {
                row[j] = ((base + step * order[j]) * 1000 - 1 - rng.below(100) as i64) as f32 / 10000.0;
            }
        } else {
            for j in 0..4 {
                row[j] = rng.range(-30000, 15000) as f32 / 10000.0;
            }
        }
        row[4] = f32::NEG_INFINITY;
    }
    // distinct ranges in 0.0500 .. 0.0990, widest first
    let pattern = if tight { rng.chance(2, 3) } else { rng.chance(1, 2) };
    let mut ranges: Vec<i64> = vec![];
    // (a row can only be bin-constant when its range leaves room inside a bin: the widest range is at most
    // 0.094 when it is to be the constant row)
    let top = if pattern { rng.range(if tight { 900 } else { 600 }, 941) } else { 990 };
    if pattern {
        ranges.push(top);
    }
    while ranges.len() < nflat {
        let r = if tight { rng.range(800, top) } else { rng.range(500, top) };
        if !ranges.contains(&r) {
            ranges.push(r);
        }
    }
    ranges.sort_by(|a, b| b.cmp(a));
    for (i, &r) in ranges.iter().enumerate() {
        let inside = if pattern { i == 0 } else { rng.chance(1, 3) };
        let base = rng.range(-20, 10) * 1000; // a multiple of 0.1
        let lo = if inside && r <= 940 {
            // all cells strictly inside the bin [base, base + 0.1)
            if tight {
                base + 1000 - r - 1 - rng.below(30.min(1000 - r - 1) as u64) as i64
            } else {
                base + 30 + rng.below((1000 - r - 50) as u64) as i64
            }
        } else if tight {
            // just below the boundary: the low cells have a fractional part close to one
            base - 1 - rng.below(30) as i64
        } else {
            // the bin boundary `base` lies strictly between the smallest and the largest cell
            base - 30 - rng.below((r - 50) as u64) as i64
        };
        let mut cells = vec![lo, lo + r, 0, 0];
        for c in cells.iter_mut().skip(2) {
            *c = match rng.below(3) {
                0 => lo,
                1 => lo + r,
                _ => lo + rng.below(r as u64 + 1) as i64,
            };
        }
        // random column order
        for j in (1..4).rev() {
            let k = rng.below(j as u64 + 1) as usize;
            cells.swap(j, k);
        }
        for j in 0..4 {
            mat[2 + i][j] = cells[j] as f32 / 10000.0;
        }
        mat[2 + i][4] = f32::NEG_INFINITY;
    }
    // random row order (the permutation is computed by the code)
    for i in (1..m).rev() {
        let k = rng.below(i as u64 + 1) as usize;
        mat.swap(i, k);
    }
    Mat { m, k: 5, mat, bg, mk: "flat", bgk, grid: 0 }
}

/// exact distribution of the score over the non-wildcard symbols, sorted by score:
/// (score as f64 sum of the f32 cells, probability); equal scores are merged when the cells
/// lie on a grid (convolution), otherwise all words are enumerated
fn enumerate(mx: &Mat) -> Vec<(f64, f64)> {
    let n = mx.k - 1;
    if mx.grid > 0 {
        let mut cur: std::collections::BTreeMap<i64, f64> = std::collections::BTreeMap::new();
        cur.insert(0, 1.0);
        for i in 0..mx.m {
            let mut nxt: std::collections::BTreeMap<i64, f64> = std::collections::BTreeMap::new();
            for (&s, &p) in cur.iter() {
                for j in 0..n {
                    let c = (mx.mat[i][j] as f64 * mx.grid as f64).round() as i64;
                    *nxt.entry(s + c).or_insert(0.0) += p * mx.bg[j] as f64;
                }
            }
            cur = nxt;
        }
        return cur.into_iter().map(|(s, p)| (s as f64 / mx.grid as f64, p)).collect();
    }
    let mut out = vec![(0.0f64, 1.0f64)];
    for i in 0..mx.m {
        let mut nxt = Vec::with_capacity(out.len() * n);
        for &(s, p) in out.iter() {
            for j in 0..n {
                nxt.push((s + mx.mat[i][j] as f64, p * mx.bg[j] as f64));
            }
        }
        out = nxt;
    }
    out.sort_by(|a, b| a.0.partial_cmp(&b.0).unwrap());
    out
}

fn show_case(id: &str, mx: &Mat, qk: &str, nt: bool, steps: usize, q: f64) -> String {
    format!(
        "{} M={} abc={} ref={} mk={} bgk={} qk={} nt={} steps={} mat={} bg={} q={}",
        id,
        mx.m,
        if mx.k == 21 { "prot" } else { "dna" },
        if mx.grid > 0 { "conv" } else { "enum" },
        mx.mk,
        mx.bgk,
        qk,
        nt as u8,
        steps,
        mx.mat
            .iter()
            .map(|r| r.iter().map(|x| x.to_bits().to_string()).collect::<Vec<_>>().join(","))
            .collect::<Vec<_>>()
            .join("/"),
        mx.bg.iter().map(|x| x.to_bits().to_string()).collect::<Vec<_>>().join(","),
        q.to_bits()
    )
}

fn gen(prop: &str, seed: u64, n: usize, tier: &str) {
    let mut rng = Rng::new(seed ^ if prop == "c13" { 0x1313 } else { 0x1212 });
    let mut id = 0usize;
    while id < n {
        // one matrix in eight: protein alphabet / wide motif (gen_matrix_ext)
        let ext = rng.chance(1, 8);
        // one matrix in 15: nearly uninformative rows around the bins of the first granularity (`flat`)
        let flat = !ext && rng.chance(1, 15);
        let mut mx = if ext {
            gen_matrix_ext(&mut rng)
        } else if flat {
            gen_matrix_flat(&mut rng)
        } else {
            gen_matrix(&mut rng)
        };
        // one plain matrix in 25: a few cells of huge magnitude (1e2 .. 1e20): `x / g` then exceeds the
        // i64 range at some granularity (model panic sites 13/14/21/23/24/33/34; known finding
        // i64-overflow) or loses its fractional bits early
        let bigcell = !ext && !flat && mx.grid == 0 && rng.chance(1, 25);
        if bigcell {
            let ncells = 1 + rng.below(2) as usize;
            for _ in 0..ncells {
                let r = rng.below(mx.m as u64) as usize;
                let c = rng.below((mx.k - 1) as u64) as usize;
                let mag = 10f64.powf(2.0 + rng.below(1801) as f64 / 100.0);
                let digits = 1.0 + rng.below(9000) as f64 / 1000.0;
                let sign = if rng.chance(1, 3) { 1.0 } else { -1.0 };
                mx.mat[r][c] = (sign * mag * digits / 10.0) as f32;
            }
            mx.mk = "bigcell";
        }
        let words = enumerate(&mx);
        let lo = words[0].0;
        let hi = words[words.len() - 1].0;
        let mut distinct: Vec<f64> = words.iter().map(|w| w.0).collect();
        distinct.dedup();
        let maxsteps = if tier == "thorough" { 7 } else { 6 };
        let mut queries: Vec<(&'static str, f64)> = vec![];
        if prop == "c12" {
            queries.push(("below", lo - 0.5 - rng.below(30) as f64 / 7.0));
            queries.push(("above", hi + 0.25 + rng.below(30) as f64 / 7.0));
            queries.push(("att", lo));
            queries.push(("att", hi));
            let natt = 2 + rng.below(4) as usize;
            for _ in 0..natt {
                queries.push(("att", *rng.pick(&distinct)));
            }
            let neps = 2 + rng.below(3) as usize;
            for _ in 0..neps {
                let s = *rng.pick(&distinct);
                let eps = *rng.pick(&[1e-9f64, 1e-6, 1e-4, 1e-3, -1e-6, -1e-3]);
                queries.push(("atteps", s + eps));
            }
            let nr = 1 + rng.below(5) as usize;
            for _ in 0..nr {
                let u = rng.below(1_000_001) as f64 / 1_000_000.0;
                queries.push(("rand", lo - 0.3 + (hi - lo + 0.6) * u));
            }
            // a few 1e-8 / 1e-9 below an attainable score: the refinement only converges at
            // granularity 1e-8 and below and has mass exactly in the band the property constrains
            let nd = if ext { 3 } else { 1 };
            for _ in 0..nd {
                let s = *rng.pick(&distinct);
                let unit = *rng.pick(&[1e-8f64, 1e-9, 1e-7]);
                queries.push(("attdeep", s - (mx.m as f64 + 1.5) * unit));
            }
            if ext {
                // far below the minimum (whole window below the lowest integer score)
                queries.push(("below", lo - 2.0 - rng.below(50) as f64));
            }
            // the edges of the two tail clauses at the first granularities: s = S(w) - (M+1) g (the word w
            // still belongs to P(S >= s + (M+1) g)) and s = S(w) + (M+2) g (w just left P(S >= s - (M+2) g));
            // for `flat` matrices w is one of the best words (high cell in most rows)
            let ne = if flat { 7 } else { 2 };
            for i in 0..ne {
                let g = if flat || rng.chance(1, 2) { 0.1f64 } else { 0.01 };
                let w = if flat {
                    // the high cell in (most of) the nearly uninformative rows, any cell elsewhere
                    let mut sum = 0.0f64;
                    for row in mx.mat.iter() {
                        let cells = &row[..mx.k - 1];
                        let hi_c = cells.iter().cloned().fold(f32::NEG_INFINITY, f32::max);
                        let lo_c = cells.iter().cloned().fold(f32::INFINITY, f32::min);
                        sum += if hi_c - lo_c < 0.1 && rng.chance(7, 8) { hi_c } else { *rng.pick(cells) } as f64;
                    }
                    sum
                } else {
                    *rng.pick(&distinct)
                };
                let eps = *rng.pick(&[0.0f64, 1e-9, 1e-7]);
                if i % 3 == 2 {
                    queries.push(("edge5", w + (mx.m as f64 + 2.0) * g + eps));
                } else {
                    queries.push(("edge4", w - (mx.m as f64 + 1.0) * g - eps));
                }
            }
            // a query of huge magnitude (what is left of pyglue's F25: `pvalue(1e30)`): score / g leaves the
            // binary64-exact / i64 range although every cell is small
            if rng.chance(1, 10) {
                let mag = 10f64.powf(10.0 + rng.below(2801) as f64 / 100.0);
                queries.push(("hugeq", if rng.chance(1, 2) { mag } else { -mag }));
            }
            // exactly attainable scores run to completion (19 calls of next()): on such a query the
            // iteration typically only converges at granularity ~1e-16, when x / g has no fractional bits
            // left; pvalue() is then called as well
            if !ext && (bigcell || rng.chance(1, 6)) {
                let nf = if bigcell { 4 } else { 1 };
                for _ in 0..nf {
                    queries.push(("attfull", *rng.pick(&distinct)));
                }
            }
        } else {
            // exact tails (f64 approximations of them) at the distinct scores
            let mut tails: Vec<f64> = vec![];
            let mut stails: Vec<(f64, f64)> = vec![];
            let mut acc = 0.0f64;
            let mut i = words.len();
            while i > 0 {
                let s = words[i - 1].0;
                while i > 0 && words[i - 1].0 == s {
                    acc += words[i - 1].1;
                    i -= 1;
                }
                tails.push(acc);
                stails.push((s, acc));
            }
            tails.retain(|&t| t > 0.0 && t < 1.0);
            let nt = 3 + rng.below(3) as usize;
            for _ in 0..nt {
                if !tails.is_empty() {
                    queries.push(("tail", *rng.pick(&tails)));
                }
            }
            let nb = 3 + rng.below(3) as usize;
            for _ in 0..nb {
                if tails.len() >= 2 {
                    let k = rng.below(tails.len() as u64 - 1) as usize;
                    let u = (1 + rng.below(9)) as f64 / 10.0;
                    queries.push(("between", tails[k] + (tails[k + 1] - tails[k]) * u));
                }
            }
            if ext {
                // p-values between the tails of the best words (tiny: below 1e-12 for wide protein
                // motifs) and between the largest tails (close to 1)
                for k in 0..tails.len().saturating_sub(1).min(4) {
                    let u = (1 + rng.below(3)) as f64 / 4.0;
                    queries.push(("between", tails[k] + (tails[k + 1] - tails[k]) * u));
                }
                let n = tails.len();
                for k in (n.saturating_sub(3)..n.saturating_sub(1)).rev() {
                    queries.push(("between", tails[k] + (tails[k + 1] - tails[k]) * 0.5));
                }
                if let Some(&t0) = tails.first() {
                    queries.push(("tiny", t0 * *rng.pick(&[0.5f64, 0.1, 1e-3])));
                    // p-values below 1e-12 that exceed the tail a good way (1.5 d at granularity 0.1)
                    // below the maximal score: a threshold above the maximum is then wrong by more
                    // than the slack of the property
                    let d0 = (mx.m as f64 + 2.0) * 0.1;
                    if let Some(&(_, tb)) = stails.iter().find(|st| st.0 <= hi - 1.5 * d0) {
                        if tb > 0.0 && tb < 1e-12 {
                            for _ in 0..3 {
                                let u = (1 + rng.below(999)) as f64 / 1000.0;
                                let lp = tb.ln() + (1e-12f64.ln() - tb.ln()) * u;
                                queries.push(("tiny", lp.exp()));
                            }
                        }
                    }
                    // p-values below 1e-12 that are still well above the smallest tails
                    if t0 < 1e-13 {
                        for _ in 0..3 {
                            let u = (1 + rng.below(999)) as f64 / 1000.0;
                            let lp = t0.ln() + (1e-12f64.ln() - t0.ln()) * u;
                            queries.push(("tiny", lp.exp()));
                        }
                    }
                }
            }
            // p-values between the tails of two attainable scores that are closer than 1e-5 (the closest
            // pairs): the refinement only converges at a granularity below their distance, and the returned
            // threshold has to separate them
            let mut close: Vec<(f64, usize)> = vec![];
            for i in 0..stails.len().saturating_sub(1) {
                let gap = stails[i].0 - stails[i + 1].0;
                if gap > 0.0 && gap < 1e-5 && stails[i].1 > 0.0 && stails[i + 1].1 > stails[i].1 {
                    close.push((gap, i));
                }
            }
            close.sort_by(|a, b| a.0.partial_cmp(&b.0).unwrap());
            for &(_, i) in close.iter().take(2) {
                queries.push(("closepair", 0.5 * (stails[i].1 + stails[i + 1].1)));
            }
            for p in [0.9f64, 0.99, 0.999999] {
                if rng.chance(1, 4) {
                    queries.push(("near1", p));
                }
            }
            if mx.mk == "cluster" {
                // thresholds between the best few words (where the integer scores are consecutive)
                for k in 0..tails.len().saturating_sub(1).min(5) {
                    let u = (1 + rng.below(3)) as f64 / 4.0;
                    queries.push(("between", tails[k] + (tails[k + 1] - tails[k]) * u));
                }
            }
            for p in [0.5f64, 0.1, 0.01, 0.001, 0.0001] {
                if rng.chance(1, 2) {
                    queries.push(("round", p));
                }
            }
            let u = (1 + rng.below(999_998)) as f64 / 1_000_000.0;
            queries.push(("rand", u));
            if rng.chance(1, 3) {
                queries.push(("rand", u * u * u));
            }
        }
        for (qk, q) in queries {
            if id >= n {
                break;
            }
            let nt = if prop == "c12" {
                q > lo && q < hi && distinct.len() >= 3
            } else {
                qk == "between"
            };
            // mostly 3..maxsteps calls of next(); one case in ten runs deep (granularity down to 1e-10)
            let deep = if qk == "attdeep" || qk == "closepair" {
                1
            } else if ext {
                2
            } else if mx.mk == "lattice" || mx.mk == "decimal" || mx.mk == "coarse" {
                3
            } else {
                10
            };
            let steps = if qk == "attfull" {
                19
            } else if rng.chance(1, deep) {
                9 + rng.below(3) as usize
            } else {
                3 + rng.below((maxsteps - 2) as u64) as usize
            };
            println!("{}", show_case(&id.to_string(), &mx, qk, nt, steps, q));
            id += 1;
        }
    }
}

fn main() {
    let mut argv: Vec<String> = std::env::args().collect();
    if argv.len() < 3 {
        eprintln!("usage: tfm c12|c13 gen --seed S --n N [--tier t] | tfm c12|c13 run < inputs");
        std::process::exit(2);
    }
    let prop = argv.remove(1);
    // re-parse the remaining arguments with the shared parser
    let args = {
        let mut a = Args { cmd: argv[1].clone(), seed: 1, n: 100, tier: "quick".to_string(), rest: vec![] };
        if let Ok(s) = std::env::var("VERIF_SEED") {
            if let Ok(v) = s.parse() {
                a.seed = v;
            }
        }
        let mut i = 2;
        while i < argv.len() {
            match argv[i].as_str() {
                "--seed" => {
                    a.seed = argv[i + 1].parse().unwrap();
                    i += 2;
                }
                "--n" => {
                    a.n = argv[i + 1].parse().unwrap();
                    i += 2;
                }
                "--tier" => {
                    a.tier = argv[i + 1].clone();
                    i += 2;
                }
                _ => {
                    a.rest.push(argv[i].clone());
                    i += 1;
                }
            }
        }
        a
    };
    match (prop.as_str(), args.cmd.as_str()) {
        ("c12", "gen") | ("c13", "gen") => gen(&prop, args.seed, args.n, &args.tier),
        ("c12", "run") | ("c13", "run") => {
            silence_panics();
            for line in stdin_lines() {
                let (_id, f) = fields(&line);
                let c = parse_case(&f);
                let obs = if prop == "c12" { run_c12(&c) } else { run_c13(&c) };
                println!("{} => {}", line, obs);
            }
        }
        ("c12", "dbg") | ("c13", "dbg") => {
            // print the raw Debug rendering for the first input line (development aid)
            for line in stdin_lines() {
                let (_id, f) = fields(&line);
                let c = parse_case(&f);
                let pssm = build::<Dna>(&c).unwrap();
                let mut tfmp = TfmPvalue::new(&pssm);
                if prop == "c12" {
                    let mut it = tfmp.approximate_pvalue(c.q);
                    it.next();
                    println!("{:?}", it);
                } else {
                    let mut it = tfmp.approximate_score(c.q);
                    it.next();
                    println!("{:?}", it);
                }
                break;
            }
        }
        _ => {
            eprintln!("usage: tfm c12|c13 gen --seed S --n N [--tier t] | tfm c12|c13 run < inputs");
            std::process::exit(2);
        }
    }
}
