//! C11 harness: MEME-style score distribution (`lightmotif::pwm::dist`).
//!
//! `dist gen --seed S --n N [--tier t]` prints input lines
//!     <id> kind=<k> M=<m> [abc=dna|protein] bgm=new|counts|uniform bg=<K words> m=<row;row;...>
//!          pr=<f32 bits,...> ps=<f64 bits,...> si=<idx:variant,...>
//!   abc: alphabet (default dna, K=5: A,C,T,G,N; protein, K=21: 20 amino acids + X);
//!   bg: f32 bit patterns (bgm=new), counts (bgm=counts) or `-` (bgm=uniform);
//!   m:  f32 bit patterns of the K cells of every row (symbol index order, wildcard last);
//!   pr: scores probed with `pvalue`; ps: p-values probed with `score`;
//!   si: table indices i (taken modulo the table length) whose entry sf[i] (variant 0),
//!       its f64 successor (1) or predecessor (-1) is probed with `score`.
//! `dist run` appends
//!     ` => bgf=<5 f32 bits> sf=<bits*count,...> minp=<f64 bits> pv=<f64 bits,...>
//!          sc=<f32 bits>:<f64 bits>,... sx=<p bits>:<f32 bits>:<f64 bits>,...`
//!          sm=<p bits>:<f32 bits>,... sk=<i32>,... us=<idx>:<f32 bits>,...
//!   sk: `scale(score)` of every `pr` probe; us: `unscale(idx)` for the `si` indices and 0, 1, len-1, len;
//!   sf: run-length encoded table; sc/sx: score(p) and pvalue(score(p)); `P` marks a panic;
//!   sm: `Distribution<f32>::sample` (feature `sampling`) driven by a StdRng seeded from the table length and
//!       the number of probes; p is what `Uniform::new_inclusive(0.0, 1.0)` draws from a clone of that
//!       generator (the oracle for rand's part), the second word is the sampled score;
//!   ` => bgerr` when the background is rejected, ` => bgf=... BUILDPANIC` when the
//!   construction of the distribution panics.

use generic_array::GenericArray;
use lightmotif::abc::{Alphabet, Background, Dna, Protein};
use lightmotif::dense::DenseMatrix;
use lightmotif::num::{Unsigned, U5};
use lightmotif::pwm::{CountMatrix, ScoringMatrix};
use lmh::*;
use rand::distributions::{Distribution, Uniform};
use rand::rngs::StdRng;
use rand::SeedableRng;

const K: usize = 5;

fn u32s(s: &str) -> Vec<u32> {
    if s.is_empty() || s == "-" {
        return vec![];
    }
    s.split(',').map(|x| x.parse().unwrap()).collect()
}
fn u64s(s: &str) -> Vec<u64> {
    if s.is_empty() || s == "-" {
        return vec![];
    }
    s.split(',').map(|x| x.parse().unwrap()).collect()
}

fn make_background<A: Alphabet>(mode: &str, bg: &str) -> Option<Background<A>> {
    let k = A::K::USIZE;
    match mode {
        "uniform" => Some(Background::<A>::uniform()),
        "new" => {
            let v = u32s(bg);
            assert_eq!(v.len(), k);
            let mut f = GenericArray::<f32, A::K>::default();
            for (j, &b) in v.iter().enumerate() {
                f[j] = f32::from_bits(b);
            }
            Background::<A>::new(f).ok()
        }
        "counts" => {
            let v = u64s(bg);
            assert_eq!(v.len(), k);
            let mut c = GenericArray::<usize, A::K>::default();
            for (j, &b) in v.iter().enumerate() {
                c[j] = b as usize;
            }
            Background::<A>::from_counts(&c).ok()
        }
        _ => panic!("bad background mode {}", mode),
    }
}

fn parse_matrix(s: &str, k: usize) -> Vec<Vec<f32>> {
    s.split(';')
        .filter(|r| !r.is_empty())
        .map(|r| {
            let v = u32s(r);
            assert_eq!(v.len(), k);
            v.iter().map(|&b| f32::from_bits(b)).collect()
        })
        .collect()
}

fn show_f64(x: Option<f64>) -> String {
    match x {
        Some(v) => v.to_bits().to_string(),
        None => "P".to_string(),
    }
}
fn show_f32(x: Option<f32>) -> String {
    match x {
        Some(v) => v.to_bits().to_string(),
        None => "P".to_string(),
    }
}

fn next_up(x: f64) -> f64 {
    if x.is_nan() || x == f64::INFINITY {
        return x;
    }
    if x == 0.0 {
        return f64::from_bits(1);
    }
    let b = x.to_bits();
    if x > 0.0 {
        f64::from_bits(b + 1)
    } else {
        f64::from_bits(b - 1)
    }
}
fn next_down(x: f64) -> f64 {
    -next_up(-x)
}
fn next_up32(x: f32) -> f32 {
    if x.is_nan() || x == f32::INFINITY {
        return x;
    }
    if x == 0.0 {
        return f32::from_bits(1);
    }
    let b = x.to_bits();
    if x > 0.0 {
        f32::from_bits(b + 1)
    } else {
        f32::from_bits(b - 1)
    }
}
fn next_down32(x: f32) -> f32 {
    -next_up32(-x)
}

fn run_case(line: &str) -> String {
    let (_id, f) = fields(line);
    match f.get("abc").map(|s| s.as_str()) {
        Some("protein") => run_case_a::<Protein>(&f),
        _ => run_case_a::<Dna>(&f),
    }
}

fn run_case_a<A: Alphabet>(f: &std::collections::HashMap<String, String>) -> String {
    let bg = match make_background::<A>(&f["bgm"], &f["bg"]) {
        Some(b) => b,
        None => return "bgerr".to_string(),
    };
    let bgf: Vec<String> = bg.frequencies().iter().map(|x| x.to_bits().to_string()).collect();
    let rows = parse_matrix(&f["m"], A::K::USIZE);
    let data = DenseMatrix::<f32, A::K>::from_rows(rows.iter());
    let pssm = ScoringMatrix::<A>::new(bg, data);
    let dist = match no_panic(|| pssm.to_score_distribution()) {
        Some(d) => d,
        None => return format!("bgf={} BUILDPANIC", bgf.join(",")),
    };
    // table, run-length encoded
    let sf = dist.sf();
    let mut rle: Vec<String> = vec![];
    let mut i = 0;
    while i < sf.len() {
        let b = sf[i].to_bits();
        let mut j = i + 1;
        while j < sf.len() && sf[j].to_bits() == b {
            j += 1;
        }
        rle.push(format!("{}*{}", b, j - i));
        i = j;
    }
    let minp = show_f64(no_panic(|| dist.min_pvalue()));
    let pv: Vec<String> = u32s(&f["pr"])
        .iter()
        .map(|&b| show_f64(no_panic(|| dist.pvalue(f32::from_bits(b)))))
        .collect();
    let one = |p: f64| -> (String, String) {
        match no_panic(|| dist.score(p)) {
            Some(s) => (show_f32(Some(s)), show_f64(no_panic(|| dist.pvalue(s)))),
            None => ("P".to_string(), "P".to_string()),
        }
    };
    let sc: Vec<String> = u64s(&f["ps"])
        .iter()
        .map(|&b| {
            let (s, r) = one(f64::from_bits(b));
            format!("{}:{}", s, r)
        })
        .collect();
    let mut sx: Vec<String> = vec![];
    if let Some(si) = f.get("si") {
        for tok in si.split(',').filter(|t| !t.is_empty() && *t != "-") {
            let (a, v) = tok.split_once(':').unwrap();
            let idx = a.parse::<usize>().unwrap() % sf.len();
            let p0 = sf[idx];
            let p = match v {
                "1" => next_up(p0),
                "-1" => next_down(p0),
                _ => p0,
            };
            let (s, r) = one(p);
            sx.push(format!("{}:{}:{}", p.to_bits(), s, r));
        }
    }
    // Distribution<f32>::sample: three draws
    let mut sm: Vec<String> = vec![];
    {
        let mut rng = StdRng::seed_from_u64(sf.len() as u64 * 1_000_003 + f["pr"].len() as u64);
        for _ in 0..3 {
            let p: f64 = Uniform::new_inclusive(0.0, 1.0).sample(&mut rng.clone());
            let s = no_panic(|| {
                let mut r = rng.clone();
                let v: f32 = dist.sample(&mut r);
                v
            });
            // advance the generator exactly as the call did
            let _: f64 = Uniform::new_inclusive(0.0, 1.0).sample(&mut rng);
            sm.push(format!("{}:{}", p.to_bits(), show_f32(s)));
        }
    }
    // the public helpers scale / unscale, called directly: scale on every pvalue probe, unscale on the table
    // indices of `si` plus 0, 1, len-1, len (what score() can hand to it)
    let sk: Vec<String> = u32s(&f["pr"])
        .iter()
        .map(|&b| match no_panic(|| dist.scale(f32::from_bits(b))) {
            Some(v) => v.to_string(),
            None => "P".to_string(),
        })
        .collect();
    let mut us_idx: Vec<i32> = vec![0, 1, sf.len() as i32 - 1, sf.len() as i32];
    if let Some(si) = f.get("si") {
        for tok in si.split(',').filter(|t| !t.is_empty() && *t != "-") {
            let (a, _) = tok.split_once(':').unwrap();
            us_idx.push((a.parse::<usize>().unwrap() % sf.len()) as i32);
        }
    }
    let us: Vec<String> = us_idx
        .iter()
        .map(|&i| format!("{}:{}", i, show_f32(no_panic(|| dist.unscale(i)))))
        .collect();
    let dash = |v: Vec<String>| if v.is_empty() { "-".to_string() } else { v.join(",") };
    format!(
        "bgf={} sf={} minp={} pv={} sc={} sx={} sm={} sk={} us={}",
        bgf.join(","),
        rle.join(","),
        minp,
        dash(pv),
        dash(sc),
        dash(sx),
        dash(sm),
        dash(sk),
        dash(us)
    )
}

// ---------------------------------------------------------------- generator

const NINF: f32 = f32::NEG_INFINITY;

fn unit(rng: &mut Rng) -> f64 {
    (rng.below(1 << 24) as f64) / ((1u64 << 24) as f64)
}

/// width of the motif: small enough for the driver to enumerate all words
fn gen_m(rng: &mut Rng, cap: usize) -> usize {
    let w = [1usize, 2, 2, 3, 3, 3, 4, 4, 4, 5, 5, 5, 6, 6, 7, 8];
    (*rng.pick(&w)).min(cap)
}

/// dyadic weights (multiples of 1/den) over `n` slots summing to exactly 1
fn dyadic_weights(rng: &mut Rng, n: usize, den: u64, allow_zero: bool) -> Vec<f32> {
    loop {
        let mut cuts: Vec<u64> = (0..n - 1).map(|_| rng.below(den + 1)).collect();
        cuts.sort();
        let mut parts = vec![];
        let mut prev = 0;
        for c in cuts.iter() {
            parts.push(c - prev);
            prev = *c;
        }
        parts.push(den - prev);
        if !allow_zero && parts.iter().any(|&p| p == 0) {
            continue;
        }
        return parts.iter().map(|&p| p as f32 / den as f32).collect();
    }
}

struct Bg {
    mode: &'static str,
    text: String,
    freqs: [f32; K],
}

fn gen_background(rng: &mut Rng, wildcard_mass: bool) -> Bg {
    if wildcard_mass {
        let den = *rng.pick(&[8u64, 16, 64, 1024]);
        let w = dyadic_weights(rng, 5, den, false);
        let f = [w[0], w[1], w[2], w[3], w[4]];
        return Bg {
            mode: "new",
            text: f.iter().map(|x| x.to_bits().to_string()).collect::<Vec<_>>().join(","),
            freqs: f,
        };
    }
    match rng.below(100) {
        0..=34 => Bg {
            mode: "uniform",
            text: "-".to_string(),
            freqs: [0.25, 0.25, 0.25, 0.25, 0.0],
        },
        35..=74 => {
            let den = *rng.pick(&[4u64, 8, 16, 64, 1024, 1 << 20]);
            let zero = rng.chance(1, 6);
            let w = dyadic_weights(rng, 4, den, zero);
            let f = [w[0], w[1], w[2], w[3], 0.0];
            Bg {
                mode: "new",
                text: f.iter().map(|x| x.to_bits().to_string()).collect::<Vec<_>>().join(","),
                freqs: f,
            }
        }
        75..=89 => {
            // Background::from_counts: c / total in f32, the real sum is 1 only up to rounding
            let c: Vec<u64> = (0..4).map(|_| 1 + rng.below(30)).collect();
            let tot: u64 = c.iter().sum();
            let f = [
                c[0] as f32 / tot as f32,
                c[1] as f32 / tot as f32,
                c[2] as f32 / tot as f32,
                c[3] as f32 / tot as f32,
                0.0,
            ];
            Bg {
                mode: "counts",
                text: format!("{},{},{},{},0", c[0], c[1], c[2], c[3]),
                freqs: f,
            }
        }
        _ => {
            // decimal frequencies accepted by Background::new when their f32 sum is 1.0
            let sets: [[f32; K]; 4] = [
                [0.1, 0.2, 0.3, 0.4, 0.0],
                [0.3, 0.2, 0.2, 0.3, 0.0],
                [0.15, 0.35, 0.35, 0.15, 0.0],
                [0.4, 0.1, 0.1, 0.4, 0.0],
            ];
            let f = *rng.pick(&sets);
            Bg {
                mode: "new",
                text: f.iter().map(|x| x.to_bits().to_string()).collect::<Vec<_>>().join(","),
                freqs: f,
            }
        }
    }
}

const KINDS: [&str; 20] = [
    "rand", "quant", "counts", "wfin", "rand", "quant", "counts", "const", "narrow", "wide", "large", "wmass",
    "roundup", "protein", "huge", "special", "skew", "long", "widerow", "long",
];

/// a strongly skewed background: one (sometimes two) rare symbols of probability 2^-e, e in 11..=20, the other
/// non-wildcard symbols dyadic so that the f32 sum (in order) and the real sum are exactly 1
fn gen_skew_background(rng: &mut Rng) -> (Bg, Vec<usize>) {
    let e = 11 + rng.below(10) as i32;
    let tiny = (2.0f64).powi(-e) as f32;
    let two = rng.chance(1, 4);
    let mut order = [0usize, 1, 2, 3];
    for i in (1..4).rev() {
        let j = rng.below(i as u64 + 1) as usize;
        order.swap(i, j);
    }
    let mut f = [0f32; K];
    let rare: Vec<usize>;
    if two {
        // tiny, tiny, 1/2, 1/2 - 2*tiny
        f[order[0]] = tiny;
        f[order[1]] = tiny;
        f[order[2]] = 0.5;
        f[order[3]] = 0.5 - 2.0 * tiny;
        rare = vec![order[0], order[1]];
    } else {
        // tiny, 1/2, 1/4, 1/4 - tiny
        f[order[0]] = tiny;
        f[order[1]] = 0.5;
        f[order[2]] = 0.25;
        f[order[3]] = 0.25 - tiny;
        rare = vec![order[0]];
    }
    (
        Bg {
            mode: "new",
            text: f.iter().map(|x| x.to_bits().to_string()).collect::<Vec<_>>().join(","),
            freqs: f,
        },
        rare,
    )
}

/// `skew`: width 5..8 (all words enumerable), the rare symbol(s) carry the best cell of every row, so that the
/// best words have probability 2^(-e*M) (down to 2^-160) and every prefix of length >= 5 of a best word has a
/// density below 2^-52
fn gen_matrix_skew(rng: &mut Rng, m: usize, rare: &[usize]) -> Vec<[f32; K]> {
    let quant = rng.chance(1, 2);
    let mut rows = vec![];
    for _ in 0..m {
        let mut r = [NINF; K];
        for c in r.iter_mut().take(4) {
            *c = if quant { (rng.range(-16, 4) as f32) * 0.5 } else { (unit(rng) * 9.0 - 7.0) as f32 };
        }
        let top = r[..4].iter().cloned().fold(f32::NEG_INFINITY, f32::max);
        for &a in rare {
            r[a] = if quant { top + 0.5 * (1 + rng.below(5)) as f32 } else { top + 0.25 + (unit(rng) * 2.5) as f32 };
        }
        rows.push(r);
    }
    rows
}

/// `long`: width 27..40 (thorough: ..48 when the tail stays a normal double), integer cells (the discretised cells
/// are multiples of the integer scale: the density stays sparse and the bit-exact replay cheap; the exact tail is
/// computed on the integer grid of the scores, DistGridModel.conv_tableZ)
fn gen_matrix_long(rng: &mut Rng, m: usize, rare: &[usize]) -> Vec<[f32; K]> {
    let lo = -(2 + rng.below(7) as i64);
    let hi = 1 + rng.below(4) as i64;
    let mut rows = vec![];
    for _ in 0..m {
        let mut r = [NINF; K];
        // with rare symbols: they alone carry the best cell (the consensus has probability 2^(-e*M) and every other
        // word reaching a top score is about as improbable: a density threshold anywhere above that cuts the tail)
        let top = if rare.is_empty() { hi } else { hi - 1 };
        for c in r.iter_mut().take(4) {
            *c = rng.range(lo, top) as f32;
        }
        for &a in rare {
            r[a] = hi as f32;
        }
        rows.push(r);
    }
    // the extreme cells exist, so that offset = lo and the scale is the integer floor(1000 / (hi - lo))
    let i0 = rng.below(m as u64) as usize;
    let i1 = rng.below(m as u64) as usize;
    let free: Vec<usize> = (0..4).filter(|a| !rare.contains(a)).collect();
    rows[i0][free[0]] = lo as f32;
    rows[i1][*free.last().unwrap()] = hi as f32;
    rows
}

/// `widerow`: a range above CDF_RANGE (fractional scale) caused by ONE wide entry in the first or a middle row (all
/// other cells within a few units), so that the partial sums over the first rows already use the whole budget
fn gen_matrix_widerow(rng: &mut Rng, m: usize) -> Vec<[f32; K]> {
    let span = *rng.pick(&[1500.0f32, 2500.0, 4000.0, 1000.5, 1001.0, 1.0e5, 999.5]);
    let quant = rng.chance(1, 2);
    let mut rows = vec![];
    for _ in 0..m {
        let mut r = [NINF; K];
        for c in r.iter_mut().take(4) {
            *c = if quant { (rng.range(-8, 8) as f32) * 0.5 } else { (unit(rng) * 8.0 - 4.0) as f32 };
        }
        rows.push(r);
    }
    let at = match rng.below(3) {
        0 => 0,
        1 => m / 2,
        _ => rng.below(m as u64) as usize,
    };
    let col = rng.below(4) as usize;
    if rng.chance(1, 4) {
        // wide downwards: one very low entry
        rows[at][col] = -span;
    } else {
        rows[at][col] = span;
        if rng.chance(1, 3) {
            // and a second one, later
            let at2 = (at + 1 + rng.below(m as u64) as usize) % m;
            rows[at2][(col + 1) % 4] = span * 0.75;
        }
    }
    rows
}

fn gen_matrix(rng: &mut Rng, kind: &str, m: usize, bg: &Bg) -> Vec<[f32; K]> {
    let mut rows: Vec<[f32; K]> = vec![];
    match kind {
        "rand" => {
            for _ in 0..m {
                let mut r = [NINF; K];
                for c in r.iter_mut().take(4) {
                    *c = (unit(rng) * 12.0 - 8.0) as f32;
                }
                rows.push(r);
            }
        }
        "quant" => {
            let q = *rng.pick(&[0.25f32, 0.5, 1.0, 0.125]);
            for _ in 0..m {
                let mut r = [NINF; K];
                for c in r.iter_mut().take(4) {
                    *c = (rng.range(-24, 12) as f32) * q;
                }
                rows.push(r);
            }
        }
        "counts" => {
            // count matrix -> frequencies (pseudocount) -> log-odds against the background
            let n = 4 + rng.below(40) as u32;
            let mut crow: Vec<[u32; K]> = vec![];
            for _ in 0..m {
                let mut left = n;
                let mut r = [0u32; K];
                for c in r.iter_mut().take(3) {
                    let x = rng.below(left as u64 + 1) as u32;
                    *c = x;
                    left -= x;
                }
                r[3] = left;
                // shuffle the four columns a little
                let k = rng.below(4) as usize;
                r.swap(0, k);
                crow.push(r);
            }
            let pseudo = *rng.pick(&[0.1f32, 0.25, 0.5, 1.0, 0.01]);
            let cm = CountMatrix::<Dna>::new(DenseMatrix::<u32, U5>::from_rows(crow.iter())).unwrap();
            let b = Background::<Dna>::new(bg.freqs)
                .ok()
                .or_else(|| {
                    if bg.mode == "uniform" {
                        Some(Background::<Dna>::uniform())
                    } else {
                        None
                    }
                })
                .unwrap_or_else(Background::<Dna>::uniform);
            let pssm = cm.to_freq(pseudo).to_scoring(b);
            for i in 0..m {
                let mut r = [0f32; K];
                for (j, c) in r.iter_mut().enumerate() {
                    *c = pssm.matrix()[i][j];
                }
                // a symbol with zero background gets -inf from the library: keep the
                // non-wildcard cells finite (the property's domain)
                for c in r.iter_mut().take(4) {
                    if !c.is_finite() {
                        *c = -10.0;
                    }
                }
                rows.push(r);
            }
        }
        "wfin" | "wmass" => {
            // finite or -inf wildcard column
            let quant = rng.chance(1, 2);
            let wmode = if kind == "wmass" { rng.below(5) } else { 1 + rng.below(4) };
            for _ in 0..m {
                let mut r = [NINF; K];
                for c in r.iter_mut().take(4) {
                    *c = if quant { (rng.range(-16, 8) as f32) * 0.5 } else { (unit(rng) * 10.0 - 7.0) as f32 };
                }
                r[4] = match wmode {
                    0 => NINF,
                    1 => 0.0,
                    2 => r[..4].iter().cloned().fold(f32::INFINITY, f32::min),
                    3 => (unit(rng) * 10.0 - 7.0) as f32,
                    _ => r[..4].iter().cloned().fold(f32::NEG_INFINITY, f32::max) + 1.5,
                };
                rows.push(r);
            }
        }
        "const" => {
            let c = *rng.pick(&[0.0f32, 1.0, -2.0, 0.5, -0.25, 3.75, 1e-3]);
            let w = if rng.chance(1, 3) { c } else { NINF };
            for _ in 0..m {
                rows.push([c, c, c, c, w]);
            }
        }
        "narrow" => {
            // tiny range on a large offset: scale is large and f32 cannot resolve one step
            let base = *rng.pick(&[1000.0f32, 4096.0, -5000.0, 100.0, 65536.0, 3.0]);
            let width = *rng.pick(&[0.001f32, 0.01, 0.0005, 0.1, 1.0]);
            for _ in 0..m {
                let mut r = [NINF; K];
                for c in r.iter_mut().take(4) {
                    *c = base + (unit(rng) as f32) * width;
                }
                rows.push(r);
            }
        }
        "wide" => {
            // range above CDF_RANGE (scale = 0) or just below (scale = 1, 2)
            let span = *rng.pick(&[2500.0f64, 1000.5, 999.0, 600.0, 400.0, 1e6]);
            for _ in 0..m {
                let mut r = [NINF; K];
                for c in r.iter_mut().take(4) {
                    *c = ((unit(rng) - 0.5) * span) as f32;
                }
                rows.push(r);
            }
            rows[0][0] = (-0.5 * span) as f32;
            rows[m - 1][1] = (0.5 * span) as f32;
        }
        "roundup" => {
            // Integer offset o and range l with 1000 / l integral, so that scale = 1000 / l exactly.  The best
            // cell of every row but the last is placed just above a half step: (x - o) * scale = n + 0.5 + tiny
            // (computed with the code's own f64 expression), so its discretisation rounds UP; the sum of the
            // rounded row maxima then exceeds the real-valued running maximum by 0.5 per row (a convolution
            // that bounds its inner loop by the real-valued maximum skips the top cell from the 6th row on).
            let l = *rng.pick(&[2.0f64, 4.0, 5.0, 8.0, 10.0, 20.0]);
            let o = *rng.pick(&[0.0f64, -3.0, 2.0, -12.0]);
            let scale = (1000.0 / l).floor();
            for i in 0..m {
                let mut r = [NINF; K];
                let best_col = rng.below(4) as usize;
                let best: f32 = if i == m - 1 {
                    (o + l) as f32
                } else {
                    let n = (0.3 * l * scale) as u64 + rng.below((0.65 * l * scale) as u64);
                    let mut x = (o + (n as f64 + 0.5) / scale) as f32;
                    // nudge to the first f32 whose scaled value rounds up to n + 1
                    for _ in 0..64 {
                        let y = (x as f64 - o) * scale;
                        if y.round() >= n as f64 + 1.0 {
                            break;
                        }
                        x = next_up32(x);
                    }
                    for _ in 0..64 {
                        let xd = next_down32(x);
                        if ((xd as f64 - o) * scale).round() >= n as f64 + 1.0 {
                            x = xd;
                        } else {
                            break;
                        }
                    }
                    x
                };
                for (j, c) in r.iter_mut().take(4).enumerate() {
                    *c = if j == best_col {
                        best
                    } else {
                        // below the best cell, on a coarse grid (ties between rows, exact steps)
                        let span = (best as f64 - o).max(0.0);
                        (o + (rng.below(17) as f64 / 16.0) * span * 0.9) as f32
                    };
                }
                rows.push(r);
            }
            // the global minimum is exactly o (offset = o)
            let c0 = (1 + rng.below(3)) as usize;
            let j0 = (0..4).find(|&j| rows[0][j] != rows[0].iter().take(4).cloned().fold(f32::NEG_INFINITY, f32::max)).unwrap_or(c0);
            rows[0][j0] = o as f32;
        }
        "huge" => {
            let mag = *rng.pick(&[3.0e8f32, 5.0e9, 1.0e19, 1.0e30, 3.0e38]);
            for _ in 0..m {
                let mut r = [NINF; K];
                for c in r.iter_mut().take(4) {
                    *c = ((unit(rng) - 0.7) as f32) * mag;
                }
                rows.push(r);
            }
        }
        _ => {
            // "special": NaN / +inf / -inf in non-wildcard cells (outside the property: replay only)
            for _ in 0..m {
                let mut r = [NINF; K];
                for c in r.iter_mut().take(4) {
                    *c = (rng.range(-12, 6) as f32) * 0.5;
                }
                rows.push(r);
            }
            let i = rng.below(m as u64) as usize;
            let j = rng.below(4) as usize;
            rows[i][j] = match rng.below(4) {
                0 => f32::NAN,
                1 => f32::INFINITY,
                _ => NINF,
            };
            if rng.chance(1, 4) {
                for r in rows.iter_mut() {
                    *r = [NINF; K];
                }
            }
        }
    }
    rows
}

/// the code's own discretisation parameters, recomputed only to place the probes
fn params(rows: &[Vec<f32>]) -> Option<(f64, f64)> {
    let cells: Vec<f64> = rows
        .iter()
        .flat_map(|r| r.iter())
        .filter(|x| x.is_finite())
        .map(|&x| x as f64)
        .collect();
    if cells.is_empty() {
        return None;
    }
    let mut small = cells.iter().cloned().fold(f64::INFINITY, f64::min);
    let large = cells.iter().cloned().fold(f64::NEG_INFINITY, f64::max);
    if small == large {
        small = large - 1.0;
    }
    let offset = small.floor();
    let mut scale = (1000.0 / (large - offset)).floor();
    if scale == 0.0 {
        scale = 1000.0 / (large - offset);
    }
    Some((offset, scale))
}

/// a protein case: K = 21 (20 amino acids + X), width 1..3 so that all 20^M words are enumerable
fn gen_case_protein(rng: &mut Rng, id: usize, tier: &str) -> String {
    const KP: usize = 21;
    // widths 4..6 (thorough: ..8): more than 70000 words, bit-exact replay and structural checks only
    let m = if tier == "thorough" {
        *rng.pick(&[1usize, 2, 2, 3, 3, 4, 6, 8])
    } else {
        *rng.pick(&[1usize, 2, 2, 3, 3, 4, 5, 6])
    };
    let wmass = rng.chance(1, 8);
    let (mode, text, wild_mass): (&str, String, bool) = if wmass {
        let w = dyadic_weights(rng, KP, 1024, false);
        ("new", w.iter().map(|x| x.to_bits().to_string()).collect::<Vec<_>>().join(","), true)
    } else if rng.chance(1, 2) {
        ("uniform", "-".to_string(), false)
    } else {
        let mut w = dyadic_weights(rng, KP - 1, 1024, false);
        w.push(0.0);
        ("new", w.iter().map(|x| x.to_bits().to_string()).collect::<Vec<_>>().join(","), false)
    };
    let quant = rng.chance(1, 2);
    let wfin = rng.chance(1, 3);
    let mut rows: Vec<Vec<f32>> = vec![];
    for _ in 0..m {
        let mut r = vec![NINF; KP];
        for c in r.iter_mut().take(KP - 1) {
            *c = if quant { (rng.range(-16, 8) as f32) * 0.5 } else { (unit(rng) * 10.0 - 7.0) as f32 };
        }
        if wfin {
            r[KP - 1] = if quant { (rng.range(-16, 8) as f32) * 0.5 } else { (unit(rng) * 10.0 - 7.0) as f32 };
        }
        rows.push(r);
    }
    let nsym = if wfin && wild_mass { KP } else { KP - 1 };
    finish_case(rng, id, "protein", Some("protein"), mode, &text, &rows, nsym, 20f64, tier)
}

fn gen_case(rng: &mut Rng, id: usize, tier: &str) -> String {
    let kind = KINDS[id % KINDS.len()];
    if kind == "protein" {
        return gen_case_protein(rng, id, tier);
    }
    if kind == "skew" || kind == "long" || kind == "widerow" {
        let (bg, rare) = if kind == "skew" || (kind == "long" && rng.chance(1, 3)) {
            gen_skew_background(rng)
        } else {
            (gen_background(rng, false), vec![])
        };
        let rows5 = match kind {
            "skew" => {
                // width 8 (65536 words with 160-bit weights) costs ~15 s in the checker: thorough tier only
                let m = 5 + rng.below(if tier == "thorough" { 4 } else { 3 }) as usize;
                gen_matrix_skew(rng, m, &rare)
            }
            "long" => {
                // 2^(-20 * 48) is still a normal double
                let m = 27 + rng.below(if tier == "thorough" { 22 } else { 14 }) as usize;
                gen_matrix_long(rng, m, &rare)
            }
            _ => {
                let m = 2 + rng.below(5) as usize;
                gen_matrix_widerow(rng, m)
            }
        };
        let rows: Vec<Vec<f32>> = rows5.iter().map(|r| r.to_vec()).collect();
        return finish_case(rng, id, kind, None, bg.mode, &bg.text, &rows, 4, 4f64, tier);
    }
    let wmass = kind == "wmass";
    let bg = gen_background(rng, wmass);
    let cap = if wmass { 6 } else { 8 };
    // quick tier: widths 9..12 (the bit-exact replay of a width-16 table alone takes ~10 s)
    let wide_span = if tier == "thorough" { 8 } else { 4 };
    let m = if kind == "large" {
        9 + rng.below(wide_span) as usize
    } else if kind == "roundup" {
        *rng.pick(&[6usize, 6, 7, 7, 8])
    } else {
        gen_m(rng, cap)
    };
    // `large`: too wide for the exact enumeration (structural checks and bit-exact replay only)
    let mkind = if kind == "large" { *rng.pick(&["rand", "quant", "counts"]) } else { kind };
    let rows5 = gen_matrix(rng, mkind, m, &bg);
    let rows: Vec<Vec<f32>> = rows5.iter().map(|r| r.to_vec()).collect();
    // scores of random words (non-wildcard symbols), the minimum and the maximum word
    let nsym = if rows.iter().all(|r| r[4].is_finite()) && bg.freqs[4] > 0.0 { 5 } else { 4 };
    finish_case(rng, id, kind, None, bg.mode, &bg.text, &rows, nsym, 4f64, tier)
}

/// probes (scores, p-values, table indices) for a matrix, and the input line
#[allow(clippy::too_many_arguments)]
fn finish_case(
    rng: &mut Rng,
    id: usize,
    kind: &str,
    abc: Option<&str>,
    bgmode: &str,
    bgtext: &str,
    rows: &[Vec<f32>],
    nsym: usize,
    base: f64,
    tier: &str,
) -> String {
    let m = rows.len();
    let k = rows[0].len();
    let (offset, scale) = params(rows).unwrap_or((0.0, 1.0));
    let step = if scale > 0.0 && scale.is_finite() { 1.0 / scale } else { 1.0 };
    let d = (m as f64 / 2.0 + 1.0) * step;

    let mut words: Vec<Vec<usize>> = vec![];
    words.push(rows.iter().map(|r| (0..k - 1).min_by(|&a, &b| r[a].partial_cmp(&r[b]).unwrap_or(std::cmp::Ordering::Equal)).unwrap()).collect());
    words.push(rows.iter().map(|r| (0..k - 1).max_by(|&a, &b| r[a].partial_cmp(&r[b]).unwrap_or(std::cmp::Ordering::Equal)).unwrap()).collect());
    let nw = if tier == "thorough" { 6 } else { 5 };
    for _ in 0..nw {
        words.push((0..m).map(|_| rng.below(nsym as u64) as usize).collect());
    }
    let mut pr: Vec<f32> = vec![];
    let mut si: Vec<String> = vec![];
    let mut lo = f64::INFINITY;
    let mut hi = f64::NEG_INFINITY;
    for (wi, w) in words.iter().enumerate() {
        let s: f64 = w.iter().enumerate().map(|(i, &a)| rows[i][a] as f64).sum();
        let dsc: f64 = w
            .iter()
            .enumerate()
            .map(|(i, &a)| ((rows[i][a] as f64 - offset) * scale).round())
            .sum();
        if !s.is_finite() {
            continue;
        }
        lo = lo.min(s);
        hi = hi.max(s);
        let sf = s as f32;
        pr.push(sf);
        pr.push(next_up32(sf));
        pr.push(next_down32(sf));
        if wi < 4 {
            pr.push((s + 0.5 * step) as f32);
            pr.push((s - 0.5 * step) as f32);
            pr.push((s + d) as f32);
            pr.push((s - d) as f32);
        }
        if wi == 1 {
            // the best word: just inside the lower bracket (P(S >= best) > 0 must be below the p-value)
            pr.push(next_down32((s - d) as f32));
            pr.push((s - 1.5 * d) as f32);
        }
        if dsc.is_finite() && dsc >= 0.0 && dsc < 1e6 {
            let k = dsc as usize;
            si.push(format!("{}:0", k));
            if wi < 3 {
                si.push(format!("{}:1", k));
                si.push(format!("{}:-1", k));
                si.push(format!("{}:0", k + 1));
            }
        }
    }
    if !lo.is_finite() {
        lo = -1.0;
        hi = 1.0;
    }
    // below the minimum, above the maximum, far away, infinities
    for x in [lo - 1e-3, lo - 1.0, lo - 2.0 * d, hi + 1e-3, hi + 1.0, hi + 2.0 * d, -1e30, 1e30] {
        pr.push(x as f32);
    }
    pr.push(f32::NEG_INFINITY);
    pr.push(f32::INFINITY);
    pr.push(0.0);
    for _ in 0..4 {
        pr.push((lo - 1.0 + unit(rng) * (hi - lo + 2.0)) as f32);
    }
    if rng.chance(1, 10) {
        pr.push(f32::NAN);
    }
    for _ in 0..3 {
        si.push(format!("{}:0", rng.below((m * 1000 + 1) as u64)));
    }
    si.push("0:0".to_string());
    si.push(format!("{}:0", m * 1000));

    let mut ps: Vec<f64> = vec![
        1.0, 0.0, 1.5, -0.5, 0.5, 0.25, 0.1, 0.01, 1e-3, 1e-4, 1e-6, 1e-10, 1e-300, 0.999999,
    ];
    for _ in 0..4 {
        ps.push(unit(rng));
    }
    let words4 = base.powi(m as i32);
    for _ in 0..4 {
        let j = 1 + rng.below(words4 as u64);
        ps.push(j as f64 / words4);
    }
    ps.push(next_down(1.0));
    ps.push(f64::from_bits(1));
    if rng.chance(1, 10) {
        ps.push(f64::NAN);
    }

    let mtxt: Vec<String> = rows
        .iter()
        .map(|r| r.iter().map(|x| x.to_bits().to_string()).collect::<Vec<_>>().join(","))
        .collect();
    format!(
        "g{} kind={} M={}{} bgm={} bg={} m={} pr={} ps={} si={}",
        id,
        kind,
        m,
        match abc {
            Some(a) => format!(" abc={}", a),
            None => String::new(),
        },
        bgmode,
        bgtext,
        mtxt.join(";"),
        pr.iter().map(|x| x.to_bits().to_string()).collect::<Vec<_>>().join(","),
        ps.iter().map(|x| x.to_bits().to_string()).collect::<Vec<_>>().join(","),
        si.join(",")
    )
}

fn main() {
    let a = parse_args();
    match a.cmd.as_str() {
        "gen" => {
            let mut rng = Rng::new(a.seed);
            for i in 0..a.n {
                println!("{}", gen_case(&mut rng, i, &a.tier));
            }
        }
        "run" => {
            silence_panics();
            for line in stdin_lines() {
                let obs = no_panic(|| run_case(&line)).unwrap_or_else(|| "HARNESSPANIC".to_string());
                println!("{} => {}", line, obs);
            }
        }
        _ => {
            eprintln!("usage: dist gen --seed S --n N [--tier quick|thorough] | dist run");
            std::process::exit(2);
        }
    }
}
