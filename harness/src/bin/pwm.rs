//! C09 / C10 harness: count -> frequency -> weight -> log-odds conversions,
//! backgrounds, min/max scores and reverse complements of `lightmotif::pwm`.
//!
//! `pwm c09 gen --seed S --n N [--tier t]` / `pwm c10 gen ...` print input lines,
//! `pwm c09 run` / `pwm c10 run` read input lines on stdin and print them followed by
//! ` => <observations>`.
//!
//! Line protocol: `<id> k=<kind> a=<dna|prot> key=value ...`; floats are u32 bit
//! patterns (decimal); matrices are rows separated by `;`, cells by `,` (empty
//! string = no rows); sequences are written with the alphabet's letters, a list of
//! sequences is separated by `/`, `-` is the empty sequence, the empty string the
//! empty list.  Observations are `key=value` tokens; `P` = the call panicked,
//! `Err` = the call returned `Err(InvalidData)`.
//!
//! Logarithm oracle: for every cell of the weight matrix the harness prints what
//! this platform's `f32::log2` / `log10` / `ln` return (fields `L2`, `LB`, `lnb`,
//! `l2z`), so that the extracted model (which has no logarithm) can replay the
//! conversions bit-exactly through that table.

use generic_array::GenericArray;
use lightmotif::abc::{Alphabet, Background, ComplementableAlphabet, Dna, Protein, Symbol};
use lightmotif::dense::DenseMatrix;
use lightmotif::num::{U32, U4};
use lightmotif::pli::{Pipeline, Stripe};
use lightmotif::pwm::{Correlation, CountMatrix, FrequencyMatrix, ScoringMatrix, WeightMatrix};
use lightmotif::seq::{EncodedSequence, StripedSequence};
use lmh::*;
use std::collections::HashMap;
use std::fmt::Write as _;

// ---------------------------------------------------------------- formatting

fn fmt_f32s(xs: &[f32]) -> String {
    xs.iter().map(|x| x.to_bits().to_string()).collect::<Vec<_>>().join(",")
}

fn fmt_fm<K: generic_array::ArrayLength>(m: &DenseMatrix<f32, K>) -> String {
    (0..m.rows()).map(|i| fmt_f32s(&m[i][..K::USIZE])).collect::<Vec<_>>().join(";")
}

fn fmt_cm<K: generic_array::ArrayLength>(m: &DenseMatrix<u32, K>) -> String {
    (0..m.rows())
        .map(|i| m[i][..K::USIZE].iter().map(|x| x.to_string()).collect::<Vec<_>>().join(","))
        .collect::<Vec<_>>()
        .join(";")
}

fn parse_u32s(s: &str) -> Vec<u32> {
    if s.is_empty() {
        vec![]
    } else {
        s.split(',').map(|x| x.parse().unwrap()).collect()
    }
}

fn parse_u64s(s: &str) -> Vec<u64> {
    if s.is_empty() {
        vec![]
    } else {
        s.split(',').map(|x| x.parse().unwrap()).collect()
    }
}

fn parse_matrix(s: &str) -> Vec<Vec<u32>> {
    if s.is_empty() {
        vec![]
    } else {
        s.split(';').map(parse_u32s).collect()
    }
}

fn fmatrix<A: Alphabet>(rows: &[Vec<u32>]) -> DenseMatrix<f32, A::K> {
    let mut m = DenseMatrix::<f32, A::K>::new(rows.len());
    for (i, r) in rows.iter().enumerate() {
        for (j, &b) in r.iter().enumerate() {
            m[i][j] = f32::from_bits(b);
        }
    }
    m
}

fn cmatrix<A: Alphabet>(rows: &[Vec<u32>]) -> DenseMatrix<u32, A::K> {
    let mut m = DenseMatrix::<u32, A::K>::new(rows.len());
    for (i, r) in rows.iter().enumerate() {
        for (j, &b) in r.iter().enumerate() {
            m[i][j] = b;
        }
    }
    m
}

fn farray<A: Alphabet>(bits: &[u32]) -> GenericArray<f32, A::K> {
    let mut a = GenericArray::<f32, A::K>::default();
    for (j, &b) in bits.iter().enumerate() {
        a[j] = f32::from_bits(b);
    }
    a
}

fn parse_seq<A: Alphabet>(s: &str) -> Vec<A::Symbol> {
    if s == "-" {
        return vec![];
    }
    s.chars().map(|c| A::Symbol::from_char(c).unwrap()).collect()
}

fn parse_seqs<A: Alphabet>(s: &str) -> Vec<Vec<A::Symbol>> {
    if s.is_empty() {
        vec![]
    } else {
        s.split('/').map(parse_seq::<A>).collect()
    }
}

fn fmt_seq<A: Alphabet>(s: &[A::Symbol]) -> String {
    if s.is_empty() {
        "-".to_string()
    } else {
        s.iter().map(|x| x.as_char()).collect()
    }
}

/// `new:<bits>` -> Background::new, `cnt:<ints>` -> from_counts, `uni` -> uniform(),
/// `none` -> None (the callee's default).  Outer None = the constructor panicked,
/// inner Err = rejected.
fn make_bg<A: Alphabet>(spec: &str) -> Option<Result<Option<Background<A>>, ()>> {
    if spec == "none" {
        return Some(Ok(None));
    }
    if spec == "uni" {
        return no_panic(|| Ok(Some(Background::<A>::uniform())));
    }
    if let Some(b) = spec.strip_prefix("new:") {
        let arr = farray::<A>(&parse_u32s(b));
        return no_panic(|| Background::<A>::new(arr).map(Some).map_err(|_| ()));
    }
    if let Some(c) = spec.strip_prefix("cnt:") {
        let v = parse_u64s(c);
        let mut arr = GenericArray::<usize, A::K>::default();
        for (j, &x) in v.iter().enumerate() {
            arr[j] = x as usize;
        }
        return no_panic(|| Background::<A>::from_counts(&arr).map(Some).map_err(|_| ()));
    }
    panic!("bad background spec {}", spec);
}

fn stripe_and_score<A: Alphabet>(
    sm: &ScoringMatrix<A>,
    seq: &[A::Symbol],
    cols: usize,
    positions: &[usize],
) -> String {
    let mut out = vec![];
    if cols == 4 {
        let st: Option<StripedSequence<A, U4>> = no_panic(|| Pipeline::<A, _>::generic().stripe(seq));
        for &p in positions {
            match &st {
                None => out.push("P".to_string()),
                Some(st) => match no_panic(|| sm.score_position(st, p)) {
                    Some(x) => out.push(x.to_bits().to_string()),
                    None => out.push("P".to_string()),
                },
            }
        }
    } else {
        let st: Option<StripedSequence<A, U32>> = no_panic(|| Pipeline::<A, _>::generic().stripe(seq));
        for &p in positions {
            match &st {
                None => out.push("P".to_string()),
                Some(st) => match no_panic(|| sm.score_position(st, p)) {
                    Some(x) => out.push(x.to_bits().to_string()),
                    None => out.push("P".to_string()),
                },
            }
        }
    }
    out.join(",")
}

fn positions(l: usize, m: usize, extra: &str) -> Vec<usize> {
    let mut v: Vec<usize> = if l >= m { (0..=l - m).collect() } else { vec![] };
    for x in parse_u64s(extra) {
        v.push(x as usize);
    }
    v
}

fn fmt_opt_f32(x: Option<f32>) -> String {
    match x {
        Some(v) => v.to_bits().to_string(),
        None => "P".to_string(),
    }
}

fn log_kind(base: f32, x: f32) -> f32 {
    // the libm entry point reached by to_scoring_with_base for this base
    if base == 2.0 {
        x.log2()
    } else if base == 10.0 {
        x.log10()
    } else {
        x.ln()
    }
}

fn map_fm<K: generic_array::ArrayLength>(m: &DenseMatrix<f32, K>, f: impl Fn(f32) -> f32) -> String {
    (0..m.rows())
        .map(|i| m[i][..K::USIZE].iter().map(|&x| f(x).to_bits().to_string()).collect::<Vec<_>>().join(","))
        .collect::<Vec<_>>()
        .join(";")
}

// ---------------------------------------------------------------- C09 run

fn counts_from<A: Alphabet>(f: &HashMap<String, String>, out: &mut String) -> Option<CountMatrix<A>> {
    if let Some(s) = f.get("seqs") {
        let seqs: Vec<EncodedSequence<A>> =
            parse_seqs::<A>(s).into_iter().map(EncodedSequence::new).collect();
        match no_panic(|| CountMatrix::<A>::from_sequences(seqs.iter())) {
            None => {
                out.push_str(" cm=P");
                None
            }
            Some(Err(_)) => {
                out.push_str(" cm=Err");
                None
            }
            Some(Ok(cm)) => {
                write!(out, " cm={} n={}", fmt_cm(cm.matrix()), cm.sequence_count()).unwrap();
                Some(cm)
            }
        }
    } else {
        let rows = parse_matrix(f.get("counts").map(|s| s.as_str()).unwrap_or(""));
        let data = cmatrix::<A>(&rows);
        match no_panic(|| CountMatrix::<A>::new(data)) {
            None => {
                out.push_str(" cm=P");
                None
            }
            Some(Err(_)) => {
                out.push_str(" cm=Err");
                None
            }
            Some(Ok(cm)) => {
                write!(out, " cm={} n={}", fmt_cm(cm.matrix()), cm.sequence_count()).unwrap();
                Some(cm)
            }
        }
    }
}

fn to_freq_with<A: Alphabet>(cm: &CountMatrix<A>, ps: &str) -> Option<FrequencyMatrix<A>> {
    if let Some(b) = ps.strip_prefix("s:") {
        let c = f32::from_bits(b.parse().unwrap());
        no_panic(|| cm.to_freq(c))
    } else if let Some(b) = ps.strip_prefix("a:") {
        let arr = farray::<A>(&parse_u32s(b));
        no_panic(|| cm.to_freq(arr))
    } else {
        panic!("bad pseudocount spec {}", ps)
    }
}

fn run_pipe<A: Alphabet>(f: &HashMap<String, String>) -> String {
    let mut out = String::new();
    let cm = match counts_from::<A>(f, &mut out) {
        Some(cm) => cm,
        None => return out,
    };
    let bg = match make_bg::<A>(&f["bg"]) {
        None => {
            out.push_str(" bg=P");
            return out;
        }
        Some(Err(())) => {
            out.push_str(" bg=Err");
            return out;
        }
        Some(Ok(b)) => b,
    };
    let fq = match to_freq_with::<A>(&cm, &f["ps"]) {
        Some(x) => x,
        None => {
            out.push_str(" fq=P");
            return out;
        }
    };
    write!(out, " fq={}", fmt_fm(fq.matrix())).unwrap();
    let wm: WeightMatrix<A> = match no_panic(|| fq.to_weight(bg.clone())) {
        Some(x) => x,
        None => {
            out.push_str(" wm=P");
            return out;
        }
    };
    write!(out, " wm={} wbg={}", fmt_fm(wm.matrix()), fmt_f32s(wm.background().frequencies())).unwrap();
    match no_panic(|| wm.to_scoring()) {
        Some(s) => write!(out, " s2={}", fmt_fm(s.matrix())).unwrap(),
        None => out.push_str(" s2=P"),
    }
    match no_panic(|| fq.to_scoring(bg.clone())) {
        Some(s) => write!(out, " s1={} s1bg={}", fmt_fm(s.matrix()), fmt_f32s(s.background().frequencies())).unwrap(),
        None => out.push_str(" s1=P"),
    }
    match no_panic(|| fq.clone().into_scoring(bg.clone())) {
        Some(s) => write!(out, " s1i={}", fmt_fm(s.matrix())).unwrap(),
        None => out.push_str(" s1i=P"),
    }
    let base = f32::from_bits(f["base"].parse().unwrap());
    let sb = no_panic(|| wm.to_scoring_with_base(base));
    match &sb {
        Some(s) => write!(out, " sb={}", fmt_fm(s.matrix())).unwrap(),
        None => out.push_str(" sb=P"),
    }
    // logarithm oracle (what this platform's libm returns for the weight cells)
    write!(
        out,
        " L2={} LB={} lnb={} l2z={}",
        map_fm(wm.matrix(), |x| x.log2()),
        map_fm(wm.matrix(), |x| log_kind(base, x)),
        base.ln().to_bits(),
        0.0f32.log2().to_bits()
    )
    .unwrap();
    // rescale
    match make_bg::<A>(&f["bg2"]) {
        None => out.push_str(" bg2=P"),
        Some(Err(())) => out.push_str(" bg2=Err"),
        Some(Ok(b2)) => match no_panic(|| wm.rescale(b2.clone())) {
            Some(r) => write!(
                out,
                " rs={} rsbg={}",
                fmt_fm(r.matrix()),
                fmt_f32s(r.background().frequencies())
            )
            .unwrap(),
            None => out.push_str(" rs=P"),
        },
    }
    // min / max / windows on the matrix in the requested base
    if let Some(sm) = &sb {
        score_obs::<A>(sm, f, &mut out);
    }
    out
}

fn score_obs<A: Alphabet>(sm: &ScoringMatrix<A>, f: &HashMap<String, String>, out: &mut String) {
    write!(
        out,
        " mn={} mx={}",
        fmt_opt_f32(no_panic(|| sm.min_score())),
        fmt_opt_f32(no_panic(|| sm.max_score()))
    )
    .unwrap();
    let seq = parse_seq::<A>(f.get("seq").map(|s| s.as_str()).unwrap_or("-"));
    let cols: usize = f.get("cols").map(|s| s.parse().unwrap()).unwrap_or(32);
    let pos = positions(seq.len(), sm.len(), f.get("xpos").map(|s| s.as_str()).unwrap_or(""));
    write!(out, " win={}", stripe_and_score::<A>(sm, &seq, cols, &pos)).unwrap();
}

fn run_raw<A: Alphabet>(f: &HashMap<String, String>) -> String {
    let mut out = String::new();
    let data = fmatrix::<A>(&parse_matrix(&f["sm"]));
    let sm = ScoringMatrix::<A>::new(Background::uniform(), data);
    score_obs::<A>(&sm, f, &mut out);
    out
}

// ---------------------------------------------------------------- C09 kind=stat (round 3)

/// Observations of the `Correlation` trait on one matrix type: `<tag>auto` (one value per
/// delay), `<tag>cross` / `<tag>crossr` (self vs other, other vs self), `<tag>dot` /
/// `<tag>norm` (one value per (i, j) pair; norm of row i).
fn corr_obs<M: Correlation>(
    tag: &str,
    m: &M,
    other: &M,
    delays: &[usize],
    pairs: &[(usize, usize)],
    out: &mut String,
) {
    let j = |v: Vec<String>| v.join(",");
    write!(
        out,
        " {t}auto={} {t}cross={} {t}crossr={} {t}dot={} {t}norm={}",
        j(delays.iter().map(|&d| fmt_opt_f32(no_panic(|| m.auto_correlation(d)))).collect()),
        fmt_opt_f32(no_panic(|| m.cross_correlation(other))),
        fmt_opt_f32(no_panic(|| other.cross_correlation(m))),
        j(pairs.iter().map(|&(a, b)| fmt_opt_f32(no_panic(|| m.dot(other, a, b)))).collect()),
        j(pairs.iter().map(|&(a, _)| fmt_opt_f32(no_panic(|| m.norm(a)))).collect()),
        t = tag
    )
    .unwrap();
}

fn parse_pairs(s: &str) -> Vec<(usize, usize)> {
    if s.is_empty() {
        return vec![];
    }
    s.split(',')
        .map(|p| {
            let mut it = p.split(':');
            (it.next().unwrap().parse().unwrap(), it.next().unwrap().parse().unwrap())
        })
        .collect()
}

/// entropy / consensus / correlation / information content / 2^x conversion
fn run_stat<A: Alphabet>(f: &HashMap<String, String>) -> String {
    let mut out = String::new();
    write!(out, " prof={}", if cfg!(debug_assertions) { "dev" } else { "rel" }).unwrap();
    let cm = match counts_from::<A>(f, &mut out) {
        Some(cm) => cm,
        None => return out,
    };
    let rows2 = parse_matrix(f.get("counts2").map(|s| s.as_str()).unwrap_or(""));
    let cm2 = match no_panic(|| CountMatrix::<A>::new(cmatrix::<A>(&rows2))) {
        Some(Ok(c)) => c,
        _ => {
            out.push_str(" cm2=P");
            return out;
        }
    };
    let delays: Vec<usize> = parse_u64s(f.get("delays").map(|s| s.as_str()).unwrap_or(""))
        .into_iter()
        .map(|x| x as usize)
        .collect();
    let pairs = parse_pairs(f.get("dij").map(|s| s.as_str()).unwrap_or(""));
    // entropy, consensus
    match no_panic(|| cm.entropy()) {
        Some(e) => write!(out, " ent={}", fmt_f32s(&e)).unwrap(),
        None => out.push_str(" ent=P"),
    }
    match no_panic(|| cm.consensus()) {
        Some(c) => write!(out, " cons=ok:{}", c).unwrap(),
        None => out.push_str(" cons=P"),
    }
    // logarithm oracle for the entropy terms: p = n as f32 / sum as f32 with the wrapped u32 sum
    {
        let m = cm.matrix();
        let mut ins = vec![];
        let mut outs = vec![];
        for i in 0..m.rows() {
            let sum = m[i].iter().fold(0u32, |a, &b| a.wrapping_add(b));
            for &n in m[i].iter() {
                let p = n as f32 / sum as f32;
                ins.push(p.to_bits().to_string());
                outs.push(p.log2().to_bits().to_string());
            }
        }
        write!(out, " ELi={} ELo={}", ins.join(","), outs.join(",")).unwrap();
    }
    corr_obs("c", &cm, &cm2, &delays, &pairs, &mut out);
    // frequencies
    let (fq, fq2) = match (to_freq_with::<A>(&cm, &f["ps"]), to_freq_with::<A>(&cm2, &f["ps"])) {
        (Some(a), Some(b)) => (a, b),
        _ => {
            out.push_str(" fq=P");
            return out;
        }
    };
    write!(out, " fq={} fq2={}", fmt_fm(fq.matrix()), fmt_fm(fq2.matrix())).unwrap();
    corr_obs("f", &fq, &fq2, &delays, &pairs, &mut out);
    // weights
    let bg = match make_bg::<A>(&f["bg"]) {
        Some(Ok(b)) => b,
        _ => {
            out.push_str(" bg=Err");
            return out;
        }
    };
    let (wm, wm2) = match (no_panic(|| fq.to_weight(bg.clone())), no_panic(|| fq2.to_weight(bg.clone()))) {
        (Some(a), Some(b)) => (a, b),
        _ => {
            out.push_str(" wm=P");
            return out;
        }
    };
    write!(
        out,
        " wm={} wm2={} wbg={} wic={}",
        fmt_fm(wm.matrix()),
        fmt_fm(wm2.matrix()),
        fmt_f32s(wm.background().frequencies()),
        fmt_opt_f32(no_panic(|| wm.information_content()))
    )
    .unwrap();
    {
        // oracle: log2 of x / b for every weight cell
        let m = wm.matrix();
        let b = wm.background().frequencies();
        let mut ins = vec![];
        let mut outs = vec![];
        for i in 0..m.rows() {
            for (j, &x) in m[i].iter().enumerate() {
                let q = x / b[j];
                ins.push(q.to_bits().to_string());
                outs.push(q.log2().to_bits().to_string());
            }
        }
        write!(out, " WLi={} WLo={}", ins.join(","), outs.join(",")).unwrap();
    }
    corr_obs("w", &wm, &wm2, &delays, &pairs, &mut out);
    // scores (base 2), information content, 2^x
    let (sm, sm2) = match (no_panic(|| wm.to_scoring()), no_panic(|| wm2.to_scoring())) {
        (Some(a), Some(b)) => (a, b),
        _ => {
            out.push_str(" sm=P");
            return out;
        }
    };
    write!(
        out,
        " sm={} sm2={} L2={} L22={} sic={} P2={}",
        fmt_fm(sm.matrix()),
        fmt_fm(sm2.matrix()),
        map_fm(wm.matrix(), |x| x.log2()),
        map_fm(wm2.matrix(), |x| x.log2()),
        fmt_opt_f32(no_panic(|| sm.information_content())),
        map_fm(sm.matrix(), |x| 2f32.powf(x))
    )
    .unwrap();
    corr_obs("s", &sm, &sm2, &delays, &pairs, &mut out);
    match no_panic(|| WeightMatrix::<A>::from(sm.clone())) {
        Some(w) => write!(out, " w2={} w2bg={}", fmt_fm(w.matrix()), fmt_f32s(w.background().frequencies())).unwrap(),
        None => out.push_str(" w2=P"),
    }
    // arbitrary scoring matrix: information content and 2^x on exotic cells
    if let Some(raw) = f.get("sm") {
        let data = fmatrix::<A>(&parse_matrix(raw));
        let r = ScoringMatrix::<A>::new(bg.clone().unwrap_or_default(), data);
        write!(
            out,
            " rP2={} rsic={}",
            map_fm(r.matrix(), |x| 2f32.powf(x)),
            fmt_opt_f32(no_panic(|| r.information_content()))
        )
        .unwrap();
        match no_panic(|| WeightMatrix::<A>::from(r.clone())) {
            Some(w) => write!(out, " rw2={}", fmt_fm(w.matrix())).unwrap(),
            None => out.push_str(" rw2=P"),
        }
        corr_obs("r", &r, &sm, &delays, &pairs, &mut out);
    }
    // discrete matrices: the u8 instantiation of the trait, on the cells observed
    match (no_panic(|| sm.to_discrete()), no_panic(|| sm2.to_discrete())) {
        (Some(d), Some(d2)) => {
            let show = |d: &lightmotif::pwm::DiscreteMatrix<A>| {
                let m = d.matrix();
                (0..m.rows())
                    .map(|i| m[i].iter().map(|x| x.to_string()).collect::<Vec<_>>().join(","))
                    .collect::<Vec<_>>()
                    .join(";")
            };
            write!(out, " dd={} dd2={}", show(&d), show(&d2)).unwrap();
            corr_obs("d", &d, &d2, &delays, &pairs, &mut out);
        }
        _ => out.push_str(" dd=P"),
    }
    out
}

fn fmt_bg_result<A: Alphabet>(r: Option<Result<Background<A>, lightmotif::err::InvalidData>>) -> String {
    match r {
        None => " r=P".to_string(),
        Some(Err(_)) => " r=Err".to_string(),
        Some(Ok(b)) => format!(" r=Ok:{}", fmt_f32s(b.frequencies())),
    }
}

fn run_c09<A: Alphabet>(f: &HashMap<String, String>) -> String {
    match f["k"].as_str() {
        "pipe" => run_pipe::<A>(f),
        "raw" => run_raw::<A>(f),
        "stat" => run_stat::<A>(f),
        "bgnew" => {
            let arr = farray::<A>(&parse_u32s(&f["v"]));
            fmt_bg_result(no_panic(|| Background::<A>::new(arr)))
        }
        "bgcnt" => {
            let v = parse_u64s(&f["c"]);
            let mut arr = GenericArray::<usize, A::K>::default();
            for (j, &x) in v.iter().enumerate() {
                arr[j] = x as usize;
            }
            format!(
                "{} prof={}",
                fmt_bg_result(no_panic(|| Background::<A>::from_counts(&arr))),
                if cfg!(debug_assertions) { "dev" } else { "rel" }
            )
        }
        "bgseq" => {
            let seqs = parse_seqs::<A>(&f["seqs"]);
            let unk = f["unk"] == "1";
            if f["multi"] == "1" {
                let enc: Vec<EncodedSequence<A>> = seqs.into_iter().map(EncodedSequence::new).collect();
                fmt_bg_result(no_panic(|| Background::<A>::from_sequences(enc.clone().into_iter(), unk)))
            } else if f["multi"] == "2" {
                // SymbolCount for StripedSequence (padding cells must not be counted)
                let s = seqs.into_iter().next().unwrap_or_default();
                let cols: usize = f.get("cols").map(|s| s.parse().unwrap()).unwrap_or(32);
                let wrap: usize = f.get("wrap").map(|s| s.parse().unwrap()).unwrap_or(0);
                if cols == 4 {
                    fmt_bg_result(no_panic(|| {
                        let mut st: StripedSequence<A, U4> = Pipeline::<A, _>::generic().stripe(&s[..]);
                        if wrap > 0 {
                            st.configure_wrap(wrap);
                        }
                        Background::<A>::from_sequence(st, unk)
                    }))
                } else {
                    fmt_bg_result(no_panic(|| {
                        let mut st: StripedSequence<A, U32> = Pipeline::<A, _>::generic().stripe(&s[..]);
                        if wrap > 0 {
                            st.configure_wrap(wrap);
                        }
                        Background::<A>::from_sequence(st, unk)
                    }))
                }
            } else {
                let s = seqs.into_iter().next().unwrap_or_default();
                fmt_bg_result(no_panic(|| Background::<A>::from_sequence(&s[..], unk)))
            }
        }
        "uni" => format!(" r=Ok:{}", fmt_f32s(Background::<A>::uniform().frequencies())),
        "fnew" => {
            let data = fmatrix::<A>(&parse_matrix(&f["m"]));
            match no_panic(|| FrequencyMatrix::<A>::new(data)) {
                None => " r=P".to_string(),
                Some(Err(_)) => " r=Err".to_string(),
                Some(Ok(m)) => format!(" r=Ok:{}", fmt_fm(m.matrix())),
            }
        }
        k => panic!("unknown kind {}", k),
    }
}

// ---------------------------------------------------------------- C10 run

fn run_c10(f: &HashMap<String, String>) -> String {
    type A = Dna;
    let mut out = String::new();
    let cm = match counts_from::<A>(f, &mut out) {
        Some(cm) => cm,
        None => return out,
    };
    let bg = match make_bg::<A>(&f["bg"]) {
        Some(Ok(b)) => b,
        _ => {
            out.push_str(" bg=Err");
            return out;
        }
    };
    // counts
    let c1 = cm.reverse_complement();
    let c2 = c1.reverse_complement();
    write!(
        out,
        " c1={} c1n={} c2={} c2n={}",
        fmt_cm(c1.matrix()),
        c1.sequence_count(),
        fmt_cm(c2.matrix()),
        c2.sequence_count()
    )
    .unwrap();
    // frequencies
    let fq = to_freq_with::<A>(&cm, &f["ps"]).unwrap();
    let f1 = fq.reverse_complement();
    let f2 = f1.reverse_complement();
    let fc = to_freq_with::<A>(&c1, &f["ps"]).unwrap();
    write!(
        out,
        " fq={} f1={} f2={} fc={}",
        fmt_fm(fq.matrix()),
        fmt_fm(f1.matrix()),
        fmt_fm(f2.matrix()),
        fmt_fm(fc.matrix())
    )
    .unwrap();
    // weights
    let wm = fq.to_weight(bg.clone());
    let w1 = wm.reverse_complement();
    let w2 = w1.reverse_complement();
    let wc = f1.to_weight(bg.clone());
    let wcc = fc.to_weight(bg.clone());
    write!(
        out,
        " wbg={} wm={} w1={} w1bg={} w2={} wc={} wcc={}",
        fmt_f32s(wm.background().frequencies()),
        fmt_fm(wm.matrix()),
        fmt_fm(w1.matrix()),
        fmt_f32s(w1.background().frequencies()),
        fmt_fm(w2.matrix()),
        fmt_fm(wc.matrix()),
        fmt_fm(wcc.matrix())
    )
    .unwrap();
    // scores
    let sc = wm.to_scoring();
    let s1 = sc.reverse_complement();
    let s2 = s1.reverse_complement();
    let scw = w1.to_scoring();
    let scc = fc.to_scoring(bg.clone());
    write!(
        out,
        " sc={} s1={} s2={} scw={} scc={} L2={} L2c={} l2z={}",
        fmt_fm(sc.matrix()),
        fmt_fm(s1.matrix()),
        fmt_fm(s2.matrix()),
        fmt_fm(scw.matrix()),
        fmt_fm(scc.matrix()),
        map_fm(wm.matrix(), |x| x.log2()),
        map_fm(wcc.matrix(), |x| x.log2()),
        0.0f32.log2().to_bits()
    )
    .unwrap();
    // arbitrary scoring matrix
    let raw = ScoringMatrix::<A>::new(bg.clone().unwrap_or_default(), fmatrix::<A>(&parse_matrix(&f["sm"])));
    let r1 = raw.reverse_complement();
    let r2 = r1.reverse_complement();
    write!(
        out,
        " r1={} r2={} w2bg={} s1bg={} s2bg={} r1bg={} r2bg={}",
        fmt_fm(r1.matrix()),
        fmt_fm(r2.matrix()),
        fmt_f32s(w2.background().frequencies()),
        fmt_f32s(s1.background().frequencies()),
        fmt_f32s(s2.background().frequencies()),
        fmt_f32s(r1.background().frequencies()),
        fmt_f32s(r2.background().frequencies())
    )
    .unwrap();
    // windows on both strands
    let seq = parse_seq::<A>(f.get("seq").map(|s| s.as_str()).unwrap_or("-"));
    let rseq: Vec<_> = seq.iter().rev().map(|&s| Dna::complement(s)).collect();
    let cols: usize = f.get("cols").map(|s| s.parse().unwrap()).unwrap_or(32);
    let pos = positions(seq.len(), raw.len(), "");
    write!(
        out,
        " rseq={} win={} rwin={}",
        fmt_seq::<A>(&rseq),
        stripe_and_score::<A>(&raw, &seq, cols, &pos),
        stripe_and_score::<A>(&r1, &rseq, cols, &pos)
    )
    .unwrap();
    out
}

// ---------------------------------------------------------------- generators

const E_BITS: u32 = 0x402DF854; // std::f32::consts::E

fn unit(rng: &mut Rng) -> f32 {
    rng.below(1 << 24) as f32 / (1u32 << 24) as f32
}

fn exotic(rng: &mut Rng) -> u32 {
    *rng.pick(&[
        0x7FC00000u32, // NaN
        0x7F800000,    // +inf
        0xFF800000,    // -inf
        0x80000000,    // -0.0
        0x00000000,    // 0.0
        0x00000001,    // smallest denormal
        0x00800000,    // smallest normal
        0x7F7FFFFF,    // f32::MAX
        0xFF7FFFFF,    // f32::MIN
        0xBF800000,    // -1.0
        0x3F800000,    // 1.0
        0x3F800001,    // 1.0 + ulp
        0x3F7FFFFF,    // 1.0 - ulp/2
        0x7149F2CA,    // 1e30
        0x0DA24260,    // 1e-30
    ])
}

fn gen_seq(rng: &mut Rng, alpha: &str, len: usize, wild: u64) -> String {
    let k = alpha.len();
    if len == 0 {
        return "-".to_string();
    }
    let b = alpha.as_bytes();
    (0..len)
        .map(|_| {
            if rng.chance(wild, 100) {
                b[k - 1] as char
            } else {
                b[rng.below((k - 1) as u64) as usize] as char
            }
        })
        .collect()
}

fn gen_seqs(rng: &mut Rng, alpha: &str, maxlen: usize, ragged: bool) -> String {
    let n = *rng.pick(&[0usize, 1, 1, 2, 2, 3, 4, 5, 8, 12, 30]);
    let len = rng.below(maxlen as u64 + 1) as usize;
    let mut lens = vec![len; n];
    if ragged && n >= 2 {
        match rng.below(7) {
            // an empty first sequence followed by non-empty ones
            0 => {
                lens[0] = 0;
                for l in lens.iter_mut().skip(1) {
                    *l = len.max(1)
                }
            }
            // the last sequence one symbol longer / shorter than the others
            1 => lens[n - 1] = len + 1,
            2 => lens[n - 1] = if len > 0 { len - 1 } else { 1 },
            // the first sequence longer than all others
            3 => lens[0] = len + 1 + rng.below(3) as usize,
            // one later sequence longer (never shorter) than the first
            4 => {
                let i = 1 + rng.below(n as u64 - 1) as usize;
                lens[i] = len + 1 + rng.below(4) as usize
            }
            // an empty sequence somewhere after the first
            5 => {
                let i = 1 + rng.below(n as u64 - 1) as usize;
                lens[i] = 0;
                lens[0] = len.max(1)
            }
            _ => {
                for l in lens.iter_mut().skip(1) {
                    if rng.chance(1, 3) {
                        *l = rng.below(maxlen as u64 + 2) as usize
                    }
                }
            }
        }
    }
    lens.iter().map(|&l| gen_seq(rng, alpha, l, 6)).collect::<Vec<_>>().join("/")
}

/// count rows that are (nearly) their own reverse complement: row L-1-i is row i with the
/// columns permuted by the complement (A<->T, C<->G for the 5-column DNA layout ACTGN, column
/// reversal otherwise); the centre row of an odd width is free (usually NOT self-complementary)
/// and now and then one flank cell is perturbed. Aimed at symmetric fast paths of
/// reverse_complement (seeded/C10/8) that random matrices practically never reach.
fn gen_counts_mirrored(rng: &mut Rng, k: usize, maxrows: usize) -> String {
    let rows = (*rng.pick(&[1usize, 2, 3, 3, 4, 5, 5, 7, 9, 12])).min(maxrows.max(1));
    gen_counts_mirrored_w(rng, k, rows)
}

fn gen_counts_mirrored_w(rng: &mut Rng, k: usize, rows: usize) -> String {
    let comp = |j: usize| -> usize {
        if k == 5 {
            [2usize, 3, 0, 1, 4][j]
        } else if j + 1 == k {
            j
        } else {
            k - 2 - j
        }
    };
    let mut m: Vec<Vec<u64>> = vec![vec![0u64; k]; rows];
    for i in 0..(rows + 1) / 2 {
        for j in 0..k {
            let v = if j + 1 == k && !rng.chance(1, 4) { 0 } else { rng.below(30) };
            m[i][j] = v;
        }
        let src = m[i].clone();
        if rows - 1 - i != i {
            for j in 0..k {
                m[rows - 1 - i][comp(j)] = src[j];
            }
        }
    }
    match rng.below(4) {
        // a true palindrome: the centre row made self-complementary too
        0 if rows % 2 == 1 => {
            let c = rows / 2;
            for j in 0..k {
                let a = m[c][j].max(m[c][comp(j)]);
                m[c][j] = a;
                m[c][comp(j)] = a;
            }
        }
        // one perturbed flank cell
        1 if rows >= 2 => {
            let i = rng.below(rows as u64) as usize;
            let j = rng.below((k - 1) as u64) as usize;
            m[i][j] += 1 + rng.below(3);
        }
        _ => {}
    }
    fmt_rows(&m)
}

fn gen_counts(rng: &mut Rng, k: usize, maxrows: usize) -> String {
    if maxrows >= 1 && rng.chance(1, 8) {
        return gen_counts_mirrored(rng, k, maxrows);
    }
    let rows = rng.below(maxrows as u64 + 1) as usize;
    let style = rng.below(4);
    (0..rows)
        .map(|_| {
            (0..k)
                .map(|j| {
                    let v: u64 = match style {
                        0 => rng.below(5),
                        1 => rng.below(100),
                        2 => {
                            if rng.chance(1, 2) {
                                0
                            } else {
                                rng.below(20)
                            }
                        }
                        _ => {
                            if rng.chance(1, 30) {
                                *rng.pick(&[16777217u64, 4294967295, 1000000, 33554433])
                            } else {
                                rng.below(1000)
                            }
                        }
                    };
                    // the wildcard column is usually empty
                    if j == k - 1 && !rng.chance(1, 4) {
                        "0".to_string()
                    } else {
                        v.to_string()
                    }
                })
                .collect::<Vec<_>>()
                .join(",")
        })
        .collect::<Vec<_>>()
        .join(";")
}

fn gen_pseudo(rng: &mut Rng, k: usize) -> String {
    let scalar = |rng: &mut Rng| -> u32 {
        match rng.below(12) {
            0 => 0.0f32.to_bits(),
            1 => 0.1f32.to_bits(),
            2 => 0.25f32.to_bits(),
            3 => 0.5f32.to_bits(),
            4 => 1.0f32.to_bits(),
            5 => (rng.below(64) as f32 / 16.0).to_bits(),
            6 if rng.chance(1, 3) => exotic(rng),
            _ => (unit(rng) * 2.0).to_bits(),
        }
    };
    if rng.chance(1, 2) {
        format!("s:{}", scalar(rng))
    } else {
        format!("a:{}", (0..k).map(|_| scalar(rng).to_string()).collect::<Vec<_>>().join(","))
    }
}

/// dyadic frequencies summing to exactly 1.0: a random composition of `den` into the
/// chosen columns
fn dyadic_bg(rng: &mut Rng, k: usize, den: u64, wild_mass: bool, zeros: u64) -> Vec<f32> {
    let mut parts = vec![0u64; k];
    let mut cols: Vec<usize> = (0..k - 1).filter(|_| !rng.chance(zeros, 100)).collect();
    if cols.is_empty() {
        cols.push(rng.below((k - 1) as u64) as usize);
    }
    if wild_mass {
        cols.push(k - 1);
    }
    for _ in 0..den {
        let c = *rng.pick(&cols);
        parts[c] += 1;
    }
    parts.iter().map(|&p| p as f32 / den as f32).collect()
}

fn gen_bg(rng: &mut Rng, k: usize) -> String {
    match rng.below(16) {
        0 | 1 => "none".to_string(),
        2 => "uni".to_string(),
        3 | 4 | 5 | 6 | 7 => {
            let den = *rng.pick(&[4u64, 16, 64, 256, 1024]);
            let wild_mass = rng.chance(1, 4);
            let zeros = *rng.pick(&[0u64, 0, 20, 50]);
            let v = dyadic_bg(rng, k, den, wild_mass, zeros);
            format!("new:{}", fmt_f32s(&v))
        }
        8 if rng.chance(1, 2) => tiny_bg(rng, k),
        8 => {
            // the documented example background (decimal fractions, accepted)
            if k == 5 {
                format!("new:{}", fmt_f32s(&[0.3, 0.2, 0.2, 0.3, 0.0]))
            } else {
                let mut v = vec![0.05f32; k];
                v[k - 1] = 0.0;
                format!("new:{}", fmt_f32s(&v))
            }
        }
        9 => {
            // invalid: perturbed / out of range / not summing to one
            let mut v = dyadic_bg(rng, k, 64, false, 0);
            let j = rng.below(k as u64) as usize;
            match rng.below(5) {
                0 => v[j] = f32::from_bits(exotic(rng)),
                1 => v[j] = -v[j] - 0.125,
                2 => v[j] += 0.5,
                3 => v[j] = f32::from_bits(v[j].to_bits().wrapping_add(1)),
                _ => {
                    for x in v.iter_mut() {
                        *x = 0.1
                    }
                }
            }
            format!("new:{}", fmt_f32s(&v))
        }
        _ => {
            // from_counts
            let style = rng.below(5);
            let v: Vec<String> = (0..k)
                .map(|j| {
                    let c = match style {
                        0 => rng.below(10),
                        1 => rng.below(1000),
                        2 => {
                            if rng.chance(1, 3) {
                                0
                            } else {
                                rng.below(50)
                            }
                        }
                        // huge totals (no usize overflow: K * 2^58 < 2^63); a few cells tiny next to them
                        3 => {
                            if rng.chance(1, 3) {
                                rng.below(3)
                            } else {
                                rng.below(1 << 58)
                            }
                        }
                        _ => rng.below(100000000),
                    };
                    if j == k - 1 && !rng.chance(1, 4) {
                        "0".to_string()
                    } else {
                        c.to_string()
                    }
                })
                .collect();
            format!("cnt:{}", v.join(","))
        }
    }
}

fn gen_base(rng: &mut Rng) -> u32 {
    match rng.below(12) {
        0 | 1 => 2.0f32.to_bits(),
        2 | 3 => 10.0f32.to_bits(),
        4 => E_BITS,
        5 => 3.5f32.to_bits(),
        // non-integral bases next to the two fast paths, integral bases without one,
        // one ulp around 2.0 / 10.0, bases <= 1
        6 => *rng.pick(&[
            2.5f32.to_bits(),
            10.5f32.to_bits(),
            2.999f32.to_bits(),
            10.999f32.to_bits(),
            0x40000001, // 2.0 + ulp
            0x3FFFFFFF, // 2.0 - ulp
            0x41200001, // 10.0 + ulp
            0x411FFFFF, // 10.0 - ulp
            1.5f32.to_bits(),
            9.5f32.to_bits(),
        ]),
        7 => *rng.pick(&[
            3.0f32.to_bits(),
            4.0f32.to_bits(),
            16.0f32.to_bits(),
            11.0f32.to_bits(),
            20.0f32.to_bits(),
            100.0f32.to_bits(),
            0.5f32.to_bits(),
            0.1f32.to_bits(),
            1.0f32.to_bits(),
        ]),
        8 if rng.chance(1, 4) => exotic(rng),
        _ => (1.0625 + unit(rng) * 60.0).to_bits(),
    }
}

fn gen_score_cell(rng: &mut Rng, style: u64) -> u32 {
    match style {
        0 => ((unit(rng) - 0.7) * 8.0).to_bits(),
        1 => ((rng.below(33) as f32 - 16.0) / 4.0).to_bits(),
        2 => {
            if rng.chance(1, 6) {
                0xFF800000
            } else {
                ((unit(rng) - 0.5) * 20.0).to_bits()
            }
        }
        3 => {
            if rng.chance(1, 5) {
                exotic(rng)
            } else {
                ((unit(rng) - 0.5) * 4.0).to_bits()
            }
        }
        _ => ((unit(rng) - 0.5) * 1.0e6).to_bits(),
    }
}

fn gen_raw(rng: &mut Rng, k: usize, rows: usize) -> String {
    let style = rng.below(5);
    (0..rows)
        .map(|_| {
            (0..k)
                .map(|j| {
                    if j == k - 1 && rng.chance(2, 3) {
                        // the wildcard column of real matrices: -inf (or 0)
                        (*rng.pick(&[0xFF800000u32, 0])).to_string()
                    } else {
                        gen_score_cell(rng, style).to_string()
                    }
                })
                .collect::<Vec<_>>()
                .join(",")
        })
        .collect::<Vec<_>>()
        .join(";")
}

fn gen_xpos(rng: &mut Rng, l: usize) -> String {
    if rng.chance(1, 12) {
        let a = l + rng.below(40) as usize;
        let b = rng.below(l as u64 + 140) as usize;
        format!(" xpos={},{}", a, b)
    } else {
        String::new()
    }
}

/// count rows aimed at entropy / consensus / correlation edge cases
fn gen_stat_row(rng: &mut Rng, k: usize) -> Vec<u64> {
    let mut v = vec![0u64; k];
    match rng.below(12) {
        // all-zero row: entropy of 0/0, consensus = last column, norm 0 -> correlation NaN
        0 => {}
        // one symbol only: entropy 0
        1 => v[rng.below(k as u64) as usize] = 1 + rng.below(50),
        // two equal counts: entropy exactly 1.0 (the lowercase threshold), tie for the consensus
        2 => {
            let c = 1 + rng.below(40);
            let a = rng.below(k as u64) as usize;
            let b = rng.below(k as u64) as usize;
            v[a] = c;
            v[b] = c;
        }
        // all equal (maximal entropy, every column tied)
        3 => {
            let c = 1 + rng.below(9);
            let upto = if rng.chance(1, 2) { k } else { k - 1 };
            for x in v.iter_mut().take(upto) {
                *x = c
            }
        }
        // near the threshold: (c, c-1), (c, c, 1), ...
        4 => {
            let c = 2 + rng.below(30);
            v[rng.below(k as u64) as usize] = c;
            v[rng.below(k as u64) as usize] += c - 1;
            if rng.chance(1, 2) {
                v[rng.below(k as u64) as usize] += 1;
            }
        }
        // wildcard dominant
        5 => {
            for x in v.iter_mut() {
                *x = rng.below(4)
            }
            v[k - 1] = 4 + rng.below(10);
        }
        // huge counts: rounding of `as f32`, and u32 overflow of the row sum
        6 => {
            for x in v.iter_mut() {
                if rng.chance(1, 3) {
                    *x = *rng.pick(&[16777217u64, 4294967295, 2147483648, 1000000, 33554433, 2147483647])
                }
            }
        }
        _ => {
            let hi = *rng.pick(&[3u64, 10, 100, 1000]);
            for (j, x) in v.iter_mut().enumerate() {
                *x = if j == k - 1 && !rng.chance(1, 4) { 0 } else { rng.below(hi) }
            }
        }
    }
    v
}

fn fmt_rows(rows: &[Vec<u64>]) -> String {
    rows.iter()
        .map(|r| r.iter().map(|x| x.to_string()).collect::<Vec<_>>().join(","))
        .collect::<Vec<_>>()
        .join(";")
}

/// a valid background: None / uniform / dyadic (zero entries, wildcard mass) / from_counts /
/// tiny non-zero entries (1e-8, 2^-149) absorbed by the sum
fn gen_valid_bg(rng: &mut Rng, k: usize) -> String {
    match rng.below(8) {
        0 => "none".to_string(),
        1 => "uni".to_string(),
        2 | 3 | 4 => {
            let den = *rng.pick(&[4u64, 16, 64, 256]);
            let wild_mass = rng.chance(1, 4);
            let zeros = *rng.pick(&[0u64, 0, 30]);
            format!("new:{}", fmt_f32s(&dyadic_bg(rng, k, den, wild_mass, zeros)))
        }
        5 => tiny_bg(rng, k),
        _ => {
            let v: Vec<String> = (0..k)
                .map(|j| if j == k - 1 && !rng.chance(1, 4) { "0".to_string() } else { (1 + rng.below(1000)).to_string() })
                .collect();
            format!("cnt:{}", v.join(","))
        }
    }
}

/// dyadic background whose LAST regular zero entry (placed after the big ones so that the
/// running sum absorbs it) is replaced by a tiny non-zero value: accepted by Background::new
/// when 1.0 + tiny == 1.0 in binary32
fn tiny_bg(rng: &mut Rng, k: usize) -> String {
    let mut v = dyadic_bg(rng, k, 64, false, 40);
    let tiny = *rng.pick(&[1.0e-8f32, 1.0e-8, 2.0e-8, 1.0e-10, 1.0e-30, f32::from_bits(1), 5.0e-8]);
    let zeros: Vec<usize> = (0..k).filter(|&j| v[j] == 0.0).collect();
    if !zeros.is_empty() {
        // a late position is absorbed by the partial sum, an early one is not always
        let j = if rng.chance(3, 4) { *zeros.last().unwrap() } else { *rng.pick(&zeros) };
        v[j] = tiny;
    }
    format!("new:{}", fmt_f32s(&v))
}

fn gen_stat(rng: &mut Rng, id: usize, a: &str, alpha: &str, maxw: usize) -> String {
    let k = alpha.len();
    let rows = *rng.pick(&[0usize, 1, 2, 3, 4, 6, 8, 12]).min(&maxw);
    let mut m: Vec<Vec<u64>> = (0..rows).map(|_| gen_stat_row(rng, k)).collect();
    // periodic matrices: auto_correlation(period) = 1
    if rows >= 4 && rng.chance(1, 4) {
        let p = rows / 2;
        for i in p..rows {
            m[i] = m[i - p].clone();
        }
    }
    let src = if rng.chance(1, 5) {
        format!("seqs={}", gen_seqs(rng, alpha, maxw.min(12), false))
    } else {
        format!("counts={}", fmt_rows(&m))
    };
    // second matrix: the same, a row permutation, scaled, fewer / more rows, unrelated
    let m2: Vec<Vec<u64>> = match rng.below(6) {
        0 => m.clone(),
        1 => m.iter().rev().cloned().collect(),
        2 => m.iter().map(|r| r.iter().map(|x| (x * 3).min(4294967295)).collect()).collect(),
        3 => m.iter().take(rows / 2).cloned().collect(),
        _ => {
            let r2 = rng.below(rows as u64 + 3) as usize;
            (0..r2).map(|_| gen_stat_row(rng, k)).collect()
        }
    };
    let mut delays = vec![0usize, 1, rows / 2, rows.saturating_sub(1), rows, rows + 1 + rng.below(5) as usize];
    delays.dedup();
    let mut pairs = vec![];
    for _ in 0..3 {
        pairs.push(format!("{}:{}", rng.below(rows as u64 + 1), rng.below(m2.len() as u64 + 1)));
    }
    if rng.chance(1, 3) {
        pairs.push(format!("{}:{}", rows + rng.below(3) as usize, m2.len() + rng.below(3) as usize));
    }
    let rr = rng.below(4) as usize;
    format!(
        "g{} k=stat a={} {} counts2={} ps={} bg={} delays={} dij={} sm={}",
        id,
        a,
        src,
        fmt_rows(&m2),
        gen_pseudo(rng, k),
        gen_valid_bg(rng, k),
        delays.iter().map(|d| d.to_string()).collect::<Vec<_>>().join(","),
        pairs.join(","),
        gen_raw(rng, k, rr)
    )
}

fn gen_c09(rng: &mut Rng, id: usize, tier: &str) -> String {
    let prot = rng.chance(1, 3);
    let (a, alpha) = if prot { ("prot", Protein::as_str()) } else { ("dna", Dna::as_str()) };
    let k = alpha.len();
    let maxw = if tier == "thorough" { 40 } else { 20 };
    if rng.chance(3, 20) {
        return gen_stat(rng, id, a, alpha, maxw);
    }
    let kind = rng.below(100);
    if kind < 62 {
        let src = if rng.chance(3, 5) {
            {
            let ragged = rng.chance(1, 6);
            format!("seqs={}", gen_seqs(rng, alpha, maxw, ragged))
        }
        } else {
            format!("counts={}", gen_counts(rng, k, maxw))
        };
        let l = rng.below(70) as usize;
        let seq = gen_seq(rng, alpha, l, 4);
        let ps = gen_pseudo(rng, k);
        let bg = gen_bg(rng, k);
        let bg2 = if rng.chance(1, 12) { bg.clone() } else { gen_bg(rng, k) };
        format!(
            "g{} k=pipe a={} {} ps={} bg={} bg2={} base={} seq={} cols={}{}",
            id,
            a,
            src,
            ps,
            bg,
            bg2,
            gen_base(rng),
            seq,
            rng.pick(&[4, 32]),
            gen_xpos(rng, l)
        )
    } else if kind < 72 {
        let rows = rng.below(maxw as u64 + 1) as usize;
        let l = rng.below(70) as usize;
        format!(
            "g{} k=raw a={} sm={} seq={} cols={}{}",
            id,
            a,
            gen_raw(rng, k, rows),
            gen_seq(rng, alpha, l, 4),
            rng.pick(&[4, 32]),
            gen_xpos(rng, l)
        )
    } else if kind < 82 {
        // Background::new on valid and invalid arrays
        let den = *rng.pick(&[4u64, 16, 64, 256, 1024, 1 << 20]);
        let wm_ = rng.chance(1, 3);
        let zz_ = *rng.pick(&[0u64, 30]);
        let mut v = dyadic_bg(rng, k, den, wm_, zz_);
        match rng.below(10) {
            0 => {
                let j = rng.below(k as u64) as usize;
                v[j] = f32::from_bits(exotic(rng))
            }
            1 => {
                let j = rng.below(k as u64) as usize;
                v[j] = f32::from_bits(v[j].to_bits().wrapping_add(1))
            }
            2 => {
                let j = rng.below(k as u64) as usize;
                v[j] = f32::from_bits(v[j].to_bits().wrapping_sub(1))
            }
            3 => {
                for x in v.iter_mut() {
                    *x = unit(rng) / (k as f32 / 2.0)
                }
            }
            4 => {
                // decimal fractions that may or may not sum to exactly 1.0
                let n = (k - 1) as f32;
                for (j, x) in v.iter_mut().enumerate() {
                    *x = if j == k - 1 { 0.0 } else { 1.0 / n }
                }
                if rng.chance(1, 2) {
                    let j = rng.below((k - 1) as u64) as usize;
                    let j2 = rng.below((k - 1) as u64) as usize;
                    let d = unit(rng) * v[j];
                    v[j] -= d;
                    v[j2] += d;
                }
            }
            5 => {
                let j = rng.below(k as u64) as usize;
                v[j] = -v[j];
            }
            _ => {}
        }
        format!("g{} k=bgnew a={} v={}", id, a, fmt_f32s(&v))
    } else if kind < 86 {
        let style = rng.below(6);
        let v: Vec<String> = (0..k)
            .map(|_| {
                (match style {
                    0 => 0,
                    1 => rng.below(3),
                    2 => rng.below(1000),
                    // huge totals: below 2^64 (K * 2^59 < 2^64) ...
                    3 => rng.below(1 << 59),
                    // ... and the usize overflow of the total (panic in dev, wrap in release);
                    // 2^63 + 2^63 wraps to exactly 0
                    4 => {
                        let r = rng.next();
                        *rng.pick(&[0u64, 0, 0, 1, 1 << 63, 1 << 63, u64::MAX, 1 << 62, r])
                    }
                    _ => rng.below(1 << 40),
                })
                .to_string()
            })
            .collect();
        format!("g{} k=bgcnt a={} c={}", id, a, v.join(","))
    } else if kind < 92 {
        let n = rng.below(4) as usize;
        let seqs: Vec<String> = (0..n)
            .map(|_| {
                let l = *rng.pick(&[0usize, 1, 3, 4, 5, 10, 31, 32, 33, 40, 100]);
                let wild = *rng.pick(&[0u64, 10, 50, 100]);
                gen_seq(rng, alpha, l, wild)
            })
            .collect();
        format!(
            "g{} k=bgseq a={} seqs={} unk={} multi={} cols={} wrap={}",
            id,
            a,
            seqs.join("/"),
            rng.below(2),
            rng.below(3),
            rng.pick(&[4, 32]),
            rng.pick(&[0, 0, 3])
        )
    } else {
        // FrequencyMatrix::new : rows summing to ~1 (within / outside the tolerance)
        let rows = rng.below(6) as usize;
        let m: Vec<String> = (0..rows)
            .map(|_| {
                let wm_ = rng.chance(1, 4);
                let mut v = dyadic_bg(rng, k, 64, wm_, 20);
                match rng.below(8) {
                    0 => {
                        let j = rng.below(k as u64) as usize;
                        v[j] += (unit(rng) - 0.5) * 0.04;
                    }
                    1 => {
                        let j = rng.below(k as u64) as usize;
                        v[j] += *rng.pick(&[0.01f32, -0.01, 0.0099999, -0.0099999, 0.0100001, 0.009999999]);
                    }
                    2 => {
                        let j = rng.below(k as u64) as usize;
                        v[j] = f32::from_bits(exotic(rng));
                    }
                    3 => {
                        for x in v.iter_mut() {
                            *x = unit(rng) * 2.0 / k as f32
                        }
                    }
                    _ => {}
                }
                fmt_f32s(&v)
            })
            .collect();
        format!("g{} k=fnew a={} m={}", id, a, m.join(";"))
    }
}

fn gen_c10(rng: &mut Rng, id: usize, tier: &str) -> String {
    let alpha = Dna::as_str();
    let k = 5;
    let maxw = if tier == "thorough" { 40 } else { 20 };
    // widths 0..=20 are all visited: the width cycles with the case number
    let w = id % (maxw + 1);
    let src = if rng.chance(1, 2) {
        let mut n = *rng.pick(&[1usize, 2, 3, 5, 9, 20]);
        if w == 0 && rng.chance(1, 3) {
            n = 0; // from_sequences of an empty collection: the other zero-row matrix
        }
        let seqs: Vec<String> = (0..n).map(|_| gen_seq(rng, alpha, w, 6)).collect();
        format!("seqs={}", seqs.join("/"))
    } else {
        let mut c = gen_counts(rng, k, 0);
        if w > 0 && rng.chance(1, 5) {
            // (nearly) reverse-palindromic counts: symmetric fast paths, centre rows
            c = gen_counts_mirrored_w(rng, k, w);
        } else if w > 0 {
            let rows: Vec<String> = (0..w)
                .map(|_| {
                    (0..k)
                        .map(|j| {
                            if j == k - 1 && !rng.chance(1, 3) {
                                "0".to_string()
                            } else {
                                rng.below(*rng.clone().pick(&[3u64, 30, 1000])).to_string()
                            }
                        })
                        .collect::<Vec<_>>()
                        .join(",")
                })
                .collect();
            c = rows.join(";");
        }
        format!("counts={}", c)
    };
    // strand-symmetric background (bg[A]=bg[T], bg[C]=bg[G]) in 2 of 3 cases
    let bg = match rng.below(6) {
        0 => "none".to_string(),
        1 | 2 | 3 => {
            let den = *rng.pick(&[8u64, 32, 128, 512]);
            let n = if rng.chance(1, 4) { rng.below(den / 4) * 2 } else { 0 };
            let half = (den - n) / 2;
            let a = if rng.chance(1, 8) { 0 } else { 1 + rng.below(half - 1) };
            let c = half - a;
            let f = |x: u64| x as f32 / den as f32;
            format!("new:{}", fmt_f32s(&[f(a), f(c), f(a), f(c), f(n)]))
        }
        _ => {
            let den = *rng.pick(&[16u64, 64, 256]);
            let zeros = *rng.pick(&[0u64, 25]);
            let wm_ = rng.chance(1, 4);
            let v = dyadic_bg(rng, k, den, wm_, zeros);
            format!("new:{}", fmt_f32s(&v))
        }
    };
    // symmetric pseudocounts (scalar) in 2 of 3 cases
    let ps = if rng.chance(2, 3) {
        let c = *rng.pick(&[0.0f32, 0.1, 0.25, 0.5, 1.0, 0.37]);
        if rng.chance(1, 2) {
            format!("s:{}", c.to_bits())
        } else {
            let d = *rng.pick(&[0.0f32, 0.1, 0.7]);
            format!("a:{}", fmt_f32s(&[c, d, c, d, *rng.pick(&[0.0f32, 0.2])]))
        }
    } else {
        gen_pseudo(rng, k)
    };
    let l = *rng.pick(&[0usize, 1, 5, 19, 20, 21, 33, 50, 64]) + rng.below(3) as usize;
    format!(
        "g{} k=rc a=dna {} ps={} bg={} sm={} seq={} cols={}",
        id,
        src,
        ps,
        bg,
        gen_raw(rng, k, w),
        gen_seq(rng, alpha, l, 5),
        rng.pick(&[4, 32])
    )
}

// ---------------------------------------------------------------- main

fn main() {
    silence_panics();
    let args = parse_args();
    let prop = args.cmd.clone();
    let sub = args.rest.first().cloned().unwrap_or_else(|| "help".to_string());
    match sub.as_str() {
        "gen" => {
            let mut rng = Rng::new(args.seed ^ if prop == "c10" { 0x10 } else { 0x09 });
            for i in 0..args.n {
                let line = if prop == "c10" {
                    gen_c10(&mut rng, i, &args.tier)
                } else {
                    gen_c09(&mut rng, i, &args.tier)
                };
                println!("{}", line);
            }
        }
        "run" => {
            for line in stdin_lines() {
                let (_id, f) = fields(&line);
                let obs = match no_panic(|| {
                    if prop == "c10" {
                        run_c10(&f)
                    } else if f.get("a").map(|s| s.as_str()) == Some("prot") {
                        run_c09::<Protein>(&f)
                    } else {
                        run_c09::<Dna>(&f)
                    }
                }) {
                    Some(o) => o,
                    None => " PANIC".to_string(),
                };
                println!("{} =>{}", line, obs);
            }
        }
        _ => {
            eprintln!("usage: pwm <c09|c10> gen --seed S --n N [--tier t] | pwm <c09|c10> run");
            std::process::exit(2);
        }
    }
}
