//! C14 / C15 harness for the TRANSFAC reader (`lightmotif_io::transfac`).
//!
//! `transfac c14 gen --seed S --n N [--tier t]` prints input lines
//!     <id> fmt=transfac alpha=dna|protein le=lf|crlf fnl=0|1 vv=-|h<hex> lay=canon|<seed> [wf=1] caps=<c,c,..> pat=<n.n.n> [post=<k>] recs=<records>
//!     (wf=1: the generator claims the case meets TransfacPrint.wf_file, the hypothesis of C14.reader_roundtrip)
//!     <id> alpha=dna caps=.. pat=.. file=<path>                      (bundled data, corpus only)
//! `transfac c15 gen ...` prints
//!     <id> alpha=dna|protein caps=<c,c,..> pat=<n.n.n> [post=<k>] [evs=<script>/<script>..] data=<hex>
//!     (post: `next()` is called k more times after the first outcome that is not a record; evs: streams
//!      whose `fill_buf` fails, script = `.`-joined events <n> (the next n bytes become available) | Eo
//!      (fill_buf returns an error of kind Other, once) | Ei (kind Interrupted); the outcome sequences of
//!      these streams are printed as ` eobs=<seq>;<seq>..`)
//! Every line of this group carries the token `fmt=transfac`; `run` echoes any other line (corpus
//! lines of the io group) followed by ` => skip`.
//! `transfac c14|c15 run` reads input lines on stdin and prints them followed by
//!     ` => data=<hex> obs=<seq>;<seq>;...`     (c14; `data=` is the file that was read)
//!     ` => obs=<seq>;<seq>;...`                 (c15)
//! one outcome sequence per chunking (the `caps` through `BufReader::with_capacity(c, Cursor)`
//! in order, then the cyclic chunk-size pattern `pat` through a custom `BufRead`); a sequence
//! that equals the first one is printed as `=`.  A sequence is the `|`-joined list of outcomes of
//! `Reader::new` + `next()` until the first error or end of input, then `post` more calls (a PANIC ends it):
//!     R:<id>:<ac>:<name>:<desc>:<data>:<refs>:<counts>:<freq0>:<freq5>  |  E:io  |  E:nom  |  END  |  PANIC  |  HANG | NOPROGRESS
//! optional strings are `-` or `h<hex>`; data is `-` or `m` + rows (`/`) of f32 bit patterns (`,`);
//! refs is `-` or `/`-joined `local,xref,title,link,pmid`; counts (`Record::to_counts`) is `-` or
//! `c` + rows of u32; freq0 / freq5 (`Record::to_freq(0.0)` / `(0.5)`) are `-` or `q` + rows of f32 bit patterns.  Every call into the library runs under `catch_unwind` on a watched thread.
//!
//! Record encoding in `recs=` (records joined by `;`):
//!     <id>:<ac>:<na>:<de>:<syms>:<rows>:<refs>:<po>:<sep>
//! with syms = symbol letters of the P0 line in file order (`-` = no matrix), rows = `/`-joined
//! `label,token,token,...,~<hex of the text after the last count>` (a token may be `<sephex>^<token>`: its
//! own blanks; syms may be `,`-joined `<sephex>^<letter>` likewise), refs as above, po = 0|1 (header
//! spelled PO), sep = h<hex> of the blanks/tabs written before every symbol and count (the last two
//! and the row tails are used by the canonical printer only); an optional 10th field gives the order of
//! the lines for the canonical printer: `,`-joined codes A I N D (the AC/ID/NA/DE line; `A~<hex>` gives
//! the blanks/tabs written between the line code and the value, default two blanks), M (matrix
//! block), X (an XX line), R<i> (the i-th reference of <refs>: RN line, then RX / RT / RL lines for the
//! pmid / title / link that are present), c<hex>.<hex>... (a run of CC lines, hex = text after the code),
//! d<day>.<month>.<year>.<c|u>.<author hex> (a DT line), s<k><hex> (a BA/BS/BF/CO line: k = a|s|f|c, hex = the text after the code);
//! `-` or absent = the default order A X I X N X D X M X.

use lightmotif::abc::{Alphabet, Dna, Protein, Symbol};
use lmh::*;
use std::io::{BufRead, BufReader, Cursor, Read};
use std::sync::mpsc;
use std::time::Duration;

// ---------------------------------------------------------------- encoding helpers

fn hex(b: &[u8]) -> String {
    let mut s = String::with_capacity(2 * b.len());
    for x in b {
        s.push_str(&format!("{:02x}", x));
    }
    s
}

fn unhex(s: &str) -> Vec<u8> {
    let b = s.as_bytes();
    (0..b.len() / 2)
        .map(|i| u8::from_str_radix(std::str::from_utf8(&b[2 * i..2 * i + 2]).unwrap(), 16).unwrap())
        .collect()
}

fn opt_hex(o: Option<&str>) -> String {
    match o {
        None => "-".to_string(),
        Some(s) => format!("h{}", hex(s.as_bytes())),
    }
}

fn opt_unhex(s: &str) -> Option<String> {
    if s == "-" {
        None
    } else {
        Some(String::from_utf8(unhex(&s[1..])).unwrap())
    }
}

// ---------------------------------------------------------------- chunked BufRead

/// A `BufRead` that delivers the bytes in chunks whose sizes follow a cyclic pattern.
struct Chunked {
    data: Vec<u8>,
    pos: usize,     // start of the unconsumed part of the current chunk
    end: usize,     // end of the current chunk
    pat: Vec<usize>,
    k: usize,
}

impl Chunked {
    fn new(data: Vec<u8>, pat: Vec<usize>) -> Self {
        Chunked { data, pos: 0, end: 0, pat, k: 0 }
    }
}

impl Read for Chunked {
    fn read(&mut self, buf: &mut [u8]) -> std::io::Result<usize> {
        let n = {
            let a = self.fill_buf()?;
            let n = a.len().min(buf.len());
            buf[..n].copy_from_slice(&a[..n]);
            n
        };
        self.consume(n);
        Ok(n)
    }
}

impl BufRead for Chunked {
    fn fill_buf(&mut self) -> std::io::Result<&[u8]> {
        if self.pos == self.end && self.end < self.data.len() {
            let sz = self.pat[self.k % self.pat.len()].max(1);
            self.k += 1;
            self.end = (self.end + sz).min(self.data.len());
        }
        Ok(&self.data[self.pos..self.end])
    }
    fn consume(&mut self, amt: usize) {
        self.pos = (self.pos + amt).min(self.end);
    }
}

/// One event of a scripted stream: deliver the next `n` bytes as one chunk, or fail the `fill_buf` call.
#[derive(Clone, Copy, Debug)]
enum Ev {
    Data(usize),
    Fail,  // io::ErrorKind::Other: returned to the caller of read_line
    Intr,  // io::ErrorKind::Interrupted: retried inside std's read_until
    Eof,   // fill_buf returns an empty slice ONCE although more data follows (transient end of input)
}

fn parse_script(s: &str) -> Vec<Ev> {
    s.split('.')
        .filter(|x| !x.is_empty())
        .map(|x| match x {
            "Eo" => Ev::Fail,
            "Ei" => Ev::Intr,
            "Ez" => Ev::Eof,
            n => Ev::Data(n.parse().unwrap()),
        })
        .collect()
}

/// A `BufRead` driven by a script: when the current chunk is used up, `fill_buf` takes the next
/// event -- `Data(n)` makes the next n bytes available (skipped when no byte is left), `Fail` /
/// `Intr` make this call of `fill_buf` return an error (once), `Eof` (`Ez`) makes it return an empty slice
/// (once: a transient end of input) -- and, when the script is used up,
/// delivers the rest of the data as one chunk.  (Model: TransfacFault.estream.)
struct EvChunked {
    data: Vec<u8>,
    pos: usize,
    end: usize,
    script: Vec<Ev>,
    k: usize,
}

impl EvChunked {
    fn new(data: Vec<u8>, script: Vec<Ev>) -> Self {
        EvChunked { data, pos: 0, end: 0, script, k: 0 }
    }
}

impl Read for EvChunked {
    fn read(&mut self, buf: &mut [u8]) -> std::io::Result<usize> {
        let n = {
            let a = self.fill_buf()?;
            let n = a.len().min(buf.len());
            buf[..n].copy_from_slice(&a[..n]);
            n
        };
        self.consume(n);
        Ok(n)
    }
}

impl BufRead for EvChunked {
    fn fill_buf(&mut self) -> std::io::Result<&[u8]> {
        while self.pos == self.end {
            if self.k < self.script.len() {
                let ev = self.script[self.k];
                self.k += 1;
                match ev {
                    Ev::Fail => return Err(std::io::Error::new(std::io::ErrorKind::Other, "injected fault")),
                    Ev::Intr => return Err(std::io::Error::new(std::io::ErrorKind::Interrupted, "injected interrupt")),
                    Ev::Eof => return Ok(&self.data[self.pos..self.pos]),
                    Ev::Data(n) => self.end = (self.pos + n.max(1)).min(self.data.len()),
                }
            } else if self.end < self.data.len() {
                self.end = self.data.len();
            } else {
                break;
            }
        }
        Ok(&self.data[self.pos..self.end])
    }
    fn consume(&mut self, amt: usize) {
        self.pos = (self.pos + amt).min(self.end);
    }
}

// ---------------------------------------------------------------- running the implementation

fn show_record<A: Alphabet>(r: &lightmotif_io::transfac::Record<A>) -> String {
    let data = match r.data() {
        None => "-".to_string(),
        Some(m) => {
            let rows: Vec<String> = m
                .iter()
                .map(|row| {
                    row.iter()
                        .map(|x| if x.is_nan() { 0x7fc00000u32 } else { x.to_bits() }.to_string())
                        .collect::<Vec<_>>()
                        .join(",")
                })
                .collect();
            format!("m{}", rows.join("/"))
        }
    };
    let refs = if r.references().is_empty() {
        "-".to_string()
    } else {
        r.references()
            .iter()
            .map(|x| {
                format!(
                    "{},{},{},{},{}",
                    x.number().local(),
                    opt_hex(x.number().xref()),
                    opt_hex(x.title()),
                    opt_hex(x.link()),
                    opt_hex(x.pmid())
                )
            })
            .collect::<Vec<_>>()
            .join("/")
    };
    let counts = match r.to_counts() {
        None => "-".to_string(),
        Some(c) => {
            let rows: Vec<String> = c
                .matrix()
                .iter()
                .map(|row| row.iter().map(|x| x.to_string()).collect::<Vec<_>>().join(","))
                .collect();
            format!("c{}", rows.join("/"))
        }
    };
    // Record::to_freq with the scalar pseudocounts 0.0 and 0.5 (model: TransfacFreq.to_freq)
    let freq = |c: f32| match r.to_freq(c) {
        None => "-".to_string(),
        Some(f) => {
            let rows: Vec<String> = f
                .matrix()
                .iter()
                .map(|row| {
                    row.iter()
                        .map(|x| if x.is_nan() { 0x7fc00000u32 } else { x.to_bits() }.to_string())
                        .collect::<Vec<_>>()
                        .join(",")
                })
                .collect();
            format!("q{}", rows.join("/"))
        }
    };
    format!(
        "R:{}:{}:{}:{}:{}:{}:{}:{}:{}",
        opt_hex(r.id()),
        opt_hex(r.accession()),
        opt_hex(r.name()),
        opt_hex(r.description()),
        data,
        refs,
        counts,
        freq(0.0),
        freq(0.5)
    )
}

/// `Reader::new`, then `next()` until the first outcome that is not a record, then `post` more
/// calls of `next()` whatever they return (C15: *each* request returns -- also after an error or
/// after the end of input).  A panic ends the sequence (the reader's state is gone).
fn read_all<A: Alphabet, B: BufRead>(b: B, cap: usize, post: usize) -> String {
    let mut out: Vec<String> = vec![];
    let mut reader = match no_panic(|| lightmotif_io::transfac::read::<B, A>(b)) {
        None => return "PANIC".to_string(),
        Some(r) => r,
    };
    let mut after: Option<usize> = None; // polls made after the first non-record outcome
    loop {
        match after {
            Some(k) if k >= post => break,
            None if out.len() > cap => {
                out.push("NOPROGRESS".to_string());
                break;
            }
            _ => {}
        }
        // the record is rendered inside the guarded call: to_counts/to_freq are library code too
        let step = no_panic(|| match reader.next() {
            None => "END".to_string(),
            Some(Err(lightmotif_io::error::Error::Io(_))) => "E:io".to_string(),
            Some(Err(lightmotif_io::error::Error::Nom(_))) => "E:nom".to_string(),
            Some(Err(lightmotif_io::error::Error::InvalidData)) => "E:data".to_string(),
            Some(Ok(r)) => show_record::<A>(&r),
        });
        match step {
            None => {
                out.push("PANIC".to_string());
                break;
            }
            Some(s) => {
                let rec = s.starts_with("R:");
                out.push(s);
                match after.as_mut() {
                    Some(k) => *k += 1,
                    None => {
                        if !rec {
                            after = Some(0);
                        }
                    }
                }
            }
        }
    }
    out.join("|")
}

#[derive(Clone)]
enum Chunking {
    Cap(usize),
    Pat(Vec<usize>),
    Ev(Vec<Ev>),
}

fn run_chunking<A: Alphabet>(data: &[u8], ch: &Chunking, post: usize) -> String {
    let d = data.to_vec();
    let ch = ch.clone();
    let (tx, rx) = mpsc::channel();
    let cap = data.len() + 2;
    std::thread::Builder::new()
        .stack_size(16 << 20)
        .spawn(move || {
            let s = match ch {
                Chunking::Cap(c) => read_all::<A, _>(BufReader::with_capacity(c, Cursor::new(d)), cap, post),
                Chunking::Pat(p) => read_all::<A, _>(Chunked::new(d, p), cap, post),
                Chunking::Ev(e) => read_all::<A, _>(EvChunked::new(d, e), cap, post),
            };
            let _ = tx.send(s);
        })
        .unwrap();
    match rx.recv_timeout(Duration::from_secs(60)) {
        Ok(s) => s,
        Err(_) => "HANG".to_string(),
    }
}

fn chunkings(f: &std::collections::HashMap<String, String>) -> Vec<Chunking> {
    let mut v = vec![];
    if let Some(c) = f.get("caps") {
        for x in c.split(',').filter(|x| !x.is_empty()) {
            v.push(Chunking::Cap(x.parse().unwrap()));
        }
    }
    if let Some(p) = f.get("pat") {
        let pat: Vec<usize> = p.split('.').filter(|x| !x.is_empty()).map(|x| x.parse().unwrap()).collect();
        if !pat.is_empty() {
            v.push(Chunking::Pat(pat));
        }
    }
    v
}

fn observe(alpha: &str, data: &[u8], chs: &[Chunking], post: usize) -> String {
    let mut seqs: Vec<String> = vec![];
    for ch in chs {
        let s = match alpha {
            "protein" => run_chunking::<Protein>(data, ch, post),
            _ => run_chunking::<Dna>(data, ch, post),
        };
        if !seqs.is_empty() && s == seqs[0] {
            seqs.push("=".to_string());
        } else {
            seqs.push(s);
        }
    }
    seqs.join(";")
}

/// outcome sequences of the scripted streams (`evs=<script>/<script>..`), `;`-joined, never abbreviated
fn observe_ev(alpha: &str, data: &[u8], f: &std::collections::HashMap<String, String>, post: usize) -> String {
    match f.get("evs") {
        None => String::new(),
        Some(e) => {
            let seqs: Vec<String> = e
                .split('/')
                .map(|sc| {
                    let ch = Chunking::Ev(parse_script(sc));
                    match alpha {
                        "protein" => run_chunking::<Protein>(data, &ch, post),
                        _ => run_chunking::<Dna>(data, &ch, post),
                    }
                })
                .collect();
            format!(" eobs={}", seqs.join(";"))
        }
    }
}

// ---------------------------------------------------------------- records and printers

#[derive(Clone, Debug, Default)]
struct RefRec {
    local: u32,
    xref: Option<String>,
    title: Option<String>,
    link: Option<String>,
    pmid: Option<String>,
}

#[derive(Clone, Debug, Default)]
struct Rec {
    id: Option<String>,
    ac: Option<String>,
    na: Option<String>,
    de: Option<String>,
    po: bool,      // matrix header spelled "PO" (canonical printer)
    sep: String,   // blanks/tabs before every symbol and count (canonical printer)
    syms: Vec<char>,
    hseps: Vec<String>, // canonical printer: own blanks before each header symbol (empty = `sep` for all)
    // label, tokens, text after the last count; a token may be written "<sephex>^<token>": its own
    // blanks (canonical printer only), otherwise `sep` is written before it
    rows: Vec<(String, Vec<String>, String)>,
    refs: Vec<RefRec>,
    // canonical printer: the lines of the record in file order: "A" "I" "N" "D" (the AC/ID/NA/DE line),
    // "M" (matrix block), "X" (XX line), "s<k><hex>" (BA/BS/BF/CO line, k = a|s|f|c, hex = text after
    // the code); empty = the default order A X I X N X D X M X
    order: Vec<String>,
}

fn default_order(r: &Rec) -> Vec<String> {
    let mut v: Vec<String> = vec![];
    let mut push = |present: bool, c: &str| {
        if present {
            v.push(c.to_string());
            v.push("X".to_string());
        }
    };
    push(r.ac.is_some(), "A");
    push(r.id.is_some(), "I");
    push(r.na.is_some(), "N");
    push(r.de.is_some(), "D");
    push(!r.syms.is_empty(), "M");
    v
}

fn enc_rec(r: &Rec) -> String {
    let syms = if r.syms.is_empty() {
        "-".to_string()
    } else if r.hseps.len() == r.syms.len() {
        r.syms.iter().zip(r.hseps.iter()).map(|(c, h)| format!("{}^{}", hex(h.as_bytes()), c)).collect::<Vec<_>>().join(",")
    } else {
        r.syms.iter().collect()
    };
    let rows = r
        .rows
        .iter()
        .map(|(l, t, tail)| {
            let mut v = vec![l.clone()];
            v.extend(t.iter().cloned());
            v.push(format!("~{}", hex(tail.as_bytes())));
            v.join(",")
        })
        .collect::<Vec<_>>()
        .join("/");
    let refs = if r.refs.is_empty() {
        "-".to_string()
    } else {
        r.refs
            .iter()
            .map(|x| {
                format!(
                    "{},{},{},{},{}",
                    x.local,
                    opt_hex(x.xref.as_deref()),
                    opt_hex(x.title.as_deref()),
                    opt_hex(x.link.as_deref()),
                    opt_hex(x.pmid.as_deref())
                )
            })
            .collect::<Vec<_>>()
            .join("/")
    };
    format!(
        "{}:{}:{}:{}:{}:{}:{}:{}:h{}:{}",
        opt_hex(r.id.as_deref()),
        opt_hex(r.ac.as_deref()),
        opt_hex(r.na.as_deref()),
        opt_hex(r.de.as_deref()),
        syms,
        rows,
        refs,
        r.po as u8,
        hex(r.sep.as_bytes()),
        if r.order.is_empty() { "-".to_string() } else { r.order.join(",") }
    )
}

fn dec_rec(s: &str) -> Rec {
    let p: Vec<&str> = s.split(':').collect();
    let mut hseps: Vec<String> = vec![];
    let syms: Vec<char> = if p[4] == "-" {
        vec![]
    } else if p[4].contains('^') {
        p[4].split(',')
            .map(|e| {
                let (h, c) = e.split_once('^').unwrap();
                hseps.push(String::from_utf8(unhex(h)).unwrap());
                c.chars().next().unwrap()
            })
            .collect()
    } else {
        p[4].chars().collect()
    };
    let rows = if p[5].is_empty() {
        vec![]
    } else {
        p[5].split('/')
            .map(|r| {
                let mut it = r.split(',');
                let l = it.next().unwrap().to_string();
                let mut toks: Vec<String> = it.map(|x| x.to_string()).collect();
                let tail = match toks.last() {
                    Some(t) if t.starts_with('~') => {
                        let t = String::from_utf8(unhex(&t[1..])).unwrap();
                        toks.pop();
                        t
                    }
                    _ => String::new(),
                };
                (l, toks, tail)
            })
            .collect()
    };
    let refs = if p[6] == "-" {
        vec![]
    } else {
        p[6].split('/')
            .map(|r| {
                let q: Vec<&str> = r.split(',').collect();
                RefRec {
                    local: q[0].parse().unwrap(),
                    xref: opt_unhex(q[1]),
                    title: opt_unhex(q[2]),
                    link: opt_unhex(q[3]),
                    pmid: opt_unhex(q[4]),
                }
            })
            .collect()
    };
    let po = p.get(7).map(|x| *x == "1").unwrap_or(false);
    let sep = p.get(8).and_then(|x| opt_unhex(x)).unwrap_or_else(|| "  ".to_string());
    let order: Vec<String> = match p.get(9) {
        Some(o) if *o != "-" && !o.is_empty() => o.split(',').map(|x| x.to_string()).collect(),
        _ => vec![],
    };
    Rec { id: opt_unhex(p[0]), ac: opt_unhex(p[1]), na: opt_unhex(p[2]), de: opt_unhex(p[3]), po, sep, syms, hseps, rows, refs, order }
}

/// Canonical printer (mirrored by `print_file` of coq/transfac/TransfacPrint.v).
fn print_canon(vv: &Option<String>, recs: &[Rec], eol: &str, fnl: bool) -> Vec<u8> {
    let mut s = String::new();
    if let Some(v) = vv {
        s += &format!("VV  {}{}XX{}//{}", v, eol, eol, eol);
    }
    for (k, r) in recs.iter().enumerate() {
        let order = if r.order.is_empty() { default_order(r) } else { r.order.clone() };
        for code in &order {
            // field codes may carry the blanks written after the line code: A~<hex> (default: two blanks)
            let (code, pad) = match code.find('~') {
                Some(i) if i == 1 => (&code[..1], String::from_utf8(unhex(&code[2..])).unwrap()),
                _ => (code.as_str(), "  ".to_string()),
            };
            match code {
                "A" => s += &format!("AC{}{}{}", pad, r.ac.as_deref().unwrap_or(""), eol),
                "I" => s += &format!("ID{}{}{}", pad, r.id.as_deref().unwrap_or(""), eol),
                "N" => s += &format!("NA{}{}{}", pad, r.na.as_deref().unwrap_or(""), eol),
                "D" => s += &format!("DE{}{}{}", pad, r.de.as_deref().unwrap_or(""), eol),
                "X" => s += &format!("XX{}", eol),
                "M" => {
                    s += if r.po { "PO" } else { "P0" };
                    for (i, c) in r.syms.iter().enumerate() {
                        s += if r.hseps.len() == r.syms.len() { &r.hseps[i] } else { &r.sep };
                        s.push(*c);
                    }
                    s += eol;
                    for (l, toks, tail) in &r.rows {
                        s += l;
                        for t in toks {
                            match t.split_once('^') {
                                Some((h, tok)) => {
                                    s += &String::from_utf8(unhex(h)).unwrap();
                                    s += tok;
                                }
                                None => {
                                    s += &r.sep;
                                    s += t;
                                }
                            }
                        }
                        s += tail;
                        s += eol;
                    }
                }
                c if c.starts_with('R') && c.len() >= 2 => {
                    // reference block number i of the record
                    if let Some(x) = c[1..].parse::<usize>().ok().and_then(|i| r.refs.get(i)) {
                        s += &format!("RN  [{}]", x.local);
                        if let Some(v) = &x.xref {
                            s += &format!("; {}.", v);
                        }
                        s += eol;
                        if let Some(v) = &x.pmid {
                            s += &format!("RX  PUBMED: {}.{}", v, eol);
                        }
                        if let Some(v) = &x.title {
                            s += &format!("RT  {}{}", v, eol);
                        }
                        if let Some(v) = &x.link {
                            s += &format!("RL  {}{}", v, eol);
                        }
                    }
                }
                c if c.starts_with('c') => {
                    // a run of comment lines: texts joined by '.'
                    for t in c[1..].split('.') {
                        s += "CC";
                        s += &String::from_utf8(unhex(t)).unwrap();
                        s += eol;
                    }
                }
                c if c.starts_with('d') => {
                    // a date line: d<day>.<month>.<year>.<c|u>.<author hex>
                    let q: Vec<&str> = c[1..].split('.').collect();
                    if q.len() == 5 {
                        s += &format!(
                            "DT  {}.{}.{} ({}); {}.{}",
                            q[0],
                            q[1],
                            q[2],
                            if q[3] == "c" { "created" } else { "updated" },
                            String::from_utf8(unhex(q[4])).unwrap(),
                            eol
                        );
                    }
                }
                c if c.starts_with('s') && c.len() >= 2 => {
                    let tag = match &c[1..2] {
                        "a" => "BA",
                        "s" => "BS",
                        "f" => "BF",
                        _ => "CO",
                    };
                    s += tag;
                    s += &String::from_utf8(unhex(&c[2..])).unwrap();
                    s += eol;
                }
                _ => {}
            }
        }
        s += "//";
        if k + 1 < recs.len() || fnl {
            s += eol;
        }
    }
    s.into_bytes()
}

fn blanks(rng: &mut Rng, lo: u64, hi: u64) -> String {
    let n = lo + rng.below(hi - lo + 1);
    let tab = rng.chance(1, 6);
    (0..n).map(|_| if tab && rng.chance(1, 2) { '\t' } else { ' ' }).collect()
}

/// Layout-varied printer: everything the reader is documented to accept.
fn print_varied(vv: &Option<String>, recs: &[Rec], eol: &str, fnl: bool, seed: u64) -> Vec<u8> {
    let mut rng = Rng::new(seed ^ 0x5EED);
    let mut s = String::new();
    if let Some(v) = vv {
        s += &format!("VV{}{}{}", blanks(&mut rng, 0, 3), v, eol);
        if rng.chance(2, 3) {
            s += &format!("XX{}", eol);
        }
        s += &format!("//{}", eol);
    }
    for (k, r) in recs.iter().enumerate() {
        // blocks in random order
        let mut blocks: Vec<String> = vec![];
        let mut field = |tag: &str, v: &Option<String>, rng: &mut Rng| {
            if let Some(x) = v {
                let sep = if x.is_empty() { blanks(rng, 0, 3) } else { blanks(rng, 1, 4) };
                let hi = if rng.chance(1, 5) { 2 } else { 0 };
                blocks.push(format!("{}{}{}{}{}", tag, sep, x, blanks(rng, 0, hi), eol));
            }
        };
        field("AC", &r.ac, &mut rng);
        field("ID", &r.id, &mut rng);
        field("NA", &r.na, &mut rng);
        field("DE", &r.de, &mut rng);
        if !r.syms.is_empty() {
            let mut b = String::new();
            b += if rng.chance(1, 2) { "P0" } else { "PO" };
            let w = 1 + rng.below(7);
            for c in &r.syms {
                b += &if rng.chance(1, 4) { blanks(&mut rng, 1, 7) } else { " ".repeat(w as usize) };
                b.push(*c);
            }
            b += eol;
            let cons = rng.chance(1, 2);
            for (l, toks, _tail) in &r.rows {
                b += l;
                for t in toks {
                    b += &if rng.chance(1, 4) { blanks(&mut rng, 1, 6) } else { " ".repeat(w as usize) };
                    b += t;
                }
                if cons {
                    b += &blanks(&mut rng, 1, 6);
                    b.push(*rng.pick(&['A', 'C', 'G', 'T', 'N', 'W', 'y', 'r', 'k']));
                } else if rng.chance(1, 8) {
                    b += &blanks(&mut rng, 1, 3);
                }
                b += eol;
            }
            blocks.push(b);
        }
        let mut ref_blocks: Vec<String> = vec![];
        for x in &r.refs {
            let mut b = String::new();
            match &x.xref {
                Some(v) => b += &format!("RN{}[{}];{}{}.{}", blanks(&mut rng, 0, 2), x.local, blanks(&mut rng, 0, 2), v, eol),
                None => b += &format!("RN{}[{}]{}", blanks(&mut rng, 0, 2), x.local, eol),
            }
            if let Some(v) = &x.pmid {
                b += &format!("RX{}PUBMED:{}{}.{}", blanks(&mut rng, 0, 2), blanks(&mut rng, 0, 2), v, eol);
            }
            if rng.chance(1, 2) {
                b += &format!("RA  Doe J., Roe R.{}", eol);
            }
            if let Some(v) = &x.title {
                b += &format!("RT{}{}{}", blanks(&mut rng, 1, 2), v, eol);
            }
            if let Some(v) = &x.link {
                b += &format!("RL{}{}{}", blanks(&mut rng, 1, 2), v, eol);
            }
            ref_blocks.push(b.clone());
            blocks.push(b);
        }
        // unobserved lines
        for _ in 0..rng.below(4) {
            let b = match rng.below(7) {
                0 => format!("BF  T0{}; factor; Species: human.{}", rng.below(1000), eol),
                1 => format!("BA  {} elements{}", rng.below(50), eol),
                2 => format!("BS  ACGT{}; R0{}; 1; 10;; p.{}", "ACGT".repeat(rng.below(3) as usize), rng.below(9999), eol),
                3 => {
                    let mut c = String::new();
                    for _ in 0..1 + rng.below(3) {
                        c += &format!("CC  comment {}{}", rng.below(100), eol);
                    }
                    c
                }
                4 => format!("CO  Copyright (C), Nobody.{}", eol),
                5 => format!(
                    "DT  {}.{}.{} ({}); {}.{}",
                    1 + rng.below(28),
                    1 + rng.below(12),
                    1990 + rng.below(40),
                    if rng.chance(1, 2) { "created" } else { "updated" },
                    rng.pick(&["ewi", "abc", "x y"]),
                    eol
                ),
                _ => format!("XX{}", eol),
            };
            blocks.push(b);
        }
        // Fisher-Yates; reference blocks keep their relative order (it is observable)
        for i in (1..blocks.len()).rev() {
            let j = rng.below(i as u64 + 1) as usize;
            blocks.swap(i, j);
        }
        let pos: Vec<usize> = (0..blocks.len()).filter(|i| blocks[*i].starts_with("RN")).collect();
        let mut refs_in_order: Vec<String> = pos.iter().map(|i| blocks[*i].clone()).collect();
        refs_in_order.sort_by_key(|b| ref_blocks.iter().position(|x| x == b).unwrap_or(0));
        for (i, b) in pos.iter().zip(refs_in_order.into_iter()) {
            blocks[*i] = b;
        }
        for b in blocks {
            s += &b;
            if rng.chance(1, 2) {
                s += &format!("XX{}", eol);
            }
        }
        s += "//";
        if k + 1 < recs.len() || fnl {
            s += eol;
        }
    }
    s.into_bytes()
}

// ---------------------------------------------------------------- generators

fn gen_text(rng: &mut Rng, maxlen: u64) -> String {
    // no leading/trailing white space, no line feed; mostly printable ASCII
    if rng.chance(1, 40) {
        return String::new();
    }
    let n = 1 + rng.below(maxlen);
    let mut s = String::new();
    for i in 0..n {
        let edge = i == 0 || i == n - 1;
        let k = rng.below(100);
        let c = if k < 70 {
            *rng.pick(&[
                'a', 'b', 'e', 'M', 'X', '0', '1', '7', '_', '$', '.', ';', ':', '-', '(', ')', '/', 'P', 'V', 'I', 'D',
            ])
        } else if k < 85 {
            if edge { 'x' } else { ' ' }
        } else if k < 88 {
            if edge { 'y' } else { '\t' }
        } else if k < 93 {
            *rng.pick(&['é', 'ß', '中', '𝒳', 'Ω'])
        } else if k < 95 {
            // white space characters that trim() would strip at the edges
            if edge { 'z' } else { *rng.pick(&['\u{a0}', '\u{2003}', '\u{3000}', '\r', '\u{85}']) }
        } else {
            (33 + rng.below(94) as u8) as char
        };
        s.push(c);
    }
    s
}

fn gen_token(rng: &mut Rng) -> String {
    let k = rng.below(100);
    if k < 55 {
        rng.below(100).to_string()
    } else if k < 70 {
        rng.below(100000).to_string()
    } else if k < 74 {
        // around and above u32::MAX / f32 integer precision
        rng.pick(&["16777216", "16777217", "4294967295", "4294967296", "99999999999", "340282350000000000000000000000000000000"]).to_string()
    } else if k < 84 {
        format!("{}.{}", rng.below(1000), rng.pick(&["0", "5", "25", "125", "1", "3", "75", "000", "10"]))
    } else if k < 87 {
        format!("{}.", rng.below(100))
    } else if k < 90 {
        format!(".{}", rng.below(1000))
    } else if k < 94 {
        format!("{}{}{}{}", rng.below(50), rng.pick(&["e", "E"]), rng.pick(&["", "+", "-"]), rng.below(12))
    } else if k < 96 {
        format!("{}{}", rng.pick(&["+", "-"]), rng.below(30))
    } else if k < 97 {
        rng.pick(&["nan", "inf", "NaN", "INF", "1e39", "1e-46", "3.4028235e38", "3.4028236e38", "1.17549435e-38", "7e-46", "0.1", "1.0000001"]).to_string()
    } else {
        // long decimal expansions (exact rounding)
        let mut s = format!("{}.", rng.below(10));
        for _ in 0..1 + rng.below(30) {
            s.push((b'0' + rng.below(10) as u8) as char);
        }
        s
    }
}

fn alphabet_letters(alpha: &str) -> Vec<char> {
    match alpha {
        "protein" => Protein::symbols().iter().map(|s| s.as_char()).collect(),
        _ => Dna::symbols().iter().map(|s| s.as_char()).collect(),
    }
}

fn gen_rec(rng: &mut Rng, alpha: &str, maxw: u64, canon: bool) -> Rec {
    let mut r = Rec::default();
    let opt = |rng: &mut Rng, p: u64, m: u64| if rng.chance(p, 10) { Some(gen_text(rng, m)) } else { None };
    r.id = opt(rng, 8, 20);
    r.ac = opt(rng, 6, 12);
    r.na = opt(rng, 5, 16);
    r.de = opt(rng, 5, 60);
    if rng.chance(19, 20) {
        let letters = alphabet_letters(alpha);
        let k = letters.len();
        // a permutation of a subset (mostly all non-wildcard symbols)
        let mut syms: Vec<char> = letters.clone();
        for i in (1..syms.len()).rev() {
            let j = rng.below(i as u64 + 1) as usize;
            syms.swap(i, j);
        }
        let wildcard = letters[k - 1];
        let m = rng.below(10);
        if m < 6 {
            syms.retain(|c| *c != wildcard);
        } else if m < 8 {
            // keep the wildcard too
        } else {
            let keep = 1 + rng.below(k as u64) as usize;
            syms.truncate(keep);
        }
        let w = 1 + rng.below(maxw);
        // row labels: usually 00../01.., sometimes crossing 99 -> 100 (three digits)
        let start = if rng.chance(1, 8) { 90 + rng.below(20) } else { rng.below(2) };
        let style = rng.below(4);
        let intonly = rng.chance(1, 2);
        // canonical layout parameters: column separator, PO/P0, text after the counts
        r.sep = if canon { let b = blanks(rng, 1, 7); b } else { "  ".to_string() };
        r.po = canon && rng.chance(1, 3);
        let cons = canon && rng.chance(1, 2);
        for i in 0..w {
            let n = i + start;
            let label = if style < 2 {
                format!("{:02}", n)
            } else if style == 2 {
                format!("{}", n)
            } else {
                format!("{:03}", n)
            };
            let toks = syms.iter().map(|_| if intonly { rng.below(200).to_string() } else { gen_token(rng) }).collect();
            let tail = if cons {
                let mut t = blanks(rng, 1, 6);
                t.push(*rng.pick(&['A', 'C', 'G', 'T', 'N', 'W', 'y', 'r', 'k', 'é']));
                if rng.chance(1, 10) {
                    t += " x";
                }
                t
            } else if canon && rng.chance(1, 8) {
                blanks(rng, 1, 3)
            } else {
                String::new()
            };
            r.rows.push((label, toks, tail));
        }
        r.syms = syms;
        // canonical layout: own blanks per column entry (right-aligned columns or random)
        let mode = if canon { rng.below(3) } else { 0 };
        if mode == 1 {
            let wmax = r.rows.iter().flat_map(|(_, t, _)| t.iter().map(|x| x.len())).max().unwrap_or(1);
            let w = wmax + 1 + rng.below(4) as usize;
            r.hseps = r.syms.iter().map(|_| " ".repeat(w - 1)).collect();
            for (_, toks, _) in r.rows.iter_mut() {
                for t in toks.iter_mut() {
                    let pad = " ".repeat(w - t.len());
                    *t = format!("{}^{}", hex(pad.as_bytes()), t);
                }
            }
        } else if mode == 2 {
            r.hseps = r.syms.iter().map(|_| blanks(rng, 1, 5)).collect();
            for (_, toks, _) in r.rows.iter_mut() {
                for t in toks.iter_mut() {
                    if rng.chance(2, 3) {
                        let pad = blanks(rng, 1, 5);
                        *t = format!("{}^{}", hex(pad.as_bytes()), t);
                    }
                }
            }
        }
    }
    {
        for i in 0..(if rng.chance(1, 3) { 1 + rng.below(3) } else { 0 }) {
            let clean = |s: String| s.replace('.', "_");
            r.refs.push(RefRec {
                local: (i as u32 + 1) * if rng.chance(1, 10) { 1000 } else { 1 },
                xref: if rng.chance(1, 2) { Some(format!("RE{:07}", rng.below(10000000))) } else { None },
                title: if rng.chance(2, 3) { Some(gen_text(rng, 40)) } else { None },
                link: if rng.chance(2, 3) { Some(gen_text(rng, 30)) } else { None },
                pmid: if rng.chance(1, 2) { Some(clean(rng.below(100000000).to_string())) } else { None },
            });
        }
    }
    if canon {
        // the lines in random order, XX lines and BA/BS/BF/CO lines sprinkled in
        let mut items: Vec<String> = vec![];
        if r.ac.is_some() {
            items.push("A".to_string());
        }
        if r.id.is_some() {
            items.push("I".to_string());
        }
        if r.na.is_some() {
            items.push("N".to_string());
        }
        if r.de.is_some() {
            items.push("D".to_string());
        }
        if !r.syms.is_empty() {
            items.push("M".to_string());
        }
        for it in items.iter_mut() {
            if it.as_str() != "M" && rng.chance(1, 3) {
                let pad = blanks(rng, 0, 4);
                *it = format!("{}~{}", it, hex(pad.as_bytes()));
            }
        }
        if rng.chance(2, 3) {
            for i in (1..items.len()).rev() {
                let j = rng.below(i as u64 + 1) as usize;
                items.swap(i, j);
            }
        }
        // reference blocks at random places, in their own order
        let mut at: Vec<usize> = (0..r.refs.len()).map(|_| rng.below(items.len() as u64 + 1) as usize).collect();
        at.sort();
        for (i, pos) in at.iter().enumerate().rev() {
            items.insert(*pos, format!("R{}", i));
        }
        for _ in 0..(if rng.chance(1, 2) { rng.below(4) } else { 0 }) {
            let k = *rng.pick(&["a", "s", "f", "c"]);
            let text = if rng.chance(3, 4) { format!("  {}", gen_text(rng, 30)) } else { gen_text(rng, 12) };
            let pos = rng.below(items.len() as u64 + 1) as usize;
            items.insert(pos, format!("s{}{}", k, hex(text.as_bytes())));
        }
        // comment runs and date lines
        for _ in 0..(if rng.chance(1, 3) { 1 + rng.below(2) } else { 0 }) {
            let n = 1 + rng.below(3);
            let texts: Vec<String> = (0..n)
                .map(|_| {
                    let t = if rng.chance(3, 4) { format!("  comment {}", rng.below(100)) } else { gen_text(rng, 20) };
                    hex(t.as_bytes())
                })
                .collect();
            let pos = rng.below(items.len() as u64 + 1) as usize;
            items.insert(pos, format!("c{}", texts.join(".")));
        }
        for _ in 0..(if rng.chance(1, 3) { 1 + rng.below(2) } else { 0 }) {
            let author = if rng.chance(2, 3) { rng.pick(&["ewi", "abc", "x y", ""]).to_string() } else { gen_text(rng, 10).replace('.', "_") };
            let code = format!(
                "d{}.{}.{}.{}.{}",
                if rng.chance(1, 2) { format!("{:02}", 1 + rng.below(28)) } else { (1 + rng.below(28)).to_string() },
                if rng.chance(1, 2) { format!("{:02}", 1 + rng.below(12)) } else { (1 + rng.below(12)).to_string() },
                1990 + rng.below(40),
                if rng.chance(1, 2) { "c" } else { "u" },
                hex(author.as_bytes())
            );
            let pos = rng.below(items.len() as u64 + 1) as usize;
            items.insert(pos, code);
        }
        let xx = rng.below(3); // 0: after every line, 1: random, 2: none
        let mut order: Vec<String> = vec![];
        for it in items {
            order.push(it);
            if xx == 0 || (xx == 1 && rng.chance(1, 2)) {
                order.push("X".to_string());
                if rng.chance(1, 10) {
                    order.push("X".to_string());
                }
            }
        }
        if order.is_empty() && rng.chance(1, 2) {
            order.push("X".to_string());
        }
        // two adjacent comment runs would be one run: separate them
        let mut k = 1;
        while k < order.len() {
            if order[k].starts_with('c') && order[k - 1].starts_with('c') {
                order.insert(k, "X".to_string());
            }
            k += 1;
        }
        // an empty order means "default order": keep the encoding unambiguous
        if order.is_empty() {
            r.id = None;
            r.ac = None;
            r.na = None;
            r.de = None;
            r.syms.clear();
            r.rows.clear();
        }
        r.order = order;
    }
    r
}

struct FileSpec {
    alpha: String,
    crlf: bool,
    fnl: bool,
    vv: Option<String>,
    lay: Option<u64>,
    recs: Vec<Rec>,
}

impl FileSpec {
    fn bytes(&self) -> Vec<u8> {
        let eol = if self.crlf { "\r\n" } else { "\n" };
        match self.lay {
            None => print_canon(&self.vv, &self.recs, eol, self.fnl),
            Some(seed) => print_varied(&self.vv, &self.recs, eol, self.fnl, seed),
        }
    }
    fn tokens(&self) -> String {
        format!(
            "alpha={} le={} fnl={} vv={} lay={}{}",
            self.alpha,
            if self.crlf { "crlf" } else { "lf" },
            self.fnl as u8,
            opt_hex(self.vv.as_deref()),
            match self.lay {
                None => "canon".to_string(),
                Some(s) => s.to_string(),
            },
            // canonical files are generated inside the hypothesis of the round-trip theorem
            // (TransfacPrint.wf_file); the driver evaluates the extracted wf_file to confirm it
            if self.lay.is_none() { " wf=1" } else { "" }
        )
    }
}

fn gen_file(rng: &mut Rng, nrec: u64, maxw: u64) -> FileSpec {
    let alpha = if rng.chance(1, 6) { "protein" } else { "dna" }.to_string();
    let canon = rng.chance(1, 2);
    let mut recs: Vec<Rec> = (0..nrec).map(|_| gen_rec(rng, &alpha, maxw, canon)).collect();
    if recs.is_empty() {
        recs.push(gen_rec(rng, &alpha, maxw, canon));
    }
    let vv = if rng.chance(1, 3) {
        let mut t = gen_text(rng, 50);
        if t.is_empty() {
            t = "TRANSFAC MATRIX TABLE, Release 2.2".to_string();
        }
        Some(t)
    } else {
        None
    };
    FileSpec { alpha, crlf: rng.chance(1, 4), fnl: rng.chance(3, 4), vv, lay: if canon { None } else { Some(rng.next() >> 16) }, recs }
}

fn gen_pattern(rng: &mut Rng) -> String {
    let n = 1 + rng.below(10);
    (0..n)
        .map(|_| {
            let k = rng.below(10);
            let v = if k < 5 { 1 + rng.below(5) } else if k < 8 { 1 + rng.below(40) } else { 1 + rng.below(400) };
            v.to_string()
        })
        .collect::<Vec<_>>()
        .join(".")
}

fn gen_c14(rng: &mut Rng, id: usize, tier: &str) -> String {
    let k = rng.below(100);
    let (nrec, maxw) = if k < 55 {
        (1 + rng.below(5), 40)
    } else if k < 85 {
        (6 + rng.below(30), 20)
    } else if k < 96 || tier != "thorough" && k < 98 {
        (40 + rng.below(80), 12)
    } else {
        (120 + rng.below(181), 10)
    };
    let f = gen_file(rng, nrec, maxw);
    let recs: Vec<String> = f.recs.iter().map(enc_rec).collect();
    // two more requests after the end of input (C14.reader_roundtrip_post: the end of input is final)
    format!("g{} fmt=transfac {} caps=1,2,3,5,17,64,8192,1048576 pat={} post=2 recs={}", id, f.tokens(), gen_pattern(rng), recs.join(";"))
}

fn mutate(rng: &mut Rng, base: &[u8]) -> Vec<u8> {
    let mut d = base.to_vec();
    let interesting: &[u8] = b"ACGTNP0OXVIDRXLATEC/ \t\n\r.0123456789eE+-[];():\xff\xc3\xa9\xe2\x80\x83\x00";
    let pickb = |rng: &mut Rng| if rng.chance(3, 4) { interesting[rng.below(interesting.len() as u64) as usize] } else { rng.below(256) as u8 };
    match rng.below(13) {
        0 | 1 => {
            let k = rng.below(d.len() as u64 + 1) as usize;
            d.truncate(k);
        }
        2 | 3 => {
            for _ in 0..1 + rng.below(2) {
                if !d.is_empty() {
                    let k = rng.below(d.len() as u64) as usize;
                    d[k] = pickb(rng);
                }
            }
        }
        4 => {
            for _ in 0..1 + rng.below(2) {
                if !d.is_empty() {
                    let k = rng.below(d.len() as u64) as usize;
                    d.remove(k);
                }
            }
        }
        5 => {
            for _ in 0..1 + rng.below(2) {
                let k = rng.below(d.len() as u64 + 1) as usize;
                let b = pickb(rng);
                d.insert(k, b);
            }
        }
        6 => {
            // cut at a line boundary or inside the alphabet line, possibly add blanks
            let text = String::from_utf8_lossy(&d).to_string();
            if let Some(p) = text.find("P0").or_else(|| text.find("PO")) {
                let lim = text[p..].find('\n').map(|x| p + x).unwrap_or(text.len());
                let cut = p + rng.below((lim - p) as u64 + 2) as usize;
                d.truncate(cut.min(d.len()));
                for _ in 0..rng.below(4) {
                    d.push(*rng.pick(&[b' ', b'\t']));
                }
            }
        }
        7 => {
            // drop a whole line (missing terminator, ragged blocks)
            let lines: Vec<&[u8]> = d.split_inclusive(|b| *b == b'\n').collect();
            if !lines.is_empty() {
                let k = rng.below(lines.len() as u64) as usize;
                d = lines.iter().enumerate().filter(|(i, _)| *i != k).flat_map(|(_, l)| l.to_vec()).collect();
            }
        }
        8 => {
            // ragged / non numeric count line: rewrite one token of a count line
            let text = String::from_utf8_lossy(&d).to_string();
            let mut lines: Vec<String> = text.split_inclusive('\n').map(|s| s.to_string()).collect();
            let idx: Vec<usize> = lines.iter().enumerate().filter(|(_, l)| l.starts_with(|c: char| c.is_ascii_digit())).map(|(i, _)| i).collect();
            if !idx.is_empty() {
                let i = *rng.pick(&idx);
                let mut toks: Vec<String> = lines[i].split_whitespace().map(|s| s.to_string()).collect();
                let nl = if lines[i].ends_with("\r\n") { "\r\n" } else if lines[i].ends_with('\n') { "\n" } else { "" };
                match rng.below(4) {
                    0 => {
                        toks.pop();
                    }
                    1 => toks.push("7".to_string()),
                    2 => {
                        let k = rng.below(toks.len() as u64) as usize;
                        toks[k] = rng.pick(&["1e", "1e+", "x", "-", ".", "1..2", "e5", "1e5e", "nan", "-inf", "inf", "infinity", "0x10", "١", "1,5", "+", "4294967296", "99999999999999999999"]).to_string();
                    }
                    _ => {
                        toks.truncate(1);
                    }
                }
                lines[i] = toks.join("  ") + nl;
                d = lines.concat().into_bytes();
            }
        }
        9 => {
            // duplicate a line or a block of lines
            let lines: Vec<&[u8]> = d.split_inclusive(|b| *b == b'\n').collect();
            if !lines.is_empty() {
                let k = rng.below(lines.len() as u64) as usize;
                let mut out: Vec<u8> = vec![];
                for (i, l) in lines.iter().enumerate() {
                    out.extend_from_slice(l);
                    if i == k {
                        out.extend_from_slice(l);
                    }
                }
                d = out;
            }
        }
        10 => {
            // lone \r / \n swaps
            for b in d.iter_mut() {
                if *b == b'\n' && rng.chance(1, 6) {
                    *b = b'\r';
                }
            }
        }
        11 => {
            // blank lines / trailing garbage after the last terminator
            for _ in 0..1 + rng.below(3) {
                d.extend_from_slice(*rng.pick(&[&b"\n"[..], b" ", b"\r\n", b"//", b"XX\n", b"P0  ", b"P0", b"VV", b"RN [1]", b"\xf0\x9f"]));
            }
        }
        _ => {
            // splice two positions
            if d.len() > 4 {
                let a = rng.below(d.len() as u64) as usize;
                let b = rng.below(d.len() as u64) as usize;
                let (a, b) = (a.min(b), a.max(b));
                let piece: Vec<u8> = d[a..b].to_vec();
                let k = rng.below(d.len() as u64) as usize;
                for (i, x) in piece.into_iter().take(40).enumerate() {
                    d.insert(k + i, x);
                }
            }
        }
    }
    d
}

/// Damage to the UTF-8 structure of a valid file: an invalid byte (or a truncated / orphaned part of
/// a multi-byte character) substituted or inserted at any offset -- in particular on a line that is
/// not the first of its record, where `Reader::next` has already advanced `last` --, and whole
/// multi-byte characters at the start of a line or anywhere.
fn utf8_damage(rng: &mut Rng, base: &[u8]) -> Vec<u8> {
    let mut d = base.to_vec();
    let bad: &[&[u8]] = &[b"\xff", b"\xc3", b"\x80", b"\xa9", b"\xe2\x80", b"\xf0\x9f", b"\xc0\xaf", b"\xed\xa0\x80", b"\xf8"];
    let good: &[&str] = &["\u{e9}", "\u{2003}", "\u{20ac}", "\u{1d11e}", "\u{a0}", "\u{3000}"];
    let line_starts: Vec<usize> =
        std::iter::once(0).chain(d.iter().enumerate().filter(|(_, b)| **b == b'\n').map(|(i, _)| i + 1)).filter(|i| *i <= d.len()).collect();
    match rng.below(6) {
        0 | 1 => {
            // invalid bytes substituted at a random offset
            if !d.is_empty() {
                let k = rng.below(d.len() as u64) as usize;
                let b = *rng.pick(bad);
                for (i, x) in b.iter().enumerate() {
                    if k + i < d.len() && d[k + i] != b'\n' {
                        d[k + i] = *x;
                    }
                }
            }
        }
        2 => {
            // invalid bytes inserted at a random offset
            let k = rng.below(d.len() as u64 + 1) as usize;
            let b = *rng.pick(bad);
            for (i, x) in b.iter().enumerate() {
                d.insert(k + i, *x);
            }
        }
        3 => {
            // an invalid byte at the start of a line
            let k = *rng.pick(&line_starts);
            let b = *rng.pick(bad);
            for (i, x) in b.iter().enumerate() {
                d.insert(k + i, *x);
            }
        }
        4 => {
            // a multi-byte character at the start of a line
            let k = *rng.pick(&line_starts);
            let g = rng.pick(good).as_bytes().to_vec();
            for (i, x) in g.iter().enumerate() {
                d.insert(k + i, *x);
            }
        }
        _ => {
            // multi-byte characters anywhere
            for _ in 0..1 + rng.below(3) {
                let k = rng.below(d.len() as u64 + 1) as usize;
                let g = rng.pick(good).as_bytes().to_vec();
                for (i, x) in g.iter().enumerate() {
                    d.insert(k + i, *x);
                }
            }
        }
    }
    d
}

/// A script for `EvChunked`: chunk sizes with `fill_buf` failures (Eo) / interruptions (Ei) / transient ends of
/// input (Ez: an empty slice although more data follows) between them.
fn gen_script(rng: &mut Rng, len: usize) -> String {
    let mut ev: Vec<String> = vec![];
    match rng.below(4) {
        0 => {
            // one fault after a random number of bytes (any offset: inside a line, inside a character)
            ev.push((1 + rng.below(len as u64 + 1)).to_string());
            ev.push(if rng.chance(1, 4) { "Ez" } else { "Eo" }.to_string());
        }
        1 => {
            // faults after a few random prefixes, then the rest
            let mut left = len as u64;
            for _ in 0..1 + rng.below(4) {
                let n = 1 + rng.below(left.max(1));
                left = left.saturating_sub(n);
                ev.push(n.to_string());
                ev.push(match rng.below(6) { 0 => "Ei", 1 => "Ez", _ => "Eo" }.to_string());
            }
        }
        2 => {
            // a fault before anything is read / two faults in a row / a fault at the end of input
            if rng.chance(1, 2) {
                ev.push("Eo".to_string());
            }
            ev.push((1 + rng.below(len as u64 + 1)).to_string());
            ev.push("Eo".to_string());
            if rng.chance(1, 2) {
                ev.push("Eo".to_string());
            }
            if rng.chance(1, 2) {
                ev.push((len + 1).to_string());
                ev.push("Eo".to_string());
            }
        }
        _ => {
            // small chunks with sprinkled faults
            for _ in 0..2 + rng.below(12) {
                let k = rng.below(11);
                if k < 6 {
                    ev.push((1 + rng.below(12)).to_string());
                } else if k < 9 {
                    ev.push("Eo".to_string());
                } else if k < 10 {
                    ev.push("Ei".to_string());
                } else {
                    ev.push("Ez".to_string());
                }
            }
        }
    }
    ev.join(".")
}

fn gen_c15(rng: &mut Rng, id: usize, _tier: &str) -> String {
    let k = rng.below(100);
    let (alpha, data): (String, Vec<u8>) = if k < 4 {
        let n = rng.below(80) as usize;
        ("dna".to_string(), (0..n).map(|_| rng.below(256) as u8).collect())
    } else if k < 10 {
        let n = rng.below(120) as usize;
        let abc: &[u8] = b"ACGTNP0OXVIDRXLATEC/ \t\n\r.0123456789e+-[];():";
        ("dna".to_string(), (0..n).map(|_| abc[rng.below(abc.len() as u64) as usize]).collect())
    } else if k < 28 {
        // multi-record files with damaged UTF-8 (the reader must survive being polled after the error)
        let nrec = 2 + rng.below(3);
        let f = gen_file(rng, nrec, 4);
        let mut d = f.bytes();
        for _ in 0..1 + rng.below(2) {
            d = utf8_damage(rng, &d);
        }
        if rng.chance(1, 5) {
            d = mutate(rng, &d);
        }
        (f.alpha.clone(), d)
    } else {
        let nrec = 1 + rng.below(3);
        let f = gen_file(rng, nrec, 5);
        let mut d = f.bytes();
        let rounds = if k < 36 { 0 } else if k < 88 { 1 } else { 2 };
        for _ in 0..rounds {
            d = mutate(rng, &d);
        }
        (f.alpha.clone(), d)
    };
    let caps = match rng.below(4) {
        0 => "1,8192",
        1 => "2,64",
        2 => "3,1048576",
        _ => "5,17",
    };
    let pat = gen_pattern(rng);
    // requests made after the first error / end of input
    let post = *rng.pick(&[0u64, 1, 2, 3, 4, 4, 4, 6]);
    // streams whose fill_buf fails: 0..2 scripts
    let nscripts = match rng.below(10) {
        0..=4 => 0,
        5..=8 => 1,
        _ => 2,
    };
    let evs: Vec<String> = (0..nscripts).map(|_| gen_script(rng, data.len())).collect();
    let evs = if evs.is_empty() { String::new() } else { format!(" evs={}", evs.join("/")) };
    format!("g{} fmt=transfac alpha={} caps={} pat={} post={}{} data={}", id, alpha, caps, pat, post, evs, hex(&data))
}

// ---------------------------------------------------------------- main

fn main() {
    silence_panics();
    let args = parse_args();
    let prop = args.cmd.clone();
    let sub = args.rest.first().cloned().unwrap_or_default();
    match (prop.as_str(), sub.as_str()) {
        ("c14", "gen") | ("c15", "gen") => {
            let mut rng = Rng::new(args.seed ^ if prop == "c14" { 0xC14 } else { 0xC15 });
            for i in 0..args.n {
                // every case has its own generator state, so that a case replays alone
                let mut r = Rng::new(rng.next());
                if prop == "c14" {
                    println!("{}", gen_c14(&mut r, i, &args.tier));
                } else {
                    println!("{}", gen_c15(&mut r, i, &args.tier));
                }
            }
        }
        ("c14", "run") | ("c15", "run") => {
            for line in stdin_lines() {
                // corpus lines of the other C14/C15 group (JASPAR, JASPAR16, UniPROBE) are not ours
                if !line.split(' ').any(|t| t == "fmt=transfac") {
                    println!("{} => skip", line);
                    continue;
                }
                let (_id, f) = fields(&line);
                let alpha = f.get("alpha").cloned().unwrap_or_else(|| "dna".to_string());
                let chs = chunkings(&f);
                let post: usize = f.get("post").and_then(|s| s.parse().ok()).unwrap_or(0);
                if let Some(d) = f.get("data") {
                    let data = unhex(d);
                    println!("{} => obs={}{}", line, observe(&alpha, &data, &chs, post), observe_ev(&alpha, &data, &f, post));
                } else if let Some(p) = f.get("file") {
                    // bundled files are read from the tree under test (VERIF_REPO=<scratch worktree>)
                    let path = match (std::env::var("VERIF_REPO"), p.strip_prefix("/repo/")) {
                        (Ok(root), Some(rel)) if !root.is_empty() => format!("{}/{}", root.trim_end_matches('/'), rel),
                        _ => p.clone(),
                    };
                    let data = std::fs::read(&path).unwrap_or_default();
                    println!("{} => data={} obs={}", line, hex(&data), observe(&alpha, &data, &chs, post));
                } else {
                    let recs: Vec<Rec> = f.get("recs").map(|s| s.split(';').map(dec_rec).collect()).unwrap_or_default();
                    let spec = FileSpec {
                        alpha: alpha.clone(),
                        crlf: f.get("le").map(|s| s == "crlf").unwrap_or(false),
                        fnl: f.get("fnl").map(|s| s == "1").unwrap_or(true),
                        vv: f.get("vv").and_then(|s| opt_unhex(s)),
                        lay: f.get("lay").and_then(|s| s.parse().ok()),
                        recs,
                    };
                    let data = spec.bytes();
                    println!("{} => data={} obs={}", line, hex(&data), observe(&alpha, &data, &chs, post));
                }
            }
        }
        _ => {
            eprintln!("usage: transfac c14|c15 gen --seed S --n N [--tier t] | transfac c14|c15 run");
            std::process::exit(2);
        }
    }
}
