//! C07 harness: maximum / arg-maximum / threshold of striped score matrices.
//!
//! `maxi gen --seed S --n N [--tier t]` prints input lines
//!     <id> k=f32|f16|f48|f64|u8|b16|b48|b64 R=<rows> mi=<max_index> t=<threshold> m=<row/row/...>
//!     <id> k=e2e pssm=<row/row/...> seq=<ACTGN...>
//! (f32 cells and thresholds as decimal u32 bit patterns, u8 as decimal, cells of a row
//! separated by `,`, `m=-` for a matrix without rows, `m=@v p=r:c:v;...` a constant matrix with planted cells; `f16` / `f48` / `f64` are f32 and `b16` / `b48` / `b64` u8 with 16 / 48 / 64 columns).
//! Optional on the matrix kinds: `h=<op>;<op>;...` a HISTORY of the (one, reused) StripedScores buffer before
//! the final `resize(R, mi)` + cell writes: `r<rows>:<v>` = `scores.resize(rows, rows*C)` then every cell of
//! rows 0..rows := v; `d<rows>:<v>` = `scores.matrix_mut().resize(rows)` then the same fill; `S<g|s|a><a>-<b>`
//! (k=f32 / k=u8 only) = `Pipeline::generic()/sse2()/avx2().score_rows_into(pssm, seq, a..b, &mut scores)` of a
//! built-in motif and sequence (12 rows).  `w=<k>`: only the first k rows of `m` are written after the final
//! resize (the other rows keep what the buffer holds: kept content or default rows).
//! `k=e2e ... rr=a-b;c-d;... t=<bits> [dt=u8]`: the Scanner pattern -- score_rows_into of each row range in turn
//! into ONE buffer; the observation is that of the last range, with `X.ix`, `X.th` in addition.
//! `<id> k=pad src=sample|text|new ... t=<bits> pssm=<rows>`: the padding clause end to end (see `run_pad`):
//!     src=sample sd=<seed> bg=<0|1|2> L=<len>   StripedSequence::sample(StdRng::seed_from_u64(sd), background, L)
//!     src=text L=<len> seq=<ACTGN...>           EncodedSequence::encode(seq).to_striped()
//!     src=new L=<len> sm=<row/row/...>          StripedSequence::new on a hand-filled matrix (digits = symbol indices)
//! observation `sR sL q pd` + per scoring pg / ps / pa / dG / dS / dA: `X.R X.mi X.c X.max X.am X.th` (`X.ix`).
//! `maxi corpus` prints the boundary corpus (same format).
//! `maxi run` appends ` => key=value ...` with, for every entry point,
//!     <p>.max  N | <value>        <p>.am  N | <row>:<col> (or an offset)      <p>.th  - | r:c,r:c,...
//! and `P` where the call panicked.  Entry points <p>:
//!     g / s / a     Pipeline::generic() / sse2() / avx2()
//!     dG / dS / dA  Pipeline::dispatch() with the arm forced
//!     sG / sS / sA  StripedScores::{max,argmax,threshold} with the arm forced (offsets; `.ix` is
//!                   scores[argmax offset])
//!     lin           Scores::{max,argmax,threshold} of scores.unstripe()
//! For `e2e`: per forced arm X, `X.R` rows, `X.mi` max_index, `X.c` all cells, `X.max`, `X.am`.
//! Matrix kinds also print `h.R` = matrix().rows(), `h.it` = matrix().iter().count(), `h.lh` / `h.ih` = hash of
//! the cells of rows 0..rows() (through Index) / of the rows yielded by matrix().iter().

use lightmotif::abc::Background;
use lightmotif::abc::Dna;
use lightmotif::dense::DenseMatrix;
use lightmotif::dense::MatrixCoordinates;
use lightmotif::dense::MatrixElement;
use lightmotif::num::PositiveLength;
use lightmotif::pli::Score;
use lightmotif::pwm::DiscreteMatrix;
use lightmotif::seq::StripedSequence;
use lightmotif::num::{U16, U32, U48, U64};
use lightmotif::pli::dispatch::Dispatch;
use lightmotif::pli::verif::force_backend;
use lightmotif::pli::Maximum;
use lightmotif::pli::Pipeline;
use lightmotif::pli::Threshold;
use lightmotif::pwm::CountMatrix;
use lightmotif::pwm::ScoringMatrix;
use lightmotif::scores::Scores;
use lightmotif::scores::StripedScores;
use lightmotif::seq::EncodedSequence;
use lmh::*;

// ---------------------------------------------------------------- formatting

fn show_opt<T: ToString>(r: Option<Option<T>>) -> String {
    match r {
        None => "P".to_string(),
        Some(None) => "N".to_string(),
        Some(Some(v)) => v.to_string(),
    }
}

fn show_mc(r: Option<Option<MatrixCoordinates>>) -> String {
    show_opt(r.map(|o| o.map(|mc| format!("{}:{}", mc.row, mc.col))))
}

fn show_mcs(r: Option<Vec<MatrixCoordinates>>) -> String {
    match r {
        None => "P".to_string(),
        Some(v) if v.is_empty() => "-".to_string(),
        Some(v) => v
            .iter()
            .map(|mc| format!("{}:{}", mc.row, mc.col))
            .collect::<Vec<_>>()
            .join(","),
    }
}

fn show_list<T: ToString>(r: Option<Vec<T>>) -> String {
    match r {
        None => "P".to_string(),
        Some(v) if v.is_empty() => "-".to_string(),
        Some(v) => v.iter().map(|x| x.to_string()).collect::<Vec<_>>().join(","),
    }
}

fn parse_matrix(s: &str) -> Vec<Vec<u32>> {
    if s == "-" || s.is_empty() {
        return vec![];
    }
    s.split('/')
        .map(|r| r.split(',').map(|x| x.parse().unwrap()).collect())
        .collect()
}

/// `m=@<v>` (with `R=<rows>` and the column count of the kind) is a constant matrix; `p=r:c:v;...`
/// then overrides single cells (compact form of the very tall corpus matrices).
fn parse_matrix_fields(f: &std::collections::HashMap<String, String>, cols: usize) -> Vec<Vec<u32>> {
    let ms = &f["m"];
    let mut m = if let Some(v) = ms.strip_prefix('@') {
        let rows: usize = f["R"].parse().unwrap();
        vec![vec![v.parse().unwrap(); cols]; rows]
    } else {
        parse_matrix(ms)
    };
    if let Some(ps) = f.get("p") {
        for cell in ps.split(';').filter(|x| !x.is_empty()) {
            let t: Vec<usize> = cell.split(':').map(|x| x.parse().unwrap()).collect();
            m[t[0]][t[1]] = t[2] as u32;
        }
    }
    m
}

fn show_matrix(m: &[Vec<u32>]) -> String {
    if m.is_empty() {
        return "-".to_string();
    }
    m.iter()
        .map(|r| r.iter().map(|x| x.to_string()).collect::<Vec<_>>().join(","))
        .collect::<Vec<_>>()
        .join("/")
}

fn arm_name(a: &Dispatch) -> &'static str {
    match a {
        Dispatch::Generic => "G",
        Dispatch::Sse2 => "S",
        Dispatch::Avx2 => "A",
    }
}

const ARMS: [Dispatch; 3] = [Dispatch::Generic, Dispatch::Sse2, Dispatch::Avx2];


// ---------------------------------------------------------------- reused buffers

type Fields = std::collections::HashMap<String, String>;

/// hash of a sequence of rows of cells (the same fold as `hash_rows` of ocaml/maxi/driver.ml)
struct RowHash(u64);
const HASH_MOD: u64 = 2147483647; // 2^31 - 1
impl RowHash {
    fn new() -> Self {
        RowHash(2166136261 % HASH_MOD)
    }
    fn step(&mut self, x: u64) {
        self.0 = (self.0 * 16777619 + x + 1) % HASH_MOD;
    }
    fn row(&mut self, cells: impl Iterator<Item = u32>) {
        self.step(4294967311);
        for c in cells {
            self.step(c as u64);
        }
    }
}

/// built-in motif / sequence of the `S` history steps: 12 rows of 32 columns
struct ScoreCtx {
    pssm: ScoringMatrix<Dna>,
    dm: DiscreteMatrix<Dna>,
    striped: StripedSequence<Dna, U32>,
}

fn score_ctx() -> ScoreCtx {
    const PATTERNS: &[&str] = &["GTTGACCTTATCAAC", "GTTGATCCAGTCAAC"];
    let mut state = 0x2545_F491u32;
    let mut seq: Vec<u8> = (0..384)
        .map(|_| {
            state = state.wrapping_mul(1_664_525).wrapping_add(1_013_904_223);
            b"ACGT"[(state >> 24) as usize & 3]
        })
        .collect();
    seq[5..5 + 15].copy_from_slice(PATTERNS[0].as_bytes());
    seq[200..200 + 15].copy_from_slice(PATTERNS[1].as_bytes());
    let enc = EncodedSequence::<Dna>::encode(String::from_utf8(seq).unwrap()).unwrap();
    let mut striped = enc.to_striped::<U32>();
    let cm = CountMatrix::<Dna>::from_sequences(PATTERNS.iter().map(|x| EncodedSequence::encode(x).unwrap())).unwrap();
    let pssm = cm.to_freq(0.1).to_scoring(None);
    striped.configure(&pssm);
    let dm = pssm.to_discrete();
    ScoreCtx { pssm, dm, striped }
}

fn parse_range(s: &str) -> std::ops::Range<usize> {
    let (a, b) = s.split_once('-').unwrap();
    a.parse().unwrap()..b.parse().unwrap()
}

/// Build the score buffer of a matrix case: the history `h=` (if any) on one `StripedScores`, then
/// `resize(R, mi)` and the cells of the first `w` rows of `m`.
fn build_scores<T: MatrixElement, C: PositiveLength>(
    m: &[Vec<u32>],
    mi: usize,
    f: &Fields,
    conv: fn(u32) -> T,
    score: &dyn Fn(&mut StripedScores<T, C>, char, std::ops::Range<usize>),
) -> StripedScores<T, C> {
    let mut s = StripedScores::<T, C>::empty();
    if let Some(h) = f.get("h") {
        for op in h.split(';').filter(|x| !x.is_empty()) {
            let kind = op.as_bytes()[0] as char;
            match kind {
                'r' | 'd' => {
                    let (rows, v) = op[1..].split_once(':').unwrap();
                    let rows: usize = rows.parse().unwrap();
                    let v = conv(v.parse().unwrap());
                    if kind == 'r' {
                        s.resize(rows, rows * C::USIZE);
                    } else {
                        s.matrix_mut().resize(rows);
                    }
                    for r in 0..rows {
                        for c in 0..C::USIZE {
                            s.matrix_mut()[r][c] = v;
                        }
                    }
                }
                'S' => score(&mut s, op.as_bytes()[1] as char, parse_range(&op[2..])),
                _ => panic!("unknown history step {}", op),
            }
        }
    }
    s.resize(m.len(), mi);
    let w = f.get("w").map(|x| x.parse().unwrap()).unwrap_or(m.len());
    for (r, row) in m.iter().enumerate().take(w) {
        for (c, &v) in row.iter().enumerate() {
            s.matrix_mut()[r][c] = conv(v);
        }
    }
    s
}

/// the logical content (rows 0..rows(), read through Index) + the `h.*` observations
fn buffer_obs<T: MatrixElement, C: PositiveLength>(s: &StripedScores<T, C>, bits: fn(T) -> u32) -> (Vec<Vec<u32>>, String) {
    let rows = s.matrix().rows();
    let m: Vec<Vec<u32>> = (0..rows)
        .map(|r| (0..C::USIZE).map(|c| bits(s.matrix()[r][c])).collect())
        .collect();
    let mut lh = RowHash::new();
    for row in m.iter() {
        lh.row(row.iter().cloned());
    }
    let mut ih = RowHash::new();
    let mut it = 0usize;
    for row in s.matrix().iter() {
        ih.row(row.iter().map(|&x| bits(x)));
        it += 1;
    }
    (m, format!("h.R={} h.it={} h.lh={} h.ih={}", rows, it, lh.0, ih.0))
}

fn no_score<T: MatrixElement, C: PositiveLength>(_: &mut StripedScores<T, C>, _: char, _: std::ops::Range<usize>) {
    panic!("S history steps need k=f32 or k=u8");
}

// ---------------------------------------------------------------- running

/// Linear scores built from the cells in column-major order, truncated at
/// min(max_index, rows * C), and whether `unstripe()` returned the same vector.
fn linear_f32(m: &[Vec<u32>], mi: usize, cols: usize, unstriped: Option<Scores<f32>>) -> (Scores<f32>, bool) {
    let n = mi.min(m.len() * cols);
    let flat: Vec<f32> = (0..n).map(|i| f32::from_bits(m[i % m.len()][i / m.len()])).collect();
    let same = match unstriped {
        Some(u) => u.len() == flat.len() && u.iter().zip(flat.iter()).all(|(a, b)| a.to_bits() == b.to_bits()),
        None => false,
    };
    (Scores::new(flat), same)
}

fn run_f32_32(m_in: &[Vec<u32>], mi: usize, t: u32, f: &Fields) -> String {
    let score = |s: &mut StripedScores<f32, U32>, arm: char, rows: std::ops::Range<usize>| {
        let ctx = score_ctx();
        match arm {
            'g' => Pipeline::<Dna, _>::generic().score_rows_into(&ctx.pssm, &ctx.striped, rows, s),
            's' => Pipeline::<Dna, _>::sse2().unwrap().score_rows_into(&ctx.pssm, &ctx.striped, rows, s),
            _ => Pipeline::<Dna, _>::avx2().unwrap().score_rows_into(&ctx.pssm, &ctx.striped, rows, s),
        }
    };
    let s = build_scores::<f32, U32>(m_in, mi, f, f32::from_bits, &score);
    let (m, hobs) = buffer_obs(&s, f32::to_bits);
    let m = &m[..];
    let t = f32::from_bits(t);
    let mut out: Vec<String> = vec![hobs];
    macro_rules! pipeline {
        ($name:expr, $pli:expr) => {{
            let p = $pli;
            out.push(format!("{}.max={}", $name, show_opt(no_panic(|| p.max(&s).map(f32::to_bits)))));
            out.push(format!("{}.am={}", $name, show_mc(no_panic(|| p.argmax(&s)))));
            out.push(format!("{}.th={}", $name, show_mcs(no_panic(|| p.threshold(&s, t)))));
        }};
    }
    pipeline!("g", Pipeline::<Dna, _>::generic());
    pipeline!("s", Pipeline::<Dna, _>::sse2().unwrap());
    pipeline!("a", Pipeline::<Dna, _>::avx2().unwrap());
    for arm in ARMS.iter() {
        force_backend(Some(arm.clone()));
        let n = arm_name(arm);
        pipeline!(format!("d{}", n), Pipeline::<Dna, Dispatch>::dispatch());
        out.push(format!("s{}.max={}", n, show_opt(no_panic(|| s.max().map(f32::to_bits)))));
        let am = no_panic(|| s.argmax());
        out.push(format!("s{}.am={}", n, show_opt(am)));
        if let Some(Some(off)) = am {
            out.push(format!("s{}.ix={}", n, show_opt(no_panic(|| Some(s[off].to_bits())))));
        }
        out.push(format!("s{}.th={}", n, show_list(no_panic(|| s.threshold(t)))));
        force_backend(None);
    }
    let (lin, same) = linear_f32(m, mi, 32, no_panic(|| s.unstripe()));
    out.push(format!("lin.u={}", same as u8));
    out.push(format!("lin.n={}", lin.len()));
    out.push(format!("lin.max={}", show_opt(no_panic(|| lin.max().map(f32::to_bits)))));
    out.push(format!("lin.am={}", show_opt(no_panic(|| lin.argmax()))));
    out.push(format!("lin.th={}", show_list(no_panic(|| lin.threshold(&t)))));
    out.join(" ")
}

/// f32 matrices with another column count (16, 48): Pipeline::generic() and Pipeline::sse2()
/// (any multiple of 16 columns) + linear scores.
fn run_f32_cols<C>(m_in: &[Vec<u32>], mi: usize, t: u32, f: &Fields) -> String
where
    C: lightmotif::num::PositiveLength + lightmotif::num::MultipleOf<U16>,
    Pipeline<Dna, lightmotif::pli::platform::Generic>: Maximum<f32, C> + Threshold<f32, C>,
    Pipeline<Dna, lightmotif::pli::platform::Sse2>: Maximum<f32, C> + Threshold<f32, C>,
{
    let cols = C::USIZE;
    let s = build_scores::<f32, C>(m_in, mi, f, f32::from_bits, &no_score::<f32, C>);
    let (m, hobs) = buffer_obs(&s, f32::to_bits);
    let m = &m[..];
    let t = f32::from_bits(t);
    let mut out: Vec<String> = vec![hobs];
    macro_rules! pipeline {
        ($name:expr, $pli:expr) => {{
            let p = $pli;
            out.push(format!("{}.max={}", $name, show_opt(no_panic(|| p.max(&s).map(f32::to_bits)))));
            out.push(format!("{}.am={}", $name, show_mc(no_panic(|| p.argmax(&s)))));
            out.push(format!("{}.th={}", $name, show_mcs(no_panic(|| p.threshold(&s, t)))));
        }};
    }
    pipeline!("g", Pipeline::<Dna, _>::generic());
    pipeline!("s", Pipeline::<Dna, _>::sse2().unwrap());
    let (lin, same) = linear_f32(m, mi, cols, no_panic(|| s.unstripe()));
    out.push(format!("lin.u={}", same as u8));
    out.push(format!("lin.n={}", lin.len()));
    out.push(format!("lin.max={}", show_opt(no_panic(|| lin.max().map(f32::to_bits)))));
    out.push(format!("lin.am={}", show_opt(no_panic(|| lin.argmax()))));
    out.push(format!("lin.th={}", show_list(no_panic(|| lin.threshold(&t)))));
    out.join(" ")
}

/// u8 matrices with another column count (16, 48, 64): Pipeline::generic() and Pipeline::sse2()
/// (default implementations) + linear scores.
fn run_u8_cols<C>(m_in: &[Vec<u32>], mi: usize, t: u32, f: &Fields) -> String
where
    C: lightmotif::num::PositiveLength + lightmotif::num::MultipleOf<U16>,
    Pipeline<Dna, lightmotif::pli::platform::Generic>: Maximum<u8, C> + Threshold<u8, C>,
    Pipeline<Dna, lightmotif::pli::platform::Sse2>: Maximum<u8, C> + Threshold<u8, C>,
{
    let cols = C::USIZE;
    let s = build_scores::<u8, C>(m_in, mi, f, |v| v as u8, &no_score::<u8, C>);
    let (m, hobs) = buffer_obs(&s, |x| x as u32);
    let m = &m[..];
    let t = t as u8;
    let mut out: Vec<String> = vec![hobs];
    macro_rules! pipeline {
        ($name:expr, $pli:expr) => {{
            let p = $pli;
            out.push(format!("{}.max={}", $name, show_opt(no_panic(|| p.max(&s)))));
            out.push(format!("{}.am={}", $name, show_mc(no_panic(|| p.argmax(&s)))));
            out.push(format!("{}.th={}", $name, show_mcs(no_panic(|| p.threshold(&s, t)))));
        }};
    }
    pipeline!("g", Pipeline::<Dna, _>::generic());
    pipeline!("s", Pipeline::<Dna, _>::sse2().unwrap());
    let n = mi.min(m.len() * cols);
    let flat: Vec<u8> = (0..n).map(|i| m[i % m.len()][i / m.len()] as u8).collect();
    let same = no_panic(|| s.unstripe()).map(|u| *u == flat).unwrap_or(false);
    let lin = Scores::new(flat);
    out.push(format!("lin.u={}", same as u8));
    out.push(format!("lin.n={}", lin.len()));
    out.push(format!("lin.max={}", show_opt(no_panic(|| lin.max()))));
    out.push(format!("lin.am={}", show_opt(no_panic(|| lin.argmax()))));
    out.push(format!("lin.th={}", show_list(no_panic(|| lin.threshold(&t)))));
    out.join(" ")
}

fn run_u8_32(m_in: &[Vec<u32>], mi: usize, t: u32, f: &Fields) -> String {
    let score = |s: &mut StripedScores<u8, U32>, arm: char, rows: std::ops::Range<usize>| {
        let ctx = score_ctx();
        match arm {
            'g' => Pipeline::<Dna, _>::generic().score_rows_into(&ctx.dm, &ctx.striped, rows, s),
            's' => Pipeline::<Dna, _>::sse2().unwrap().score_rows_into(&ctx.dm, &ctx.striped, rows, s),
            _ => Pipeline::<Dna, _>::avx2().unwrap().score_rows_into(&ctx.dm, &ctx.striped, rows, s),
        }
    };
    let s = build_scores::<u8, U32>(m_in, mi, f, |v| v as u8, &score);
    let (m, hobs) = buffer_obs(&s, |x| x as u32);
    let m = &m[..];
    let t = t as u8;
    let mut out: Vec<String> = vec![hobs];
    macro_rules! pipeline {
        ($name:expr, $pli:expr) => {{
            let p = $pli;
            out.push(format!("{}.max={}", $name, show_opt(no_panic(|| p.max(&s)))));
            out.push(format!("{}.am={}", $name, show_mc(no_panic(|| p.argmax(&s)))));
            out.push(format!("{}.th={}", $name, show_mcs(no_panic(|| p.threshold(&s, t)))));
        }};
    }
    pipeline!("g", Pipeline::<Dna, _>::generic());
    pipeline!("s", Pipeline::<Dna, _>::sse2().unwrap());
    pipeline!("a", Pipeline::<Dna, _>::avx2().unwrap());
    for arm in ARMS.iter() {
        force_backend(Some(arm.clone()));
        let n = arm_name(arm);
        pipeline!(format!("d{}", n), Pipeline::<Dna, Dispatch>::dispatch());
        out.push(format!("s{}.max={}", n, show_opt(no_panic(|| s.max()))));
        let am = no_panic(|| s.argmax());
        out.push(format!("s{}.am={}", n, show_opt(am)));
        if let Some(Some(off)) = am {
            out.push(format!("s{}.ix={}", n, show_opt(no_panic(|| Some(s[off])))));
        }
        out.push(format!("s{}.th={}", n, show_list(no_panic(|| s.threshold(t)))));
        force_backend(None);
    }
    let n = mi.min(m.len() * 32);
    let flat: Vec<u8> = (0..n).map(|i| m[i % m.len()][i / m.len()] as u8).collect();
    let same = no_panic(|| s.unstripe()).map(|u| *u == flat).unwrap_or(false);
    let lin = Scores::new(flat);
    out.push(format!("lin.u={}", same as u8));
    out.push(format!("lin.n={}", lin.len()));
    out.push(format!("lin.max={}", show_opt(no_panic(|| lin.max()))));
    out.push(format!("lin.am={}", show_opt(no_panic(|| lin.argmax()))));
    out.push(format!("lin.th={}", show_list(no_panic(|| lin.threshold(&t)))));
    out.join(" ")
}

/// End-to-end padding claim: real ScoringMatrix (wildcard column -inf) + sequence -> score -> max.
/// With `rr`: the Scanner pattern -- `score_rows_into` of each row range in turn into ONE buffer
/// (f32, or u8 through `to_discrete()` when `dt=u8`), then max / argmax / threshold of the buffer.
fn run_e2e(pssm: &[Vec<u32>], seq: &str, f: &Fields) -> String {
    let mut out: Vec<String> = vec![];
    let ranges: Option<Vec<std::ops::Range<usize>>> =
        f.get("rr").map(|x| x.split(';').filter(|y| !y.is_empty()).map(parse_range).collect());
    let discrete = f.get("dt").map(|x| x == "u8").unwrap_or(false);
    let t: u32 = f.get("t").map(|x| x.parse().unwrap()).unwrap_or(0);
    for arm in ARMS.iter() {
        force_backend(Some(arm.clone()));
        let n = arm_name(arm);
        let r = no_panic(|| {
            let rows: Vec<Vec<f32>> = pssm
                .iter()
                .map(|r| r.iter().map(|&b| f32::from_bits(b)).collect())
                .collect();
            let data = DenseMatrix::<f32, <Dna as lightmotif::abc::Alphabet>::K>::from_rows(rows);
            let sm = ScoringMatrix::<Dna>::new(Background::uniform(), data);
            let enc = EncodedSequence::<Dna>::encode(seq).unwrap();
            let mut striped = enc.to_striped::<U32>();
            striped.configure(&sm);
            if let Some(ranges) = &ranges {
                let pli = Pipeline::<Dna, Dispatch>::dispatch();
                if discrete {
                    let dm = sm.to_discrete();
                    let mut scores = StripedScores::<u8, U32>::empty();
                    for r in ranges.iter() {
                        pli.score_rows_into(&dm, &striped, r.clone(), &mut scores);
                    }
                    let (cells, _) = buffer_obs(&scores, |x| x as u32);
                    let mx = no_panic(|| scores.max());
                    let am = no_panic(|| scores.argmax());
                    let ix = match am {
                        Some(Some(off)) => format!(" {}.ix={}", n, show_opt(no_panic(|| Some(scores[off])))),
                        _ => String::new(),
                    };
                    let th = no_panic(|| scores.threshold(t as u8));
                    return format!(
                        "{n}.R={} {n}.mi={} {n}.c={} {n}.max={} {n}.am={}{} {n}.th={}",
                        scores.matrix().rows(),
                        scores.max_index(),
                        show_matrix(&cells),
                        show_opt(mx),
                        show_opt(am),
                        ix,
                        show_list(th),
                        n = n
                    );
                }
                let mut scores = StripedScores::<f32, U32>::empty();
                for r in ranges.iter() {
                    pli.score_rows_into(&sm, &striped, r.clone(), &mut scores);
                }
                let (cells, _) = buffer_obs(&scores, f32::to_bits);
                let mx = no_panic(|| scores.max().map(f32::to_bits));
                let am = no_panic(|| scores.argmax());
                let ix = match am {
                    Some(Some(off)) => format!(" {}.ix={}", n, show_opt(no_panic(|| Some(scores[off].to_bits())))),
                    _ => String::new(),
                };
                let th = no_panic(|| scores.threshold(f32::from_bits(t)));
                return format!(
                    "{n}.R={} {n}.mi={} {n}.c={} {n}.max={} {n}.am={}{} {n}.th={}",
                    scores.matrix().rows(),
                    scores.max_index(),
                    show_matrix(&cells),
                    show_opt(mx),
                    show_opt(am),
                    ix,
                    show_list(th),
                    n = n
                );
            }
            let scores: StripedScores<f32, U32> = sm.score(&striped);
            let mut cells: Vec<Vec<u32>> = vec![];
            for r in 0..scores.matrix().rows() {
                cells.push((0..32).map(|c| scores.matrix()[r][c].to_bits()).collect());
            }
            let mx = no_panic(|| scores.max().map(f32::to_bits));
            let am = no_panic(|| scores.argmax());
            format!(
                "{n}.R={} {n}.mi={} {n}.c={} {n}.max={} {n}.am={}",
                scores.matrix().rows(),
                scores.max_index(),
                show_matrix(&cells),
                show_opt(mx),
                show_opt(am),
                n = n
            )
        });
        force_backend(None);
        out.push(r.unwrap_or_else(|| format!("{}.R=P", n)));
    }
    out.join(" ")
}

/// backgrounds of the `k=pad` cases (dyadic frequencies: the sum is exactly 1.0 in binary32)
fn pad_background(k: u32) -> Background<Dna> {
    match k {
        1 => Background::new([0.5f32, 0.25, 0.125, 0.125, 0.0]).unwrap(),
        // the wildcard has a frequency: `sample` draws N inside the sequence too
        2 => Background::new([0.125f32, 0.125, 0.25, 0.25, 0.25]).unwrap(),
        _ => Background::uniform(),
    }
}

/// `k=pad`: the padding clause of C07 end to end, on a sequence built by
///   src=sample  `StripedSequence::sample(StdRng::seed_from_u64(sd), pad_background(bg), L)`
///   src=text    `EncodedSequence::encode(seq).to_striped()`
///   src=new     `StripedSequence::new(DenseMatrix::from_rows(sm), L)` (hand-filled matrix: the cells of linear
///               index >= L hold whatever `sm` says)
/// then `configure(&pssm)`, scored by `Pipeline::generic()/sse2()/avx2().score` (pg / ps / pa) and by
/// `ScoringMatrix::score` under each forced dispatcher arm (dG / dS / dA).  Observation: `sR` rows of the
/// sequence matrix before configure, `q` the symbols read through Index at 0..L, `pd` the symbols of the
/// cells of linear index L..sR*32, and per scoring X: `X.R X.mi X.c` (cells), `X.max X.am X.th` of the SAME
/// pipeline (coordinates) resp. of StripedScores::{max,argmax,threshold} under the same forced arm (offsets,
/// with `X.ix` = scores[argmax]).
fn run_pad(f: &Fields) -> String {
    use lightmotif::abc::Alphabet;
    use lightmotif::abc::Nucleotide;
    use lightmotif::abc::Symbol;
    use rand::SeedableRng;
    let pssm = parse_matrix(&f["pssm"]);
    let l: usize = f["L"].parse().unwrap();
    let t = f32::from_bits(f["t"].parse().unwrap());
    let src = f["src"].clone();
    let built = no_panic(|| {
        let rows: Vec<Vec<f32>> = pssm.iter().map(|r| r.iter().map(|&b| f32::from_bits(b)).collect()).collect();
        let data = DenseMatrix::<f32, <Dna as Alphabet>::K>::from_rows(rows);
        let sm = ScoringMatrix::<Dna>::new(Background::uniform(), data);
        let striped: StripedSequence<Dna, U32> = match src.as_str() {
            "sample" => {
                let sd: u64 = f["sd"].parse().unwrap();
                let bg: u32 = f.get("bg").map(|x| x.parse().unwrap()).unwrap_or(0);
                StripedSequence::sample(rand::rngs::StdRng::seed_from_u64(sd), pad_background(bg), l)
            }
            "text" => {
                let s = if f["seq"] == "-" { "" } else { f["seq"].as_str() };
                assert_eq!(s.len(), l);
                EncodedSequence::<Dna>::encode(s).unwrap().to_striped::<U32>()
            }
            "new" => {
                let sm_rows: Vec<Vec<Nucleotide>> = f["sm"]
                    .split('/')
                    .filter(|x| !x.is_empty() && *x != "-")
                    .map(|r| r.bytes().map(|d| Dna::symbols()[(d - b'0') as usize]).collect())
                    .collect();
                StripedSequence::new(DenseMatrix::<Nucleotide, U32>::from_rows(sm_rows), l).unwrap()
            }
            s => panic!("unknown src {}", s),
        };
        (sm, striped)
    });
    let (sm, mut striped) = match built {
        Some(x) => x,
        None => return "sR=P".to_string(),
    };
    let r0 = striped.matrix().rows();
    let q: String = (0..l).map(|i| striped[i].as_char()).collect();
    let pd: String = (l..r0 * 32).map(|i| striped.matrix()[i % r0][i / r0].as_char()).collect();
    let mut out: Vec<String> = vec![format!(
        "sR={} sL={} q={} pd={}",
        r0,
        striped.len(),
        if q.is_empty() { "-".to_string() } else { q },
        if pd.is_empty() { "-".to_string() } else { pd }
    )];
    striped.configure(&sm);
    fn cells_of(scores: &StripedScores<f32, U32>) -> Vec<Vec<u32>> {
        (0..scores.matrix().rows())
            .map(|r| (0..32).map(|c| scores.matrix()[r][c].to_bits()).collect())
            .collect()
    }
    macro_rules! pipeline {
        ($name:expr, $pli:expr) => {{
            let p = $pli;
            let r = no_panic(|| {
                let scores: StripedScores<f32, U32> = p.score(&sm, &striped);
                format!(
                    "{n}.R={} {n}.mi={} {n}.c={} {n}.max={} {n}.am={} {n}.th={}",
                    scores.matrix().rows(),
                    scores.max_index(),
                    show_matrix(&cells_of(&scores)),
                    show_opt(no_panic(|| p.max(&scores).map(f32::to_bits))),
                    show_mc(no_panic(|| p.argmax(&scores))),
                    show_mcs(no_panic(|| p.threshold(&scores, t))),
                    n = $name
                )
            });
            out.push(r.unwrap_or_else(|| format!("{}.R=P", $name)));
        }};
    }
    pipeline!("pg", Pipeline::<Dna, _>::generic());
    pipeline!("ps", Pipeline::<Dna, _>::sse2().unwrap());
    pipeline!("pa", Pipeline::<Dna, _>::avx2().unwrap());
    for arm in ARMS.iter() {
        force_backend(Some(arm.clone()));
        let n = format!("d{}", arm_name(arm));
        let r = no_panic(|| {
            let scores: StripedScores<f32, U32> = sm.score(&striped);
            let am = no_panic(|| scores.argmax());
            let ix = match am {
                Some(Some(off)) => format!(" {}.ix={}", n, show_opt(no_panic(|| Some(scores[off].to_bits())))),
                _ => String::new(),
            };
            format!(
                "{n}.R={} {n}.mi={} {n}.c={} {n}.max={} {n}.am={}{} {n}.th={}",
                scores.matrix().rows(),
                scores.max_index(),
                show_matrix(&cells_of(&scores)),
                show_opt(no_panic(|| scores.max().map(f32::to_bits))),
                show_opt(am),
                ix,
                show_list(no_panic(|| scores.threshold(t))),
                n = n
            )
        });
        force_backend(None);
        out.push(r.unwrap_or_else(|| format!("{}.R=P", n)));
    }
    out.join(" ")
}

// ---------------------------------------------------------------- generation

const NINF: u32 = 0xFF80_0000;
const PINF: u32 = 0x7F80_0000;

fn fbits(x: f32) -> u32 {
    x.to_bits()
}

/// a non-NaN f32 drawn from the given family
fn rand_f32(rng: &mut Rng, family: u64) -> u32 {
    match family {
        // moderate scores with fractions
        0 => fbits((rng.range(-50_000, 50_000) as f32) / 1024.0),
        // all negative
        1 => fbits(-((1 + rng.below(60_000)) as f32) / 512.0),
        // few distinct values (many ties)
        2 => fbits((rng.range(-3, 3) as f32) * 0.5),
        // any non-NaN bit pattern
        3 => loop {
            let b = rng.next() as u32;
            if !f32::from_bits(b).is_nan() {
                break b;
            }
        },
        // log-odds like: mostly negative, some -inf
        4 => {
            if rng.chance(1, 6) {
                NINF
            } else {
                fbits((rng.range(-30_000, 8_000) as f32) / 1000.0)
            }
        }
        // zeros of both signs and small negatives
        5 => *rng.pick(&[0u32, 0x8000_0000, fbits(-1.0), fbits(-0.5), 0x8000_0001, 1]),
        // infinities mixed with finite
        _ => *rng.pick(&[NINF, PINF, fbits(1.0), fbits(-1.0), fbits(f32::MAX), fbits(f32::MIN), 0]),
    }
}

fn next_up(b: u32) -> u32 {
    // next representable f32 above a non-NaN, non-+inf value
    let x = f32::from_bits(b);
    if x == 0.0 {
        1
    } else if x > 0.0 {
        b + 1
    } else {
        b - 1
    }
}

fn f32_max_bits(m: &[Vec<u32>]) -> Option<u32> {
    let mut best: Option<u32> = None;
    for r in m {
        for &b in r {
            match best {
                None => best = Some(b),
                Some(x) => {
                    if f32::from_bits(b) > f32::from_bits(x) {
                        best = Some(b)
                    }
                }
            }
        }
    }
    best
}

fn pick_rows(rng: &mut Rng, tier: &str, id: usize) -> usize {
    let k = rng.below(100);
    if tier == "thorough" {
        if id % 97 == 96 {
            return 1000 + rng.below(2001) as usize;
        }
        if k < 55 {
            rng.below(65) as usize
        } else if k < 90 {
            65 + rng.below(240) as usize
        } else {
            300 + rng.below(500) as usize
        }
    } else if k < 8 {
        0
    } else if k < 20 {
        1 + rng.below(2) as usize
    } else if k < 92 {
        1 + rng.below(64) as usize
    } else {
        64 + rng.below(140) as usize
    }
}

/// positions where the planted maxima go: systematic in the case id so that every
/// column / 128-bit lane / first and last row is hit, plus random duplicates
fn plant_positions(rng: &mut Rng, id: usize, rows: usize, cols: usize) -> Vec<(usize, usize)> {
    let mut pos = vec![];
    if rows == 0 {
        return pos;
    }
    let col = id % cols;
    let row = match (id / cols) % 4 {
        0 => 0,
        1 => rows - 1,
        2 => rows / 2,
        _ => rng.below(rows as u64) as usize,
    };
    pos.push((row, col));
    let dup = match rng.below(10) {
        0..=4 => 0,
        5..=7 => 1,
        8 => 2 + rng.below(3) as usize,
        _ => 6 + rng.below(20) as usize,
    };
    for _ in 0..dup {
        let style = rng.below(4);
        let p = match style {
            // same column, another row
            0 => (rng.below(rows as u64) as usize, col),
            // same row, another column
            1 => (row, rng.below(cols as u64) as usize),
            // another 128-bit lane / register
            2 => (rng.below(rows as u64) as usize, (col + 8 * (1 + rng.below(3) as usize)) % cols),
            _ => (rng.below(rows as u64) as usize, rng.below(cols as u64) as usize),
        };
        pos.push(p);
    }
    pos
}

fn pick_threshold_f32(rng: &mut Rng, m: &[Vec<u32>], big: bool) -> u32 {
    let flat: Vec<u32> = m.iter().flatten().cloned().collect();
    if flat.is_empty() {
        return rand_f32(rng, 0);
    }
    let mut sorted = flat.clone();
    sorted.sort_by(|a, b| f32::from_bits(*b).partial_cmp(&f32::from_bits(*a)).unwrap());
    let k = rng.below(100);
    if k < 45 {
        // among the few largest values
        sorted[(rng.below(8) as usize).min(sorted.len() - 1)]
    } else if k < 60 {
        // just above the maximum: nothing qualifies (unless the maximum is +inf)
        let mx = sorted[0];
        if mx == PINF {
            PINF
        } else {
            next_up(mx)
        }
    } else if k < 75 && !big {
        *rng.pick(&flat)
    } else if k < 82 && !big {
        NINF
    } else if k < 86 {
        PINF
    } else {
        sorted[(rng.below(40) as usize).min(sorted.len() - 1)]
    }
}


/// A history for the reused buffer of a matrix case (see the header): earlier states of the ONE
/// `StripedScores` with more rows than the final matrix (mostly), filled with values at / above the
/// final maximum or threshold -- rows that a `resize` which does not truncate would leave behind --
/// also fewer rows (the final resize then grows: default rows), zero rows, `score_rows_into` steps.
/// Returns the ` h=... [w=k]` suffix (empty: a fresh buffer).
fn gen_history(rng: &mut Rng, rows: usize, cols: usize, is_f32: bool, mx: Option<u32>, t: u32, compact_ok: bool) -> String {
    if !compact_ok || rows > 300 || !rng.chance(3, 10) {
        return String::new();
    }
    let steps = 1 + rng.below(3) as usize;
    let mut ops: Vec<String> = vec![];
    let mut scored = false;
    for i in 0..steps {
        let r_i = match rng.below(10) {
            0 => 0,
            1 => rng.below(rows as u64 + 1) as usize,
            2 => rows,
            _ if i + 1 == steps || rng.chance(1, 2) => rows + 1 + rng.below(8) as usize,
            _ => rows + 1 + rng.below(40) as usize,
        };
        let v = if is_f32 {
            let m = mx.unwrap_or(fbits(-3.0));
            match rng.below(8) {
                0 | 1 => if m == PINF { PINF } else { next_up(m) },
                2 => if f32::from_bits(m) < 1.0e30 { fbits(f32::from_bits(m).abs() * 2.0 + 1.0) } else { PINF },
                3 => m,
                4 => t,
                5 => PINF,
                6 => fbits(1.0e30),
                _ => rand_f32(rng, 0),
            }
        } else {
            let m = mx.unwrap_or(3);
            match rng.below(7) {
                0 | 1 => (m + 1).min(255),
                2 => 255,
                3 => m,
                4 => t.min(255),
                5 => m.saturating_sub(1),
                _ => rng.below(256) as u32,
            }
        };
        match rng.below(20) {
            0..=2 if cols == 32 && r_i >= 1 && r_i <= 8 => {
                let a = rng.below(12 - r_i as u64 + 1) as usize;
                ops.push(format!("S{}{}-{}", *rng.pick(&['g', 's', 'a']), a, a + r_i));
                scored = true;
            }
            3..=5 => ops.push(format!("d{}:{}", r_i, v)),
            _ => ops.push(format!("r{}:{}", r_i, v)),
        }
    }
    let mut out = format!(" h={}", ops.join(";"));
    if !scored && rows > 0 && rng.chance(1, 5) {
        out.push_str(&format!(" w={}", rng.below(rows as u64 + 1)));
    }
    out
}

fn gen_f32(rng: &mut Rng, id: usize, sid: usize, tier: &str, cols: usize) -> String {
    // (48 columns: at most 2000 rows, i.e. the same number of cells as 3000 rows of 32)
    let rows = pick_rows(rng, tier, id).min(96000 / cols);
    let family = if rng.chance(1, 12) { 7 } else { rng.below(7) };
    let mut m: Vec<Vec<u32>> = vec![];
    let cfam = rng.below(7);
    let constant = rand_f32(rng, cfam);
    for _ in 0..rows {
        let mut row = vec![];
        for _ in 0..cols {
            row.push(if family == 7 { constant } else { rand_f32(rng, family) });
        }
        m.push(row);
    }
    // plant maxima
    if rows > 0 && rng.chance(4, 5) {
        let mx = f32_max_bits(&m).unwrap();
        let peak = match rng.below(4) {
            0 => mx,                                   // duplicates of the current maximum
            1 if mx != PINF => next_up(mx),            // barely above
            2 if f32::from_bits(mx) < 1.0e30 => fbits(f32::from_bits(mx).abs() * 2.0 + 1.0),
            _ => mx,
        };
        for (r, c) in plant_positions(rng, sid, rows, cols) {
            m[r][c] = peak;
        }
    }
    let mi = match rng.below(20) {
        0 => 0,
        1 => (rows * cols).saturating_sub(rng.below(40) as usize),
        2 => rows * cols + rng.below(5) as usize,
        3 if rows <= 4 => (u32::MAX as usize) + rng.below(3) as usize,
        _ => (rows * cols).saturating_sub(rng.below(cols as u64 + 1) as usize),
    };
    let mut t = pick_threshold_f32(rng, &m, rows > 80);
    // large matrices: keep the qualifying set small (long hit lists are exercised on the
    // small matrices; here they only cost time in the model) -- nothing qualifies instead
    if rows > 80 {
        let tf = f32::from_bits(t);
        let hits = m.iter().flatten().filter(|&&b| f32::from_bits(b) >= tf).count();
        if hits > 2048 {
            let mx = f32_max_bits(&m).unwrap();
            // (a maximum of +inf cannot be excluded: the set of +inf cells is kept)
            t = if mx == PINF { PINF } else { next_up(mx) };
        }
    }
    let hist = gen_history(rng, rows, cols, true, f32_max_bits(&m), t, true);
    format!(
        "{} k={} R={} mi={} t={}{} m={}",
        id,
        match cols {
            32 => "f32",
            16 => "f16",
            48 => "f48",
            _ => "f64",
        },
        rows,
        mi,
        t,
        hist,
        show_matrix(&m)
    )
}

fn gen_u8(rng: &mut Rng, id: usize, sid: usize, tier: &str, cols: usize) -> String {
    let rows = pick_rows(rng, tier, id).min(96000 / cols);
    let family = rng.below(7);
    let constant = *rng.pick(&[0u32, 1, 127, 128, 254, 255, 37]);
    let mut m: Vec<Vec<u32>> = vec![];
    for _ in 0..rows {
        let mut row = vec![];
        for _ in 0..cols {
            row.push(match family {
                0 => rng.below(256) as u32,
                1 => rng.below(4) as u32,
                2 => 250 + rng.below(6) as u32,
                3 => constant,
                4 => *rng.pick(&[0u32, 255]),
                5 => rng.below(200) as u32,
                _ => 126 + rng.below(4) as u32,
            });
        }
        m.push(row);
    }
    if rows > 0 && rng.chance(4, 5) {
        let mx = *m.iter().flatten().max().unwrap();
        let peak = match rng.below(3) {
            0 => mx,
            1 => (mx + 1).min(255),
            _ => 255,
        };
        for (r, c) in plant_positions(rng, sid, rows, cols) {
            m[r][c] = peak;
        }
    }
    let mi = match rng.below(20) {
        0 => 0,
        1 => rows * cols + 3,
        _ => (rows * cols).saturating_sub(rng.below(33) as usize),
    };
    let flat: Vec<u32> = m.iter().flatten().cloned().collect();
    let mx = flat.iter().max().cloned().unwrap_or(0);
    let t = match rng.below(10) {
        0..=3 => mx,
        4 => (mx + 1).min(255),
        5 => mx.saturating_sub(1),
        6 if rows <= 80 => 0,
        7 => 255,
        8 if !flat.is_empty() && rows <= 80 => *rng.pick(&flat),
        _ => mx.saturating_sub(rng.below(3) as u32),
    };
    let mut t = t;
    if rows > 80 && flat.iter().filter(|&&v| v >= t).count() > 2048 && mx < 255 {
        t = mx + 1;
    }
    let kind = match cols {
        32 => "u8",
        16 => "b16",
        48 => "b48",
        _ => "b64",
    };
    let hist = gen_history(rng, rows, cols, false, if flat.is_empty() { None } else { Some(mx) }, t, true);
    format!("{} k={} R={} mi={} t={}{} m={}", id, kind, rows, mi, t, hist, show_matrix(&m))
}

fn gen_e2e(rng: &mut Rng, id: usize, tier: &str) -> String {
    let maxl = if tier == "thorough" { 700 } else { 200 };
    let mmax = if rng.chance(1, 8) { 40 } else { 14 };
    let mlen = 1 + rng.below(mmax) as usize;
    // 2 in 5: the Scanner pattern (row ranges scored in turn into one buffer), a third of them 8-bit
    let ranged = rng.chance(2, 5);
    let discrete = ranged && rng.chance(1, 3);
    let l = match rng.below(12) {
        _ if ranged => (mlen + 33 + rng.below(360) as usize).min(33 + maxl as usize * 2),
        0 => rng.below(mlen as u64 + 1) as usize,          // shorter than / equal to the motif
        1 => mlen + rng.below(3) as usize,
        2 => 32 * (1 + rng.below(4) as usize) + rng.below(3) as usize - 1,
        _ => rng.below(maxl) as usize,
    };
    let wild_in_seq = rng.chance(1, 4);
    let seq: String = (0..l)
        .map(|_| {
            if wild_in_seq && rng.chance(1, 10) {
                'N'
            } else {
                *rng.pick(&['A', 'C', 'T', 'G'])
            }
        })
        .collect();
    // scoring matrix: either through the library's own conversions (counts -> frequencies
    // -> log-odds with the uniform background, which gives the wildcard -inf) or explicit
    let pssm: Vec<Vec<u32>> = if discrete || rng.chance(1, 2) {
        let pseudo = if discrete { *rng.pick(&[0.1f32, 0.25, 1.0]) } else { *rng.pick(&[0.0f32, 0.1, 0.25, 1.0]) };
        // every row must have the same (non-null) total
        let total = 20u64;
        let rows: Vec<Vec<u32>> = (0..mlen)
            .map(|_| {
                let a = rng.below(total + 1);
                let b = rng.below(total - a + 1);
                let c = rng.below(total - a - b + 1);
                let d = total - a - b - c;
                let mut r = vec![a as u32, b as u32, c as u32, d as u32];
                let k = rng.below(4) as usize;
                r.rotate_left(k);
                r.push(0);
                r
            })
            .collect();
        let cm = CountMatrix::<Dna>::new(DenseMatrix::from_rows(rows)).unwrap();
        let sm = cm.to_freq(pseudo).to_scoring(None);
        (0..mlen)
            .map(|j| (0..5).map(|k| sm.matrix()[j][k].to_bits()).collect())
            .collect()
    } else {
        (0..mlen)
            .map(|_| {
                let mut r: Vec<u32> = (0..4)
                    .map(|_| {
                        if rng.chance(1, 9) {
                            NINF
                        } else {
                            fbits((rng.range(-12_000, 3_000) as f32) / 1000.0)
                        }
                    })
                    .collect();
                r.push(NINF);
                r
            })
            .collect()
    };
    let mut extra = String::new();
    if ranged {
        // blocks of B rows from the top, then the (shorter) last block: what Scanner does with
        // its score buffer; now and then an empty range (resize(0, 0)) or a repeated block
        let rows = (l + 31) / 32;
        let b = 1 + rng.below(8) as usize;
        let mut rr: Vec<(usize, usize)> = vec![];
        let first = b.min(rows);
        rr.push((0, first));
        if rng.chance(1, 3) && 2 * b <= rows {
            rr.push((b, 2 * b));
        }
        if rng.chance(1, 8) {
            rr.push((first, first));
        }
        if rng.chance(1, 6) {
            let n = rng.below(rows as u64 + 1) as usize;
            rr.push((0, n));
            rr.push((0, rows));
        }
        let last = 1 + rng.below(b as u64) as usize;
        if rng.chance(9, 10) {
            rr.push((rows - last.min(rows), rows));
        }
        let t = if discrete {
            *rng.pick(&[0u32, 1, 60, 100, 128, 160, 200, 255])
        } else {
            *rng.pick(&[fbits(0.0), fbits(-2.0), fbits(-5.0), fbits(-10.0), fbits(-25.0), fbits(3.0), NINF, PINF])
        };
        extra = format!(
            " rr={} t={}{}",
            rr.iter().map(|(a, b)| format!("{}-{}", a, b)).collect::<Vec<_>>().join(";"),
            t,
            if discrete { " dt=u8" } else { "" }
        );
    }
    format!(
        "{} k=e2e{} pssm={} seq={}",
        id,
        extra,
        show_matrix(&pssm),
        if seq.is_empty() { "-".to_string() } else { seq }
    )
}

/// scoring matrix of a `k=pad` case: through the library's own conversions (counts -> frequencies ->
/// log-odds with the uniform background: the wildcard column is -inf) or explicit cells with a -inf
/// wildcard column (some other cells -inf too)
fn gen_pad_pssm(rng: &mut Rng, mlen: usize) -> Vec<Vec<u32>> {
    if rng.chance(1, 2) {
        let pseudo = *rng.pick(&[0.0f32, 0.1, 0.25, 1.0]);
        let total = 20u64;
        let rows: Vec<Vec<u32>> = (0..mlen)
            .map(|_| {
                let a = rng.below(total + 1);
                let b = rng.below(total - a + 1);
                let c = rng.below(total - a - b + 1);
                let d = total - a - b - c;
                let mut r = vec![a as u32, b as u32, c as u32, d as u32];
                let k = rng.below(4) as usize;
                r.rotate_left(k);
                r.push(0);
                r
            })
            .collect();
        let cm = CountMatrix::<Dna>::new(DenseMatrix::from_rows(rows)).unwrap();
        let sm = cm.to_freq(pseudo).to_scoring(None);
        (0..mlen).map(|j| (0..5).map(|k| sm.matrix()[j][k].to_bits()).collect()).collect()
    } else {
        (0..mlen)
            .map(|_| {
                let mut r: Vec<u32> = (0..4)
                    .map(|_| if rng.chance(1, 9) { NINF } else { fbits((rng.range(-12_000, 3_000) as f32) / 1000.0) })
                    .collect();
                r.push(NINF);
                r
            })
            .collect()
    }
}

/// rows of a hand-filled sequence matrix (`src=new`): digits = symbol indices (A C T G N), rows joined by `/`
fn show_symbol_rows(m: &[Vec<u8>]) -> String {
    if m.is_empty() {
        return "-".to_string();
    }
    m.iter()
        .map(|r| r.iter().map(|&d| (b'0' + d) as char).collect::<String>())
        .collect::<Vec<_>>()
        .join("/")
}

/// `k=pad` (see `run_pad`): sampled / striped / hand-filled sequences, lengths around the block size
fn gen_pad(rng: &mut Rng, id: usize, tier: &str) -> String {
    let maxl = if tier == "thorough" { 700 } else { 200 };
    let mmax = if rng.chance(1, 8) { 40 } else { 14 };
    let mlen = 1 + rng.below(mmax) as usize;
    let l = match rng.below(12) {
        0 => rng.below(mlen as u64 + 1) as usize,
        1 => mlen + rng.below(3) as usize,
        2 | 3 => (32 * (1 + rng.below(5) as usize) + rng.below(3) as usize).saturating_sub(1),
        4 | 5 => 32 * rng.below(4) as usize + 2 + rng.below(29) as usize,
        _ => rng.below(maxl) as usize,
    };
    let pssm = gen_pad_pssm(rng, mlen);
    let t = *rng.pick(&[fbits(0.0), fbits(-2.0), fbits(-5.0), fbits(-10.0), fbits(-25.0), fbits(3.0), NINF, PINF]);
    let body = match rng.below(4) {
        0 | 1 => format!("src=sample sd={} bg={} L={}", rng.next() % 1_000_000_007, rng.below(3), l),
        2 => {
            let wild_in_seq = rng.chance(1, 4);
            let seq: String = (0..l)
                .map(|_| if wild_in_seq && rng.chance(1, 10) { 'N' } else { *rng.pick(&['A', 'C', 'T', 'G']) })
                .collect();
            format!("src=text L={} seq={}", l, if seq.is_empty() { "-".to_string() } else { seq })
        }
        _ => {
            // hand-filled matrix: now and then more rows than ceil(L / 32); padding cells: ordinary
            // symbols (mostly), all wildcards (the clause's premise holds), or a mixture
            let rows = (l + 31) / 32 + if rng.chance(1, 4) { 1 + rng.below(2) as usize } else { 0 };
            let fam = rng.below(5);
            let wild_in_seq = rng.chance(1, 4);
            let mut m = vec![vec![0u8; 32]; rows];
            for i in 0..rows * 32 {
                let v = if i < l {
                    if wild_in_seq && rng.chance(1, 10) { 4 } else { rng.below(4) as u8 }
                } else {
                    match fam {
                        0 => 4,
                        1 => if rng.chance(1, 2) { 4 } else { rng.below(4) as u8 },
                        _ => rng.below(4) as u8,
                    }
                };
                m[i % rows][i / rows] = v;
            }
            format!("src=new L={} sm={}", l, show_symbol_rows(&m))
        }
    };
    format!("{} k=pad {} t={} pssm={}", id, body, t, show_matrix(&pssm))
}

fn gen_case(rng: &mut Rng, id: usize, tier: &str) -> String {
    // `sid` numbers the cases of one kind consecutively (systematic placement of maxima)
    match id % 10 {
        3 if (id / 10) % 2 == 1 => gen_pad(rng, id, tier),
        0 | 1 | 2 | 3 => gen_f32(rng, id, id / 10 * 4 + id % 10, tier, 32),
        4 | 5 => gen_u8(rng, id, id / 10 * 2 + id % 10 - 4, tier, 32),
        6 => gen_u8(rng, id, id / 10, tier, [16, 48, 64][(id / 10) % 3]),
        7 => gen_f32(rng, id, id / 10, tier, [16, 64][(id / 10) % 2]),
        8 => gen_f32(rng, id, id / 10, tier, 48),
        _ => gen_e2e(rng, id, tier),
    }
}

/// Boundary corpus: one maximum in every column (first / last row) of an all-negative f32
/// matrix and of a u8 matrix, the witnesses of the two repaired AVX2 defects, special values.
fn corpus() -> Vec<String> {
    let mut out = vec![];
    let mut id = 0;
    let mut push = |s: String, out: &mut Vec<String>| {
        out.push(format!("c{} {}", id, s));
        id += 1;
    };
    for rows in [1usize, 2, 5] {
        for col in 0..32 {
            for &last in &[false, true] {
                let r = if last { rows - 1 } else { 0 };
                // f32, all negative, unique maximum -1.0 at (r, col)
                let mut m = vec![vec![fbits(-7.5); 32]; rows];
                m[r][col] = fbits(-1.0);
                push(
                    format!("k=f32 R={} mi={} t={} m={}", rows, rows * 32, fbits(-1.0), show_matrix(&m)),
                    &mut out,
                );
                // u8, unique maximum at (r, col)
                let mut m = vec![vec![3u32; 32]; rows];
                m[r][col] = 200;
                push(format!("k=u8 R={} mi={} t=200 m={}", rows, rows * 32, show_matrix(&m)), &mut out);
            }
        }
    }
    for col in 0..16 {
        let mut m = vec![vec![fbits(-7.5); 16]; 3];
        m[2][col] = fbits(-0.25);
        push(format!("k=f16 R=3 mi=48 t={} m={}", fbits(-0.25), show_matrix(&m)), &mut out);
    }
    for col in 0..48 {
        let mut m = vec![vec![fbits(-7.5); 48]; 3];
        m[2][col] = fbits(-0.25);
        push(format!("k=f48 R=3 mi=144 t={} m={}", fbits(-0.25), show_matrix(&m)), &mut out);
    }
    for col in 0..64 {
        let mut m = vec![vec![fbits(-7.5); 64]; 2];
        m[1][col] = fbits(-0.25);
        push(format!("k=f64 R=2 mi=128 t={} m={}", fbits(-0.25), show_matrix(&m)), &mut out);
    }
    for &(kind, cols) in &[("b16", 16usize), ("b48", 48), ("b64", 64)] {
        for col in (0..cols).step_by(3) {
            let mut m = vec![vec![3u32; cols]; 3];
            m[col % 3][col] = 200;
            push(format!("k={} R=3 mi={} t=200 m={}", kind, 3 * cols, show_matrix(&m)), &mut out);
        }
    }
    // f32 matrices far above 3000 rows (compact form): maxima in late rows, 2^16 + 1 rows
    // (the row index no longer fits 16 bits), 70000 rows; 16 / 48 / 64 columns through the SSE2 blocks
    for &(kind, cols, rows, r, c) in &[
        ("f32", 32usize, 65537usize, 65536usize, 19usize),
        ("f16", 16, 70000, 69999, 13),
        ("f48", 48, 8000, 7999, 40),
        ("f64", 64, 8000, 4321, 63),
        ("b16", 16, 70000, 69000, 7),
        ("b64", 64, 30000, 29999, 50),
    ] {
        if kind.starts_with('f') {
            push(
                format!("k={} R={} mi={} t={} m=@{} p={}:{}:{}", kind, rows, rows * cols, fbits(-1.0), fbits(-7.5), r, c, fbits(-1.0)),
                &mut out,
            );
        } else {
            push(format!("k={} R={} mi={} t=200 m=@3 p={}:{}:200", kind, rows, rows * cols, r, c), &mut out);
        }
    }
    // all cells equal (every cell is a maximum), all -inf, all +inf, zeros of both signs
    for &v in &[fbits(-3.0), NINF, PINF, 0u32, 0x8000_0000] {
        let m = vec![vec![v; 32]; 4];
        push(format!("k=f32 R=4 mi=128 t={} m={}", v, show_matrix(&m)), &mut out);
        let m = vec![vec![v; 16]; 4];
        push(format!("k=f16 R=4 mi=64 t={} m={}", v, show_matrix(&m)), &mut out);
    }
    let mut m = vec![vec![0x8000_0000u32; 32]; 3];
    m[1][7] = 0;
    m[2][30] = 0;
    push(format!("k=f32 R=3 mi=96 t=0 m={}", show_matrix(&m)), &mut out);
    // zeros of both signs are equal as values: -0.0 >= +0.0 and +0.0 >= -0.0, so every zero is a
    // maximum and qualifies for a threshold of either sign; 16 / 48 / 64 columns, SSE2 tie order
    // (the last row of a column, then the last column, wins)
    push(format!("k=f32 R=3 mi=96 t=2147483648 m={}", show_matrix(&m)), &mut out);
    for &(kind, cols) in &[("f16", 16usize), ("f48", 48), ("f64", 64)] {
        let mut m = vec![vec![fbits(-1.0); cols]; 3];
        m[0][1] = 0;
        m[1][cols / 2] = 0x8000_0000;
        m[2][cols - 1] = 0;
        m[0][cols - 1] = 0x8000_0000;
        push(format!("k={} R=3 mi={} t=2147483648 m={}", kind, 3 * cols, show_matrix(&m)), &mut out);
        push(format!("k={} R=3 mi={} t=0 m={}", kind, 3 * cols, show_matrix(&m)), &mut out);
    }
    for &v in &[0u32, 255, 128] {
        let m = vec![vec![v; 32]; 3];
        push(format!("k=u8 R=3 mi=96 t={} m={}", v, show_matrix(&m)), &mut out);
    }
    // row indices that do not fit 8 bits (the vector kernels keep the winning row of each
    // column in 16- / 32-bit lanes): unique maxima in rows >= 256, and a tie between a low
    // and a high row of the same column
    for &(rows, r, c) in &[(300usize, 256usize, 5usize), (300, 299, 31), (300, 255, 16), (520, 512, 31), (520, 519, 8)] {
        let mut m = vec![vec![3u32; 32]; rows];
        m[r][c] = 200;
        push(format!("k=u8 R={} mi={} t=200 m={}", rows, rows * 32, show_matrix(&m)), &mut out);
        let mut m = vec![vec![fbits(-7.5); 32]; rows];
        m[r][c] = fbits(-1.0);
        push(
            format!("k=f32 R={} mi={} t={} m={}", rows, rows * 32, fbits(-1.0), show_matrix(&m)),
            &mut out,
        );
    }
    {
        let mut m = vec![vec![3u32; 32]; 300];
        m[10][20] = 200;
        m[290][20] = 200;
        push(format!("k=u8 R=300 mi=9600 t=200 m={}", show_matrix(&m)), &mut out);
        let mut m = vec![vec![fbits(-7.5); 32]; 300];
        m[10][20] = fbits(-1.0);
        m[290][20] = fbits(-1.0);
        push(format!("k=f32 R=300 mi=9600 t={} m={}", fbits(-1.0), show_matrix(&m)), &mut out);
        let mut m = vec![vec![fbits(-7.5); 16]; 300];
        m[290][13] = fbits(-1.0);
        push(format!("k=f16 R=300 mi=4800 t={} m={}", fbits(-1.0), show_matrix(&m)), &mut out);
    }
    // u8 matrices with more than 32768 rows (the row index of argmax_u8_avx2 is a 16-bit lane:
    // indices >= 32768 are negative as i16), the largest supported size 65536 and the guard
    // case 65537 (explicit panic of the AVX2 arm); compact form `m=@fill p=row:col:value;...`
    for &(rows, ref cells) in &[
        (32769usize, vec![(32768usize, 0usize)]),
        (33000, vec![(32900, 9)]),
        (40000, vec![(39999, 17)]),
        (40000, vec![(32768, 31)]),
        (36000, vec![(100, 20), (35000, 20)]),
        (36000, vec![(5, 3), (34000, 28)]),
        (65536, vec![(65535, 24)]),
        (65537, vec![(65536, 2)]),
    ] {
        let p: Vec<String> = cells.iter().map(|(r, c)| format!("{}:{}:200", r, c)).collect();
        push(format!("k=u8 R={} mi={} t=200 m=@3 p={}", rows, rows * 32, p.join(";")), &mut out);
    }
    // REUSED buffers (seeded/C07/6): the one StripedScores held more rows before, with content at / above
    // the final maximum and threshold; hand resize (the demo's 6 -> 2 rows), DenseMatrix-level resize,
    // shrink to nothing, shrink then grow with a partial rewrite (regrown rows are default rows),
    // score_rows_into of 8 rows on each backend before a 3-row matrix, other column counts
    {
        let m2: Vec<Vec<u32>> = (0..2).map(|r| (0..32).map(|c| (10 * r + c) as u32).collect()).collect();
        push(format!("k=u8 R=2 mi=64 t=40 h=r6:99 m={}", show_matrix(&m2)), &mut out);
        push(format!("k=u8 R=2 mi=64 t=41 h=r6:41 m={}", show_matrix(&m2)), &mut out);
        push(format!("k=u8 R=2 mi=64 t=25 h=d6:99 m={}", show_matrix(&m2)), &mut out);
        push(format!("k=u8 R=2 mi=64 t=25 h=r2:7;r40:200;r1:3 m={}", show_matrix(&m2)), &mut out);
        push("k=u8 R=0 mi=0 t=0 h=r4:7 m=-".to_string(), &mut out);
        push("k=f32 R=0 mi=0 t=0 h=r4:1065353216 m=-".to_string(), &mut out);
        let m5: Vec<Vec<u32>> = (0..5).map(|r| (0..32).map(|c| (3 * r + c) as u32).collect()).collect();
        push(format!("k=u8 R=5 mi=160 t=1 h=r6:9;r2:9 w=2 m={}", show_matrix(&m5)), &mut out);
        push(format!("k=u8 R=5 mi=160 t=9 h=r6:9 w=2 m={}", show_matrix(&m5)), &mut out);
        let mut f3 = vec![vec![fbits(-7.5); 32]; 3];
        f3[1][17] = fbits(-1.0);
        push(format!("k=f32 R=3 mi=96 t={} h=r8:{} m={}", fbits(-1.0), fbits(5.0), show_matrix(&f3)), &mut out);
        push(format!("k=f32 R=3 mi=96 t={} h=r8:{} m={}", fbits(-1.0), fbits(-1.0), show_matrix(&f3)), &mut out);
        push(format!("k=f32 R=3 mi=96 t={} h=d9:{} m={}", fbits(-7.5), fbits(-2.0), show_matrix(&f3)), &mut out);
        push(format!("k=f32 R=3 mi=96 t={} h=r8:{} w=1 m={}", fbits(-7.5), fbits(-9.0), show_matrix(&f3)), &mut out);
        let low = vec![vec![fbits(-60.0); 32]; 3];
        for arm in ["g", "s", "a"] {
            push(format!("k=f32 R=3 mi=96 t={} h=S{}0-8 m={}", fbits(-50.0), arm, show_matrix(&low)), &mut out);
            push(format!("k=u8 R=3 mi=96 t=1 h=S{}2-10 m={}", arm, show_matrix(&vec![vec![0u32; 32]; 3])), &mut out);
        }
        let f16 = vec![vec![fbits(-7.5); 16]; 2];
        push(format!("k=f16 R=2 mi=32 t={} h=r5:{} m={}", fbits(-7.5), fbits(1.0), show_matrix(&f16)), &mut out);
        let f48 = vec![vec![fbits(-7.5); 48]; 2];
        push(format!("k=f48 R=2 mi=96 t={} h=r5:{} m={}", fbits(-7.5), fbits(1.0), show_matrix(&f48)), &mut out);
        let b64 = vec![vec![3u32; 64]; 2];
        push(format!("k=b64 R=2 mi=128 t=3 h=r7:200 m={}", show_matrix(&b64)), &mut out);
    }
    // no rows
    push("k=f32 R=0 mi=0 t=0 m=-".to_string(), &mut out);
    push("k=f16 R=0 mi=0 t=0 m=-".to_string(), &mut out);
    push("k=u8 R=0 mi=0 t=0 m=-".to_string(), &mut out);
    push("k=f32 R=0 mi=4294967296 t=0 m=-".to_string(), &mut out);
    // max_index above u32::MAX with rows
    let m = vec![vec![fbits(1.0); 32]; 1];
    push(format!("k=f32 R=1 mi=4294967296 t=0 m={}", show_matrix(&m)), &mut out);
    push(format!("k=f32 R=1 mi=4294967295 t=0 m={}", show_matrix(&m)), &mut out);
    // end-to-end padding: README-like motif, sequence lengths around the block size
    let pssm = vec![
        vec![fbits(-1.5), fbits(0.5), fbits(-2.0), fbits(1.0), NINF],
        vec![fbits(0.75), fbits(-0.5), fbits(-3.0), fbits(-1.0), NINF],
        vec![fbits(-4.0), fbits(-0.25), fbits(1.25), NINF, NINF],
    ];
    for l in [0usize, 1, 2, 3, 4, 31, 32, 33, 34, 35, 63, 64, 65, 66, 67, 100] {
        let seq: String = (0..l).map(|i| ['A', 'C', 'T', 'G'][(i * 7 + i / 3) % 4]).collect();
        push(
            format!("k=e2e pssm={} seq={}", show_matrix(&pssm), if seq.is_empty() { "-".into() } else { seq }),
            &mut out,
        );
    }
    // the padding clause on SAMPLED sequences (finding of round 3, repaired in /repo 740d563: `sample` left
    // random symbols in the cells of linear index >= L): the probe (README motif through to_scoring(None),
    // 40 symbols, StdRng seed 0: before the repair max_index 26, argmax 48, max -4.568783 in a padding cell)
    // and its neighbours; the same lengths through to_striped; hand-filled matrices (StripedSequence::new)
    // whose padding holds the motif itself (the maximum IS in the padding: only the first sentence of C07
    // is promised there), all wildcards, and one spare row
    {
        let ctx = score_ctx();
        let readme: Vec<Vec<u32>> = (0..ctx.pssm.matrix().rows())
            .map(|j| (0..5).map(|k| ctx.pssm.matrix()[j][k].to_bits()).collect())
            .collect();
        let readme = show_matrix(&readme);
        for &(l, sd, bg, t) in &[
            (40usize, 0u64, 0u32, fbits(-5.0)),
            (40, 0, 0, NINF),
            (40, 1, 1, fbits(-10.0)),
            (33, 0, 0, fbits(-25.0)),
            (63, 2, 0, fbits(-5.0)),
            (65, 3, 2, fbits(-10.0)),
            (100, 4, 0, fbits(-25.0)),
            (17, 5, 0, fbits(-25.0)),
            (15, 6, 0, fbits(-25.0)),
            (14, 7, 0, fbits(0.0)),
            (64, 8, 1, fbits(-10.0)),
        ] {
            push(format!("k=pad src=sample sd={} bg={} L={} t={} pssm={}", sd, bg, l, t, readme), &mut out);
        }
        for &l in &[40usize, 33, 63, 64, 65] {
            let seq: String = (0..l).map(|i| ['A', 'C', 'T', 'G'][(i * 7 + i / 3) % 4]).collect();
            push(format!("k=pad src=text L={} seq={} t={} pssm={}", l, seq, fbits(-10.0), readme), &mut out);
        }
        let motif: Vec<u8> = "GTTGACCTTATCAAC".bytes().map(|b| match b { b'A' => 0, b'C' => 1, b'T' => 2, _ => 3 }).collect();
        for &(l, rows, fill) in &[(40usize, 2usize, 0u8), (40, 2, 1), (40, 3, 0), (20, 1, 0), (64, 3, 0), (10, 1, 0)] {
            let mut m = vec![vec![4u8; 32]; rows];
            for i in 0..rows * 32 {
                m[i % rows][i / rows] = if i < l { ((i * 7 + i / 3) % 4) as u8 } else if fill == 1 { 4 } else { motif[(i - l) % 15] };
            }
            push(format!("k=pad src=new L={} sm={} t={} pssm={}", l, show_symbol_rows(&m), fbits(-10.0), readme), &mut out);
        }
    }
    // the Scanner pattern: 11 rows scored as 0..8 then 8..11 into one buffer (f32 and 8-bit), one-row
    // blocks, an empty range in between
    {
        let fin = vec![
            vec![fbits(-1.5), fbits(0.5), fbits(-2.0), fbits(1.0), NINF],
            vec![fbits(0.75), fbits(-0.5), fbits(-3.0), fbits(-1.0), NINF],
            vec![fbits(-4.0), fbits(-0.25), fbits(1.25), fbits(-0.75), NINF],
        ];
        let seq: String = (0..352).map(|i| ['A', 'C', 'T', 'G'][(i * 7 + i / 3 + i / 11) % 4]).collect();
        for rr in ["0-8;8-11", "0-11;10-11", "0-8;8-8;8-11", "0-4;4-8;8-11", "3-9;0-1"] {
            push(format!("k=e2e rr={} t={} pssm={} seq={}", rr, fbits(0.0), show_matrix(&fin), seq), &mut out);
            push(format!("k=e2e rr={} t=160 dt=u8 pssm={} seq={}", rr, show_matrix(&fin), seq), &mut out);
        }
    }
    out
}

fn main() {
    let args = parse_args();
    match args.cmd.as_str() {
        "gen" => {
            let mut rng = Rng::new(args.seed);
            for id in 0..args.n {
                println!("{}", gen_case(&mut rng, id, &args.tier));
            }
        }
        "corpus" => {
            for l in corpus() {
                println!("{}", l);
            }
        }
        "run" => {
            silence_panics();
            for line in stdin_lines() {
                let (_id, f) = fields(&line);
                let obs = match f["k"].as_str() {
                    "e2e" => run_e2e(&parse_matrix(&f["pssm"]), if f["seq"] == "-" { "" } else { &f["seq"] }, &f),
                    "pad" => run_pad(&f),
                    k => {
                        let cols = match k {
                            "f16" | "b16" => 16,
                            "f48" | "b48" => 48,
                            "f64" | "b64" => 64,
                            _ => 32,
                        };
                        let m = parse_matrix_fields(&f, cols);
                        let mi: usize = f["mi"].parse().unwrap();
                        let t: u32 = f["t"].parse().unwrap();
                        match k {
                            "f32" => run_f32_32(&m, mi, t, &f),
                            "f16" => run_f32_cols::<U16>(&m, mi, t, &f),
                            "f48" => run_f32_cols::<U48>(&m, mi, t, &f),
                            "f64" => run_f32_cols::<U64>(&m, mi, t, &f),
                            "b16" => run_u8_cols::<U16>(&m, mi, t, &f),
                            "b48" => run_u8_cols::<U48>(&m, mi, t, &f),
                            "b64" => run_u8_cols::<U64>(&m, mi, t, &f),
                            "u8" => run_u8_32(&m, mi, t, &f),
                            _ => panic!("unknown kind {}", k),
                        }
                    }
                };
                println!("{} => {}", line, obs);
            }
        }
        _ => {
            eprintln!("usage: maxi gen --seed S --n N [--tier t] | maxi corpus | maxi run < inputs");
            std::process::exit(2);
        }
    }
}
