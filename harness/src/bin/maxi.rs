//! C07 harness: maximum / arg-maximum / threshold of striped score matrices.
//!
//! `maxi gen --seed S --n N [--tier t]` prints input lines
//!     <id> k=f32|f16|f48|f64|u8|b16|b48|b64 R=<rows> mi=<max_index> t=<threshold> m=<row/row/...>
//!     <id> k=e2e pssm=<row/row/...> seq=<ACTGN...>
//! (f32 cells and thresholds as decimal u32 bit patterns, u8 as decimal, cells of a row
//! separated by `,`, `m=-` for a matrix without rows, `m=@v p=r:c:v;...` a constant matrix with planted cells; `f16` / `f48` / `f64` are f32 and `b16` / `b48` / `b64` u8 with 16 / 48 / 64 columns).
//! `maxi corpus` prints the boundary corpus (same format).
//! `maxi run` appends ` => key=value ...` with, for every entry point,
//!     <p>.max  N | <value>        <p>.am  N | <row>:<col> (or an offset)      <p>.th  - | r:c,r:c,...
//! and `P` where the call panicked.  Entry points <p>:
//!     g / s / a     Pipeline::generic() / sse2() / avx2()
//!     dG / dS / dA  Pipeline::dispatch() with the arm forced
//!     sG / sS / sA  StripedScores::{max,argmax,threshold} with the arm forced (offsets; `.ix` is
//!                   scores[argmax offset])
//!     lin           Scores::{max,argmax,threshold} of scores.unstripe()
//! For `e2e`: per forced arm X, `X.R` rows, `X.mi` max_index, `X.c` all cells, `X.max`, `X.am`.

use lightmotif::abc::Background;
use lightmotif::abc::Dna;
use lightmotif::dense::DenseMatrix;
use lightmotif::dense::MatrixCoordinates;
use lightmotif::num::{U16, U32, U48, U64};
use lightmotif::pli::dispatch::Dispatch;
use lightmotif::pli::verif::force_backend;
use lightmotif::pli::Maximum;
use lightmotif::pli::Pipeline;
use lightmotif::pli::Threshold;
use lightmotif::pwm::CountMatrix;
use lightmotif::pwm::ScoringMatrix;
use lightmotif::scores::Scores;
use lightmotif::scores::StripedScores;
use lightmotif::seq::EncodedSequence;
use lmh::*;

// ---------------------------------------------------------------- formatting

fn show_opt<T: ToString>(r: Option<Option<T>>) -> String {
    match r {
        None => "P".to_string(),
        Some(None) => "N".to_string(),
        Some(Some(v)) => v.to_string(),
    }
}

fn show_mc(r: Option<Option<MatrixCoordinates>>) -> String {
    show_opt(r.map(|o| o.map(|mc| format!("{}:{}", mc.row, mc.col))))
}

fn show_mcs(r: Option<Vec<MatrixCoordinates>>) -> String {
    match r {
        None => "P".to_string(),
        Some(v) if v.is_empty() => "-".to_string(),
        Some(v) => v
            .iter()
            .map(|mc| format!("{}:{}", mc.row, mc.col))
            .collect::<Vec<_>>()
            .join(","),
    }
}

fn show_list<T: ToString>(r: Option<Vec<T>>) -> String {
    match r {
        None => "P".to_string(),
        Some(v) if v.is_empty() => "-".to_string(),
        Some(v) => v.iter().map(|x| x.to_string()).collect::<Vec<_>>().join(","),
    }
}

fn parse_matrix(s: &str) -> Vec<Vec<u32>> {
    if s == "-" || s.is_empty() {
        return vec![];
    }
    s.split('/')
        .map(|r| r.split(',').map(|x| x.parse().unwrap()).collect())
        .collect()
}

/// `m=@<v>` (with `R=<rows>` and the column count of the kind) is a constant matrix; `p=r:c:v;...`
/// then overrides single cells (compact form of the very tall corpus matrices).
fn parse_matrix_fields(f: &std::collections::HashMap<String, String>, cols: usize) -> Vec<Vec<u32>> {
    let ms = &f["m"];
    let mut m = if let Some(v) = ms.strip_prefix('@') {
        let rows: usize = f["R"].parse().unwrap();
        vec![vec![v.parse().unwrap(); cols]; rows]
    } else {
        parse_matrix(ms)
    };
    if let Some(ps) = f.get("p") {
        for cell in ps.split(';').filter(|x| !x.is_empty()) {
            let t: Vec<usize> = cell.split(':').map(|x| x.parse().unwrap()).collect();
            m[t[0]][t[1]] = t[2] as u32;
        }
    }
    m
}

fn show_matrix(m: &[Vec<u32>]) -> String {
    if m.is_empty() {
        return "-".to_string();
    }
    m.iter()
        .map(|r| r.iter().map(|x| x.to_string()).collect::<Vec<_>>().join(","))
        .collect::<Vec<_>>()
        .join("/")
}

fn arm_name(a: &Dispatch) -> &'static str {
    match a {
        Dispatch::Generic => "G",
        Dispatch::Sse2 => "S",
        Dispatch::Avx2 => "A",
    }
}

const ARMS: [Dispatch; 3] = [Dispatch::Generic, Dispatch::Sse2, Dispatch::Avx2];

// ---------------------------------------------------------------- running

/// Linear scores built from the cells in column-major order, truncated at
/// min(max_index, rows * C), and whether `unstripe()` returned the same vector.
fn linear_f32(m: &[Vec<u32>], mi: usize, cols: usize, unstriped: Option<Scores<f32>>) -> (Scores<f32>, bool) {
    let n = mi.min(m.len() * cols);
    let flat: Vec<f32> = (0..n).map(|i| f32::from_bits(m[i % m.len()][i / m.len()])).collect();
    let same = match unstriped {
        Some(u) => u.len() == flat.len() && u.iter().zip(flat.iter()).all(|(a, b)| a.to_bits() == b.to_bits()),
        None => false,
    };
    (Scores::new(flat), same)
}

fn run_f32_32(m: &[Vec<u32>], mi: usize, t: u32) -> String {
    let mut s = StripedScores::<f32, U32>::empty();
    s.resize(m.len(), mi);
    for (r, row) in m.iter().enumerate() {
        for (c, &v) in row.iter().enumerate() {
            s.matrix_mut()[r][c] = f32::from_bits(v);
        }
    }
    let t = f32::from_bits(t);
    let mut out: Vec<String> = vec![];
    macro_rules! pipeline {
        ($name:expr, $pli:expr) => {{
            let p = $pli;
            out.push(format!("{}.max={}", $name, show_opt(no_panic(|| p.max(&s).map(f32::to_bits)))));
            out.push(format!("{}.am={}", $name, show_mc(no_panic(|| p.argmax(&s)))));
            out.push(format!("{}.th={}", $name, show_mcs(no_panic(|| p.threshold(&s, t)))));
        }};
    }
    pipeline!("g", Pipeline::<Dna, _>::generic());
    pipeline!("s", Pipeline::<Dna, _>::sse2().unwrap());
    pipeline!("a", Pipeline::<Dna, _>::avx2().unwrap());
    for arm in ARMS.iter() {
        force_backend(Some(arm.clone()));
        let n = arm_name(arm);
        pipeline!(format!("d{}", n), Pipeline::<Dna, Dispatch>::dispatch());
        out.push(format!("s{}.max={}", n, show_opt(no_panic(|| s.max().map(f32::to_bits)))));
        let am = no_panic(|| s.argmax());
        out.push(format!("s{}.am={}", n, show_opt(am)));
        if let Some(Some(off)) = am {
            out.push(format!("s{}.ix={}", n, show_opt(no_panic(|| Some(s[off].to_bits())))));
        }
        out.push(format!("s{}.th={}", n, show_list(no_panic(|| s.threshold(t)))));
        force_backend(None);
    }
    let (lin, same) = linear_f32(m, mi, 32, no_panic(|| s.unstripe()));
    out.push(format!("lin.u={}", same as u8));
    out.push(format!("lin.n={}", lin.len()));
    out.push(format!("lin.max={}", show_opt(no_panic(|| lin.max().map(f32::to_bits)))));
    out.push(format!("lin.am={}", show_opt(no_panic(|| lin.argmax()))));
    out.push(format!("lin.th={}", show_list(no_panic(|| lin.threshold(&t)))));
    out.join(" ")
}

/// f32 matrices with another column count (16, 48): Pipeline::generic() and Pipeline::sse2()
/// (any multiple of 16 columns) + linear scores.
fn run_f32_cols<C>(m: &[Vec<u32>], mi: usize, t: u32) -> String
where
    C: lightmotif::num::PositiveLength + lightmotif::num::MultipleOf<U16>,
    Pipeline<Dna, lightmotif::pli::platform::Generic>: Maximum<f32, C> + Threshold<f32, C>,
    Pipeline<Dna, lightmotif::pli::platform::Sse2>: Maximum<f32, C> + Threshold<f32, C>,
{
    let cols = C::USIZE;
    let mut s = StripedScores::<f32, C>::empty();
    s.resize(m.len(), mi);
    for (r, row) in m.iter().enumerate() {
        for (c, &v) in row.iter().enumerate() {
            s.matrix_mut()[r][c] = f32::from_bits(v);
        }
    }
    let t = f32::from_bits(t);
    let mut out: Vec<String> = vec![];
    macro_rules! pipeline {
        ($name:expr, $pli:expr) => {{
            let p = $pli;
            out.push(format!("{}.max={}", $name, show_opt(no_panic(|| p.max(&s).map(f32::to_bits)))));
            out.push(format!("{}.am={}", $name, show_mc(no_panic(|| p.argmax(&s)))));
            out.push(format!("{}.th={}", $name, show_mcs(no_panic(|| p.threshold(&s, t)))));
        }};
    }
    pipeline!("g", Pipeline::<Dna, _>::generic());
    pipeline!("s", Pipeline::<Dna, _>::sse2().unwrap());
    let (lin, same) = linear_f32(m, mi, cols, no_panic(|| s.unstripe()));
    out.push(format!("lin.u={}", same as u8));
    out.push(format!("lin.n={}", lin.len()));
    out.push(format!("lin.max={}", show_opt(no_panic(|| lin.max().map(f32::to_bits)))));
    out.push(format!("lin.am={}", show_opt(no_panic(|| lin.argmax()))));
    out.push(format!("lin.th={}", show_list(no_panic(|| lin.threshold(&t)))));
    out.join(" ")
}

/// u8 matrices with another column count (16, 48, 64): Pipeline::generic() and Pipeline::sse2()
/// (default implementations) + linear scores.
fn run_u8_cols<C>(m: &[Vec<u32>], mi: usize, t: u32) -> String
where
    C: lightmotif::num::PositiveLength + lightmotif::num::MultipleOf<U16>,
    Pipeline<Dna, lightmotif::pli::platform::Generic>: Maximum<u8, C> + Threshold<u8, C>,
    Pipeline<Dna, lightmotif::pli::platform::Sse2>: Maximum<u8, C> + Threshold<u8, C>,
{
    let cols = C::USIZE;
    let mut s = StripedScores::<u8, C>::empty();
    s.resize(m.len(), mi);
    for (r, row) in m.iter().enumerate() {
        for (c, &v) in row.iter().enumerate() {
            s.matrix_mut()[r][c] = v as u8;
        }
    }
    let t = t as u8;
    let mut out: Vec<String> = vec![];
    macro_rules! pipeline {
        ($name:expr, $pli:expr) => {{
            let p = $pli;
            out.push(format!("{}.max={}", $name, show_opt(no_panic(|| p.max(&s)))));
            out.push(format!("{}.am={}", $name, show_mc(no_panic(|| p.argmax(&s)))));
            out.push(format!("{}.th={}", $name, show_mcs(no_panic(|| p.threshold(&s, t)))));
        }};
    }
    pipeline!("g", Pipeline::<Dna, _>::generic());
    pipeline!("s", Pipeline::<Dna, _>::sse2().unwrap());
    let n = mi.min(m.len() * cols);
    let flat: Vec<u8> = (0..n).map(|i| m[i % m.len()][i / m.len()] as u8).collect();
    let same = no_panic(|| s.unstripe()).map(|u| *u == flat).unwrap_or(false);
    let lin = Scores::new(flat);
    out.push(format!("lin.u={}", same as u8));
    out.push(format!("lin.n={}", lin.len()));
    out.push(format!("lin.max={}", show_opt(no_panic(|| lin.max()))));
    out.push(format!("lin.am={}", show_opt(no_panic(|| lin.argmax()))));
    out.push(format!("lin.th={}", show_list(no_panic(|| lin.threshold(&t)))));
    out.join(" ")
}

fn run_u8_32(m: &[Vec<u32>], mi: usize, t: u32) -> String {
    let mut s = StripedScores::<u8, U32>::empty();
    s.resize(m.len(), mi);
    for (r, row) in m.iter().enumerate() {
        for (c, &v) in row.iter().enumerate() {
            s.matrix_mut()[r][c] = v as u8;
        }
    }
    let t = t as u8;
    let mut out: Vec<String> = vec![];
    macro_rules! pipeline {
        ($name:expr, $pli:expr) => {{
            let p = $pli;
            out.push(format!("{}.max={}", $name, show_opt(no_panic(|| p.max(&s)))));
            out.push(format!("{}.am={}", $name, show_mc(no_panic(|| p.argmax(&s)))));
            out.push(format!("{}.th={}", $name, show_mcs(no_panic(|| p.threshold(&s, t)))));
        }};
    }
    pipeline!("g", Pipeline::<Dna, _>::generic());
    pipeline!("s", Pipeline::<Dna, _>::sse2().unwrap());
    pipeline!("a", Pipeline::<Dna, _>::avx2().unwrap());
    for arm in ARMS.iter() {
        force_backend(Some(arm.clone()));
        let n = arm_name(arm);
        pipeline!(format!("d{}", n), Pipeline::<Dna, Dispatch>::dispatch());
        out.push(format!("s{}.max={}", n, show_opt(no_panic(|| s.max()))));
        let am = no_panic(|| s.argmax());
        out.push(format!("s{}.am={}", n, show_opt(am)));
        if let Some(Some(off)) = am {
            out.push(format!("s{}.ix={}", n, show_opt(no_panic(|| Some(s[off])))));
        }
        out.push(format!("s{}.th={}", n, show_list(no_panic(|| s.threshold(t)))));
        force_backend(None);
    }
    let n = mi.min(m.len() * 32);
    let flat: Vec<u8> = (0..n).map(|i| m[i % m.len()][i / m.len()] as u8).collect();
    let same = no_panic(|| s.unstripe()).map(|u| *u == flat).unwrap_or(false);
    let lin = Scores::new(flat);
    out.push(format!("lin.u={}", same as u8));
    out.push(format!("lin.n={}", lin.len()));
    out.push(format!("lin.max={}", show_opt(no_panic(|| lin.max()))));
    out.push(format!("lin.am={}", show_opt(no_panic(|| lin.argmax()))));
    out.push(format!("lin.th={}", show_list(no_panic(|| lin.threshold(&t)))));
    out.join(" ")
}

/// End-to-end padding claim: real ScoringMatrix (wildcard column -inf) + sequence -> score -> max.
fn run_e2e(pssm: &[Vec<u32>], seq: &str) -> String {
    let mut out: Vec<String> = vec![];
    for arm in ARMS.iter() {
        force_backend(Some(arm.clone()));
        let n = arm_name(arm);
        let r = no_panic(|| {
            let rows: Vec<Vec<f32>> = pssm
                .iter()
                .map(|r| r.iter().map(|&b| f32::from_bits(b)).collect())
                .collect();
            let data = DenseMatrix::<f32, <Dna as lightmotif::abc::Alphabet>::K>::from_rows(rows);
            let sm = ScoringMatrix::<Dna>::new(Background::uniform(), data);
            let enc = EncodedSequence::<Dna>::encode(seq).unwrap();
            let mut striped = enc.to_striped::<U32>();
            striped.configure(&sm);
            let scores: StripedScores<f32, U32> = sm.score(&striped);
            let mut cells: Vec<Vec<u32>> = vec![];
            for r in 0..scores.matrix().rows() {
                cells.push((0..32).map(|c| scores.matrix()[r][c].to_bits()).collect());
            }
            let mx = no_panic(|| scores.max().map(f32::to_bits));
            let am = no_panic(|| scores.argmax());
            format!(
                "{n}.R={} {n}.mi={} {n}.c={} {n}.max={} {n}.am={}",
                scores.matrix().rows(),
                scores.max_index(),
                show_matrix(&cells),
                show_opt(mx),
                show_opt(am),
                n = n
            )
        });
        force_backend(None);
        out.push(r.unwrap_or_else(|| format!("{}.R=P", n)));
    }
    out.join(" ")
}

// ---------------------------------------------------------------- generation

const NINF: u32 = 0xFF80_0000;
const PINF: u32 = 0x7F80_0000;

fn fbits(x: f32) -> u32 {
    x.to_bits()
}

/// a non-NaN f32 drawn from the given family
fn rand_f32(rng: &mut Rng, family: u64) -> u32 {
    match family {
        // moderate scores with fractions
        0 => fbits((rng.range(-50_000, 50_000) as f32) / 1024.0),
        // all negative
        1 => fbits(-((1 + rng.below(60_000)) as f32) / 512.0),
        // few distinct values (many ties)
        2 => fbits((rng.range(-3, 3) as f32) * 0.5),
        // any non-NaN bit pattern
        3 => loop {
            let b = rng.next() as u32;
            if !f32::from_bits(b).is_nan() {
                break b;
            }
        },
        // log-odds like: mostly negative, some -inf
        4 => {
            if rng.chance(1, 6) {
                NINF
            } else {
                fbits((rng.range(-30_000, 8_000) as f32) / 1000.0)
            }
        }
        // zeros of both signs and small negatives
        5 => *rng.pick(&[0u32, 0x8000_0000, fbits(-1.0), fbits(-0.5), 0x8000_0001, 1]),
        // infinities mixed with finite
        _ => *rng.pick(&[NINF, PINF, fbits(1.0), fbits(-1.0), fbits(f32::MAX), fbits(f32::MIN), 0]),
    }
}

fn next_up(b: u32) -> u32 {
    // next representable f32 above a non-NaN, non-+inf value
    let x = f32::from_bits(b);
    if x == 0.0 {
        1
    } else if x > 0.0 {
        b + 1
    } else {
        b - 1
    }
}

fn f32_max_bits(m: &[Vec<u32>]) -> Option<u32> {
    let mut best: Option<u32> = None;
    for r in m {
        for &b in r {
            match best {
                None => best = Some(b),
                Some(x) => {
                    if f32::from_bits(b) > f32::from_bits(x) {
                        best = Some(b)
                    }
                }
            }
        }
    }
    best
}

fn pick_rows(rng: &mut Rng, tier: &str, id: usize) -> usize {
    let k = rng.below(100);
    if tier == "thorough" {
        if id % 97 == 96 {
            return 1000 + rng.below(2001) as usize;
        }
        if k < 55 {
            rng.below(65) as usize
        } else if k < 90 {
            65 + rng.below(240) as usize
        } else {
            300 + rng.below(500) as usize
        }
    } else if k < 8 {
        0
    } else if k < 20 {
        1 + rng.below(2) as usize
    } else if k < 92 {
        1 + rng.below(64) as usize
    } else {
        64 + rng.below(140) as usize
    }
}

/// positions where the planted maxima go: systematic in the case id so that every
/// column / 128-bit lane / first and last row is hit, plus random duplicates
fn plant_positions(rng: &mut Rng, id: usize, rows: usize, cols: usize) -> Vec<(usize, usize)> {
    let mut pos = vec![];
    if rows == 0 {
        return pos;
    }
    let col = id % cols;
    let row = match (id / cols) % 4 {
        0 => 0,
        1 => rows - 1,
        2 => rows / 2,
        _ => rng.below(rows as u64) as usize,
    };
    pos.push((row, col));
    let dup = match rng.below(10) {
        0..=4 => 0,
        5..=7 => 1,
        8 => 2 + rng.below(3) as usize,
        _ => 6 + rng.below(20) as usize,
    };
    for _ in 0..dup {
        let style = rng.below(4);
        let p = match style {
            // same column, another row
            0 => (rng.below(rows as u64) as usize, col),
            // same row, another column
            1 => (row, rng.below(cols as u64) as usize),
            // another 128-bit lane / register
            2 => (rng.below(rows as u64) as usize, (col + 8 * (1 + rng.below(3) as usize)) % cols),
            _ => (rng.below(rows as u64) as usize, rng.below(cols as u64) as usize),
        };
        pos.push(p);
    }
    pos
}

fn pick_threshold_f32(rng: &mut Rng, m: &[Vec<u32>], big: bool) -> u32 {
    let flat: Vec<u32> = m.iter().flatten().cloned().collect();
    if flat.is_empty() {
        return rand_f32(rng, 0);
    }
    let mut sorted = flat.clone();
    sorted.sort_by(|a, b| f32::from_bits(*b).partial_cmp(&f32::from_bits(*a)).unwrap());
    let k = rng.below(100);
    if k < 45 {
        // among the few largest values
        sorted[(rng.below(8) as usize).min(sorted.len() - 1)]
    } else if k < 60 {
        // just above the maximum: nothing qualifies (unless the maximum is +inf)
        let mx = sorted[0];
        if mx == PINF {
            PINF
        } else {
            next_up(mx)
        }
    } else if k < 75 && !big {
        *rng.pick(&flat)
    } else if k < 82 && !big {
        NINF
    } else if k < 86 {
        PINF
    } else {
        sorted[(rng.below(40) as usize).min(sorted.len() - 1)]
    }
}

fn gen_f32(rng: &mut Rng, id: usize, sid: usize, tier: &str, cols: usize) -> String {
    // (48 columns: at most 2000 rows, i.e. the same number of cells as 3000 rows of 32)
    let rows = pick_rows(rng, tier, id).min(96000 / cols);
    let family = if rng.chance(1, 12) { 7 } else { rng.below(7) };
    let mut m: Vec<Vec<u32>> = vec![];
    let cfam = rng.below(7);
    let constant = rand_f32(rng, cfam);
    for _ in 0..rows {
        let mut row = vec![];
        for _ in 0..cols {
            row.push(if family == 7 { constant } else { rand_f32(rng, family) });
        }
        m.push(row);
    }
    // plant maxima
    if rows > 0 && rng.chance(4, 5) {
        let mx = f32_max_bits(&m).unwrap();
        let peak = match rng.below(4) {
            0 => mx,                                   // duplicates of the current maximum
            1 if mx != PINF => next_up(mx),            // barely above
            2 if f32::from_bits(mx) < 1.0e30 => fbits(f32::from_bits(mx).abs() * 2.0 + 1.0),
            _ => mx,
        };
        for (r, c) in plant_positions(rng, sid, rows, cols) {
            m[r][c] = peak;
        }
    }
    let mi = match rng.below(20) {
        0 => 0,
        1 => (rows * cols).saturating_sub(rng.below(40) as usize),
        2 => rows * cols + rng.below(5) as usize,
        3 if rows <= 4 => (u32::MAX as usize) + rng.below(3) as usize,
        _ => (rows * cols).saturating_sub(rng.below(cols as u64 + 1) as usize),
    };
    let mut t = pick_threshold_f32(rng, &m, rows > 80);
    // large matrices: keep the qualifying set small (long hit lists are exercised on the
    // small matrices; here they only cost time in the model) -- nothing qualifies instead
    if rows > 80 {
        let tf = f32::from_bits(t);
        let hits = m.iter().flatten().filter(|&&b| f32::from_bits(b) >= tf).count();
        if hits > 2048 {
            let mx = f32_max_bits(&m).unwrap();
            // (a maximum of +inf cannot be excluded: the set of +inf cells is kept)
            t = if mx == PINF { PINF } else { next_up(mx) };
        }
    }
    format!(
        "{} k={} R={} mi={} t={} m={}",
        id,
        match cols {
            32 => "f32",
            16 => "f16",
            48 => "f48",
            _ => "f64",
        },
        rows,
        mi,
        t,
        show_matrix(&m)
    )
}

fn gen_u8(rng: &mut Rng, id: usize, sid: usize, tier: &str, cols: usize) -> String {
    let rows = pick_rows(rng, tier, id).min(96000 / cols);
    let family = rng.below(7);
    let constant = *rng.pick(&[0u32, 1, 127, 128, 254, 255, 37]);
    let mut m: Vec<Vec<u32>> = vec![];
    for _ in 0..rows {
        let mut row = vec![];
        for _ in 0..cols {
            row.push(match family {
                0 => rng.below(256) as u32,
                1 => rng.below(4) as u32,
                2 => 250 + rng.below(6) as u32,
                3 => constant,
                4 => *rng.pick(&[0u32, 255]),
                5 => rng.below(200) as u32,
                _ => 126 + rng.below(4) as u32,
            });
        }
        m.push(row);
    }
    if rows > 0 && rng.chance(4, 5) {
        let mx = *m.iter().flatten().max().unwrap();
        let peak = match rng.below(3) {
            0 => mx,
            1 => (mx + 1).min(255),
            _ => 255,
        };
        for (r, c) in plant_positions(rng, sid, rows, cols) {
            m[r][c] = peak;
        }
    }
    let mi = match rng.below(20) {
        0 => 0,
        1 => rows * cols + 3,
        _ => (rows * cols).saturating_sub(rng.below(33) as usize),
    };
    let flat: Vec<u32> = m.iter().flatten().cloned().collect();
    let mx = flat.iter().max().cloned().unwrap_or(0);
    let t = match rng.below(10) {
        0..=3 => mx,
        4 => (mx + 1).min(255),
        5 => mx.saturating_sub(1),
        6 if rows <= 80 => 0,
        7 => 255,
        8 if !flat.is_empty() && rows <= 80 => *rng.pick(&flat),
        _ => mx.saturating_sub(rng.below(3) as u32),
    };
    let mut t = t;
    if rows > 80 && flat.iter().filter(|&&v| v >= t).count() > 2048 && mx < 255 {
        t = mx + 1;
    }
    let kind = match cols {
        32 => "u8",
        16 => "b16",
        48 => "b48",
        _ => "b64",
    };
    format!("{} k={} R={} mi={} t={} m={}", id, kind, rows, mi, t, show_matrix(&m))
}

fn gen_e2e(rng: &mut Rng, id: usize, tier: &str) -> String {
    let maxl = if tier == "thorough" { 700 } else { 200 };
    let mmax = if rng.chance(1, 8) { 40 } else { 14 };
    let mlen = 1 + rng.below(mmax) as usize;
    let l = match rng.below(12) {
        0 => rng.below(mlen as u64 + 1) as usize,          // shorter than / equal to the motif
        1 => mlen + rng.below(3) as usize,
        2 => 32 * (1 + rng.below(4) as usize) + rng.below(3) as usize - 1,
        _ => rng.below(maxl) as usize,
    };
    let wild_in_seq = rng.chance(1, 4);
    let seq: String = (0..l)
        .map(|_| {
            if wild_in_seq && rng.chance(1, 10) {
                'N'
            } else {
                *rng.pick(&['A', 'C', 'T', 'G'])
            }
        })
        .collect();
    // scoring matrix: either through the library's own conversions (counts -> frequencies
    // -> log-odds with the uniform background, which gives the wildcard -inf) or explicit
    let pssm: Vec<Vec<u32>> = if rng.chance(1, 2) {
        let pseudo = *rng.pick(&[0.0f32, 0.1, 0.25, 1.0]);
        // every row must have the same (non-null) total
        let total = 20u64;
        let rows: Vec<Vec<u32>> = (0..mlen)
            .map(|_| {
                let a = rng.below(total + 1);
                let b = rng.below(total - a + 1);
                let c = rng.below(total - a - b + 1);
                let d = total - a - b - c;
                let mut r = vec![a as u32, b as u32, c as u32, d as u32];
                let k = rng.below(4) as usize;
                r.rotate_left(k);
                r.push(0);
                r
            })
            .collect();
        let cm = CountMatrix::<Dna>::new(DenseMatrix::from_rows(rows)).unwrap();
        let sm = cm.to_freq(pseudo).to_scoring(None);
        (0..mlen)
            .map(|j| (0..5).map(|k| sm.matrix()[j][k].to_bits()).collect())
            .collect()
    } else {
        (0..mlen)
            .map(|_| {
                let mut r: Vec<u32> = (0..4)
                    .map(|_| {
                        if rng.chance(1, 9) {
                            NINF
                        } else {
                            fbits((rng.range(-12_000, 3_000) as f32) / 1000.0)
                        }
                    })
                    .collect();
                r.push(NINF);
                r
            })
            .collect()
    };
    format!(
        "{} k=e2e pssm={} seq={}",
        id,
        show_matrix(&pssm),
        if seq.is_empty() { "-".to_string() } else { seq }
    )
}

fn gen_case(rng: &mut Rng, id: usize, tier: &str) -> String {
    // `sid` numbers the cases of one kind consecutively (systematic placement of maxima)
    match id % 10 {
        0 | 1 | 2 | 3 => gen_f32(rng, id, id / 10 * 4 + id % 10, tier, 32),
        4 | 5 => gen_u8(rng, id, id / 10 * 2 + id % 10 - 4, tier, 32),
        6 => gen_u8(rng, id, id / 10, tier, [16, 48, 64][(id / 10) % 3]),
        7 => gen_f32(rng, id, id / 10, tier, [16, 64][(id / 10) % 2]),
        8 => gen_f32(rng, id, id / 10, tier, 48),
        _ => gen_e2e(rng, id, tier),
    }
}

/// Boundary corpus: one maximum in every column (first / last row) of an all-negative f32
/// matrix and of a u8 matrix, the witnesses of the two repaired AVX2 defects, special values.
fn corpus() -> Vec<String> {
    let mut out = vec![];
    let mut id = 0;
    let mut push = |s: String, out: &mut Vec<String>| {
        out.push(format!("c{} {}", id, s));
        id += 1;
    };
    for rows in [1usize, 2, 5] {
        for col in 0..32 {
            for &last in &[false, true] {
                let r = if last { rows - 1 } else { 0 };
                // f32, all negative, unique maximum -1.0 at (r, col)
                let mut m = vec![vec![fbits(-7.5); 32]; rows];
                m[r][col] = fbits(-1.0);
                push(
                    format!("k=f32 R={} mi={} t={} m={}", rows, rows * 32, fbits(-1.0), show_matrix(&m)),
                    &mut out,
                );
                // u8, unique maximum at (r, col)
                let mut m = vec![vec![3u32; 32]; rows];
                m[r][col] = 200;
                push(format!("k=u8 R={} mi={} t=200 m={}", rows, rows * 32, show_matrix(&m)), &mut out);
            }
        }
    }
    for col in 0..16 {
        let mut m = vec![vec![fbits(-7.5); 16]; 3];
        m[2][col] = fbits(-0.25);
        push(format!("k=f16 R=3 mi=48 t={} m={}", fbits(-0.25), show_matrix(&m)), &mut out);
    }
    for col in 0..48 {
        let mut m = vec![vec![fbits(-7.5); 48]; 3];
        m[2][col] = fbits(-0.25);
        push(format!("k=f48 R=3 mi=144 t={} m={}", fbits(-0.25), show_matrix(&m)), &mut out);
    }
    for col in 0..64 {
        let mut m = vec![vec![fbits(-7.5); 64]; 2];
        m[1][col] = fbits(-0.25);
        push(format!("k=f64 R=2 mi=128 t={} m={}", fbits(-0.25), show_matrix(&m)), &mut out);
    }
    for &(kind, cols) in &[("b16", 16usize), ("b48", 48), ("b64", 64)] {
        for col in (0..cols).step_by(3) {
            let mut m = vec![vec![3u32; cols]; 3];
            m[col % 3][col] = 200;
            push(format!("k={} R=3 mi={} t=200 m={}", kind, 3 * cols, show_matrix(&m)), &mut out);
        }
    }
    // f32 matrices far above 3000 rows (compact form): maxima in late rows, 2^16 + 1 rows
    // (the row index no longer fits 16 bits), 70000 rows; 16 / 48 / 64 columns through the SSE2 blocks
    for &(kind, cols, rows, r, c) in &[
        ("f32", 32usize, 65537usize, 65536usize, 19usize),
        ("f16", 16, 70000, 69999, 13),
        ("f48", 48, 8000, 7999, 40),
        ("f64", 64, 8000, 4321, 63),
        ("b16", 16, 70000, 69000, 7),
        ("b64", 64, 30000, 29999, 50),
    ] {
        if kind.starts_with('f') {
            push(
                format!("k={} R={} mi={} t={} m=@{} p={}:{}:{}", kind, rows, rows * cols, fbits(-1.0), fbits(-7.5), r, c, fbits(-1.0)),
                &mut out,
            );
        } else {
            push(format!("k={} R={} mi={} t=200 m=@3 p={}:{}:200", kind, rows, rows * cols, r, c), &mut out);
        }
    }
    // all cells equal (every cell is a maximum), all -inf, all +inf, zeros of both signs
    for &v in &[fbits(-3.0), NINF, PINF, 0u32, 0x8000_0000] {
        let m = vec![vec![v; 32]; 4];
        push(format!("k=f32 R=4 mi=128 t={} m={}", v, show_matrix(&m)), &mut out);
        let m = vec![vec![v; 16]; 4];
        push(format!("k=f16 R=4 mi=64 t={} m={}", v, show_matrix(&m)), &mut out);
    }
    let mut m = vec![vec![0x8000_0000u32; 32]; 3];
    m[1][7] = 0;
    m[2][30] = 0;
    push(format!("k=f32 R=3 mi=96 t=0 m={}", show_matrix(&m)), &mut out);
    for &v in &[0u32, 255, 128] {
        let m = vec![vec![v; 32]; 3];
        push(format!("k=u8 R=3 mi=96 t={} m={}", v, show_matrix(&m)), &mut out);
    }
    // row indices that do not fit 8 bits (the vector kernels keep the winning row of each
    // column in 16- / 32-bit lanes): unique maxima in rows >= 256, and a tie between a low
    // and a high row of the same column
    for &(rows, r, c) in &[(300usize, 256usize, 5usize), (300, 299, 31), (300, 255, 16), (520, 512, 31), (520, 519, 8)] {
        let mut m = vec![vec![3u32; 32]; rows];
        m[r][c] = 200;
        push(format!("k=u8 R={} mi={} t=200 m={}", rows, rows * 32, show_matrix(&m)), &mut out);
        let mut m = vec![vec![fbits(-7.5); 32]; rows];
        m[r][c] = fbits(-1.0);
        push(
            format!("k=f32 R={} mi={} t={} m={}", rows, rows * 32, fbits(-1.0), show_matrix(&m)),
            &mut out,
        );
    }
    {
        let mut m = vec![vec![3u32; 32]; 300];
        m[10][20] = 200;
        m[290][20] = 200;
        push(format!("k=u8 R=300 mi=9600 t=200 m={}", show_matrix(&m)), &mut out);
        let mut m = vec![vec![fbits(-7.5); 32]; 300];
        m[10][20] = fbits(-1.0);
        m[290][20] = fbits(-1.0);
        push(format!("k=f32 R=300 mi=9600 t={} m={}", fbits(-1.0), show_matrix(&m)), &mut out);
        let mut m = vec![vec![fbits(-7.5); 16]; 300];
        m[290][13] = fbits(-1.0);
        push(format!("k=f16 R=300 mi=4800 t={} m={}", fbits(-1.0), show_matrix(&m)), &mut out);
    }
    // u8 matrices with more than 32768 rows (the row index of argmax_u8_avx2 is a 16-bit lane:
    // indices >= 32768 are negative as i16), the largest supported size 65536 and the guard
    // case 65537 (explicit panic of the AVX2 arm); compact form `m=@fill p=row:col:value;...`
    for &(rows, ref cells) in &[
        (32769usize, vec![(32768usize, 0usize)]),
        (33000, vec![(32900, 9)]),
        (40000, vec![(39999, 17)]),
        (40000, vec![(32768, 31)]),
        (36000, vec![(100, 20), (35000, 20)]),
        (36000, vec![(5, 3), (34000, 28)]),
        (65536, vec![(65535, 24)]),
        (65537, vec![(65536, 2)]),
    ] {
        let p: Vec<String> = cells.iter().map(|(r, c)| format!("{}:{}:200", r, c)).collect();
        push(format!("k=u8 R={} mi={} t=200 m=@3 p={}", rows, rows * 32, p.join(";")), &mut out);
    }
    // no rows
    push("k=f32 R=0 mi=0 t=0 m=-".to_string(), &mut out);
    push("k=f16 R=0 mi=0 t=0 m=-".to_string(), &mut out);
    push("k=u8 R=0 mi=0 t=0 m=-".to_string(), &mut out);
    push("k=f32 R=0 mi=4294967296 t=0 m=-".to_string(), &mut out);
    // max_index above u32::MAX with rows
    let m = vec![vec![fbits(1.0); 32]; 1];
    push(format!("k=f32 R=1 mi=4294967296 t=0 m={}", show_matrix(&m)), &mut out);
    push(format!("k=f32 R=1 mi=4294967295 t=0 m={}", show_matrix(&m)), &mut out);
    // end-to-end padding: README-like motif, sequence lengths around the block size
    let pssm = vec![
        vec![fbits(-1.5), fbits(0.5), fbits(-2.0), fbits(1.0), NINF],
        vec![fbits(0.75), fbits(-0.5), fbits(-3.0), fbits(-1.0), NINF],
        vec![fbits(-4.0), fbits(-0.25), fbits(1.25), NINF, NINF],
    ];
    for l in [0usize, 1, 2, 3, 4, 31, 32, 33, 34, 35, 63, 64, 65, 66, 67, 100] {
        let seq: String = (0..l).map(|i| ['A', 'C', 'T', 'G'][(i * 7 + i / 3) % 4]).collect();
        push(
            format!("k=e2e pssm={} seq={}", show_matrix(&pssm), if seq.is_empty() { "-".into() } else { seq }),
            &mut out,
        );
    }
    out
}

fn main() {
    let args = parse_args();
    match args.cmd.as_str() {
        "gen" => {
            let mut rng = Rng::new(args.seed);
            for id in 0..args.n {
                println!("{}", gen_case(&mut rng, id, &args.tier));
            }
        }
        "corpus" => {
            for l in corpus() {
                println!("{}", l);
            }
        }
        "run" => {
            silence_panics();
            for line in stdin_lines() {
                let (_id, f) = fields(&line);
                let obs = match f["k"].as_str() {
                    "e2e" => run_e2e(&parse_matrix(&f["pssm"]), if f["seq"] == "-" { "" } else { &f["seq"] }),
                    k => {
                        let cols = match k {
                            "f16" | "b16" => 16,
                            "f48" | "b48" => 48,
                            "f64" | "b64" => 64,
                            _ => 32,
                        };
                        let m = parse_matrix_fields(&f, cols);
                        let mi: usize = f["mi"].parse().unwrap();
                        let t: u32 = f["t"].parse().unwrap();
                        match k {
                            "f32" => run_f32_32(&m, mi, t),
                            "f16" => run_f32_cols::<U16>(&m, mi, t),
                            "f48" => run_f32_cols::<U48>(&m, mi, t),
                            "f64" => run_f32_cols::<U64>(&m, mi, t),
                            "b16" => run_u8_cols::<U16>(&m, mi, t),
                            "b48" => run_u8_cols::<U48>(&m, mi, t),
                            "b64" => run_u8_cols::<U64>(&m, mi, t),
                            "u8" => run_u8_32(&m, mi, t),
                            _ => panic!("unknown kind {}", k),
                        }
                    }
                };
                println!("{} => {}", line, obs);
            }
        }
        _ => {
            eprintln!("usage: maxi gen --seed S --n N [--tier t] | maxi corpus | maxi run < inputs");
            std::process::exit(2);
        }
    }
}
