//! Shared helpers for the verification harness binaries.
//!
//! Every random choice of a run derives from one `Rng` seeded with `VERIF_SEED`
//! (or `--seed`), so that disagreements replay exactly.

use std::io::BufRead;

/// splitmix64 / xorshift-style PRNG (no external state, reproducible).
#[derive(Clone, Debug)]
pub struct Rng(pub u64);

impl Rng {
    pub fn new(seed: u64) -> Self {
        Rng(seed.wrapping_mul(0x9E3779B97F4A7C15) ^ 0xD1B54A32D192ED03)
    }
    pub fn next(&mut self) -> u64 {
        self.0 = self.0.wrapping_add(0x9E3779B97F4A7C15);
        let mut z = self.0;
        z = (z ^ (z >> 30)).wrapping_mul(0xBF58476D1CE4E5B9);
        z = (z ^ (z >> 27)).wrapping_mul(0x94D049BB133111EB);
        z ^ (z >> 31)
    }
    /// uniform in 0..n (n > 0)
    pub fn below(&mut self, n: u64) -> u64 {
        self.next() % n
    }
    pub fn range(&mut self, lo: i64, hi: i64) -> i64 {
        lo + (self.below((hi - lo + 1) as u64) as i64)
    }
    pub fn chance(&mut self, num: u64, den: u64) -> bool {
        self.below(den) < num
    }
    pub fn pick<'a, T>(&mut self, xs: &'a [T]) -> &'a T {
        &xs[self.below(xs.len() as u64) as usize]
    }
}

/// Command line of every harness binary: `gen --seed S --n N [--tier t]` or `run`.
pub struct Args {
    pub cmd: String,
    pub seed: u64,
    pub n: usize,
    pub tier: String,
    pub rest: Vec<String>,
}

pub fn parse_args() -> Args {
    let mut it = std::env::args().skip(1);
    let cmd = it.next().unwrap_or_else(|| "help".to_string());
    let mut a = Args {
        cmd,
        seed: std::env::var("VERIF_SEED")
            .ok()
            .and_then(|s| s.parse().ok())
            .unwrap_or(1),
        n: 100,
        tier: "quick".to_string(),
        rest: vec![],
    };
    while let Some(x) = it.next() {
        match x.as_str() {
            "--seed" => a.seed = it.next().unwrap().parse().unwrap(),
            "--n" => a.n = it.next().unwrap().parse().unwrap(),
            "--tier" => a.tier = it.next().unwrap(),
            _ => a.rest.push(x),
        }
    }
    a
}

/// Iterate over the non-empty, non-comment lines of stdin.
pub fn stdin_lines() -> impl Iterator<Item = String> {
    std::io::stdin()
        .lock()
        .lines()
        .map(|l| l.unwrap())
        .filter(|l| !l.trim().is_empty() && !l.starts_with('#'))
        .collect::<Vec<_>>()
        .into_iter()
}

/// Split `key=value` tokens of an input line (first token is the case id).
pub fn fields(line: &str) -> (String, std::collections::HashMap<String, String>) {
    let mut it = line.split(' ');
    let id = it.next().unwrap().to_string();
    let mut m = std::collections::HashMap::new();
    for t in it {
        if let Some((k, v)) = t.split_once('=') {
            m.insert(k.to_string(), v.to_string());
        }
    }
    (id, m)
}

/// Run `f`, turning a panic into `None` (panic messages are silenced).
pub fn no_panic<R>(f: impl FnOnce() -> R) -> Option<R> {
    std::panic::catch_unwind(std::panic::AssertUnwindSafe(f)).ok()
}

pub fn silence_panics() {
    std::panic::set_hook(Box::new(|_| {}));
}
