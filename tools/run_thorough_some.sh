#!/bin/bash
# tools/run_thorough_some.sh Cnn ... : setup, then the thorough command of the named properties in sequence
cd "$(dirname "$0")/.."
./check setup > thorough-setup.log 2>&1; echo "setup rc=$?"
for id in "$@"; do
  s=$(date +%s)
  ./check $id --tier thorough > thorough-$id.log 2>&1; rc=$?
  e=$(date +%s)
  echo "$id rc=$rc $((e-s))s $(grep -E '^(OK|VIOLATION)' thorough-$id.log | head -2 | tr '\n' ' ' | cut -c1-200)"
done
