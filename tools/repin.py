#!/usr/bin/env python3
"""tools/repin.py : record the fingerprints of /repo's Rust sources (comments and white space removed) in
pins/source.json.  Run by the coordinator after every commit to /repo (hooks, fix: commits), with all quick checks
green on that tree.  The checks only READ the file: a difference makes the quick tier search harder, nothing else."""
import json
import os
import subprocess
import sys

sys.path.insert(0, os.path.dirname(os.path.dirname(os.path.abspath(__file__))))
from vlib import common as C

head = subprocess.run(["git", "-C", "/repo", "rev-parse", "HEAD"], stdout=subprocess.PIPE).stdout.decode().strip()
fp = C.source_fingerprints("/repo")
os.makedirs(os.path.dirname(C.PINS), exist_ok=True)
json.dump({"repo_head": head, "files": fp}, open(C.PINS, "w"), indent=1, sort_keys=True)
print("pinned %d files at %s" % (len(fp), head))
