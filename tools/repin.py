#!/usr/bin/env python3
"""tools/repin.py : record the fingerprints of /repo's Rust sources (comments and white space removed) in
pins/source.json.  Run by the coordinator after every commit to /repo (hooks, fix: commits), with all quick checks
green on that tree.  The checks only READ the file: a difference makes the quick tier search harder, nothing else."""
import json
import os
import subprocess
import sys

sys.path.insert(0, os.path.dirname(os.path.dirname(os.path.abspath(__file__))))
from vlib import common as C

head = subprocess.run(["git", "-C", "/repo", "rev-parse", "HEAD"], stdout=subprocess.PIPE).stdout.decode().strip()
fp = C.source_fingerprints("/repo")
os.makedirs(os.path.dirname(C.PINS), exist_ok=True)
json.dump({"repo_head": head, "files": fp}, open(C.PINS, "w"), indent=1, sort_keys=True)
print("pinned %d files at %s" % (len(fp), head))

# ---- theorem statement pins (pins/theorems.json): every property file of every SPEC; only with --theorems ----
if "--theorems" not in sys.argv:
    sys.exit(0)
import glob
import importlib
tp = {}
for f in sorted(glob.glob(os.path.join(C.VERIF, "props", "c[0-9]*.py"))):
    mod = importlib.import_module("props." + os.path.basename(f)[:-3])
    specs = []
    if hasattr(mod, "SPEC"):
        specs.append(mod.SPEC)
    if hasattr(mod, "SPECS"):
        specs.extend(mod.SPECS)
    for name in dir(mod):
        v = getattr(mod, name)
        if name.endswith("_SPEC") and isinstance(v, dict) and v not in specs:
            specs.append(v)
    for sp in specs:
        key = sp.get("pin_key", sp["id"] + ":" + sp.get("name", sp["group"]))
        files = [os.path.join(C.coq_dir(sp["group"]), sp["props_file"])]
        files += [os.path.join(C.coq_dir(sp["group"]), pf) for pf, _ in sp.get("more_props", [])]
        d = tp.setdefault(key, {})
        for pf in files:
            d.update(C.theorem_statements(pf))
json.dump(tp, open(C.THEOREM_PINS, "w"), indent=1, sort_keys=True)
print("pinned %d theorem statements of %d property specs" % (sum(len(v) for v in tp.values()), len(tp)))
