#!/bin/bash
# tools/run_thorough_all.sh : setup, then every thorough command in sequence; one line per property (used with `vp run`)
cd "$(dirname "$0")/.."
./check setup > thorough-setup.log 2>&1; echo "setup rc=$?"
for i in 19 05 10 04 09 07 15 18 17 11 12 13 06 08 01 14 16 03 02; do
  id=C$i; s=$(date +%s)
  ./check $id --tier thorough > thorough-$id.log 2>&1; rc=$?
  e=$(date +%s)
  echo "$id rc=$rc $((e-s))s $(grep -E '^(OK|VIOLATION)' thorough-$id.log | head -2 | tr '\n' ' ' | cut -c1-200)"
done
