#!/usr/bin/env python3
"""tools/mkseedprompt.py Cnn <first k> <n> "<focus>" : create the scratch worktree /tmp/seed/Cnn and print
the brief for a seeding agent (only the property text, nothing of /verif's machinery)."""
import json
import os
import subprocess
import sys

V = os.path.dirname(os.path.dirname(os.path.abspath(__file__)))
pid, k0, n, focus = sys.argv[1], int(sys.argv[2]), int(sys.argv[3]), sys.argv[4]
prop = None
for l in open(os.path.join(V, "properties.jsonl")):
    p = json.loads(l)
    if p["id"] == pid:
        prop = p
wt = "/tmp/seed/" + pid
if not os.path.isdir(wt):
    os.makedirs("/tmp/seed", exist_ok=True)
    subprocess.check_call(["git", "-C", "/repo", "worktree", "add", "-q", wt, "HEAD"])
    subprocess.call(["cp", "/repo/Cargo.lock", wt + "/"])
t = open(os.path.join(V, "tools", "seed_prompt.md")).read()
t = t.replace("{WT}", wt).replace("{ID}", pid).replace("{TITLE}", prop.get("title", ""))
t = t.replace("{STATEMENT}", prop.get("statement", "") + "\n\nQuantifier: " + str(prop.get("quantifier", "")))
t = t.replace("{ANCHORS}", json.dumps(prop.get("anchors", {}), indent=1))
t = t.replace("{N}", str(n)).replace("{FOCUS}", focus)
t = t.replace("{K0}", str(k0)).replace("{K1}", str(k0 + 1))
print(t)
